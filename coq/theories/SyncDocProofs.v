(* SyncDocProofs.v — lemmas about the document part of the sync model: DocSync.ByKey, DocSync.update,
   the backup / roll-back around them. *)
From SV Require Import Base Json Canon Sync SyncObs CorrC13 CorrC14 SyncProofs.

Section ByKeyLoop.
  Variable cf : cfg.
  Variable ks : option (str -> option bool).
  Variable root : str.
  Variable dry : bool.
  Variable rec : json -> json -> str -> bool -> list str -> json * list str * option exn.

  (* the loop `for key, value in src.items()` of ByKey.__call__ with the recursive call abstracted *)
  Fixpoint bk_loop (items : kvs) (d : kvs) (sk : list str) : kvs * list str * option exn :=
    match items with
    | [] => (d, sk, None)
    | (k, v) :: rest =>
        match alookup k d with
        | Some dvk =>
            if py_eq dvk v then bk_loop rest d sk
            else
              match v with
              | JObj _ =>
                  let '(dvk', sk', e) := rec v dvk (child_root cf root k) (nested_dry cf dry) sk in
                  let d' := aset k dvk' d in
                  match e with
                  | Some _ => (d', sk', e)
                  | None => bk_loop rest d' sk'
                  end
              | _ =>
                  if ks_raises ks (root ++ k) then (d, sk, Some EOther)
                  else if selected ks (root ++ k) then bk_loop rest (pset dry k v d) sk
                  else bk_loop rest d ((root ++ k) :: sk)
              end
        | None => bk_loop rest (pset dry k v d) sk
        end
    end.
End ByKeyLoop.

Lemma bykey_obj : forall cf ks skvs dv root dry sk,
  bykey cf ks (JObj skvs) dv root dry sk =
  if py_eq (JObj skvs) dv then (dv, sk, None)
  else match dv with
       | JObj dkvs =>
           let '(d', sk', e) := bk_loop cf ks root dry (bykey cf ks) skvs dkvs sk in (JObj d', sk', e)
       | _ => match skvs with [] => (dv, sk, None) | _ :: _ => (dv, sk, Some ETypeError) end
       end.
Proof. intros. destruct dv; reflexivity. Qed.

Lemma bykey_nonobj : forall cf ks sv dv root dry sk, is_obj sv = false ->
  bykey cf ks sv dv root dry sk = (dv, sk, None).
Proof. intros. destruct sv; try reflexivity. discriminate. Qed.

Lemma bykey_nonobj_dst_src : forall cf ks sv dv root dry sk, is_obj sv = false ->
  fst (fst (bykey cf ks sv dv root dry sk)) = dv.
Proof. intros. rewrite bykey_nonobj by assumption. reflexivity. Qed.

(* the destination value returned for a non-mapping destination is the value itself *)
Lemma bykey_nonobj_dst : forall cf ks sv dv root dry sk, is_obj dv = false ->
  fst (fst (bykey cf ks sv dv root dry sk)) = dv.
Proof.
  intros. destruct sv as [| | | | | |skvs]; try reflexivity.
  rewrite bykey_obj. destruct (py_eq (JObj skvs) dv); [reflexivity|].
  destruct dv; try discriminate; destruct skvs; reflexivity.
Qed.

Lemma pset_frame : forall dry k v d k', k' <> k -> alookup k' (pset dry k v d) = alookup k' d.
Proof. intros. unfold pset. destruct dry; [reflexivity|]. apply alookup_aset_other. congruence. Qed.

Section OnlySelected.
  Variable cf : cfg.
  Variable ks : option (str -> option bool).

  (* what only_selected asks of one source item, as a function of the destination entry before / after *)
  Definition okitem (prefix : str) (k : str) (x : json) (oy oy' : option json) : bool :=
    match oy with
    | None => true
    | Some y =>
        if py_eq y x then true
        else if is_obj x && is_obj y
             then only_selected ks (prefix ++ k ++ [DOT]) x y (match oy' with Some y' => y' | None => JNull end)
             else match oy' with Some y' => json_eqb y y' | None => false end || selected ks (prefix ++ k)
    end.

  Lemma only_selected_obj : forall prefix s d dv',
    only_selected ks prefix (JObj s) (JObj d) dv' =
    forallb (fun kx => okitem prefix (fst kx) (snd kx) (alookup (fst kx) d) (jget (fst kx) dv')) s.
  Proof.
    intros. simpl. induction s as [|[k x] s IH]; [reflexivity|].
    simpl. rewrite <- IH. unfold okitem. simpl.
    destruct (alookup k d) as [y|]; [|reflexivity].
    destruct (py_eq y x); [reflexivity|].
    destruct (is_obj x && is_obj y); reflexivity.
  Qed.

  Lemma json_eqb_refl : forall v, json_eqb v v = true.
  Proof. intro. apply json_eqb_eq. reflexivity. Qed.

  (* an unchanged destination satisfies the clause *)
  Lemma only_selected_unchanged : forall sv prefix dv, only_selected ks prefix sv dv dv = true.
  Proof.
    induction sv using json_ind'; intros prefix dv; try reflexivity.
    destruct dv as [| | | | | |d]; try reflexivity.
    rewrite only_selected_obj. apply forallb_forall. intros [k x] Hin. simpl.
    unfold okitem. destruct (alookup k d) as [y|] eqn:E; [|reflexivity].
    destruct (py_eq y x); [reflexivity|].
    destruct (is_obj x && is_obj y).
    - rewrite Forall_forall in H. apply (H (k, x) Hin).
    - rewrite json_eqb_refl. reflexivity.
  Qed.

  Lemma okitem_unchanged : forall prefix k x oy, okitem prefix k x oy oy = true.
  Proof.
    intros. unfold okitem. destruct oy as [y|]; [|reflexivity].
    destruct (py_eq y x); [reflexivity|].
    destruct (is_obj x && is_obj y); [apply only_selected_unchanged|].
    rewrite json_eqb_refl. reflexivity.
  Qed.

  Variable root : str.
  Variable dry : bool.
  Variable rec : json -> json -> str -> bool -> list str -> json * list str * option exn.

  (* the loop keeps the clause for every item, given that the recursive calls do *)
  Lemma bk_loop_ok : forall items,
    NoDup (map fst items) ->
    (forall k x, In (k, x) items -> is_obj x = true -> child_root cf root k = root ++ k ++ [DOT]) ->
    (forall k x, In (k, x) items -> is_obj x = true -> forall y dr sk,
        only_selected ks (root ++ k ++ [DOT]) x y (fst (fst (rec x y (root ++ k ++ [DOT]) dr sk))) = true
        /\ (is_obj y = false -> fst (fst (rec x y (root ++ k ++ [DOT]) dr sk)) = y)) ->
    forall d0 d sk,
    (forall k, In k (map fst items) -> alookup k d = alookup k d0) ->
    let d' := fst (fst (bk_loop cf ks root dry rec items d sk)) in
    (forall k x, In (k, x) items -> okitem root k x (alookup k d0) (alookup k d') = true)
    /\ (forall k, ~ In k (map fst items) -> alookup k d' = alookup k d).
  Proof.
    induction items as [|[k x] rest IH]; intros Hnd Hcr Hrec d0 d sk Hd; simpl.
    - split; [intros ? ? []|reflexivity].
    - inversion Hnd as [|? ? Hk Hnd']; subst.
      assert (Hcr' : forall k0 x0, In (k0, x0) rest -> is_obj x0 = true -> child_root cf root k0 = root ++ k0 ++ [DOT])
        by (intros k0 x0 Hin0; apply (Hcr k0 x0); right; assumption).
      assert (Hrec' : forall k0 x0, In (k0, x0) rest -> is_obj x0 = true -> forall y dr sk0,
                 only_selected ks (root ++ k0 ++ [DOT]) x0 y (fst (fst (rec x0 y (root ++ k0 ++ [DOT]) dr sk0))) = true
                 /\ (is_obj y = false -> fst (fst (rec x0 y (root ++ k0 ++ [DOT]) dr sk0)) = y))
        by (intros k0 x0 Hin0; apply (Hrec k0 x0); right; assumption).
      (* after the head item the state is d1; it differs from d at most at k *)
      assert (Gen : forall d1 sk1,
                 (forall k', k' <> k -> alookup k' d1 = alookup k' d) ->
                 okitem root k x (alookup k d0) (alookup k d1) = true ->
                 let d' := fst (fst (bk_loop cf ks root dry rec rest d1 sk1)) in
                 (forall k0 x0, (k, x) = (k0, x0) \/ In (k0, x0) rest -> okitem root k0 x0 (alookup k0 d0) (alookup k0 d') = true)
                 /\ (forall k0, ~ (k = k0 \/ In k0 (map fst rest)) -> alookup k0 d' = alookup k0 d)).
      { intros d1 sk1 Hfr Hok.
        assert (Hd1 : forall k0, In k0 (map fst rest) -> alookup k0 d1 = alookup k0 d0).
        { intros k0 Hin. rewrite Hfr; [apply Hd; right; assumption|]. intro; subst. contradiction. }
        destruct (IH Hnd' Hcr' Hrec' d0 d1 sk1 Hd1) as [I1 I2]. split.
        - intros k0 x0 [Heq|Hin]; [|apply I1; assumption].
          inversion Heq; subst. rewrite I2 by assumption. assumption.
        - intros k0 Hn. rewrite I2 by tauto. apply Hfr. intro; subst. tauto. }
      assert (Hkd : alookup k d = alookup k d0) by (apply Hd; left; reflexivity).
      destruct (alookup k d) as [y|] eqn:Ey.
      + assert (Stop : (forall k0 x0, (k, x) = (k0, x0) \/ In (k0, x0) rest ->
                                        okitem root k0 x0 (alookup k0 d0) (alookup k0 d) = true)
                         /\ (forall k0, ~ (k = k0 \/ In k0 (map fst rest)) -> alookup k0 d = alookup k0 d)).
        { split; [|reflexivity]. intros k0 x0 H0. rewrite Hd; [apply okitem_unchanged|].
          destruct H0 as [Heq|Hin]; [inversion Heq; left; reflexivity|right; apply (in_map fst) in Hin; exact Hin]. }
        destruct (py_eq y x) eqn:Epy.
        * apply Gen; [reflexivity|]. rewrite <- Hkd, Ey. apply okitem_unchanged.
        * destruct x as [| | | | | |xs];
            try (destruct (ks_raises ks (root ++ k)); [exact Stop|];
                 destruct (selected ks (root ++ k)) eqn:Es;
                 [ apply Gen; [intros; apply pset_frame; assumption|];
                   rewrite <- Hkd; unfold okitem; rewrite Epy; simpl; rewrite Es; apply orb_true_r
                 | apply Gen; [reflexivity|]; rewrite <- Hkd, Ey; apply okitem_unchanged ]).
          (* a nested mapping: recursion *)
          rewrite (Hcr k (JObj xs) (or_introl eq_refl) eq_refl).
          destruct (Hrec k (JObj xs) (or_introl eq_refl) eq_refl y (nested_dry cf dry) sk) as [R1 R2].
          destruct (rec (JObj xs) y (root ++ k ++ [DOT]) (nested_dry cf dry) sk) as [[y' sk'] e] eqn:Er.
          simpl in R1, R2.
          assert (Hok : okitem root k (JObj xs) (alookup k d0) (alookup k (aset k y' d)) = true).
          { rewrite <- Hkd, alookup_aset_same. unfold okitem. rewrite Epy. simpl.
            destruct (is_obj y) eqn:Eo.
            - exact R1.
            - rewrite (R2 eq_refl), json_eqb_refl. reflexivity. }
          assert (Hfr : forall k', k' <> k -> alookup k' (aset k y' d) = alookup k' d)
            by (intros; apply alookup_aset_other; congruence).
          destruct e as [ex|].
          -- (* the recursive call raised: the loop stops here *)
             simpl. split.
             ++ intros k0 x0 [Heq|Hin]; [inversion Heq; subst; exact Hok|].
                assert (Hne : k0 <> k) by (intro; subst; apply Hk; apply (in_map fst) in Hin; exact Hin).
                rewrite Hfr by assumption. rewrite Hd by (right; apply (in_map fst) in Hin; exact Hin).
                apply okitem_unchanged.
             ++ intros k0 Hn. apply Hfr. intro; subst. tauto.
          -- apply Gen; assumption.
      + apply Gen; [intros; apply pset_frame; assumption|].
        rewrite <- Hkd. reflexivity.
  Qed.

End OnlySelected.

(* C14: ByKey overwrites a differing key only if the key strategy selects its full dotted name — for the
   repaired recursion (fix_root); /repo passes a truncated name below depth 2, see the refuted theorem *)
Theorem bykey_only_selected : forall cf ks, fix_root cf = true ->
  forall sv, wf sv = true -> forall dv root dry sk,
    only_selected ks root sv dv (fst (fst (bykey cf ks sv dv root dry sk))) = true.
Proof.
  intros cf ks Hroot. induction sv using json_ind'; intros Hwf dv root dry sk; try reflexivity.
  rename H into IH.
  destruct (wf_obj_inv _ Hwf) as [Hnd Hwfs].
  rewrite bykey_obj. destruct (py_eq (JObj kvs) dv) eqn:Epy; [apply only_selected_unchanged|].
  destruct dv as [| | | | | |dkvs]; try (destruct kvs; reflexivity).
  pose proof (bk_loop_ok cf ks root dry (bykey cf ks) kvs Hnd) as L.
  destruct (bk_loop cf ks root dry (bykey cf ks) kvs dkvs sk) as [[d' sk'] e] eqn:El.
  cbn [fst]. rewrite only_selected_obj. apply forallb_forall. intros [k x] Hin. cbn [fst snd].
  assert (Hcr : forall k0 x0, In (k0, x0) kvs -> is_obj x0 = true -> child_root cf root k0 = root ++ k0 ++ [DOT])
    by (intros; unfold child_root; rewrite Hroot; reflexivity).
  assert (Hrec : forall k0 x0, In (k0, x0) kvs -> is_obj x0 = true -> forall y dr sk0,
             only_selected ks (root ++ k0 ++ [DOT]) x0 y (fst (fst (bykey cf ks x0 y (root ++ k0 ++ [DOT]) dr sk0))) = true
             /\ (is_obj y = false -> fst (fst (bykey cf ks x0 y (root ++ k0 ++ [DOT]) dr sk0)) = y)).
  { intros k0 x0 Hin0 _ y dr sk0. split; [|apply bykey_nonobj_dst].
    rewrite Forall_forall in IH, Hwfs. apply (IH (k0, x0) Hin0). apply (Hwfs (k0, x0) Hin0). }
  destruct (L Hcr Hrec dkvs dkvs sk (fun _ _ => eq_refl)) as [L1 _].
  rewrite El in L1. cbn [fst] in L1. apply L1. assumption.
Qed.

(* the same for /repo as it is (any switches), for documents nested at most two levels deep: the name
   passed below the top level is key + "." = "" + key + ".", which is the full dotted prefix there *)
Definition flat_obj (v : json) : bool :=
  match v with JObj s => forallb (fun kx => negb (is_obj (snd kx))) s | _ => true end.
Definition nest_le2 (v : json) : bool :=
  match v with JObj s => forallb (fun kx => flat_obj (snd kx)) s | _ => true end.

Lemma bykey_only_selected_flat : forall cf ks sv, wf sv = true -> flat_obj sv = true ->
  forall dv root dry sk, only_selected ks root sv dv (fst (fst (bykey cf ks sv dv root dry sk))) = true.
Proof.
  intros cf ks sv Hwf Hflat dv root dry sk. destruct sv as [| | | | | |kvs]; try reflexivity.
  destruct (wf_obj_inv _ Hwf) as [Hnd Hwfs]. simpl in Hflat. rewrite forallb_forall in Hflat.
  rewrite bykey_obj. destruct (py_eq (JObj kvs) dv) eqn:Epy; [apply only_selected_unchanged|].
  destruct dv as [| | | | | |dkvs]; try (destruct kvs; reflexivity).
  pose proof (bk_loop_ok cf ks root dry (bykey cf ks) kvs Hnd) as L.
  destruct (bk_loop cf ks root dry (bykey cf ks) kvs dkvs sk) as [[d' sk'] e] eqn:El.
  cbn [fst]. rewrite only_selected_obj. apply forallb_forall. intros [k x] Hin. cbn [fst snd].
  assert (Hno : forall k0 x0, In (k0, x0) kvs -> is_obj x0 = true -> False).
  { intros k0 x0 Hin0 Ho. specialize (Hflat (k0, x0) Hin0). simpl in Hflat. rewrite Ho in Hflat. discriminate. }
  destruct (L (fun k0 x0 Hin0 Ho => False_ind _ (Hno k0 x0 Hin0 Ho))
              (fun k0 x0 Hin0 Ho => False_ind _ (Hno k0 x0 Hin0 Ho)) dkvs dkvs sk (fun _ _ => eq_refl)) as [L1 _].
  rewrite El in L1. cbn [fst] in L1. apply L1. assumption.
Qed.

Theorem bykey_only_selected_le2 : forall cf ks sv, wf sv = true -> nest_le2 sv = true ->
  forall dv dry sk, only_selected ks [] sv dv (fst (fst (bykey cf ks sv dv [] dry sk))) = true.
Proof.
  intros cf ks sv Hwf Hn dv dry sk. destruct sv as [| | | | | |kvs]; try reflexivity.
  destruct (wf_obj_inv _ Hwf) as [Hnd Hwfs]. simpl in Hn. rewrite forallb_forall in Hn.
  rewrite bykey_obj. destruct (py_eq (JObj kvs) dv) eqn:Epy; [apply only_selected_unchanged|].
  destruct dv as [| | | | | |dkvs]; try (destruct kvs; reflexivity).
  pose proof (bk_loop_ok cf ks [] dry (bykey cf ks) kvs Hnd) as L.
  destruct (bk_loop cf ks [] dry (bykey cf ks) kvs dkvs sk) as [[d' sk'] e] eqn:El.
  cbn [fst]. rewrite only_selected_obj. apply forallb_forall. intros [k x] Hin. cbn [fst snd].
  assert (Hcr : forall k0 x0, In (k0, x0) kvs -> is_obj x0 = true -> child_root cf [] k0 = [] ++ k0 ++ [DOT])
    by (intros; unfold child_root; destruct (fix_root cf); reflexivity).
  assert (Hrec : forall k0 x0, In (k0, x0) kvs -> is_obj x0 = true -> forall y dr sk0,
             only_selected ks ([] ++ k0 ++ [DOT]) x0 y (fst (fst (bykey cf ks x0 y ([] ++ k0 ++ [DOT]) dr sk0))) = true
             /\ (is_obj y = false -> fst (fst (bykey cf ks x0 y ([] ++ k0 ++ [DOT]) dr sk0)) = y)).
  { intros k0 x0 Hin0 _ y dr sk0. split; [|apply bykey_nonobj_dst].
    rewrite Forall_forall in Hwfs. apply bykey_only_selected_flat; [apply (Hwfs (k0, x0) Hin0)|apply (Hn (k0, x0) Hin0)]. }
  destruct (L Hcr Hrec dkvs dkvs sk (fun _ _ => eq_refl)) as [L1 _].
  rewrite El in L1. cbn [fst] in L1. apply L1. assumption.
Qed.

(* ------------------------------------------------------------------ dry run and ByKey *)
(* with the nested destination wrapped in a proxy (fix_F16), or when the source document has no nested
   mapping, a dry run leaves the document as it is *)
Lemma bk_loop_dry_id : forall cf ks root rec items,
  fix_F16 cf = true \/ forallb (fun kx => negb (is_obj (snd kx))) items = true ->
  (forall k x, In (k, x) items -> forall y r sk, fst (fst (rec x y r true sk)) = y) ->
  forall d sk, fst (fst (bk_loop cf ks root true rec items d sk)) = d.
Proof.
  intros cf ks root rec. induction items as [|[k x] rest IH]; intros H16 Hrec d sk; simpl; [reflexivity|].
  assert (Hrec' : forall k0 x0, In (k0, x0) rest -> forall y r sk0, fst (fst (rec x0 y r true sk0)) = y)
    by (intros k0 x0 Hin0; apply (Hrec k0 x0); right; assumption).
  assert (H16' : fix_F16 cf = true \/ forallb (fun kx => negb (is_obj (snd kx))) rest = true).
  { destruct H16 as [H|H]; [left; assumption|right]. simpl in H. apply andb_true_iff in H. tauto. }
  destruct (alookup k d) as [y|] eqn:Ey; [|apply IH; assumption].
  destruct (py_eq y x); [apply IH; assumption|].
  destruct x as [| | | | | |xs];
    try (destruct (ks_raises ks (root ++ k)); [reflexivity|]; destruct (selected ks (root ++ k)); apply IH; assumption).
  destruct H16 as [H16|H16]; [|simpl in H16; discriminate].
  unfold nested_dry. rewrite H16.
  pose proof (Hrec k (JObj xs) (or_introl eq_refl) y (child_root cf root k) sk) as R.
  destruct (rec (JObj xs) y (child_root cf root k) true sk) as [[y' sk'] e]. cbn [fst] in R. subst y'.
  rewrite (aset_same _ k y d Ey).
  destruct e; [reflexivity|apply IH; assumption].
Qed.

Theorem bykey_dry_id : forall cf ks, fix_F16 cf = true ->
  forall sv dv root sk, fst (fst (bykey cf ks sv dv root true sk)) = dv.
Proof.
  intros cf ks H16. induction sv using json_ind'; intros dv root sk; try reflexivity.
  rewrite bykey_obj. destruct (py_eq (JObj kvs) dv); [reflexivity|].
  destruct dv as [| | | | | |dkvs]; try (destruct kvs; reflexivity).
  pose proof (bk_loop_dry_id cf ks root (bykey cf ks) kvs (or_introl H16)) as L.
  destruct (bk_loop cf ks root true (bykey cf ks) kvs dkvs sk) as [[d' sk'] e] eqn:El.
  cbn [fst]. f_equal.
  assert (Hrec : forall k x, In (k, x) kvs -> forall y r sk0, fst (fst (bykey cf ks x y r true sk0)) = y).
  { intros k x Hin y r sk0. rewrite Forall_forall in H. apply (H (k, x) Hin). }
  specialize (L Hrec dkvs sk). rewrite El in L. exact L.
Qed.

Theorem bykey_dry_id_flat : forall cf ks sv, flat_obj sv = true ->
  forall dv root sk, fst (fst (bykey cf ks sv dv root true sk)) = dv.
Proof.
  intros cf ks sv Hflat dv root sk. destruct sv as [| | | | | |kvs]; try reflexivity.
  rewrite bykey_obj. destruct (py_eq (JObj kvs) dv); [reflexivity|].
  destruct dv as [| | | | | |dkvs]; try (destruct kvs; reflexivity).
  pose proof (bk_loop_dry_id cf ks root (bykey cf ks) kvs (or_intror Hflat)) as L.
  destruct (bk_loop cf ks root true (bykey cf ks) kvs dkvs sk) as [[d' sk'] e] eqn:El.
  cbn [fst]. f_equal.
  assert (Hrec : forall k x, In (k, x) kvs -> forall y r sk0, fst (fst (bykey cf ks x y r true sk0)) = y).
  { intros k x Hin y r sk0. simpl in Hflat. rewrite forallb_forall in Hflat. specialize (Hflat (k, x) Hin).
    simpl in Hflat. apply bykey_nonobj_dst_src. destruct (is_obj x); [discriminate|reflexivity]. }
  specialize (L Hrec dkvs sk). rewrite El in L. exact L.
Qed.

(* without the repair: documents whose conflicting keys are not both mappings ("flat" conflicts) *)
Lemma pset_keys : forall dry k v d k', alookup k' (pset dry k v d) <> None -> k' = k \/ alookup k' d <> None.
Proof.
  intros dry k v d k' H. unfold pset in H. destruct dry; [auto|].
  rewrite alookup_aset in H. destruct (str_eqb k' k) eqn:E; [left; apply str_eqb_eq; assumption|auto].
Qed.

(* ------------------------------------------------------------------ an empty destination never conflicts *)
Lemma bk_loop_fresh : forall cf ks root dry rec items,
  NoDup (map fst items) -> forall d sk,
  (forall k, In k (map fst items) -> alookup k d = None) ->
  snd (bk_loop cf ks root dry rec items d sk) = None /\ snd (fst (bk_loop cf ks root dry rec items d sk)) = sk.
Proof.
  induction items as [|[k x] rest IH]; intros Hnd d sk Hd; simpl; [auto|].
  inversion Hnd as [|? ? Hk Hnd']; subst.
  rewrite (Hd k (or_introl eq_refl)).
  apply IH; [assumption|]. intros k0 Hin.
  destruct (alookup k0 (pset dry k x d)) eqn:E; [|reflexivity].
  exfalso. destruct (pset_keys dry k x d k0) as [->|H]; [congruence|contradiction|].
  apply H. apply Hd. right. assumption.
Qed.

Lemma bykey_top_empty_ok : forall cf ks sdoc dry, NoDup (map fst sdoc) ->
  snd (bykey_top cf ks sdoc [] dry) = None.
Proof.
  intros cf ks sdoc dry Hnd. unfold bykey_top. rewrite bykey_obj.
  destruct (py_eq (JObj sdoc) (JObj [])); [reflexivity|].
  destruct (bk_loop_fresh cf ks [] dry (bykey cf ks) sdoc Hnd [] [] (fun _ _ => eq_refl)) as [H1 H2].
  destruct (bk_loop cf ks [] dry (bykey cf ks) sdoc [] []) as [[d' sk'] e]. simpl in *. subst. reflexivity.
Qed.

Lemma apply_docsync_empty_ok : forall cf ds sdoc dry, NoDup (map fst sdoc) ->
  snd (apply_docsync cf ds sdoc [] dry) = None.
Proof. intros. destruct ds; try reflexivity. apply bykey_top_empty_ok. assumption. Qed.

(* ------------------------------------------------------------------ the backup protocol *)
Lemma backup_ne : forall fn, backup_name fn <> fn.
Proof.
  intros fn H. unfold backup_name in H. assert (L : length (fn ++ [TILDE]) = length fn) by (rewrite H; reflexivity).
  rewrite app_length in L. simpl in L. lia.
Qed.

Section SyncDoc.
  Variable cf : cfg.

  (* C14: a failed document synchronisation of a real run leaves the directory exactly as it was: the
     document has its old content and mtime and no backup file remains *)
  Theorem sync_doc_rollback_exact : forall o fn sdir ddir d' e,
    o_dry_run o = false -> NoDup (map fst (read_doc fn sdir)) ->
    sync_doc cf o fn sdir ddir = (d', Some e) -> d' = ddir.
  Proof.
    intros o fn sdir ddir d' e Hdry Hnd H. unfold sync_doc, doc_finish in H. rewrite Hdry in H.
    destruct (o_docsync o) as [ks| | |] eqn:Eds; try (inversion H; reflexivity);
      (destruct (py_eq (JObj (read_doc fn sdir)) (JObj (read_doc fn ddir))); [inversion H; reflexivity|]);
      match type of H with context [apply_docsync cf ?ds ?a ?b false] =>
        destruct (apply_docsync cf ds a b false) as [d0 e0] eqn:Ea;
        pose proof (apply_docsync_empty_ok cf ds a false Hnd) as Hemp
      end;
      (destruct (read_doc fn ddir) as [|kv rest] eqn:Edd;
       [ rewrite Ea in Hemp; simpl in Hemp; subst e0; discriminate | ]);
      (destruct (alookup fn ddir) as [[c mt|es]|] eqn:Ef;
       [ | unfold read_doc in Edd; rewrite Ef in Edd; discriminate
         | unfold read_doc in Edd; rewrite Ef in Edd; discriminate ]);
      (destruct (alookup (backup_name fn) ddir) as [[c2 m2|es2]|] eqn:Eb; try (inversion H; reflexivity));
      (destruct e0 as [x|]; [|discriminate]); inversion H; subst; clear H;
      assert (Hin : alookup fn ddir <> None) by congruence;
      (destruct (kvs_eqb d0 (kv :: rest));
       [ rewrite aset_app_in by assumption; rewrite (aset_same _ fn (File c mt) ddir Ef);
         apply aremove_snoc_absent; assumption
       | unfold write_doc; rewrite aset_aset; rewrite aset_app_in by assumption;
         rewrite (aset_same _ fn (File c mt) ddir Ef); apply aremove_snoc_absent; assumption ]).
  Qed.

  Lemma ds_update_dry : forall sdoc ddoc, ds_update sdoc ddoc true = ddoc.
  Proof. unfold ds_update. induction sdoc as [|kv sdoc IH]; intros; simpl; auto. Qed.

  Lemma apply_docsync_dry_id : forall ds sdoc ddoc, fix_F16 cf = true \/ flat_obj (JObj sdoc) = true ->
    fst (apply_docsync cf ds sdoc ddoc true) = ddoc.
  Proof.
    intros ds sdoc ddoc H16. destruct ds as [ks| | |]; try reflexivity.
    - unfold apply_docsync, bykey_top.
      assert (B : fst (fst (bykey cf ks (JObj sdoc) (JObj ddoc) [] true [])) = JObj ddoc)
        by (destruct H16 as [H16|H16]; [apply bykey_dry_id|apply bykey_dry_id_flat]; assumption).
      destruct (bykey cf ks (JObj sdoc) (JObj ddoc) [] true []) as [[d sk] e]. simpl in B. subst d.
      destruct e; [reflexivity|]. destruct sk; destruct ks; reflexivity.
    - simpl. apply ds_update_dry.
  Qed.

  Lemma kvs_eqb_refl : forall a, kvs_eqb a a = true.
  Proof. intro. unfold kvs_eqb. apply json_eqb_eq. reflexivity. Qed.

  (* C15: with the nested proxy repaired, a dry run leaves the document file alone *)
  Theorem sync_doc_dry_id : forall o fn sdir ddir,
    fix_F16 cf = true \/ flat_obj (JObj (read_doc fn sdir)) = true ->
    o_dry_run o = true -> NoDup (map fst (read_doc fn sdir)) ->
    fst (sync_doc cf o fn sdir ddir) = ddir.
  Proof.
    intros o fn sdir ddir H16 Hdry Hnd. unfold sync_doc, doc_finish. rewrite Hdry.
    destruct (o_docsync o) as [ks| | |] eqn:Eds; try reflexivity;
      (destruct (py_eq (JObj (read_doc fn sdir)) (JObj (read_doc fn ddir))); [reflexivity|]);
      match goal with |- context [apply_docsync cf ?ds ?a ?b true] =>
        pose proof (apply_docsync_dry_id ds a b H16) as Hid;
        pose proof (apply_docsync_empty_ok cf ds a true Hnd) as Hemp;
        destruct (apply_docsync cf ds a b true) as [d0 e0] eqn:Ea
      end; simpl in Hid; subst d0; rewrite kvs_eqb_refl;
      (destruct (read_doc fn ddir) as [|kv rest] eqn:Edd;
       [ rewrite Ea in Hemp; simpl in Hemp; subst e0; reflexivity | ]);
      (destruct (alookup fn ddir) as [[c mt|es]|] eqn:Ef;
       [ | unfold read_doc in Edd; rewrite Ef in Edd; discriminate
         | unfold read_doc in Edd; rewrite Ef in Edd; discriminate ]);
      (destruct (alookup (backup_name fn) ddir) as [[c2 m2|es2]|]; reflexivity).
  Qed.

  (* the document synchronisation touches the document file and its backup name only *)
  Lemma sync_doc_frame : forall o fn sdir ddir k, k <> fn -> k <> backup_name fn ->
    alookup k (fst (sync_doc cf o fn sdir ddir)) = alookup k ddir.
  Proof.
    intros o fn sdir ddir k Hk Hb. unfold sync_doc, doc_finish.
    assert (W : forall x base, alookup k (write_doc fn x base) = alookup k base)
      by (intros; unfold write_doc; apply alookup_aset_other; congruence).
    assert (A : forall (v : node) base, alookup k (base ++ [(backup_name fn, v)]) = alookup k base)
      by (intros; apply alookup_snoc_other; assumption).
    assert (R : forall base : dir, alookup k (aremove (backup_name fn) base) = alookup k base)
      by (intros; apply alookup_aremove_other; congruence).
    destruct (o_docsync o) as [ks| | |] eqn:Eds; try reflexivity;
      (destruct (py_eq (JObj (read_doc fn sdir)) (JObj (read_doc fn ddir))); [reflexivity|]);
      match goal with |- context [apply_docsync cf ?ds ?a ?b ?dr] =>
        destruct (apply_docsync cf ds a b dr) as [d0 e0] end;
      (destruct (read_doc fn ddir) as [|kv rest];
       [ destruct e0; [cbn [fst]; destruct (o_dry_run o && fix_shared cf); [reflexivity|apply W]|]; cbn [fst]; destruct (kvs_eqb d0 []); [reflexivity|apply W] | ]);
      (destruct (alookup fn ddir) as [[c mt|es]|];
       [ | destruct e0; [cbn [fst]; destruct (o_dry_run o && fix_shared cf); [reflexivity|apply W]|]; cbn [fst]; destruct (kvs_eqb d0 (kv :: rest)); [reflexivity|apply W]
         | destruct e0; [cbn [fst]; destruct (o_dry_run o && fix_shared cf); [reflexivity|apply W]|]; cbn [fst]; destruct (kvs_eqb d0 (kv :: rest)); [reflexivity|apply W] ]);
      (destruct (alookup (backup_name fn) ddir) as [[c2 m2|es2]|]; try reflexivity);
      (destruct (o_dry_run o);
       [ cbn [fst]; destruct (kvs_eqb d0 (kv :: rest)); [reflexivity|apply W] | ]);
      (destruct e0; cbn [fst]; rewrite R; [rewrite alookup_aset_other by congruence|];
       (destruct (kvs_eqb d0 (kv :: rest)); [apply A|rewrite W; apply A])).
  Qed.

  (* DocSync.NO_SYNC and DocSync.COPY never touch the document through the document path *)
  Lemma sync_doc_nosync : forall o fn sdir ddir,
    o_docsync o = DS_nosync \/ o_docsync o = DS_copy -> sync_doc cf o fn sdir ddir = (ddir, None).
  Proof. intros o fn sdir ddir [H|H]; unfold sync_doc; rewrite H; reflexivity. Qed.
End SyncDoc.

(* C14: DocSync.update overwrites every key of the source *)
Lemma fold_pset_frame : forall sdoc d k, ~ In k (map fst sdoc) ->
  alookup k (fold_left (fun d kv => pset false (fst kv) (snd kv) d) sdoc d) = alookup k d.
Proof.
  induction sdoc as [|[k' v'] sdoc IH]; intros d k Hk; simpl; [reflexivity|].
  rewrite IH by (intro; apply Hk; right; assumption).
  unfold pset. simpl. apply alookup_aset_other. intro; subst. apply Hk. left. reflexivity.
Qed.

Theorem update_overwrites_all : forall sdoc ddoc k v, NoDup (map fst sdoc) -> In (k, v) sdoc ->
  alookup k (ds_update sdoc ddoc false) = Some v.
Proof.
  unfold ds_update. induction sdoc as [|[k' v'] sdoc IH]; intros ddoc k v Hnd Hin; [destruct Hin|].
  inversion Hnd as [|? ? Hk Hnd']; subst. simpl.
  destruct Hin as [Heq|Hin].
  - inversion Heq; subst. rewrite fold_pset_frame by assumption. unfold pset. apply alookup_aset_same.
  - apply IH; assumption.
Qed.

(* ------------------------------------------------------------------ keys only in the destination (C13) *)
Section KeysKept.
  Variable cf : cfg.
  Variable ks : option (str -> option bool).
  Variable root : str.
  Variable dry : bool.
  Variable rec : json -> json -> str -> bool -> list str -> json * list str * option exn.

  (* what the loop can have done to the entry of one source key *)
  Definition item_out (k : str) (x : json) (oy oy' : option json) : Prop :=
    oy' = oy
    \/ (is_obj x = false /\ oy' = Some x)
    \/ (oy = None /\ oy' = Some x)
    \/ (exists y r dr sk0, oy = Some y /\ is_obj x = true /\ oy' = Some (fst (fst (rec x y r dr sk0)))).

  Lemma bk_loop_spec : forall items, NoDup (map fst items) ->
    forall d0 d sk,
    (forall k, In k (map fst items) -> alookup k d = alookup k d0) ->
    let d' := fst (fst (bk_loop cf ks root dry rec items d sk)) in
    (forall k x, In (k, x) items -> item_out k x (alookup k d0) (alookup k d'))
    /\ (forall k, ~ In k (map fst items) -> alookup k d' = alookup k d).
  Proof.
    induction items as [|[k x] rest IH]; intros Hnd d0 d sk Hd; simpl.
    - split; [intros ? ? []|reflexivity].
    - inversion Hnd as [|? ? Hk Hnd']; subst.
      assert (Gen : forall d1 sk1,
                 (forall k', k' <> k -> alookup k' d1 = alookup k' d) ->
                 item_out k x (alookup k d0) (alookup k d1) ->
                 let d' := fst (fst (bk_loop cf ks root dry rec rest d1 sk1)) in
                 (forall k0 x0, (k, x) = (k0, x0) \/ In (k0, x0) rest -> item_out k0 x0 (alookup k0 d0) (alookup k0 d'))
                 /\ (forall k0, ~ (k = k0 \/ In k0 (map fst rest)) -> alookup k0 d' = alookup k0 d)).
      { intros d1 sk1 Hfr Hok.
        assert (Hd1 : forall k0, In k0 (map fst rest) -> alookup k0 d1 = alookup k0 d0).
        { intros k0 Hin. rewrite Hfr; [apply Hd; right; assumption|]. intro; subst. contradiction. }
        destruct (IH Hnd' d0 d1 sk1 Hd1) as [I1 I2]. split.
        - intros k0 x0 [Heq|Hin]; [|apply I1; assumption].
          inversion Heq; subst. rewrite I2 by assumption. assumption.
        - intros k0 Hn. rewrite I2 by tauto. apply Hfr. intro; subst. tauto. }
      assert (Hkd : alookup k d = alookup k d0) by (apply Hd; left; reflexivity).
      destruct (alookup k d) as [y|] eqn:Ey.
      + assert (Stop : (forall k0 x0, (k, x) = (k0, x0) \/ In (k0, x0) rest ->
                                        item_out k0 x0 (alookup k0 d0) (alookup k0 d))
                         /\ (forall k0, ~ (k = k0 \/ In k0 (map fst rest)) -> alookup k0 d = alookup k0 d)).
        { split; [|reflexivity]. intros k0 x0 H0. left. apply Hd.
          destruct H0 as [Heq|Hin]; [inversion Heq; left; reflexivity|right; apply (in_map fst) in Hin; exact Hin]. }
        destruct (py_eq y x) eqn:Epy.
        * apply Gen; [reflexivity|]. left. congruence.
        * destruct x as [| | | | | |xs];
            try (destruct (ks_raises ks (root ++ k)); [exact Stop|];
                 destruct (selected ks (root ++ k)) eqn:Es;
                 [ apply Gen; [intros; apply pset_frame; assumption|];
                   unfold pset; destruct dry; [left; congruence|right; left; rewrite alookup_aset_same; auto]
                 | apply Gen; [reflexivity|]; left; congruence ]).
          destruct (rec (JObj xs) y (child_root cf root k) (nested_dry cf dry) sk) as [[y' sk'] e] eqn:Er.
          assert (Hok : item_out k (JObj xs) (alookup k d0) (alookup k (aset k y' d))).
          { right. right. right. exists y, (child_root cf root k), (nested_dry cf dry), sk.
            rewrite Er, alookup_aset_same. auto. }
          assert (Hfr : forall k', k' <> k -> alookup k' (aset k y' d) = alookup k' d)
            by (intros; apply alookup_aset_other; congruence).
          destruct e as [ex|].
          -- simpl. split.
             ++ intros k0 x0 [Heq|Hin]; [inversion Heq; subst; exact Hok|].
                assert (Hne : k0 <> k) by (intro; subst; apply Hk; apply (in_map fst) in Hin; exact Hin).
                left. rewrite Hfr by assumption. apply Hd. right. apply (in_map fst) in Hin. exact Hin.
             ++ intros k0 Hn. apply Hfr. intro; subst. tauto.
          -- apply Gen; assumption.
      + apply Gen; [intros; apply pset_frame; assumption|].
        unfold pset. destruct dry; [left; congruence|]. right. right. left. rewrite alookup_aset_same. auto.
  Qed.
End KeysKept.

Lemma keys_kept_obj : forall s d dv',
  keys_kept (JObj s) (JObj d) dv' =
  forallb (fun kx => match alookup (fst kx) s with
                     | None => match jget (fst kx) dv' with Some x' => json_eqb (snd kx) x' | None => false end
                     | Some sx => keys_kept sx (snd kx) (match jget (fst kx) dv' with Some x' => x' | None => JNull end)
                     end) d.
Proof.
  intros. simpl. induction d as [|[k x] d IH]; [reflexivity|]. simpl. rewrite <- IH. reflexivity.
Qed.

Lemma keys_kept_nonobj_src : forall sv dv dv', is_obj sv = false -> keys_kept sv dv dv' = true.
Proof. intros. destruct dv; try reflexivity. destruct sv; try reflexivity. discriminate. Qed.

Lemma keys_kept_refl : forall dv, wf dv = true -> forall sv, keys_kept sv dv dv = true.
Proof.
  induction dv using json_ind'; intros Hwf sv; try reflexivity.
  destruct sv as [| | | | | |s]; try reflexivity.
  destruct (wf_obj_inv _ Hwf) as [Hnd Hwfs].
  rewrite keys_kept_obj. apply forallb_forall. intros [k x] Hin. cbn [fst snd].
  simpl. rewrite (NoDup_alookup _ k x kvs Hnd Hin).
  destruct (alookup k s) as [sx|]; [|apply json_eqb_eq; reflexivity].
  rewrite Forall_forall in H, Hwfs. apply (H (k, x) Hin). apply (Hwfs (k, x) Hin).
Qed.

(* C13: ByKey leaves every key that exists only in the destination (at any depth) alone *)
Theorem bykey_keys_kept : forall cf ks sv, wf sv = true -> forall dv root dry sk, wf dv = true ->
  keys_kept sv dv (fst (fst (bykey cf ks sv dv root dry sk))) = true.
Proof.
  intros cf ks. induction sv using json_ind'; intros Hwf dv root dry sk Hwd;
    try (apply keys_kept_nonobj_src; reflexivity).
  rename H into IH.
  destruct (wf_obj_inv _ Hwf) as [Hnd Hwfs].
  rewrite bykey_obj. destruct (py_eq (JObj kvs) dv) eqn:Epy; [apply keys_kept_refl; assumption|].
  destruct dv as [| | | | | |dkvs]; try reflexivity.
  destruct (wf_obj_inv _ Hwd) as [Hndd Hwfd].
  pose proof (bk_loop_spec cf ks root dry (bykey cf ks) kvs Hnd dkvs dkvs sk (fun _ _ => eq_refl)) as L.
  destruct (bk_loop cf ks root dry (bykey cf ks) kvs dkvs sk) as [[d' sk'] e] eqn:El.
  cbn [fst] in *. destruct L as [L1 L2].
  rewrite keys_kept_obj. apply forallb_forall. intros [k y] Hin. cbn [fst snd]. simpl jget.
  pose proof (NoDup_alookup _ k y dkvs Hndd Hin) as Ey.
  destruct (alookup k kvs) as [sx|] eqn:Es.
  - pose proof (alookup_In _ _ _ _ Es) as Hins.
    rewrite Forall_forall in IH, Hwfs, Hwfd.
    destruct (L1 k sx Hins) as [H|[[Ho H]|[[Hn _]|(y0 & r & dr & sk0 & Hy & Ho & H)]]].
    + rewrite H, Ey. apply keys_kept_refl. apply (Hwfd (k, y) Hin).
    + apply keys_kept_nonobj_src. assumption.
    + congruence.
    + rewrite H. rewrite Ey in Hy. inversion Hy; subst y0.
      apply (IH (k, sx) Hins); [apply (Hwfs (k, sx) Hins)|apply (Hwfd (k, y) Hin)].
  - rewrite L2, Ey; [apply json_eqb_eq; reflexivity|].
    apply alookup_None_notin. assumption.
Qed.
