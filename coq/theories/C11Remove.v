(* C11Remove.v — crash safety of Job.remove and Job.clear: programs that only delete below the job
   directory (and, for clear, rewrite the document through its temp file). *)
From SV Require Import Base Json MD5 Canon FS Proc Crash WsNames CorrC11 C11Proofs.
Import ListNotations.

Definition rm_ok (d : path) (exc : list path) (c : call) : bool :=
  match c with
  | CStat _ | CRead _ | CListdir _ | CClose _ | CMeta _ => true
  | CUnlink p | CRmdir p => under d p
  | COpenW p | CWrite p _ => existsb (path_eqb p) exc
  | CRename a b => existsb (path_eqb a) exc && existsb (path_eqb b) exc
  | CMkdir _ => false
  end.

Inductive prog_rm {A} (d : path) (exc : list path) : prog A -> Prop :=
| prm_ret : forall a, prog_rm d exc (Ret a)
| prm_raise : forall e, prog_rm d exc (Raise e)
| prm_do : forall c k, rm_ok d exc c = true -> (forall r, prog_rm d exc (k r)) -> prog_rm d exc (Do c k).

(* g arises from f by deleting entries below d and by rewriting entries at or below the exception paths *)
Definition rm_rel (d : path) (exc : list path) (f g : fs) : Prop :=
  forall q, get g q = get f q \/ (under d q = true /\ get g q = None) \/ existsb (fun e => under e q) exc = true.

Lemma rm_rel_refl : forall d exc f, rm_rel d exc f f.
Proof. intros d exc f q. left. reflexivity. Qed.

Lemma rm_rel_trans : forall d exc f g h, rm_rel d exc f g -> rm_rel d exc g h -> rm_rel d exc f h.
Proof.
  intros d exc f g h H1 H2 q. destruct (H2 q) as [E|[E|E]]; auto.
  rewrite E. apply H1.
Qed.

Lemma exc_under : forall exc p q, existsb (path_eqb p) exc = true -> under p q = true -> existsb (fun e => under e q) exc = true.
Proof.
  intros exc p q H Hu. apply existsb_exists in H. destruct H as [e [Hin He]]. apply path_eqb_eq in He. subst e.
  apply existsb_exists. eauto.
Qed.

Lemma rm_rel_call : forall d exc c f f' r, rm_ok d exc c = true -> exec_res f c = (f', r) -> rm_rel d exc f f'.
Proof.
  intros d exc c f f' r Hok He q. unfold exec_res in He.
  destruct (exec f c) as [[f1 v]|e] eqn:E; [|injection He as <- _; left; reflexivity].
  injection He as <- _.
  destruct (touches c q) eqn:Et; [|left; apply (exec_frame f c f1 v q E Et)].
  destruct c; simpl in Hok; try discriminate; simpl in E.
  - injection E as <- _. left. reflexivity.
  - destruct (get f p) as [[c0|]|]; inversion E; subst. left. reflexivity.
  - destruct (listdir f p); inversion E; subst. left. reflexivity.
  - right. right. unfold touches in Et. simpl in Et. rewrite orb_false_r in Et. eapply exc_under; eauto.
  - right. right. unfold touches in Et. simpl in Et. rewrite orb_false_r in Et. eapply exc_under; eauto.
  - injection E as <- _. left. reflexivity.
  - apply andb_true_iff in Hok. destruct Hok as [Ha Hb]. right. right.
    unfold touches in Et. simpl in Et. rewrite orb_false_r in Et. apply orb_true_iff in Et.
    destruct Et as [Et|Et]; [apply (exc_under exc a q Ha Et)|apply (exc_under exc b q Hb Et)].
  - destruct (unlink f p) as [f2|] eqn:Eu; simpl in E; [|discriminate]. injection E as <- _.
    rewrite (get_unlink _ _ _ q Eu). destruct (path_eqb q p) eqn:Eq; [|left; reflexivity].
    apply path_eqb_eq in Eq. subst q. right. left. auto.
  - destruct (rmdir f p) as [f2|] eqn:Eu; simpl in E; [|discriminate]. injection E as <- _.
    rewrite (get_rmdir _ _ _ q Eu). destruct (path_eqb q p) eqn:Eq; [|left; reflexivity].
    apply path_eqb_eq in Eq. subst q. right. left. auto.
  - destruct (get f p); inversion E; subst. left. reflexivity.
Qed.

Lemma rm_rel_crashed : forall A d exc (p : prog A) f g, prog_rm d exc p -> crashed p f g -> rm_rel d exc f g.
Proof.
  intros A d exc p f g Hp Hc. induction Hc.
  - apply rm_rel_refl.
  - inversion Hp as [| |c0 k0 Hok Hk]; subst. simpl in Hok. intro q0.
    unfold write_open in H0. destruct (get f q) as [[c0|]|] eqn:G; try (injection H0 as <-; left; reflexivity).
    rewrite (get_write_file _ _ _ _ q0 H0). destruct (path_eqb q0 q) eqn:Eq; [|left; reflexivity].
    apply path_eqb_eq in Eq. subst q0. right. right. eapply exc_under; eauto. apply under_refl.
  - inversion Hp as [| |c0 k0 Hok Hk]; subst.
    eapply rm_rel_trans; [eapply rm_rel_call; eauto|]. apply IHHc. apply Hk.
Qed.

(* ------------------------------------------------------------------ the programs only remove *)
Lemma prm_rmtree : forall A d exc fuel p (k : fres unit -> prog A),
  under d p = true -> (forall r, prog_rm d exc (k r)) -> prog_rm d exc (rmtree_p fuel p k).
Proof.
  intros A d exc fuel. induction fuel as [|fuel IH]; intros p k Hu Hk; simpl.
  - apply prm_do; [reflexivity|]. intros [v|e]; [|apply Hk]. destruct v; try apply Hk.
    induction l as [|n ns IHn].
    + apply prm_do; [exact Hu|]. intros [v|e]; apply Hk.
    + apply prm_do; [reflexivity|]. intro rk. destruct (is_dir_r rk); [apply Hk|].
      apply prm_do; [simpl; eapply under_trans; [exact Hu|apply under_app]|]. intros [v|e]; [exact IHn|apply Hk].
  - apply prm_do; [reflexivity|]. intros [v|e]; [|apply Hk]. destruct v; try apply Hk.
    induction l as [|n ns IHn].
    + apply prm_do; [exact Hu|]. intros [v|e]; apply Hk.
    + apply prm_do; [reflexivity|]. intro rk. destruct (is_dir_r rk).
      * apply IH; [eapply under_trans; [exact Hu|apply under_app]|]. intros [v|e]; [exact IHn|apply Hk].
      * apply prm_do; [simpl; eapply under_trans; [exact Hu|apply under_app]|]. intros [v|e]; [exact IHn|apply Hk].
Qed.

Lemma prm_rmtree_top : forall A d exc p (k : fres unit -> prog A),
  under d p = true -> (forall r, prog_rm d exc (k r)) -> prog_rm d exc (rmtree_top p k).
Proof.
  intros A d exc p k Hu Hk. unfold rmtree_top. apply prm_do; [reflexivity|].
  intros [v|e]; [apply prm_rmtree; auto|apply Hk].
Qed.

Lemma prm_remove : forall d ws i, d = ws ++ [i] -> prog_rm d [] (remove_job ws i ret_res).
Proof.
  intros d ws i ->. unfold remove_job. apply prm_rmtree_top; [apply under_refl|].
  intros [v|e]; [apply prm_ret|]. destruct e; simpl; constructor.
Qed.

Lemma prm_clear : forall frepr d ws i, d = ws ++ [i] ->
  prog_rm d [d ++ [DOCF]; d ++ [TMPPFX ++ [] ++ DOCF]] (clear_job frepr [] ws i ret_res).
Proof.
  intros frepr d ws i ->. set (d := ws ++ [i]). set (exc := [d ++ [DOCF]; d ++ [TMPPFX ++ [] ++ DOCF]]).
  assert (Hfin : forall r : unit + perr, prog_rm d exc
            match r with inr (POs ENOENT) => ret_res (inl tt) | _ => ret_res r end).
  { intros [u|[x|e]]; simpl; try constructor. destruct e; simpl; constructor. }
  unfold clear_job. fold d. apply prm_do; [reflexivity|]. intros [v|e]; [|apply (Hfin (inr (POs e)))].
  destruct v; try apply (Hfin (inr (PExn EOther))).
  induction l as [|n ns IHn].
  - (* the document: load, then store {} through the temp file *)
    unfold doc_load. apply prm_do; [reflexivity|]. intros [v|e].
    + destruct v; try apply (Hfin (inr (PExn EOther))). destruct (c_json c); [|apply (Hfin (inr (PExn EValueError)))].
      unfold doc_store, json_save. rewrite tmpname_snoc'.
      assert (E1 : existsb (path_eqb (d ++ [TMPPFX ++ [] ++ DOCF])) exc = true).
      { unfold exc. simpl. rewrite path_eqb_refl. apply orb_true_r. }
      assert (E2 : existsb (path_eqb (d ++ [DOCF])) exc = true).
      { unfold exc. simpl. rewrite path_eqb_refl. reflexivity. }
      apply prm_do; [exact E1|]. intros [v1|e1]; [|apply (Hfin (inr (POs e1)))].
      apply prm_do; [exact E1|]. intro rw. apply prm_do; [reflexivity|]. intro rc.
      destruct rw as [vw|ew], rc as [vc|ec]; try apply (Hfin (inr (POs _))).
      apply prm_do; [unfold rm_ok; rewrite E1, E2; reflexivity|]. intros [v2|e2]; [apply (Hfin (inl tt))|apply (Hfin (inr (POs e2)))].
    + destruct e; try (cbn [ret_res]; apply prm_raise).
      (* ENOENT: no document yet *)
      unfold doc_store, json_save. rewrite tmpname_snoc'.
      assert (E1 : existsb (path_eqb (d ++ [TMPPFX ++ [] ++ DOCF])) exc = true).
      { unfold exc. simpl. rewrite path_eqb_refl. apply orb_true_r. }
      assert (E2 : existsb (path_eqb (d ++ [DOCF])) exc = true).
      { unfold exc. simpl. rewrite path_eqb_refl. reflexivity. }
      apply prm_do; [exact E1|]. intros [v1|e1]; [|apply (Hfin (inr (POs e1)))].
      apply prm_do; [exact E1|]. intro rw. apply prm_do; [reflexivity|]. intro rc.
      destruct rw as [vw|ew], rc as [vc|ec]; try apply (Hfin (inr (POs _))).
      apply prm_do; [unfold rm_ok; rewrite E1, E2; reflexivity|]. intros [v2|e2]; [apply (Hfin (inl tt))|apply (Hfin (inr (POs e2)))].
  - destruct (str_eqb n SPF || str_eqb n DOCF); [exact IHn|].
    apply prm_do; [reflexivity|]. intros [v|e]; [|apply (Hfin (inr (POs e)))].
    destruct v as [|kd|c|l]; try destruct kd;
      first [ apply (Hfin (inr (POs ENOENT)))
            | apply prm_rmtree_top; [apply under_app|]; intros [v1|e]; [exact IHn|apply (Hfin (inr (POs e)))]
            | apply prm_do; [simpl; apply under_app|]; intros [v1|e]; [exact IHn|apply (Hfin (inr (POs e)))] ].
Qed.

(* ------------------------------------------------------------------ CInv from "only removes" *)
Section RM.
  Variable frepr : fl -> str.
  Variable wss : list path.
  Variable f0 : fs.
  Variable ws : path.
  Variable i : str.
  Variable o : cop.
  Hypothesis HW : WInv frepr wss f0.
  Hypothesis Hws : In ws wss.
  Hypothesis Hi : In i (job_dirs f0 ws).
  Hypothesis Ho : o = KRemove ws i \/ o = KClear ws i.
  Let d := ws ++ [i].

  Lemma rm_aff : affected frepr o f0 = [d].
  Proof. destruct Ho as [-> | ->]; reflexivity. Qed.

  Lemma rm_removal : is_removal o = true.
  Proof. destruct Ho as [-> | ->]; reflexivity. Qed.

  Lemma rm_hist : exists v, history frepr o f0 = [v] /\ sp_value f0 ws i = Some v.
  Proof.
    destruct (winv_job frepr wss f0 ws i HW Hws Hi) as [_ [c [v [G [J E]]]]].
    assert (Hs : sp_value f0 ws i = Some v) by (rewrite sp_value_dir, G; exact J).
    exists v. split; auto. destruct Ho as [-> | ->]; unfold history; rewrite Hs; reflexivity.
  Qed.

  Lemma cinv_from_rm : forall exc g,
    (forall e, In e exc -> exists n, e = d ++ [n] /\ n <> SPF) ->
    rm_rel d exc f0 g -> CInv frepr o wss f0 g.
  Proof.
    intros exc g Hexc Hrel.
    destruct (winv_job frepr wss f0 ws i HW Hws Hi) as [Hd [c [v [G [J E]]]]]. fold d in Hd, G.
    assert (Hnot : forall q, existsb (fun e => under e q) exc = true -> under d q = true /\ q <> d /\ q <> d ++ [SPF]).
    { intros q Hq. apply existsb_exists in Hq. destruct Hq as [e [Hin Hu]]. destruct (Hexc e Hin) as [n [-> Hn]].
      split; [eapply under_trans; [apply under_app|exact Hu]|]. split; intro Eq; subst q.
      - rewrite under_snoc_self' in Hu. discriminate.
      - rewrite (sibling_not_under d n SPF Hn) in Hu. discriminate. }
    apply cinv_intro; auto.
    - rewrite rm_aff. intros x [<-|[]]. exists ws, i. auto.
    - rewrite rm_aff. intros p Hp. apply under_any_false_cons in Hp. destruct Hp as [Hp _].
      destruct (Hrel p) as [Eq|[[Hu _]|Hx]]; auto; [congruence|]. destruct (Hnot p Hx) as [Hu _]. congruence.
    - left. apply rm_removal.
    - rewrite rm_aff. intros x [<-|[]]. destruct (Hrel d) as [Eq|[[_ Hn]|Hx]].
      + right. congruence.
      + left. exact Hn.
      + destruct (Hnot d Hx) as [_ [Hne _]]. contradiction.
    - rewrite rm_aff. intros w j Hw [Ed|[]] Hval. destruct rm_hist as [v0 [Hh Hv0]]. rewrite Hh.
      exists v0. split; [|simpl; rewrite json_same_refl; reflexivity].
      rewrite validates_dir, <- Ed in Hval. rewrite sp_value_dir, <- Ed. rewrite sp_value_dir in Hv0. fold d in Hv0.
      destruct (Hrel (d ++ [SPF])) as [Eq|[[_ Hn]|Hx]].
      + rewrite Eq. exact Hv0.
      + rewrite Hn in Hval. discriminate.
      + destruct (Hnot _ Hx) as [_ [_ Hne]]. contradiction.
  Qed.
End RM.

Theorem crash_safe_remove_thm : forall frepr wss f0 ws i atomic g,
  WInv frepr wss f0 -> In ws wss -> In i (job_dirs f0 ws) ->
  crash_states (op_prog frepr atomic (KRemove ws i)) f0 g ->
  CInv frepr (KRemove ws i) wss f0 g.
Proof.
  intros frepr wss f0 ws i atomic g HW Hws Hi H.
  apply (cinv_from_rm frepr wss f0 ws i (KRemove ws i) HW Hws Hi (or_introl eq_refl) [] g).
  - intros e [].
  - apply (rm_rel_crashed _ (ws ++ [i]) [] _ f0 g (prm_remove (ws ++ [i]) ws i eq_refl) H).
Qed.

Theorem crash_safe_clear_thm : forall frepr wss f0 ws i atomic g,
  WInv frepr wss f0 -> In ws wss -> In i (job_dirs f0 ws) ->
  crash_states (op_prog frepr atomic (KClear ws i)) f0 g ->
  CInv frepr (KClear ws i) wss f0 g.
Proof.
  intros frepr wss f0 ws i atomic g HW Hws Hi H.
  apply (cinv_from_rm frepr wss f0 ws i (KClear ws i) HW Hws Hi (or_intror eq_refl)
           [(ws ++ [i]) ++ [DOCF]; (ws ++ [i]) ++ [TMPPFX ++ [] ++ DOCF]] g).
  - intros e [<-|[<-|[]]]; eexists; split; try reflexivity; discriminate.
  - apply (rm_rel_crashed _ (ws ++ [i]) _ _ f0 g (prm_clear frepr (ws ++ [i]) ws i eq_refl) H).
Qed.

(* ------------------------------------------------------------------ faults: a failing call has no effect, so
   the same "only removes" relation covers every fault plan *)
Lemma rm_rel_fault : forall A d exc plan (p : prog A) n f,
  prog_rm d exc p -> rm_rel d exc f (fst (run_fault plan n p f)).
Proof.
  intros A d exc plan p. induction p as [a|e|c k IH]; intros n f Hp; simpl; try apply rm_rel_refl.
  inversion Hp as [| |c0 k0 Hok Hk]; subst.
  destruct (plan n) as [e|].
  - apply IH. apply Hk.
  - destruct (exec_res f c) as [f' r] eqn:E.
    eapply rm_rel_trans; [eapply rm_rel_call; eauto|]. apply IH. apply Hk.
Qed.

Theorem fault_safe_remove_thm : forall frepr wss f0 ws i atomic plan,
  WInv frepr wss f0 -> In ws wss -> In i (job_dirs f0 ws) ->
  CInv frepr (KRemove ws i) wss f0 (fst (run_fault plan 0 (op_prog frepr atomic (KRemove ws i)) f0)).
Proof.
  intros frepr wss f0 ws i atomic plan HW Hws Hi.
  apply (cinv_from_rm frepr wss f0 ws i (KRemove ws i) HW Hws Hi (or_introl eq_refl) []).
  - intros e [].
  - apply rm_rel_fault. apply (prm_remove (ws ++ [i]) ws i eq_refl).
Qed.

Theorem fault_safe_clear_thm : forall frepr wss f0 ws i atomic plan,
  WInv frepr wss f0 -> In ws wss -> In i (job_dirs f0 ws) ->
  CInv frepr (KClear ws i) wss f0 (fst (run_fault plan 0 (op_prog frepr atomic (KClear ws i)) f0)).
Proof.
  intros frepr wss f0 ws i atomic plan HW Hws Hi.
  apply (cinv_from_rm frepr wss f0 ws i (KClear ws i) HW Hws Hi (or_intror eq_refl)
           [(ws ++ [i]) ++ [DOCF]; (ws ++ [i]) ++ [TMPPFX ++ [] ++ DOCF]]).
  - intros e [<-|[<-|[]]]; eexists; split; try reflexivity; discriminate.
  - apply rm_rel_fault. apply (prm_clear frepr (ws ++ [i]) ws i eq_refl).
Qed.
