(* C12Race.v — init_race_safe: n processes that run Project() and open_job(sp).init() on the same or on
   different jobs, with the temp-file write protocol, under EVERY schedule: nobody fails, no torn state point
   is ever read, and the final tree is the one of the sequential composition.

   Proof: a global invariant G over the tree plus, per actor, a program point with a local assertion that is
   stable under the steps of the other actors (the only facts used are monotone: "the directory exists",
   "the state point file is complete and valid", or concern the actor's own temp file). *)
From SV Require Import Base Json MD5 Canon FS Proc Crash WsNames CorrC11 C11Proofs.
Import ListNotations.

Record rspec := { r_tag : str; r_sp : json }.

Section RACE.
  Variable frepr : fl -> str.
  Variables w1 w2 : str.
  Variable wr : path.
  Let ws : path := w1 :: w2 :: wr.

  Definition jid (s : rspec) : str := calc_id frepr (r_sp s).
  Definition dirp (s : rspec) : path := ws ++ [jid s].
  Definition filep (s : rspec) : path := dirp s ++ [SPF].
  Definition tname (s : rspec) : str := TMPPFX ++ r_tag s ++ SPF.
  Definition tmpp (s : rspec) : path := dirp s ++ [tname s].
  Definition jc (s : rspec) : content := jcontent frepr (r_sp s).

  Definition rprog (s : rspec) : prog (list aobs) :=
    actor_prog frepr true (r_tag s) ws [AProject; AInit (r_sp s)] [].

  (* ---- the program points *)
  Definition KI : unit + perr -> prog (list aobs) :=
    fun r => match r with inl _ => Ret [OUnit; OUnit] | inr e => Raise e end.
  Definition K3r : json + perr -> prog (list aobs) :=
    fun r3 => match r3 with inl _ => KI (inl tt) | inr e => KI (inr e) end.
  Definition K2r (s : rspec) : unit + perr -> prog (list aobs) :=
    fun r2 => match r2 with inr e => KI (inr e) | inl _ => sp_load frepr (filep s) (jid s) K3r end.
  Definition K1r (s : rspec) : fres unit -> prog (list aobs) :=
    fun r1 => match r1 with
              | FErr e => KI (inr (POs e))
              | FOk _ => sp_save frepr true (r_tag s) (filep s) (r_sp s) false (K2r s)
              end.
  Definition leafr (s : rspec) : prog (list aobs) :=
    Do (CMkdir (dirp s)) (fun r =>
      match r with
      | FOk _ => K1r s (FOk tt)
      | FErr e => Do (CStat (dirp s)) (fun r2 => if is_dir_r r2 then K1r s (FOk tt) else K1r s (FErr e))
      end).

  Inductive pt := P0 | P1 | P2 | P3 | P4 | P4b | P5 | P6 | P7 | P8 | P9 | P10 | PD.

  Definition nx {A} (p : prog A) (r : fres val) : prog A := match p with Do _ k => k r | _ => p end.

  Definition pa (s : rspec) (p : pt) : prog (list aobs) :=
    match p with
    | P0 => rprog s
    | P1 => sp_load frepr (filep s) (jid s) (fun r => match r with inl _ => KI (inl tt) | inr _ => mkdir_p (dirp s) (K1r s) end)
    | P2 => mkdir_p (dirp s) (K1r s)
    | P3 => makedirs_p 3 true (dirp s) (K1r s)
    | P4 => leafr s
    | P4b => Do (CStat (dirp s)) (fun r2 => if is_dir_r r2 then K1r s (FOk tt) else K1r s (FErr EEXIST))
    | P5 => K1r s (FOk tt)
    | P6 => nx (K1r s (FOk tt)) (FOk (RKind KNone))
    | P7 => nx (nx (K1r s (FOk tt)) (FOk (RKind KNone))) (FOk RUnit)
    | P8 => nx (nx (nx (K1r s (FOk tt)) (FOk (RKind KNone))) (FOk RUnit)) (FOk RUnit)
    | P9 => nx (nx (nx (nx (K1r s (FOk tt)) (FOk (RKind KNone))) (FOk RUnit)) (FOk RUnit)) (FOk RUnit)
    | P10 => sp_load frepr (filep s) (jid s) K3r
    | PD => Ret [OUnit; OUnit]
    end.

  (* the shape of every point: its call and where the results lead *)
  Lemma tmpname_file : forall s, tmpname (r_tag s) (filep s) = tmpp s.
  Proof. intro s. unfold filep, tmpp, tname. apply tmpname_snoc'. Qed.

  Lemma pa0 : forall s, pa s P0 = Do (CStat ws) (fun r => if is_dir_r r then pa s P1 else
      mkdir_p ws (fun r1 => match r1 with FOk _ => pa s P1 | FErr e => Raise (POs e) end)).
  Proof. reflexivity. Qed.

  Lemma pa1 : forall s, exists k, pa s P1 = Do (CRead (filep s)) k /\
      k (FErr ENOENT) = pa s P2 /\
      forall c v, c_json c = Some v -> calc_id frepr v = jid s -> k (FOk (RData c)) = pa s PD.
  Proof.
    intro s. eexists. split; [reflexivity|]. split; [reflexivity|].
    intros c v Hj Hv. cbn. rewrite Hj, Hv, str_eqb_refl. reflexivity.
  Qed.

  Lemma pa2 : forall s, exists k, pa s P2 = Do (CStat (dirp s)) k /\
      k (FOk (RKind KDir)) = pa s P5 /\ k (FOk (RKind KNone)) = pa s P3.
  Proof. intro s. eexists. split; [reflexivity|]. split; reflexivity. Qed.

  Lemma pa3 : forall s, exists k, pa s P3 = Do (CStat ws) k /\ k (FOk (RKind KDir)) = pa s P4.
  Proof.
    intro s. unfold pa. rewrite makedirs_p_unfold.
    assert (Hp : parent (dirp s) = ws) by (unfold dirp; apply parent_snoc). rewrite Hp. unfold ws at 1. cbv zeta iota. fold ws.
    eexists. split; [reflexivity|]. reflexivity.
  Qed.

  Lemma pa4 : forall s, exists k, pa s P4 = Do (CMkdir (dirp s)) k /\
      k (FOk RUnit) = pa s P5 /\ k (FErr EEXIST) = pa s P4b.
  Proof. intro s. eexists. split; [reflexivity|]. split; reflexivity. Qed.

  Lemma pa4b : forall s, exists k, pa s P4b = Do (CStat (dirp s)) k /\ k (FOk (RKind KDir)) = pa s P5.
  Proof. intro s. eexists. split; [reflexivity|]. reflexivity. Qed.

  Lemma pa5 : forall s, exists k, pa s P5 = Do (CStat (filep s)) k /\
      k (FOk (RKind KNone)) = pa s P6 /\ k (FOk (RKind KFile)) = pa s P10.
  Proof. intro s. eexists. split; [reflexivity|]. split; reflexivity. Qed.

  Lemma pa6 : forall s, exists k, pa s P6 = Do (COpenW (tmpp s)) k /\ k (FOk RUnit) = pa s P7.
  Proof.
    intro s. unfold pa, K1r, sp_save, json_save, nx. cbn [is_file_r]. rewrite !tmpname_file.
    eexists. split; [reflexivity|]. reflexivity.
  Qed.

  Lemma pa7 : forall s, exists k, pa s P7 = Do (CWrite (tmpp s) (jc s)) k /\ k (FOk RUnit) = pa s P8.
  Proof.
    intro s. unfold pa, K1r, sp_save, json_save, nx. cbn [is_file_r]. rewrite !tmpname_file.
    eexists. split; [reflexivity|]. reflexivity.
  Qed.

  Lemma pa8 : forall s, exists k, pa s P8 = Do (CClose (tmpp s)) k /\ k (FOk RUnit) = pa s P9.
  Proof.
    intro s. unfold pa, K1r, sp_save, json_save, nx. cbn [is_file_r]. rewrite !tmpname_file.
    eexists. split; [reflexivity|]. reflexivity.
  Qed.

  Lemma pa9 : forall s, exists k, pa s P9 = Do (CRename (tmpp s) (filep s)) k /\ k (FOk RUnit) = pa s P10.
  Proof.
    intro s. unfold pa, K1r, sp_save, json_save, nx. cbn [is_file_r]. rewrite !tmpname_file.
    eexists. split; [reflexivity|]. reflexivity.
  Qed.

  Lemma pa10 : forall s, exists k, pa s P10 = Do (CRead (filep s)) k /\
      forall c v, c_json c = Some v -> calc_id frepr v = jid s -> k (FOk (RData c)) = pa s PD.
  Proof.
    intro s. eexists. split; [reflexivity|].
    intros c v Hj Hv. cbn. rewrite Hj, Hv, str_eqb_refl. reflexivity.
  Qed.

  (* ---- path facts *)
  Lemma len_dirp : forall s, length (dirp s) = S (length ws).
  Proof. intro s. unfold dirp. rewrite app_length. simpl. lia. Qed.
  Lemma len_filep : forall s, length (filep s) = S (S (length ws)).
  Proof. intro s. unfold filep. rewrite app_length, len_dirp. simpl. lia. Qed.
  Lemma len_tmpp : forall s, length (tmpp s) = S (S (length ws)).
  Proof. intro s. unfold tmpp. rewrite app_length, len_dirp. simpl. lia. Qed.

  Lemma dirp_ne_filep : forall s t, dirp s <> filep t.
  Proof. intros s t E. assert (L : length (dirp s) = length (filep t)) by (rewrite E; reflexivity). rewrite len_dirp, len_filep in L. lia. Qed.
  Lemma dirp_ne_tmpp : forall s t, dirp s <> tmpp t.
  Proof. intros s t E. assert (L : length (dirp s) = length (tmpp t)) by (rewrite E; reflexivity). rewrite len_dirp, len_tmpp in L. lia. Qed.
  Lemma filep_ne_tmpp : forall s t, filep s <> tmpp t.
  Proof.
    intros s t E. unfold filep, tmpp in E. apply app_inj_tail in E. destruct E as [_ E].
    unfold tname in E. discriminate.
  Qed.
  Lemma ws_ne_dirp : forall s, ws <> dirp s.
  Proof. intros s E. assert (L : length ws = length (dirp s)) by (rewrite <- E; reflexivity). rewrite len_dirp in L. lia. Qed.
  Lemma ws_ne_filep : forall s, ws <> filep s.
  Proof. intros s E. assert (L : length ws = length (filep s)) by (rewrite <- E; reflexivity). rewrite len_filep in L. lia. Qed.
  Lemma ws_ne_tmpp : forall s, ws <> tmpp s.
  Proof. intros s E. assert (L : length ws = length (tmpp s)) by (rewrite <- E; reflexivity). rewrite len_tmpp in L. lia. Qed.
  Lemma tmpp_inj : forall s t, tmpp s = tmpp t -> r_tag s = r_tag t.
  Proof.
    intros s t E. unfold tmpp in E. apply app_inj_tail in E. destruct E as [_ E].
    unfold tname in E. apply app_inv_head in E. apply app_inv_tail in E. exact E.
  Qed.
  Lemma filep_inj : forall s t, filep s = filep t -> dirp s = dirp t /\ jid s = jid t.
  Proof.
    intros s t E. unfold filep in E. apply app_inj_tail in E. destruct E as [E _]. split; auto.
    unfold dirp in E. apply app_inv_head in E. inversion E. reflexivity.
  Qed.
  Lemma dirp_inj : forall s t, dirp s = dirp t -> jid s = jid t /\ filep s = filep t.
  Proof.
    intros s t E. split; [|unfold filep; rewrite E; reflexivity].
    unfold dirp in E. apply app_inv_head in E. inversion E. reflexivity.
  Qed.
  Lemma par_filep : forall s, parent (filep s) = dirp s. Proof. intro s. apply parent_snoc. Qed.
  Lemma par_tmpp : forall s, parent (tmpp s) = dirp s. Proof. intro s. apply parent_snoc. Qed.
  Lemma par_dirp : forall s, parent (dirp s) = ws. Proof. intro s. apply parent_snoc. Qed.

  (* ---- the invariant *)
  Variable f0 : fs.
  Variable specs : list rspec.
  Hypothesis Hws0 : get f0 ws = Some Dir.
  Hypothesis Htags : NoDup (map r_tag specs).
  Hypothesis Hsame : forall s t, In s specs -> In t specs -> jid s = jid t -> r_sp s = r_sp t.

  Definition validf (f : fs) (s : rspec) : Prop :=
    exists c v, get f (filep s) = Some (File c) /\ c_json c = Some v /\ calc_id frepr v = jid s.

  Definition pre_ok (s : rspec) : Prop :=
    (get f0 (dirp s) = None \/ get f0 (dirp s) = Some Dir) /\
    (get f0 (filep s) = None \/ validf f0 s) /\
    get f0 (tmpp s) = None /\
    (get f0 (filep s) <> None -> get f0 (dirp s) = Some Dir).
  Hypothesis Hpre : forall s, In s specs -> pre_ok s.

  Definition owned (q : path) : Prop := exists s, In s specs /\ (q = dirp s \/ q = filep s \/ q = tmpp s).

  Definition G (f : fs) : Prop :=
    (forall q, ~ owned q -> get f q = get f0 q) /\
    (forall s, In s specs -> get f (dirp s) = get f0 (dirp s) \/ get f (dirp s) = Some Dir) /\
    (forall s, In s specs -> (validf f0 s -> get f (filep s) = get f0 (filep s)) /\
                             (get f0 (filep s) = None -> get f (filep s) = None \/ get f (filep s) = Some (File (jc s)))) /\
    (forall s, In s specs -> get f (tmpp s) = None \/ exists c, get f (tmpp s) = Some (File c)) /\
    (forall s, In s specs -> get f (filep s) <> None -> get f (dirp s) = Some Dir).

  Lemma G_init : G f0.
  Proof.
    repeat split; auto.
    - intros s Hs. left. destruct (Hpre s Hs) as [_ [_ [Ht _]]]. exact Ht.
    - intros s Hs. apply (Hpre s Hs).
  Qed.

  Lemma G_ws : forall f, G f -> get f ws = Some Dir.
  Proof.
    intros f [g1 _]. rewrite g1; auto. intros [s [_ [E|[E|E]]]].
    - apply (ws_ne_dirp s E). - apply (ws_ne_filep s E). - apply (ws_ne_tmpp s E).
  Qed.

  Lemma jc_valid_s : forall s, c_json (jc s) = Some (r_sp s) /\ calc_id frepr (r_sp s) = jid s.
  Proof. intro s. split; reflexivity. Qed.

  Lemma tag_inj : forall s t, In s specs -> In t specs -> r_tag s = r_tag t -> s = t.
  Proof.
    intros s t Hs Ht E. clear - Htags Hs Ht E. induction specs as [|x l IH]; [contradiction|].
    simpl in Htags. inversion Htags as [|? ? Hn Hnd]; subst.
    destruct Hs as [->|Hs], Ht as [->|Ht]; auto.
    - exfalso. apply Hn. rewrite E. apply in_map. exact Ht.
    - exfalso. apply Hn. rewrite <- E. apply in_map. exact Hs.
  Qed.

  (* ---- local assertions *)
  Definition tmpN (s : rspec) (f : fs) : Prop := get f (tmpp s) = None.
  Definition abs0 (s : rspec) : Prop := get f0 (filep s) = None.
  Definition dirD (s : rspec) (f : fs) : Prop := get f (dirp s) = Some Dir.

  Definition L (s : rspec) (p : pt) (f : fs) : Prop :=
    match p with
    | P0 | P1 => tmpN s f
    | P2 | P3 | P4 | P4b => tmpN s f /\ abs0 s
    | P5 | P6 => tmpN s f /\ abs0 s /\ dirD s f
    | P7 => abs0 s /\ dirD s f /\ get f (tmpp s) = Some (File empty_content)
    | P8 | P9 => abs0 s /\ dirD s f /\ get f (tmpp s) = Some (File (jc s))
    | P10 | PD => tmpN s f /\ validf f s
    end.

  (* what a step of actor t may do to the tree *)
  Definition Guar (t : rspec) (f f' : fs) : Prop :=
    (forall q, q <> dirp t -> q <> filep t -> q <> tmpp t -> get f' q = get f q) /\
    (get f (dirp t) = Some Dir -> get f' (dirp t) = Some Dir) /\
    (get f (filep t) <> None -> get f' (filep t) = get f (filep t)).

  Lemma Guar_refl : forall t f, Guar t f f.
  Proof. intros t f. repeat split; auto. Qed.

  Lemma Guar_trans : forall t f1 f2 f3, Guar t f1 f2 -> Guar t f2 f3 -> Guar t f1 f3.
  Proof.
    intros t f1 f2 f3 [A1 [A2 A3]] [B1 [B2 B3]]. repeat split.
    - intros q H1 H2 H3. rewrite B1, A1; auto.
    - auto.
    - intro H. rewrite B3; [apply A3; exact H|]. rewrite A3; auto.
  Qed.

  Lemma L_stable : forall s t p f f', In s specs -> In t specs -> s <> t -> Guar t f f' -> L s p f -> L s p f'.
  Proof.
    intros s t p f f' Hs Ht Hne [A1 [A2 A3]] HL.
    assert (Htmp : get f' (tmpp s) = get f (tmpp s)).
    { apply A1.
      - intro E. apply (dirp_ne_tmpp t s). auto.
      - intro E. apply (filep_ne_tmpp t s). auto.
      - intro E. apply Hne. apply tag_inj; auto. apply tmpp_inj. exact E. }
    assert (Hdir : dirD s f -> dirD s f').
    { unfold dirD. intro Hd. destruct (path_eq_dec (dirp s) (dirp t)) as [E|E].
      - rewrite E in *. auto.
      - rewrite A1; auto. apply dirp_ne_filep. apply dirp_ne_tmpp. }
    assert (Hval : validf f s -> validf f' s).
    { intros [c [v [Hg [Hj Hv]]]]. exists c, v. split; auto.
      destruct (path_eq_dec (filep s) (filep t)) as [E|E].
      - rewrite E in *. rewrite A3; auto. congruence.
      - rewrite A1; auto. intro E'. apply (dirp_ne_filep t s). auto. apply filep_ne_tmpp. }
    unfold tmpN in *.
    destruct p; cbn [L] in *; unfold tmpN in *; repeat match goal with H : _ /\ _ |- _ => destruct H end;
      repeat split; auto; try (rewrite Htmp; assumption).
  Qed.
End RACE.
