(* C12Race.v — init_race_safe: n processes that run Project() and open_job(sp).init() on the same or on
   different jobs, with the temp-file write protocol, under EVERY schedule: nobody fails, no torn state point
   is ever read, and the final tree is the one of the sequential composition.

   Proof: a global invariant G over the tree plus, per actor, a program point with a local assertion that is
   stable under the steps of the other actors (the only facts used are monotone: "the directory exists",
   "the state point file is complete and valid", or concern the actor's own temp file). *)
From SV Require Import Base Json MD5 Canon FS Proc Crash WsNames CorrC11 C11Proofs.
Import ListNotations.

Record rspec := { r_tag : str; r_sp : json }.

Section RACE.
  Variable frepr : fl -> str.
  Variables w1 w2 : str.
  Variable wr : path.
  Let ws : path := w1 :: w2 :: wr.

  Definition jid (s : rspec) : str := calc_id frepr (r_sp s).
  Definition dirp (s : rspec) : path := ws ++ [jid s].
  Definition filep (s : rspec) : path := dirp s ++ [SPF].
  Definition tname (s : rspec) : str := TMPPFX ++ r_tag s ++ SPF.
  Definition tmpp (s : rspec) : path := dirp s ++ [tname s].
  Definition jc (s : rspec) : content := jcontent frepr (r_sp s).

  Definition rprog (s : rspec) : prog (list aobs) :=
    actor_prog frepr true (r_tag s) ws [AProject; AInit (r_sp s)] [].

  (* ---- the program points *)
  Definition KI : unit + perr -> prog (list aobs) :=
    fun r => match r with inl _ => Ret [OUnit; OUnit] | inr e => Raise e end.
  Definition K3r : json + perr -> prog (list aobs) :=
    fun r3 => match r3 with inl _ => KI (inl tt) | inr e => KI (inr e) end.
  Definition K2r (s : rspec) : unit + perr -> prog (list aobs) :=
    fun r2 => match r2 with inr e => KI (inr e) | inl _ => sp_load frepr (filep s) (jid s) K3r end.
  Definition K1r (s : rspec) : fres unit -> prog (list aobs) :=
    fun r1 => match r1 with
              | FErr e => KI (inr (POs e))
              | FOk _ => sp_save frepr true (r_tag s) (filep s) (r_sp s) false (K2r s)
              end.
  Definition leafr (s : rspec) : prog (list aobs) :=
    Do (CMkdir (dirp s)) (fun r =>
      match r with
      | FOk _ => K1r s (FOk tt)
      | FErr e => Do (CStat (dirp s)) (fun r2 => if is_dir_r r2 then K1r s (FOk tt) else K1r s (FErr e))
      end).

  Inductive pt := P0 | P1 | P2 | P3 | P4 | P4b | P5 | P6 | P7 | P8 | P9 | P10 | PD.

  Definition nx {A} (p : prog A) (r : fres val) : prog A := match p with Do _ k => k r | _ => p end.

  Definition pa (s : rspec) (p : pt) : prog (list aobs) :=
    match p with
    | P0 => rprog s
    | P1 => sp_load frepr (filep s) (jid s) (fun r => match r with inl _ => KI (inl tt) | inr _ => mkdir_p (dirp s) (K1r s) end)
    | P2 => mkdir_p (dirp s) (K1r s)
    | P3 => makedirs_p 3 true (dirp s) (K1r s)
    | P4 => leafr s
    | P4b => Do (CStat (dirp s)) (fun r2 => if is_dir_r r2 then K1r s (FOk tt) else K1r s (FErr EEXIST))
    | P5 => K1r s (FOk tt)
    | P6 => nx (K1r s (FOk tt)) (FOk (RKind KNone))
    | P7 => nx (nx (K1r s (FOk tt)) (FOk (RKind KNone))) (FOk RUnit)
    | P8 => nx (nx (nx (K1r s (FOk tt)) (FOk (RKind KNone))) (FOk RUnit)) (FOk RUnit)
    | P9 => nx (nx (nx (nx (K1r s (FOk tt)) (FOk (RKind KNone))) (FOk RUnit)) (FOk RUnit)) (FOk RUnit)
    | P10 => sp_load frepr (filep s) (jid s) K3r
    | PD => Ret [OUnit; OUnit]
    end.

  (* the shape of every point: its call and where the results lead *)
  Lemma tmpname_file : forall s, tmpname (r_tag s) (filep s) = tmpp s.
  Proof. intro s. unfold filep, tmpp, tname. apply tmpname_snoc'. Qed.

  Lemma pa0 : forall s, pa s P0 = Do (CStat ws) (fun r => if is_dir_r r then pa s P1 else
      mkdir_p ws (fun r1 => match r1 with FOk _ => pa s P1 | FErr e => Raise (POs e) end)).
  Proof. reflexivity. Qed.

  Lemma pa1 : forall s, exists k, pa s P1 = Do (CRead (filep s)) k /\
      k (FErr ENOENT) = pa s P2 /\
      forall c v, c_json c = Some v -> (is_jnull v = false /\ calc_id frepr v = jid s) -> k (FOk (RData c)) = pa s PD.
  Proof.
    intro s. eexists. split; [reflexivity|]. split; [reflexivity|].
    intros c v Hj [Hn Hv]. cbn. rewrite Hj, Hn, Hv, str_eqb_refl. reflexivity.
  Qed.

  Lemma pa2 : forall s, exists k, pa s P2 = Do (CStat (dirp s)) k /\
      k (FOk (RKind KDir)) = pa s P5 /\ k (FOk (RKind KNone)) = pa s P3.
  Proof. intro s. eexists. split; [reflexivity|]. split; reflexivity. Qed.

  Lemma pa3 : forall s, exists k, pa s P3 = Do (CStat ws) k /\ k (FOk (RKind KDir)) = pa s P4.
  Proof.
    intro s. unfold pa. rewrite makedirs_p_unfold.
    assert (Hp : parent (dirp s) = ws) by (unfold dirp; apply parent_snoc). rewrite Hp. unfold ws at 1. cbv zeta iota. fold ws.
    eexists. split; [reflexivity|]. reflexivity.
  Qed.

  Lemma pa4 : forall s, exists k, pa s P4 = Do (CMkdir (dirp s)) k /\
      k (FOk RUnit) = pa s P5 /\ k (FErr EEXIST) = pa s P4b.
  Proof. intro s. eexists. split; [reflexivity|]. split; reflexivity. Qed.

  Lemma pa4b : forall s, exists k, pa s P4b = Do (CStat (dirp s)) k /\ k (FOk (RKind KDir)) = pa s P5.
  Proof. intro s. eexists. split; [reflexivity|]. reflexivity. Qed.

  Lemma pa5 : forall s, exists k, pa s P5 = Do (CStat (filep s)) k /\
      k (FOk (RKind KNone)) = pa s P6 /\ k (FOk (RKind KFile)) = pa s P10.
  Proof. intro s. eexists. split; [reflexivity|]. split; reflexivity. Qed.

  Lemma pa6 : forall s, exists k, pa s P6 = Do (COpenW (tmpp s)) k /\ k (FOk RUnit) = pa s P7.
  Proof.
    intro s. unfold pa, K1r, sp_save, json_save, nx. cbn [is_file_r]. rewrite !tmpname_file.
    eexists. split; [reflexivity|]. reflexivity.
  Qed.

  Lemma pa7 : forall s, exists k, pa s P7 = Do (CWrite (tmpp s) (jc s)) k /\ k (FOk RUnit) = pa s P8.
  Proof.
    intro s. unfold pa, K1r, sp_save, json_save, nx. cbn [is_file_r]. rewrite !tmpname_file.
    eexists. split; [reflexivity|]. reflexivity.
  Qed.

  Lemma pa8 : forall s, exists k, pa s P8 = Do (CClose (tmpp s)) k /\ k (FOk RUnit) = pa s P9.
  Proof.
    intro s. unfold pa, K1r, sp_save, json_save, nx. cbn [is_file_r]. rewrite !tmpname_file.
    eexists. split; [reflexivity|]. reflexivity.
  Qed.

  Lemma pa9 : forall s, exists k, pa s P9 = Do (CRename (tmpp s) (filep s)) k /\ k (FOk RUnit) = pa s P10.
  Proof.
    intro s. unfold pa, K1r, sp_save, json_save, nx. cbn [is_file_r]. rewrite !tmpname_file.
    eexists. split; [reflexivity|]. reflexivity.
  Qed.

  Lemma pa10 : forall s, exists k, pa s P10 = Do (CRead (filep s)) k /\
      forall c v, c_json c = Some v -> (is_jnull v = false /\ calc_id frepr v = jid s) -> k (FOk (RData c)) = pa s PD.
  Proof.
    intro s. eexists. split; [reflexivity|].
    intros c v Hj [Hn Hv]. cbn. rewrite Hj, Hn, Hv, str_eqb_refl. reflexivity.
  Qed.

  (* ---- path facts *)
  Lemma len_dirp : forall s, length (dirp s) = S (length ws).
  Proof. intro s. unfold dirp. rewrite app_length. simpl. lia. Qed.
  Lemma len_filep : forall s, length (filep s) = S (S (length ws)).
  Proof. intro s. unfold filep. rewrite app_length, len_dirp. simpl. lia. Qed.
  Lemma len_tmpp : forall s, length (tmpp s) = S (S (length ws)).
  Proof. intro s. unfold tmpp. rewrite app_length, len_dirp. simpl. lia. Qed.

  Lemma dirp_ne_filep : forall s t, dirp s <> filep t.
  Proof. intros s t E. assert (L : length (dirp s) = length (filep t)) by (rewrite E; reflexivity). rewrite len_dirp, len_filep in L. lia. Qed.
  Lemma dirp_ne_tmpp : forall s t, dirp s <> tmpp t.
  Proof. intros s t E. assert (L : length (dirp s) = length (tmpp t)) by (rewrite E; reflexivity). rewrite len_dirp, len_tmpp in L. lia. Qed.
  Lemma filep_ne_tmpp : forall s t, filep s <> tmpp t.
  Proof.
    intros s t E. unfold filep, tmpp in E. apply app_inj_tail in E. destruct E as [_ E].
    unfold tname in E. discriminate.
  Qed.
  Lemma ws_ne_dirp : forall s, ws <> dirp s.
  Proof. intros s E. assert (L : length ws = length (dirp s)) by (rewrite <- E; reflexivity). rewrite len_dirp in L. lia. Qed.
  Lemma ws_ne_filep : forall s, ws <> filep s.
  Proof. intros s E. assert (L : length ws = length (filep s)) by (rewrite <- E; reflexivity). rewrite len_filep in L. lia. Qed.
  Lemma ws_ne_tmpp : forall s, ws <> tmpp s.
  Proof. intros s E. assert (L : length ws = length (tmpp s)) by (rewrite <- E; reflexivity). rewrite len_tmpp in L. lia. Qed.
  Lemma tmpp_inj : forall s t, tmpp s = tmpp t -> r_tag s = r_tag t.
  Proof.
    intros s t E. unfold tmpp in E. apply app_inj_tail in E. destruct E as [_ E].
    unfold tname in E. apply app_inv_head in E. apply app_inv_tail in E. exact E.
  Qed.
  Lemma filep_inj : forall s t, filep s = filep t -> dirp s = dirp t /\ jid s = jid t.
  Proof.
    intros s t E. unfold filep in E. apply app_inj_tail in E. destruct E as [E _]. split; auto.
    unfold dirp in E. apply app_inv_head in E. inversion E. reflexivity.
  Qed.
  Lemma dirp_inj : forall s t, dirp s = dirp t -> jid s = jid t /\ filep s = filep t.
  Proof.
    intros s t E. split; [|unfold filep; rewrite E; reflexivity].
    unfold dirp in E. apply app_inv_head in E. inversion E. reflexivity.
  Qed.
  Lemma par_filep : forall s, parent (filep s) = dirp s. Proof. intro s. apply parent_snoc. Qed.
  Lemma par_tmpp : forall s, parent (tmpp s) = dirp s. Proof. intro s. apply parent_snoc. Qed.
  Lemma par_dirp : forall s, parent (dirp s) = ws. Proof. intro s. apply parent_snoc. Qed.

  (* ---- the invariant *)
  Variable f0 : fs.
  Variable specs : list rspec.
  Hypothesis Hws0 : get f0 ws = Some Dir.
  Hypothesis Htags : NoDup (map r_tag specs).
  Hypothesis Hsame : forall s t, In s specs -> In t specs -> jid s = jid t -> r_sp s = r_sp t.
  Hypothesis Hspnn : forall s, In s specs -> is_jnull (r_sp s) = false.

  Definition validf (f : fs) (s : rspec) : Prop :=
    exists c v, get f (filep s) = Some (File c) /\ c_json c = Some v /\ (is_jnull v = false /\ calc_id frepr v = jid s).

  Definition pre_ok (s : rspec) : Prop :=
    (get f0 (dirp s) = None \/ get f0 (dirp s) = Some Dir) /\
    (get f0 (filep s) = None \/ validf f0 s) /\
    get f0 (tmpp s) = None /\
    (get f0 (filep s) <> None -> get f0 (dirp s) = Some Dir).
  Hypothesis Hpre : forall s, In s specs -> pre_ok s.

  Definition owned (q : path) : Prop := exists s, In s specs /\ (q = dirp s \/ q = filep s \/ q = tmpp s).

  Definition G (f : fs) : Prop :=
    (forall q, ~ owned q -> get f q = get f0 q) /\
    (forall s, In s specs -> get f (dirp s) = get f0 (dirp s) \/ get f (dirp s) = Some Dir) /\
    (forall s, In s specs -> (validf f0 s -> get f (filep s) = get f0 (filep s)) /\
                             (get f0 (filep s) = None -> get f (filep s) = None \/ get f (filep s) = Some (File (jc s)))) /\
    (forall s, In s specs -> get f (tmpp s) = None \/ exists c, get f (tmpp s) = Some (File c)) /\
    (forall s, In s specs -> get f (filep s) <> None -> get f (dirp s) = Some Dir).

  Lemma G_init : G f0.
  Proof.
    repeat split; auto.
    - intros s Hs. left. destruct (Hpre s Hs) as [_ [_ [Ht _]]]. exact Ht.
    - intros s Hs. apply (Hpre s Hs).
  Qed.

  Lemma G_ws : forall f, G f -> get f ws = Some Dir.
  Proof.
    intros f [g1 _]. rewrite g1; auto. intros [s [_ [E|[E|E]]]].
    - apply (ws_ne_dirp s E). - apply (ws_ne_filep s E). - apply (ws_ne_tmpp s E).
  Qed.

  Lemma jc_valid_s : forall s, c_json (jc s) = Some (r_sp s) /\ calc_id frepr (r_sp s) = jid s.
  Proof. intro s. split; reflexivity. Qed.

  Lemma tag_inj : forall s t, In s specs -> In t specs -> r_tag s = r_tag t -> s = t.
  Proof.
    intros s t Hs Ht E. clear - Htags Hs Ht E. induction specs as [|x l IH]; [contradiction|].
    simpl in Htags. inversion Htags as [|? ? Hn Hnd]; subst.
    destruct Hs as [->|Hs], Ht as [->|Ht]; auto.
    - exfalso. apply Hn. rewrite E. apply in_map. exact Ht.
    - exfalso. apply Hn. rewrite <- E. apply in_map. exact Hs.
  Qed.

  (* ---- local assertions *)
  Definition tmpN (s : rspec) (f : fs) : Prop := get f (tmpp s) = None.
  Definition abs0 (s : rspec) : Prop := get f0 (filep s) = None.
  Definition dirD (s : rspec) (f : fs) : Prop := get f (dirp s) = Some Dir.

  Definition L (s : rspec) (p : pt) (f : fs) : Prop :=
    match p with
    | P0 | P1 => tmpN s f
    | P2 | P3 | P4 => tmpN s f /\ abs0 s
    | P4b | P5 | P6 => tmpN s f /\ abs0 s /\ dirD s f
    | P7 => abs0 s /\ dirD s f /\ get f (tmpp s) = Some (File empty_content)
    | P8 | P9 => abs0 s /\ dirD s f /\ get f (tmpp s) = Some (File (jc s))
    | P10 | PD => tmpN s f /\ validf f s
    end.

  (* what a step of actor t may do to the tree *)
  Definition Guar (t : rspec) (f f' : fs) : Prop :=
    (forall q, q <> dirp t -> q <> filep t -> q <> tmpp t -> get f' q = get f q) /\
    (get f (dirp t) = Some Dir -> get f' (dirp t) = Some Dir) /\
    (get f (filep t) <> None -> get f' (filep t) = get f (filep t)).

  Lemma Guar_refl : forall t f, Guar t f f.
  Proof. intros t f. repeat split; auto. Qed.

  Lemma Guar_trans : forall t f1 f2 f3, Guar t f1 f2 -> Guar t f2 f3 -> Guar t f1 f3.
  Proof.
    intros t f1 f2 f3 [A1 [A2 A3]] [B1 [B2 B3]]. repeat split.
    - intros q H1 H2 H3. rewrite B1, A1; auto.
    - auto.
    - intro H. rewrite B3; [apply A3; exact H|]. rewrite A3; auto.
  Qed.

  Lemma L_stable : forall s t p f f', In s specs -> In t specs -> s <> t -> Guar t f f' -> L s p f -> L s p f'.
  Proof.
    intros s t p f f' Hs Ht Hne [A1 [A2 A3]] HL.
    assert (Htmp : get f' (tmpp s) = get f (tmpp s)).
    { apply A1.
      - intro E. apply (dirp_ne_tmpp t s). auto.
      - intro E. apply (filep_ne_tmpp t s). auto.
      - intro E. apply Hne. apply tag_inj; auto. apply tmpp_inj. exact E. }
    assert (Hdir : dirD s f -> dirD s f').
    { unfold dirD. intro Hd. destruct (path_eq_dec (dirp s) (dirp t)) as [E|E].
      - rewrite E in *. auto.
      - rewrite A1; auto. apply dirp_ne_filep. apply dirp_ne_tmpp. }
    assert (Hval : validf f s -> validf f' s).
    { intros [c [v [Hg [Hj Hv]]]]. exists c, v. split; auto.
      destruct (path_eq_dec (filep s) (filep t)) as [E|E].
      - rewrite E in *. rewrite A3; auto. congruence.
      - rewrite A1; auto. intro E'. apply (dirp_ne_filep t s). auto. apply filep_ne_tmpp. }
    unfold tmpN in *.
    destruct p; cbn [L] in *; unfold tmpN in *; repeat match goal with H : _ /\ _ |- _ => destruct H end;
      repeat split; auto; try (rewrite Htmp; assumption).
  Qed.

  Lemma validf_same_file : forall f s t, filep t = filep s -> validf f s -> validf f t.
  Proof.
    intros f s t E [c [v [Hg [Hj [Hn Hv]]]]]. exists c, v. rewrite E. split; auto. split; auto. split; auto.
    destruct (filep_inj t s E) as [_ Ej]. congruence.
  Qed.

  Lemma G_step : forall s f f', G f -> In s specs -> Guar s f f' ->
    (get f' (dirp s) = get f0 (dirp s) \/ get f' (dirp s) = Some Dir) ->
    ((validf f0 s -> get f' (filep s) = get f0 (filep s)) /\
     (get f0 (filep s) = None -> get f' (filep s) = None \/ get f' (filep s) = Some (File (jc s)))) ->
    (get f' (tmpp s) = None \/ exists c, get f' (tmpp s) = Some (File c)) ->
    (get f' (filep s) <> None -> get f' (dirp s) = Some Dir) ->
    G f'.
  Proof.
    intros s f f' [g1 [g2 [g3 [g4 g5]]]] Hs [A1 [A2 A3]] o2 o3 o4 o5. repeat split.
    - intros q Hq. rewrite A1; [apply g1; exact Hq| | |]; intro E; apply Hq; exists s; auto.
    - intros t Ht. destruct (path_eq_dec (dirp t) (dirp s)) as [E|E].
      + rewrite E. exact o2.
      + rewrite A1; auto. apply dirp_ne_filep. apply dirp_ne_tmpp.
    - intros Hv. destruct (path_eq_dec (filep s0) (filep s)) as [E|E].
      + rewrite E. apply (proj1 o3). apply (validf_same_file f0 s0 s); auto.
      + rewrite A1; auto; [apply (proj1 (g3 s0 H)); exact Hv| |apply filep_ne_tmpp].
        intro E'. apply (dirp_ne_filep s s0). auto.
    - intros Hn. destruct (path_eq_dec (filep s0) (filep s)) as [E|E].
      + rewrite E in *. destruct (filep_inj s0 s E) as [_ Ej].
        assert (Ejc : jc s0 = jc s) by (unfold jc; rewrite (Hsame s0 s H Hs Ej); reflexivity).
        rewrite Ejc. apply (proj2 o3). exact Hn.
      + rewrite A1; auto; [apply (proj2 (g3 s0 H)); exact Hn| |apply filep_ne_tmpp].
        intro E'. apply (dirp_ne_filep s s0). auto.
    - intros t Ht. destruct (path_eq_dec (tmpp t) (tmpp s)) as [E|E].
      + rewrite E. exact o4.
      + rewrite A1; auto. intro E'. apply (dirp_ne_tmpp s t). auto. intro E'. apply (filep_ne_tmpp s t). auto.
    - intros t Ht Hn. destruct (path_eq_dec (filep t) (filep s)) as [E|E].
      + destruct (filep_inj t s E) as [Ed _]. rewrite Ed. apply o5. rewrite <- E. exact Hn.
      + assert (Hf : get f' (filep t) = get f (filep t)).
        { apply A1; auto. intro E'. apply (dirp_ne_filep s t). auto. apply filep_ne_tmpp. }
        rewrite Hf in Hn. pose proof (g5 t Ht Hn) as Hd.
        destruct (path_eq_dec (dirp t) (dirp s)) as [Ed|Ed].
        * rewrite Ed in *. auto.
        * rewrite A1; auto. apply dirp_ne_filep. apply dirp_ne_tmpp.
  Qed.

  Lemma exec_read_file : forall f p c, get f p = Some (File c) -> exec_res f (CRead p) = (f, FOk (RData c)).
  Proof. intros f p c H. unfold exec_res. cbn [exec]. rewrite H. reflexivity. Qed.
  Lemma exec_read_none : forall f p, get f p = None -> exec_res f (CRead p) = (f, FErr ENOENT).
  Proof. intros f p H. unfold exec_res. cbn [exec]. rewrite H. reflexivity. Qed.

  Lemma G_same : forall s f, G f -> In s specs ->
    (get f (dirp s) = get f0 (dirp s) \/ get f (dirp s) = Some Dir) /\
    ((validf f0 s -> get f (filep s) = get f0 (filep s)) /\
     (get f0 (filep s) = None -> get f (filep s) = None \/ get f (filep s) = Some (File (jc s)))) /\
    (get f (tmpp s) = None \/ exists c, get f (tmpp s) = Some (File c)) /\
    (get f (filep s) <> None -> get f (dirp s) = Some Dir).
  Proof. intros s f [g1 [g2 [g3 [g4 g5]]]] Hs. repeat split; auto; apply g3; auto. Qed.

  Definition step_goal (s : rspec) (f : fs) (c : call) (k : fres val -> prog (list aobs)) : Prop :=
    exists p', k (snd (exec_res f c)) = pa s p' /\ L s p' (fst (exec_res f c)) /\
               G (fst (exec_res f c)) /\ Guar s f (fst (exec_res f c)).

  Ltac same_state P HG := exists P; split; [first [reflexivity|assumption|idtac]|split; [cbn [L]; repeat split; auto|split; [exact HG|apply Guar_refl]]].

  Lemma step_ok : forall s p f c k, In s specs -> G f -> L s p f -> pa s p = Do c k -> step_goal s f c k.
  Proof.
    intros s p f c k Hs HG HL Hpa. unfold step_goal.
    destruct (G_same s f HG Hs) as [q2 [[q3a q3b] [q4 q5]]].
    destruct (Hpre s Hs) as [pd [pf [pt0 pfd]]]. pose proof (Hspnn s Hs) as Hnn.
    assert (Hjcv : is_jnull (r_sp s) = false /\ calc_id frepr (r_sp s) = jid s) by (split; [exact Hnn|reflexivity]).
    destruct p; cbn [L] in HL.
    - (* P0 *) rewrite pa0 in Hpa. injection Hpa as <- <-.
      rewrite exec_res_stat, (G_ws f HG). cbn [fst snd kind_of is_dir_r]. same_state P1 HG.
    - (* P1 *) destruct (pa1 s) as [k0 [E [Hk1 Hk2]]]. rewrite E in Hpa. injection Hpa as <- <-.
      destruct pf as [pf|pf].
      + destruct (q3b pf) as [Hn|Hj].
        * rewrite (exec_read_none f _ Hn). cbn [fst snd]. rewrite Hk1. same_state P2 HG.
        * rewrite (exec_read_file f _ _ Hj). cbn [fst snd].
          rewrite (Hk2 (jc s) (r_sp s) eq_refl Hjcv). same_state PD HG.
          exists (jc s), (r_sp s). auto.
      + pose proof pf as [c0 [v [Hg [Hj Hv]]]]. rewrite <- (q3a pf) in Hg.
        rewrite (exec_read_file f _ _ Hg). cbn [fst snd]. rewrite (Hk2 c0 v Hj Hv). same_state PD HG.
        exists c0, v. auto.
    - (* P2 *) destruct HL as [Ht Ha]. destruct (pa2 s) as [k0 [E [Hk1 Hk2]]]. rewrite E in Hpa. injection Hpa as <- <-.
      rewrite exec_res_stat. cbn [fst snd].
      assert (Hd : get f (dirp s) = None \/ get f (dirp s) = Some Dir).
      { destruct q2 as [q2|q2]; [rewrite q2; exact pd|auto]. }
      destruct Hd as [Hd|Hd]; rewrite Hd; cbn [kind_of].
      + rewrite Hk2. same_state P3 HG.
      + rewrite Hk1. same_state P5 HG.
    - (* P3 *) destruct HL as [Ht Ha]. destruct (pa3 s) as [k0 [E Hk1]]. rewrite E in Hpa. injection Hpa as <- <-.
      rewrite exec_res_stat, (G_ws f HG). cbn [fst snd kind_of]. rewrite Hk1. same_state P4 HG.
    - (* P4 *) destruct HL as [Ht Ha]. destruct (pa4 s) as [k0 [E [Hk1 Hk2]]]. rewrite E in Hpa. injection Hpa as <- <-.
      assert (Hd : get f (dirp s) = None \/ get f (dirp s) = Some Dir).
      { destruct q2 as [q2|q2]; [rewrite q2; exact pd|auto]. }
      destruct Hd as [Hd|Hd].
      + destruct (mkdir_ok f (dirp s) Hd) as [f' [Ef Hf]]; [rewrite par_dirp; apply (G_ws f HG)|].
        rewrite Ef. cbn [fst snd]. rewrite Hk1.
        assert (Hsame' : forall q, q <> dirp s -> get f' q = get f q).
        { intros q Hq. rewrite Hf. apply path_eqb_neq in Hq. rewrite Hq. reflexivity. }
        assert (Hdir' : get f' (dirp s) = Some Dir) by (rewrite Hf, path_eqb_refl; reflexivity).
        assert (Hfile' : get f' (filep s) = get f (filep s)) by (apply Hsame'; intro Q; apply (dirp_ne_filep s s); auto).
        assert (Htmp' : get f' (tmpp s) = get f (tmpp s)) by (apply Hsame'; intro Q; apply (dirp_ne_tmpp s s); auto).
        assert (HGu : Guar s f f') by (split; [intros; apply Hsame'; auto|split; [auto|intros; exact Hfile']]).
        exists P5. split; [reflexivity|]. split; [|split; [|exact HGu]].
        * cbn [L]. unfold tmpN, dirD. rewrite Htmp'. auto.
        * apply (G_step s f f' HG Hs HGu); rewrite ?Hfile', ?Htmp'; auto.
      + assert (Ef : exec_res f (CMkdir (dirp s)) = (f, FErr EEXIST)).
        { unfold exec_res. cbn [exec]. unfold mkdir. rewrite Hd. reflexivity. }
        rewrite Ef. cbn [fst snd]. rewrite Hk2. same_state P4b HG.
    - (* P4b *) destruct HL as [Ht [Ha Hd]]. destruct (pa4b s) as [k0 [E Hk1]]. rewrite E in Hpa. injection Hpa as <- <-.
      rewrite exec_res_stat. unfold dirD in Hd. rewrite Hd. cbn [fst snd kind_of]. rewrite Hk1. same_state P5 HG.
    - (* P5 *) destruct HL as [Ht [Ha Hd]]. destruct (pa5 s) as [k0 [E [Hk1 Hk2]]]. rewrite E in Hpa. injection Hpa as <- <-.
      rewrite exec_res_stat. cbn [fst snd]. destruct (q3b Ha) as [Hn|Hj]; [rewrite Hn|rewrite Hj]; cbn [kind_of].
      + rewrite Hk1. same_state P6 HG.
      + rewrite Hk2. same_state P10 HG. exists (jc s), (r_sp s). auto.
    - (* P6 *) destruct HL as [Ht [Ha Hd]]. destruct (pa6 s) as [k0 [E Hk1]]. rewrite E in Hpa. injection Hpa as <- <-.
      destruct (openw_ok f (tmpp s)) as [f' [Ef Hf]]; [rewrite Ht; discriminate|rewrite par_tmpp; exact Hd|].
      rewrite Ef. cbn [fst snd]. rewrite Hk1.
      assert (Hsame' : forall q, q <> tmpp s -> get f' q = get f q).
      { intros q Hq. rewrite Hf. apply path_eqb_neq in Hq. rewrite Hq. reflexivity. }
      assert (Htmp' : get f' (tmpp s) = Some (File empty_content)) by (rewrite Hf, path_eqb_refl; reflexivity).
      assert (Hdir' : get f' (dirp s) = get f (dirp s)) by (apply Hsame'; apply dirp_ne_tmpp).
      assert (Hfile' : get f' (filep s) = get f (filep s)) by (apply Hsame'; apply filep_ne_tmpp).
      assert (HGu : Guar s f f') by (split; [intros; apply Hsame'; auto|split; [intros; rewrite Hdir'; auto|intros; exact Hfile']]).
      exists P7. split; [reflexivity|]. split; [|split; [|exact HGu]].
      * cbn [L]. unfold dirD. rewrite Hdir'. auto.
      * apply (G_step s f f' HG Hs HGu); rewrite ?Hfile', ?Hdir'; eauto.
    - (* P7 *) destruct HL as [Ha [Hd Htm]]. destruct (pa7 s) as [k0 [E Hk1]]. rewrite E in Hpa. injection Hpa as <- <-.
      destruct (write_open_ok f (tmpp s) _ (jc s) Htm) as [f' [Ew Hf]]; [rewrite par_tmpp; exact Hd|].
      assert (Ef : exec_res f (CWrite (tmpp s) (jc s)) = (f', FOk RUnit)) by (unfold exec_res; cbn [exec]; rewrite Ew; reflexivity).
      rewrite Ef. cbn [fst snd]. rewrite Hk1.
      assert (Hsame' : forall q, q <> tmpp s -> get f' q = get f q).
      { intros q Hq. rewrite Hf. apply path_eqb_neq in Hq. rewrite Hq. reflexivity. }
      assert (Htmp' : get f' (tmpp s) = Some (File (jc s))) by (rewrite Hf, path_eqb_refl; reflexivity).
      assert (Hdir' : get f' (dirp s) = get f (dirp s)) by (apply Hsame'; apply dirp_ne_tmpp).
      assert (Hfile' : get f' (filep s) = get f (filep s)) by (apply Hsame'; apply filep_ne_tmpp).
      assert (HGu : Guar s f f') by (split; [intros; apply Hsame'; auto|split; [intros; rewrite Hdir'; auto|intros; exact Hfile']]).
      exists P8. split; [reflexivity|]. split; [|split; [|exact HGu]].
      * cbn [L]. unfold dirD. rewrite Hdir'. auto.
      * apply (G_step s f f' HG Hs HGu); rewrite ?Hfile', ?Hdir'; eauto.
    - (* P8 *) destruct (pa8 s) as [k0 [E Hk1]]. rewrite E in Hpa. injection Hpa as <- <-.
      unfold exec_res. cbn [exec fst snd]. rewrite Hk1. exists P9. split; [reflexivity|]. split; [exact HL|]. split; [exact HG|apply Guar_refl].
    - (* P9 *) destruct HL as [Ha [Hd Htm]]. destruct (pa9 s) as [k0 [E Hk1]]. rewrite E in Hpa. injection Hpa as <- <-.
      assert (Hfd : get f (filep s) <> Some Dir) by (destruct (q3b Ha) as [Q|Q]; rewrite Q; discriminate).
      destruct (rename_file_ok f (tmpp s) (filep s) (jc s) Htm) as [f' [Ef Hf]];
        [rewrite par_filep; exact Hd|apply not_eq_sym; apply filep_ne_tmpp|exact Hfd|].
      rewrite Ef. cbn [fst snd]. rewrite Hk1.
      assert (Hfile' : get f' (filep s) = Some (File (jc s))) by (rewrite Hf, path_eqb_refl; reflexivity).
      assert (Htmp' : get f' (tmpp s) = None).
      { rewrite Hf. assert (Q : path_eqb (tmpp s) (filep s) = false) by (apply path_eqb_neq; apply not_eq_sym; apply filep_ne_tmpp).
        rewrite Q, path_eqb_refl. reflexivity. }
      assert (Hsame' : forall q, q <> filep s -> q <> tmpp s -> get f' q = get f q).
      { intros q Q1 Q2. rewrite Hf. apply path_eqb_neq in Q1, Q2. rewrite Q1, Q2. reflexivity. }
      assert (Hdir' : get f' (dirp s) = Some Dir) by (rewrite Hsame'; [exact Hd|apply dirp_ne_filep|apply dirp_ne_tmpp]).
      assert (HGu : Guar s f f').
      { split; [intros; apply Hsame'; auto|split; [auto|]]. intro Hn. rewrite Hfile'. destruct (q3b Ha) as [Q|Q]; congruence. }
      exists P10. split; [reflexivity|]. split; [|split; [|exact HGu]].
      * cbn [L]. split; [exact Htmp'|]. exists (jc s), (r_sp s). auto.
      * apply (G_step s f f' HG Hs HGu); rewrite ?Hfile', ?Hdir', ?Htmp'; auto.
        split; [|auto]. intros [c0 [v0 [Q _]]]. unfold abs0 in Ha. congruence.
    - (* P10 *) destruct HL as [Ht Hv]. destruct (pa10 s) as [k0 [E Hk1]]. rewrite E in Hpa. injection Hpa as <- <-.
      pose proof Hv as [c0 [v [Hg [Hj Hvv]]]].
      rewrite (exec_read_file f _ _ Hg). cbn [fst snd]. rewrite (Hk1 c0 v Hj Hvv). same_state PD HG.
    - (* PD *) discriminate.
  Qed.

  (* ---- the whole system *)
  Definition Rl (f : fs) (s : rspec) (p : prog (list aobs)) : Prop := exists q, p = pa s q /\ L s q f.

  Lemma nodup_specs : NoDup specs.
  Proof. apply (NoDup_map_inv r_tag). exact Htags. Qed.

  Lemma Forall2_impl_in : forall X Y (R R' : X -> Y -> Prop) (l1 : list X) (l2 : list Y),
    Forall2 R l1 l2 -> (forall t p, In t l1 -> R t p -> R' t p) -> Forall2 R' l1 l2.
  Proof.
    intros X Y R R' l1 l2 H. induction H as [|t p l1 l2 Hr Hrest IH]; intros Himp; constructor.
    - apply Himp; auto. left. reflexivity.
    - apply IH. intros t0 p0 Hin Hr0. apply Himp; auto. right. exact Hin.
  Qed.

  Lemma Forall2_upd : forall X Y (R R' : X -> Y -> Prop) (l1 : list X) (l2 : list Y) a x y,
    Forall2 R l1 l2 -> NoDup l1 -> nth_error l1 a = Some x -> R' x y ->
    (forall t p, In t l1 -> t <> x -> R t p -> R' t p) -> Forall2 R' l1 (upd_nth a y l2).
  Proof.
    intros X Y R R' l1 l2 a x y H. revert a. induction H as [|t p l1 l2 Hr Hrest IH]; intros a Hnd Hn Hx Hoth.
    - destruct a; discriminate.
    - inversion Hnd as [|? ? Hnotin Hnd']; subst. destruct a as [|a]; simpl in *.
      + injection Hn as ->. constructor; auto.
        apply (Forall2_impl_in _ _ R R' l1 l2 Hrest). intros t0 p0 Hin Hr0.
        apply Hoth; [right; exact Hin| |exact Hr0]. intro E. subst. contradiction.
      + constructor.
        * apply Hoth; [left; reflexivity| |exact Hr]. intro E. subst. apply Hnotin. eapply nth_error_In; eauto.
        * apply (IH a); auto.
  Qed.

  Lemma pa_do_or_done : forall s q, q = PD \/ exists c k, pa s q = Do c k.
  Proof.
    intros s q. destruct q; auto; right.
    - rewrite pa0. eauto.
    - destruct (pa1 s) as [k [E _]]. eauto.
    - destruct (pa2 s) as [k [E _]]. eauto.
    - destruct (pa3 s) as [k [E _]]. eauto.
    - destruct (pa4 s) as [k [E _]]. eauto.
    - destruct (pa4b s) as [k [E _]]. eauto.
    - destruct (pa5 s) as [k [E _]]. eauto.
    - destruct (pa6 s) as [k [E _]]. eauto.
    - destruct (pa7 s) as [k [E _]]. eauto.
    - destruct (pa8 s) as [k [E _]]. eauto.
    - destruct (pa9 s) as [k [E _]]. eauto.
    - destruct (pa10 s) as [k [E _]]. eauto.
  Qed.

  Definition RI (f : fs) (ps : list (prog (list aobs))) : Prop := G f /\ Forall2 (Rl f) specs ps.

  Lemma Forall2_nth : forall X Y (R : X -> Y -> Prop) l1 l2 a y, Forall2 R l1 l2 -> nth_error l2 a = Some y ->
    exists x, nth_error l1 a = Some x /\ R x y.
  Proof.
    intros X Y R l1 l2 a y H. revert a. induction H; intros [|a] Hn; simpl in *; try discriminate.
    - injection Hn as <-. eauto.
    - eauto.
  Qed.

  Lemma istep_RI : forall f ps a, RI f ps -> RI (fst (istep (f, ps) a)) (snd (istep (f, ps) a)).
  Proof.
    intros f ps a [HG HF]. unfold istep. destruct (nth_error ps a) as [p|] eqn:En; [|split; auto].
    destruct p as [x|e|c k]; [split; auto|split; auto|].
    destruct (Forall2_nth _ _ _ _ _ a _ HF En) as [s [Es [q [Hp HL]]]].
    assert (Hs : In s specs) by (eapply nth_error_In; eauto).
    destruct (step_ok s q f c k Hs HG HL (eq_sym Hp)) as [q' [Hk [HL' [HG' HGu]]]].
    destruct (exec_res f c) as [f' r]. cbn [fst snd] in *. split; auto.
    apply (Forall2_upd _ _ (Rl f) (Rl f') specs ps a s (k r) HF nodup_specs Es).
    - exists q'. auto.
    - intros t p Ht Hne [qt [Hpt HLt]]. exists qt. split; auto. apply (L_stable t s qt f f'); auto.
  Qed.

  Lemma irun_RI : forall sched f ps, RI f ps -> RI (fst (irun sched (f, ps))) (snd (irun sched (f, ps))).
  Proof.
    induction sched as [|a sched IH]; intros f ps H; [exact H|].
    change (irun (a :: sched) (f, ps)) with (irun sched (istep (f, ps) a)).
    pose proof (istep_RI f ps a H) as H1. destruct (istep (f, ps) a) as [f1 ps1]. apply IH. exact H1.
  Qed.

  Lemma run_RI : forall p s q f, In s specs -> p = pa s q -> G f -> L s q f ->
    exists f', run p f = (f', inl [OUnit; OUnit]) /\ G f' /\ L s PD f' /\ Guar s f f'.
  Proof.
    induction p as [x|e|c k IH]; intros s q f Hs Hp HG HL.
    - destruct (pa_do_or_done s q) as [->|[c [k E]]]; [|congruence].
      simpl in Hp. injection Hp as ->. exists f. split; [reflexivity|]. split; [exact HG|]. split; [exact HL|apply Guar_refl].
    - destruct (pa_do_or_done s q) as [->|[c [k E]]]; [simpl in Hp; discriminate|congruence].
    - destruct (step_ok s q f c k Hs HG HL (eq_sym Hp)) as [q' [Hk [HL' [HG' HGu]]]].
      simpl. destruct (exec_res f c) as [f1 r]. cbn [fst snd] in *.
      destruct (IH r s q' f1 Hs Hk HG' HL') as [f' [Er [HG2 [HL2 HGu2]]]].
      exists f'. split; auto. split; auto. split; auto. eapply Guar_trans; eauto.
  Qed.

  Lemma finish_RI : forall ss ps f,
    (forall s, In s ss -> In s specs) -> NoDup ss -> G f -> Forall2 (Rl f) ss ps ->
    exists f', finish f ps = (f', map (fun _ => inl [OUnit; OUnit]) ss) /\ G f' /\
               (forall s, In s ss -> L s PD f') /\
               (forall t q, In t specs -> ~ In t ss -> L t q f -> L t q f').
  Proof.
    intros ss ps f Hsub Hnd HG HF. revert f HG HF. revert Hsub Hnd ps.
    induction ss as [|s ss IH]; intros Hsub Hnd ps f HG HF.
    - inversion HF; subst. exists f. simpl. split; [reflexivity|]. split; [exact HG|]. split; [intros s []|auto].
    - inversion HF as [|? p ? ps' [q [Hp HL]] Hrest]; subst. inversion Hnd as [|? ? Hnotin Hnd']; subst.
      assert (Hs : In s specs) by (apply Hsub; left; reflexivity).
      destruct (run_RI (pa s q) s q f Hs eq_refl HG HL) as [f1 [Er [HG1 [HL1 HGu]]]].
      assert (HF1 : Forall2 (Rl f1) ss ps').
      { apply (Forall2_impl_in _ _ (Rl f) (Rl f1) ss ps' Hrest). intros t p0 Hin [qt [Hpt HLt]].
        exists qt. split; auto. apply (L_stable t s qt f f1); auto.
        - apply Hsub. right. exact Hin.
        - intro E. subst. contradiction. }
      destruct (IH (fun t Ht => Hsub t (or_intror Ht)) Hnd' ps' f1 HG1 HF1) as [f' [Ef [HG' [HLs Hoth]]]].
      exists f'. simpl. rewrite Er, Ef. split; auto. split; auto. split.
      + intros t [<-|Ht]; [apply (Hoth s PD Hs Hnotin HL1)|apply HLs; exact Ht].
      + intros t qt Ht Hnin HLt. apply Hoth; [exact Ht|intro Hin; apply Hnin; right; exact Hin|].
        apply (L_stable t s qt f f1); auto; intro E; subst; apply Hnin; left; reflexivity.
  Qed.

  (* ---- the final state is determined *)
  Definition Fin (f : fs) : Prop := G f /\ forall s, In s specs -> L s PD f.

  Lemma owned_dec_gen : forall (l : list rspec) q,
    (exists s, In s l /\ (q = dirp s \/ q = filep s \/ q = tmpp s)) \/
    ~ (exists s, In s l /\ (q = dirp s \/ q = filep s \/ q = tmpp s)).
  Proof.
    intros l q. induction l as [|s l IH].
    - right. intros [s [[] _]].
    - destruct (path_eq_dec q (dirp s)) as [E|E1]; [left; exists s; simpl; auto|].
      destruct (path_eq_dec q (filep s)) as [E|E2]; [left; exists s; simpl; auto|].
      destruct (path_eq_dec q (tmpp s)) as [E|E3]; [left; exists s; simpl; auto|].
      destruct IH as [[t [Ht Hq]]|Hn].
      + left. exists t. simpl. auto.
      + right. intros [t [[<-|Ht] Hq]]; [intuition|]. apply Hn. eauto.
  Qed.

  Lemma owned_dec : forall q, owned q \/ ~ owned q.
  Proof. intro q. apply owned_dec_gen. Qed.

  Lemma Fin_get : forall f, Fin f -> forall s, In s specs ->
    get f (dirp s) = Some Dir /\ get f (tmpp s) = None /\
    get f (filep s) = match get f0 (filep s) with None => Some (File (jc s)) | x => x end.
  Proof.
    intros f [HG HL] s Hs. destruct (HL s Hs) as [Ht [c [v [Hg [Hj Hv]]]]].
    destruct (G_same s f HG Hs) as [q2 [[q3a q3b] [q4 q5]]].
    destruct (Hpre s Hs) as [pd [pf [pt0 pfd]]].
    split; [apply q5; congruence|]. split; [exact Ht|].
    destruct pf as [pf|pf].
    - rewrite pf. destruct (q3b pf) as [Q|Q]; congruence.
    - rewrite (q3a pf). destruct pf as [c0 [v0 [Q _]]]. rewrite Q. reflexivity.
  Qed.

  Lemma Fin_unique : forall f g, Fin f -> Fin g -> fs_eq f g.
  Proof.
    intros f g Hf Hg q. destruct (owned_dec q) as [[s [Hs Hq]]|Hn].
    - destruct (Fin_get f Hf s Hs) as [A1 [A2 A3]]. destruct (Fin_get g Hg s Hs) as [B1 [B2 B3]].
      destruct Hq as [->|[->| ->]]; congruence.
    - destruct Hf as [[g1 _] _]. destruct Hg as [[h1 _] _]. rewrite g1, h1; auto.
  Qed.

  Theorem init_race_safe_lemma : forall sched,
    let '(f1, os) := interleave sched f0 (map rprog specs) in
    os = map (fun _ => inl [OUnit; OUnit]) specs /\
    fs_eq f1 (fst (sequential f0 (map rprog specs))) /\
    (forall s, In s specs -> validf f1 s /\ get f1 (dirp s) = Some Dir /\ get f1 (tmpp s) = None) /\
    (forall q, ~ owned q -> get f1 q = get f0 q).
  Proof.
    assert (H0 : RI f0 (map rprog specs)).
    { split; [apply G_init|]. clear - Hpre. induction specs as [|s l IH]; simpl; constructor.
      - exists P0. split; [reflexivity|]. cbn [L]. destruct (Hpre s (or_introl eq_refl)) as [_ [_ [Ht _]]]. exact Ht.
      - apply IH. intros t Ht. apply Hpre. right. exact Ht. }
    assert (Hfin : forall sched, exists f1, interleave sched f0 (map rprog specs) = (f1, map (fun _ => inl [OUnit; OUnit]) specs) /\ Fin f1).
    { intro sched. unfold interleave. pose proof (irun_RI sched f0 _ H0) as [HG HF].
      destruct (irun sched (f0, map rprog specs)) as [f' ps']. cbn [fst snd] in *.
      destruct (finish_RI specs ps' f' (fun s Hs => Hs) nodup_specs HG HF) as [f1 [Ef [HG1 [HL1 _]]]].
      exists f1. split; auto. split; auto. }
    intro sched. destruct (Hfin sched) as [f1 [E1 F1]]. destruct (Hfin []) as [f2 [E2 F2]].
    rewrite E1. rewrite interleave_nil in E2. rewrite E2. cbn [fst].
    split; auto. split; [apply Fin_unique; auto|]. split.
    - intros s Hs. destruct (Fin_get f1 F1 s Hs) as [A1 [A2 _]]. destruct F1 as [_ HL]. destruct (HL s Hs) as [_ Hv]. auto.
    - destruct F1 as [[g1 _] _]. exact g1.
  Qed.
End RACE.

(* a workspace without the requested job and without stale temp files satisfies the precondition *)
Lemma pre_ok_fresh : forall frepr w1 w2 wr f0 s,
  (forall r, get f0 (dirp frepr w1 w2 wr s ++ r) = None) -> pre_ok frepr w1 w2 wr f0 s.
Proof.
  intros frepr w1 w2 wr f0 s H. unfold pre_ok. repeat split.
  - left. rewrite <- (app_nil_r (dirp frepr w1 w2 wr s)). apply H.
  - left. apply H.
  - apply H.
  - intro Hn. exfalso. apply Hn. apply H.
Qed.
