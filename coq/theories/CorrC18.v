(* CorrC18.v — observational form of C18 (schema detection and job diffs are exact summaries). *)
From SV Require Import Base Json PyVal Query Schema.

Inductive obs18 :=
| ObsSchema (s : list (str * list json))       (* key -> all reported values (every type group) *)
| ObsDiff (d : list (str * json))              (* job id -> nested diff *)
| ObsExn18 (e : exn).

Record case_C18 := {
  c18_jobs : list (str * json);     (* selected jobs (id, state point) in the index's iteration order *)
  c18_excl : bool;                  (* exclude_const (schema cases) *)
  c18_schema_case : bool;           (* true: detect_schema case; false: diff_jobs case *)
  c18_obs : obs18
}.

Definition vals_eqb (a b : list json) : bool :=
  forallb (fun x => existsb (json_eqb x) b) a && forallb (fun y => existsb (json_eqb y) a) b
  && Nat.eqb (length a) (length b).

Definition schema_eqb (a b : list (str * list json)) : bool :=
  str_set_eqb (map fst a) (map fst b) && Nat.eqb (length a) (length b) &&
  forallb (fun kv => match alookup (fst kv) b with Some w => vals_eqb (snd kv) w | None => false end) a.

Definition diffs_eqb (a b : list (str * json)) : bool :=
  str_set_eqb (map fst a) (map fst b) &&
  forallb (fun kv => match alookup (fst kv) b with
                     | Some w => pairs_set_eqb (leaf_pairs (snd kv)) (leaf_pairs w)
                     | None => false
                     end) a.

Definition mismatch_C18 (c : case_C18) : bool :=
  if c18_schema_case c then
    match c18_obs c with
    | ObsSchema s => negb (schema_eqb (detect_schema (c18_excl c) (c18_jobs c)) s)
    | _ => true
    end
  else
    match diff_jobs (c18_jobs c), c18_obs c with
    | Ok m, ObsDiff d => negb (diffs_eqb m d)
    | Err e, ObsExn18 e' => negb (exn_eqb e e')
    | _, _ => true
    end.

Definition holds_C18 (c : case_C18) : bool :=
  if c18_schema_case c then
    match c18_obs c with
    | ObsSchema s => schema_exact (c18_excl c) (c18_jobs c) s
    | _ => false
    end
  else
    match c18_obs c with
    | ObsDiff d => diff_exact (c18_jobs c) d
    | _ => false                    (* diff_jobs must not raise on valid state points *)
    end.

Definition violation_C18 (c : case_C18) : bool := negb (holds_C18 c).

(* known-finding classifiers over the input *)
Fixpoint any_pair18 (p : json -> json -> bool) (l : list json) : bool :=
  match l with [] => false | x :: r => existsb (p x) r || any_pair18 p r end.

(* tag 1: schema detection where two selected jobs hold same-slot values of different type under a key *)
Definition known1_C18 (c : case_C18) : bool :=
  c18_schema_case c &&
  existsb (fun k => any_pair18 slot_clash (values_of (c18_jobs c) k)) (ref_keys (c18_jobs c)).

(* (tag 2 -- exclude_const dropping a key under which every job holds a mapping, one of them empty --
   was repaired in /repo; Schema.schema_const models the repaired test, C18Const.v proves it exact.) *)
Definition known_tag_C18 (c : case_C18) : N :=
  if known1_C18 c then 1%N else 0%N.

Fixpoint known_aux18 (cs : list case_C18) (i : N) : list N :=
  match cs with
  | [] => []
  | c :: r => let t := known_tag_C18 c in
              if N.eqb t 0 then known_aux18 r (N.succ i) else (i * 100 + t)%N :: known_aux18 r (N.succ i)
  end.

Definition mismatches_C18 (cs : list case_C18) : list N := indices_where mismatch_C18 cs.
Definition violations_C18 (cs : list case_C18) : list N := indices_where violation_C18 cs.
Definition known_C18 (cs : list case_C18) : list N := known_aux18 cs 0%N.
