(* SyncTopProofs.v — sync_jobs and sync_projects: frames, selection, schedule independence, dry run. *)
From SV Require Import Base Json Canon Sync SyncObs CorrC13 CorrC14 SyncProofs SyncDocProofs.
From Coq Require Import Permutation.

(* ------------------------------------------------------------------ loops: outcome as a function of the steps *)
Section Loops.
  Variable A : Type.
  Variable key : A -> str.
  Variable f : A -> dir -> wstate.
  Hypothesis Hf : frame_step key f.
  Hypothesis Hl : local_step key f.

  Lemma run_steps_ok_iff : forall l d, NoDup (map key l) ->
    (snd (run_steps f l d) = None <-> forall x, In x l -> snd (f x d) = None).
  Proof.
    induction l as [|y l IH]; intros d Hnd; simpl; [tauto|].
    inversion Hnd as [|? ? Hny Hnd']; subst.
    destruct (f y d) as [d' [e|]] eqn:E.
    - simpl. split; [discriminate|]. intro H. specialize (H y (or_introl eq_refl)). rewrite E in H. exact H.
    - rewrite (IH d' Hnd').
      assert (Hd : forall x, In x l -> snd (f x d') = snd (f x d)).
      { intros x Hin. apply Hl. replace d' with (fst (f y d)) by (rewrite E; reflexivity). apply Hf.
        intro Heq. apply Hny. rewrite <- Heq. apply in_map. assumption. }
      split.
      + intros H x [->|Hin]; [rewrite E; reflexivity|]. rewrite <- Hd by assumption. auto.
      + intros H x Hin. rewrite Hd by assumption. auto.
  Qed.

  (* any processing order gives the same map and succeeds alike *)
  Lemma run_steps_perm : forall l l' d, NoDup (map key l) -> Permutation l l' ->
    snd (run_steps f l d) = None ->
    snd (run_steps f l' d) = None
    /\ forall k, alookup k (fst (run_steps f l' d)) = alookup k (fst (run_steps f l d)).
  Proof.
    intros l l' d Hnd Hp Hok.
    assert (Hnd' : NoDup (map key l')) by (eapply Permutation_NoDup; [apply Permutation_map; exact Hp|exact Hnd]).
    assert (Hok' : snd (run_steps f l' d) = None).
    { apply run_steps_ok_iff; [assumption|]. intros x Hin. apply (proj1 (run_steps_ok_iff l d Hnd) Hok).
      eapply Permutation_in; [apply Permutation_sym; exact Hp|exact Hin]. }
    split; [assumption|]. intro k.
    destruct (in_dec str_eq_dec k (map key l)) as [Hin|Hn].
    - apply in_map_iff in Hin. destruct Hin as (x & <- & Hin).
      destruct (run_steps_ok_at _ key f Hf Hl l d x Hnd Hin Hok) as [H1 _].
      assert (Hin' : In x l') by (eapply Permutation_in; eauto).
      destruct (run_steps_ok_at _ key f Hf Hl l' d x Hnd' Hin' Hok') as [H2 _].
      congruence.
    - rewrite (run_steps_frame _ key f Hf l d k Hn).
      apply (run_steps_frame _ key f Hf). intro Hin. apply Hn.
      eapply Permutation_in; [apply Permutation_sym; apply Permutation_map; exact Hp|exact Hin].
  Qed.

  Lemma run_steps_all_frame : forall l d k, ~ In k (map key l) ->
    alookup k (fst (run_steps_all f l d)) = alookup k d.
  Proof.
    induction l as [|x l IH]; simpl; intros d k Hk; [reflexivity|].
    destruct (f x d) as [d' e] eqn:E. destruct (run_steps_all f l d') as [d'' e'] eqn:E2. simpl.
    replace d'' with (fst (run_steps_all f l d')) by (rewrite E2; reflexivity).
    rewrite IH by (intro; apply Hk; right; assumption).
    replace d' with (fst (f x d)) by (rewrite E; reflexivity). apply Hf. intro; apply Hk; left; auto.
  Qed.
End Loops.

Section Top.
  Variable frepr : fl -> str.
  Variable cf : cfg.

  (* ---------------------------------------------------------------- sync_jobs *)
  Lemma sync_jobs_existing : forall o deep fp sdir ddir dsp,
    sync_jobs_m frepr cf o deep fp (Some sdir) (Some ddir) dsp =
    let '(d1, e1) := sync_ws frepr cf (S (depth (Dir sdir))) (set_top o true) deep sdir ddir [] in
    match e1 with
    | Some _ => (Some d1, e1)
    | None => let '(d2, e2) := sync_doc cf o FN_DOC sdir d1 in (Some d2, e2)
    end.
  Proof. intros. unfold sync_jobs_m. destruct (fp || o_dry_run o); reflexivity. Qed.

  (* apart from the document file (and its backup name) a job directory after sync_jobs is the result of
     the file walk *)
  Lemma sync_jobs_files : forall o deep fp sdir ddir dsp d' e k,
    sync_jobs_m frepr cf o deep fp (Some sdir) (Some ddir) dsp = (Some d', e) ->
    k <> FN_DOC -> k <> backup_name FN_DOC ->
    alookup k d' = alookup k (fst (sync_ws frepr cf (S (depth (Dir sdir))) (set_top o true) deep sdir ddir [])).
  Proof.
    intros o deep fp sdir ddir dsp d' e k H Hk Hb. rewrite sync_jobs_existing in H.
    destruct (sync_ws frepr cf (S (depth (Dir sdir))) (set_top o true) deep sdir ddir []) as [d1 e1].
    destruct e1; [inversion H; reflexivity|].
    pose proof (sync_doc_frame cf o FN_DOC sdir d1 k Hk Hb) as F.
    destruct (sync_doc cf o FN_DOC sdir d1) as [d2 e2]. inversion H; subst. exact F.
  Qed.

  (* dry run at job level: nothing changes (F4 / F16 repaired, or not needed) *)
  Theorem sync_jobs_dry_id : forall o deep fp src dst dsp,
    o_dry_run o = true -> fix_F4 cf = true \/ o_recursive o = false ->
    (forall sd, src = Some sd -> (fix_F16 cf = true \/ flat_obj (JObj (read_doc FN_DOC sd)) = true)
                                 /\ NoDup (map fst (read_doc FN_DOC sd))) ->
    fst (sync_jobs_m frepr cf o deep fp src dst dsp) = dst.
  Proof.
    intros o deep fp src dst dsp Hdry H4 Hwf. unfold sync_jobs_m. rewrite Hdry, orb_true_r.
    destruct src as [sdir|]; [|reflexivity].
    destruct dst as [ddir|]; [|destruct (fix_dryinit cf); reflexivity].
    pose proof (sync_ws_dry_id frepr cf (S (depth (Dir sdir))) (set_top o true) deep sdir ddir [] Hdry H4) as W.
    destruct (sync_ws frepr cf (S (depth (Dir sdir))) (set_top o true) deep sdir ddir []) as [d1 e1]. simpl in W. subst d1.
    destruct e1; [reflexivity|].
    pose proof (sync_doc_dry_id cf o FN_DOC sdir ddir (proj1 (Hwf sdir eq_refl)) Hdry (proj2 (Hwf sdir eq_refl))) as D.
    destruct (sync_doc cf o FN_DOC sdir ddir) as [d2 e2]. simpl in D. subst d2. reflexivity.
  Qed.

  (* ---------------------------------------------------------------- _clone_or_sync touches one job *)
  Lemma clone_or_sync_frame : forall o, frame_step (fun kn : str * node => fst kn) (clone_or_sync frepr cf o).
  Proof.
    intros o [id n] ws k Hk. simpl in Hk. unfold clone_or_sync.
    destruct n as [c m|sdir]; [reflexivity|].
    destruct (alookup id ws) as [[c m|ddir]|] eqn:E; try reflexivity.
    - destruct (sync_jobs_m frepr cf o (proj_deep cf o) true (Some sdir) (Some ddir) JNull) as [[x|] e]; simpl;
        [apply alookup_aset_other; congruence|reflexivity].
    - apply copy_tree_gen_frame. assumption.
  Qed.

  (* what a clone leaves out directly in the job directory: what a user pattern matches, except the job's own two
     files; below the job directory the user patterns alone decide (618e7cc) *)
  Definition clone_excl (o : opts) (k : str) : bool := o_exclude o k && negb (own_name k).

  (* a job that does not exist in the destination is cloned: a copy of the source job directory *)
  Lemma clone_exact : forall o id sd ws, o_dry_run o = false -> alookup id ws = None ->
    clone_or_sync frepr cf o (id, Dir sd) ws =
    (ws ++ [(id, touch (if fix_excl cf then clone_prune cf o (Dir sd) else Dir sd))], None).
  Proof. intros o id sd ws Hdry Hn. unfold clone_or_sync, copy_tree_gen. rewrite Hn, Hdry. reflexivity. Qed.

  Lemma file_same_deep : forall c1 m1 c2 m2,
    file_same frepr true c1 m1 c2 m2 = bytes_eqb (content_bytes frepr c1) (content_bytes frepr c2).
  Proof. reflexivity. Qed.

  Lemma excluded_doc : forall o, o_docsync o <> DS_copy -> excluded cf (set_top o true) FN_DOC = true.
  Proof.
    intros o H. unfold excluded, implicit_match, own_file. cbn [o_top set_top o_docsync o_exclude].
    replace (str_eqb FN_DOC FN_DOC) with true by (vm_compute; reflexivity).
    replace (re_match_lit FN_DOC FN_DOC) with true by (vm_compute; reflexivity).
    destruct (o_docsync o); try congruence; destruct (fix_own cf); destruct (fix_implicit cf);
      rewrite ?orb_true_r; reflexivity.
  Qed.

  Lemma excluded_sp : forall o, excluded cf (set_top o true) FN_SP = true.
  Proof.
    intros o. unfold excluded, implicit_match, own_file. cbn [o_top set_top o_docsync o_exclude].
    replace (str_eqb FN_SP FN_SP) with true by (vm_compute; reflexivity).
    replace (re_match_lit FN_SP FN_SP) with true by (vm_compute; reflexivity).
    destruct (fix_own cf); destruct (fix_implicit cf); rewrite ?orb_true_r; reflexivity.
  Qed.

  (* C14: with DocSync.NO_SYNC the job document is not touched at all *)
  Theorem no_sync_touches_nothing : forall o deep fp sdir ddir dsp d' e,
    o_docsync o = DS_nosync ->
    (forall es, alookup FN_DOC ddir <> Some (Dir es)) ->
    sync_jobs_m frepr cf o deep fp (Some sdir) (Some ddir) dsp = (Some d', e) ->
    alookup FN_DOC d' = alookup FN_DOC ddir.
  Proof.
    intros o deep fp sdir ddir dsp d' e Hds Hnd H. rewrite sync_jobs_existing in H.
    pose proof (sync_ws_untouched frepr cf (S (depth (Dir sdir))) (set_top o true) deep sdir ddir [] FN_DOC) as U.
    destruct (sync_ws frepr cf (S (depth (Dir sdir))) (set_top o true) deep sdir ddir []) as [d1 e1]. simpl in U.
    assert (Hex : excluded cf (set_top o true) FN_DOC = true) by (apply excluded_doc; congruence).
    rewrite <- U by (right; split; assumption).
    destruct e1; [inversion H; reflexivity|].
    rewrite (sync_doc_nosync cf o FN_DOC sdir d1 (or_introl Hds)) in H. inversion H. reflexivity.
  Qed.

  (* the state point file of an existing destination job is never touched *)
  Theorem statepoint_untouched : forall o deep fp sdir ddir dsp d' e,
    (forall es, alookup FN_SP ddir <> Some (Dir es)) ->
    sync_jobs_m frepr cf o deep fp (Some sdir) (Some ddir) dsp = (Some d', e) ->
    alookup FN_SP d' = alookup FN_SP ddir.
  Proof.
    intros o deep fp sdir ddir dsp d' e Hnd H.
    assert (N1 : FN_SP <> FN_DOC) by (vm_compute; discriminate).
    assert (N2 : FN_SP <> backup_name FN_DOC) by (vm_compute; discriminate).
    rewrite (sync_jobs_files o deep fp sdir ddir dsp d' e FN_SP H N1 N2).
    apply sync_ws_untouched. right. split; [apply excluded_sp|assumption].
  Qed.

  Lemma clone_or_sync_local : forall o, local_step (fun kn : str * node => fst kn) (clone_or_sync frepr cf o).
  Proof.
    intros o [id n] ws ws' H. cbn [fst] in H. unfold clone_or_sync.
    destruct n as [c m|sdir]; [cbn [fst snd]; auto|].
    rewrite <- H.
    destruct (alookup id ws) as [[c m|ddir]|] eqn:E.
    - cbn [fst snd]. split; congruence.
    - destruct (sync_jobs_m frepr cf o (proj_deep cf o) true (Some sdir) (Some ddir) JNull) as [[x|] e]; cbn [fst snd].
      + rewrite !alookup_aset_same. auto.
      + split; congruence.
    - apply copy_tree_gen_local. congruence.
  Qed.

  Definition sel_jobs (o : opts) (src : project) : dir := filter (fun kn => job_selected o (fst kn)) (p_ws src).

  Lemma sync_projects_ws : forall all o src dst,
    schema_conflict o src dst = false ->
    snd (sync_doc cf o FN_PDOC (p_top src) (p_top dst)) = None ->
    p_ws (fst (sync_projects_m frepr cf all o src dst)) =
    fst ((if all then run_steps_all else run_steps) (clone_or_sync frepr cf o) (sel_jobs o src) (p_ws dst)).
  Proof.
    intros all o src dst Hs Hd. unfold sync_projects_m. rewrite Hs.
    destruct (sync_doc cf o FN_PDOC (p_top src) (p_top dst)) as [top' e]. simpl in Hd. subst e.
    unfold sel_jobs.
    destruct ((if all then run_steps_all else run_steps) (clone_or_sync frepr cf o)
                (filter (fun kn => job_selected o (fst kn)) (p_ws src)) (p_ws dst)) as [ws' e']. reflexivity.
  Qed.

  (* C15: jobs outside the selection — and jobs the source does not have — are never created or modified,
     whatever the outcome, sequentially or with a thread pool *)
  Theorem selection_respected : forall all o src dst id,
    job_selected o id = false \/ alookup id (p_ws src) = None ->
    alookup id (p_ws (fst (sync_projects_m frepr cf all o src dst))) = alookup id (p_ws dst).
  Proof.
    intros all o src dst id Hid. unfold sync_projects_m.
    destruct (schema_conflict o src dst); [reflexivity|].
    destruct (sync_doc cf o FN_PDOC (p_top src) (p_top dst)) as [top' [e|]]; [reflexivity|].
    assert (Hn : ~ In id (map fst (filter (fun kn => job_selected o (fst kn)) (p_ws src)))).
    { intro Hin. apply in_map_iff in Hin. destruct Hin as ([k n] & Hk & Hin). simpl in Hk. subst k.
      apply filter_In in Hin. destruct Hin as [Hin Hs]. simpl in Hs.
      destruct Hid as [Hid|Hid]; [congruence|].
      apply alookup_None_notin in Hid. apply Hid. apply (in_map fst) in Hin. exact Hin. }
    destruct all.
    - pose proof (run_steps_all_frame _ _ _ (clone_or_sync_frame o) _ (p_ws dst) id Hn) as F.
      destruct (run_steps_all (clone_or_sync frepr cf o) (filter (fun kn => job_selected o (fst kn)) (p_ws src)) (p_ws dst)).
      exact F.
    - pose proof (run_steps_frame _ _ _ (clone_or_sync_frame o) _ (p_ws dst) id Hn) as F.
      destruct (run_steps (clone_or_sync frepr cf o) (filter (fun kn => job_selected o (fst kn)) (p_ws src)) (p_ws dst)).
      exact F.
  Qed.

  (* C15: the jobs may be processed in any order (any schedule of the pool at job granularity): if the
     sequential loop succeeds, every order succeeds and produces the same workspace *)
  Theorem parallel_eq_sequential : forall o jobs jobs' ws,
    NoDup (map fst jobs) -> Permutation jobs jobs' ->
    snd (run_steps (clone_or_sync frepr cf o) jobs ws) = None ->
    snd (run_steps (clone_or_sync frepr cf o) jobs' ws) = None
    /\ forall id, alookup id (fst (run_steps (clone_or_sync frepr cf o) jobs' ws))
                  = alookup id (fst (run_steps (clone_or_sync frepr cf o) jobs ws)).
  Proof.
    intros. apply (run_steps_perm _ (fun kn : str * node => fst kn) _ (clone_or_sync_frame o) (clone_or_sync_local o));
      assumption.
  Qed.

  (* each selected job is synchronised exactly as a job-level call would do it *)
  Theorem project_job_result : forall o jobs ws id sdir,
    NoDup (map fst jobs) -> In (id, Dir sdir) jobs ->
    snd (run_steps (clone_or_sync frepr cf o) jobs ws) = None ->
    alookup id (fst (run_steps (clone_or_sync frepr cf o) jobs ws))
    = alookup id (fst (clone_or_sync frepr cf o (id, Dir sdir) ws))
    /\ snd (clone_or_sync frepr cf o (id, Dir sdir) ws) = None.
  Proof.
    intros o jobs ws id sdir Hnd Hin Hok.
    apply (run_steps_ok_at _ (fun kn : str * node => fst kn) _ (clone_or_sync_frame o) (clone_or_sync_local o)
                           jobs ws (id, Dir sdir) Hnd Hin Hok).
  Qed.

  (* ---------------------------------------------------------------- dry run at project level *)
  Definition docs_wf (src : project) : Prop :=
    NoDup (map fst (read_doc FN_PDOC (p_top src)))
    /\ forall id sd, In (id, Dir sd) (p_ws src) -> NoDup (map fst (read_doc FN_DOC sd)).

  Theorem sync_projects_dry_id : forall all o src dst,
    o_dry_run o = true -> fix_F4 cf = true -> fix_F16 cf = true -> docs_wf src ->
    fst (sync_projects_m frepr cf all o src dst) = dst.
  Proof.
    intros all o src dst Hdry H4 H16 [Hp Hj]. unfold sync_projects_m.
    destruct (schema_conflict o src dst); [reflexivity|].
    pose proof (sync_doc_dry_id cf o FN_PDOC (p_top src) (p_top dst) (or_introl H16) Hdry Hp) as D.
    destruct (sync_doc cf o FN_PDOC (p_top src) (p_top dst)) as [top' e]. simpl in D. subst top'.
    destruct e; [destruct dst; reflexivity|].
    assert (Hid : forall kn ws, In kn (filter (fun kn => job_selected o (fst kn)) (p_ws src)) ->
                               fst (clone_or_sync frepr cf o kn ws) = ws).
    { intros [id n] ws Hin. apply filter_In in Hin. destruct Hin as [Hin _]. unfold clone_or_sync.
      destruct n as [c m|sdir]; [reflexivity|].
      destruct (alookup id ws) as [[c m|ddir]|] eqn:E; try reflexivity.
      - pose proof (sync_jobs_dry_id o (proj_deep cf o) true (Some sdir) (Some ddir) JNull Hdry (or_introl H4)) as J.
        destruct (sync_jobs_m frepr cf o (proj_deep cf o) true (Some sdir) (Some ddir) JNull) as [x e].
        simpl in J. rewrite J by (intros sd Hsd; inversion Hsd; subst; split; [left; assumption|eapply Hj; eauto]).
        simpl. apply aset_same. assumption.
      - unfold copy_tree, copy_tree_gen. rewrite Hdry, H4. reflexivity. }
    destruct all.
    - assert (R : fst (run_steps_all (clone_or_sync frepr cf o)
                                      (filter (fun kn => job_selected o (fst kn)) (p_ws src)) (p_ws dst)) = p_ws dst).
      { generalize (p_ws dst) as ws.
        induction (filter (fun kn => job_selected o (fst kn)) (p_ws src)) as [|x l IH]; intros ws; [reflexivity|].
        simpl. pose proof (Hid x ws (or_introl eq_refl)) as H1.
        destruct (clone_or_sync frepr cf o x ws) as [d' e]. simpl in H1. subst d'.
        specialize (IH (fun kn ws0 Hin => Hid kn ws0 (or_intror Hin)) ws).
        destruct (run_steps_all (clone_or_sync frepr cf o) l ws) as [d'' e']. exact IH. }
      destruct (run_steps_all (clone_or_sync frepr cf o) (filter (fun kn => job_selected o (fst kn)) (p_ws src)) (p_ws dst)).
      simpl in R. subst. destruct dst; reflexivity.
    - pose proof (run_steps_id _ (clone_or_sync frepr cf o) _ (p_ws dst) (fun x d Hin => Hid x d Hin)) as R.
      destruct (run_steps (clone_or_sync frepr cf o) (filter (fun kn => job_selected o (fst kn)) (p_ws src)) (p_ws dst)).
      simpl in R. subst. destruct dst; reflexivity.
  Qed.
End Top.
