(* C17Witness.v — concrete inputs on which the faithful model (hence the code) breaks the property. *)
From SV Require Import Base View CorrC17 C17Proofs.

Definition s_p : str := [112%N].
Definition s_v : str := [118%N].
Definition s_j1 : str := [106%N; 49%N].
Definition s_j2 : str := [106%N; 50%N].
Definition s_5 : str := [53%N].
Definition s_6 : str := [54%N].
Definition s_1 : str := [49%N].

(* /p/j1, /p/j2 are job directories, /v is the (not yet existing) view prefix *)
Definition world0 : node := Dir [(s_p, Dir [(s_j1, Dir []); (s_j2, Dir [])])].
Definition mkjob (d : str) (pf : str) : job := {| j_dir := [s_p; d]; j_items := []; j_pf := Ok pf |}.
Definition mkcall (js : list job) : call :=
  {| c_cwd := []; c_prefix := [[]; s_v]; c_jobs := js; c_pfmake := None; c_all := [[s_p; s_j1]; [s_p; s_j2]] |}.

Definition run (hint : list path) (w : node) (c : call) := create_linked_view hint (w, 0%N) c.

(* 1. (bfa6c64) a view of ONE job is up to date on the second run *)
Lemma single_job_noop :
  let c := mkcall [mkjob s_j1 []] in
  let '(r1, (w1, n1)) := run [] world0 c in
  let '(r2, (w2, n2)) := run [] w1 c in
  is_ok r1 = true /\ is_ok r2 = true /\ w2 = w1 /\ n2 = 0%N /\ get w1 [s_v; s_job] <> None.
Proof. vm_compute. repeat split; congruence. Qed.

(* 2. (fc0e7cc) "a/6/job" together with "a/6/job/5/job" is rejected in both orders, tree untouched *)
Definition pf_a6 : str := [97%N; 47%N; 54%N].                                    (* "a/6"       *)
Definition pf_a6job5 : str := pf_a6 ++ [47%N] ++ s_job ++ [47%N] ++ s_5.          (* "a/6/job/5" *)
Lemma leafnode_rejected_both_orders :
  run [] world0 (mkcall [mkjob s_j1 pf_a6; mkjob s_j2 pf_a6job5]) = (Err ERuntimeError, (world0, 0%N)) /\
  run [] world0 (mkcall [mkjob s_j2 pf_a6job5; mkjob s_j1 pf_a6]) = (Err ERuntimeError, (world0, 0%N)).
Proof. vm_compute. auto. Qed.

(* 3. (55c0c50 / bfa6c64) two jobs, one path: rejected *)
Lemma duplicate_paths_rejected_w :
  run [] world0 (mkcall [mkjob s_j1 pf_a6; mkjob s_j2 pf_a6]) = (Err ERuntimeError, (world0, 0%N)).
Proof. vm_compute. auto. Qed.

(* 4. (cfcb328) the empty selection creates no link and no view directory; an existing view is emptied *)
Lemma empty_selection_no_link :
  run [] world0 (mkcall []) = (Ok [], (world0, 0%N)) /\
  (let '(r1, (w1, _)) := run [] world0 (mkcall [mkjob s_j1 pf_a6; mkjob s_j2 [97%N; 47%N; 53%N]]) in
   let '(r2, (w2, _)) := run [] w1 (mkcall []) in
   is_ok r1 = true /\ r2 = Ok [] /\ get w1 [s_v; s_a] <> None /\ get w2 [s_v] = Some (Dir [])).
Proof. vm_compute. repeat split; congruence. Qed.

(* 5. (bfa6c64) absolute or climbing keys are rejected *)
Definition pf_abs : str := [47%N; 120%N].                                         (* "/x" *)
Lemma escaping_keys_rejected :
  run [] world0 (mkcall [mkjob s_j1 pf_abs; mkjob s_j2 pf_a6]) = (Err ERuntimeError, (world0, 0%N)) /\
  run [] world0 (mkcall [mkjob s_j1 s_dotdot; mkjob s_j2 pf_a6]) = (Err ERuntimeError, (world0, 0%N)).
Proof. vm_compute. auto. Qed.

(* 6. STILL OPEN: the leaf name as a token.  After a one-job view (link v/job), a job whose path passes
      THROUGH "job" is linked inside the first job's directory: the old link is considered alive. *)
Definition pf_job5 : str := s_job ++ [47%N] ++ s_5.                               (* "job/5" *)
Lemma leaf_name_token_pollutes :
  let '(r1, (w1, _)) := run [] world0 (mkcall [mkjob s_j1 []]) in
  let '(r2, (w2, _)) := run [] w1 (mkcall [mkjob s_j2 pf_job5]) in
  is_ok r1 = true /\ is_ok r2 = true /\ get w1 [s_p; s_j1; s_5] = None /\ get w2 [s_p; s_j1; s_5; s_job] <> None.
Proof. vm_compute. repeat split; congruence. Qed.
