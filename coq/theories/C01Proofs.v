(* C01Proofs.v — lemmas behind props/C01.v *)
From SV Require Import Base Json MD5 Canon CorrC01.

Section S.
  Variable frepr : fl -> str.

  Lemma calc_id_jperm : forall v v', wf v = true -> wf v' = true -> jperm v v' ->
    calc_id frepr v = calc_id frepr v'.
  Proof.
    intros v v' Hw Hw' Hp. unfold calc_id, canon. rewrite (norm_jperm v v' Hp Hw Hw'). reflexivity.
  Qed.

  Lemma canon_same_json : forall v v', same_json v v' -> canon frepr v = canon frepr v'.
  Proof. unfold same_json, canon. intros v v' ->. reflexivity. Qed.

  Lemma canon_tokens_inj : forall v v', tokens (norm v) = tokens (norm v') -> same_json v v'.
  Proof. intros v v' H. apply tokens_inj. exact H. Qed.

  Lemma calc_id_shape : forall v,
    length (calc_id frepr v) = 32%nat /\ forallb lower_hex (calc_id frepr v) = true.
  Proof. intro v. apply md5_hex_shape. Qed.

  Lemma id_equal_only_by_md5_collision : forall v v',
    calc_id frepr v = calc_id frepr v' ->
    canon frepr v = canon frepr v' \/
    (canon frepr v <> canon frepr v' /\ md5_hex (canon frepr v) = md5_hex (canon frepr v')).
  Proof.
    intros v v' H. destruct (str_eq_dec (canon frepr v) (canon frepr v')) as [E|E]; [left; exact E|].
    right. split; [exact E|exact H].
  Qed.
End S.

(* different JSON types of "one" are different values with different token lists *)
Lemma one_distinct :
  let i := JInt 1 in let f := JFloat (1%Z, 0%Z) in let b := JBool true in let s := JStr [49%N] in
  tokens (norm i) <> tokens (norm f) /\ tokens (norm i) <> tokens (norm b) /\
  tokens (norm i) <> tokens (norm s) /\ tokens (norm f) <> tokens (norm b) /\
  tokens (norm f) <> tokens (norm s) /\ tokens (norm b) <> tokens (norm s).
Proof. simpl. repeat split; discriminate. Qed.

Lemma list_order_matters : forall a b, a <> b -> ~ same_json (JArr [a; b]) (JArr [b; a]) \/ norm a = norm b.
Proof.
  intros a b Hne. destruct (json_eq_dec (norm a) (norm b)) as [E|E]; [right; exact E|left].
  unfold same_json. simpl. intro H. inversion H. contradiction.
Qed.

Lemma extra_key_matters : forall kvs k x, ~ In k (map fst kvs) -> ~ same_json (JObj kvs) (JObj ((k, x) :: kvs)).
Proof.
  intros kvs k x Hnin H. unfold same_json in H. simpl in H. inversion H as [E].
  fold normkv in E.
  assert (Hlen : length (sort_kvs (map normkv kvs)) = length (insert_kv k (norm x) (sort_kvs (map normkv kvs)))).
  { rewrite <- E. reflexivity. }
  pose proof (Permutation.Permutation_length (insert_kv_perm k (norm x) (sort_kvs (map normkv kvs)))) as Hp.
  simpl in Hp. lia.
Qed.

(* correspondence oracle: agreement with the model implies the order/shape part of the property *)
Lemma forallb_str_eqb_all : forall m l, forallb (str_eqb m) l = true -> Forall (fun x => x = m) l.
Proof.
  intros m l H. apply Forall_forall. intros x Hx. rewrite forallb_forall in H.
  specialize (H x Hx). apply str_eqb_eq in H. auto.
Qed.

Lemma model_agreement_implies_shape : forall c i0 rest,
  mismatch_C01 c = false -> c1_ids c = i0 :: rest ->
  forallb (str_eqb i0) (c1_ids c) = true /\ id_shape i0 = true.
Proof.
  intros c i0 rest Hm Hids. unfold mismatch_C01 in Hm. apply orb_false_iff in Hm. destruct Hm as [Hm _].
  apply negb_false_iff in Hm. pose proof (forallb_str_eqb_all _ _ Hm) as Hall.
  rewrite Hids in Hall. inversion Hall as [|? ? Hi0 Hrest]; subst.
  split.
  - rewrite Hids. apply forallb_forall. intros x Hx. apply str_eqb_eq.
    destruct Hx as [Hx|Hx]; [auto|].
    rewrite Forall_forall in Hrest. symmetry. apply Hrest. exact Hx.
  - unfold id_shape, model_id. destruct (calc_id_shape (ftab_lookup (c1_ftab c)) (c1_val c)) as [Hl Hh].
    rewrite Hl, Hh. reflexivity.
Qed.
