(* Schema.v — model of Project.detect_schema (signac/schema.py:_build_job_statepoint_index,
   project.py:_collect_by_type) and signac.diff.diff_jobs, with their reference summaries. *)
From SV Require Export Base Json PyVal Query.

Definition SFUEL : nat := 12.

Fixpoint dedupe_str (l : list str) : list str :=
  match l with
  | [] => []
  | x :: r => x :: filter (fun y => negb (str_eqb x y)) (dedupe_str r)
  end.

(* the index document of a job for schema detection: {"sp": statepoint} *)
Definition sp_doc (sp : json) : json := JObj [(s_sp, sp)].
Definition sp_corpus (jobs : list (id * json)) : corpus := map (fun j => (fst j, sp_doc (snd j))) jobs.

Definition dotted_keys (c : corpus) : list str :=
  dedupe_str (flat_map (fun jd => map fst (flatten SFUEL None (snd jd))) c).

Definition is_placeholder (v : json) : bool := is_obj v.

(* key[len("sp."):] *)
Definition strip_prefix (k : str) : str := skipn 3 k.

(* some dotted key of the selected jobs extends [k]: a mapping held under [k] is not empty *)
Definition key_extended (c : corpus) (k : str) : bool :=
  existsb (str_prefix (k ++ [dot])) (dotted_keys c).

(* is_const of _build_job_statepoint_index: one slot holding every job; when that slot is the
   _DictPlaceholder the mappings only agree if all of them are empty *)
Definition schema_const (c : corpus) (k : str) : bool :=
  match build_index c k with
  | [(v, ids)] => Nat.eqb (length ids) (length c) && negb (is_placeholder v && key_extended c k)
  | _ => false
  end.

(* the (key, stored values) pairs that detect_schema reports, before grouping by type *)
Definition detect_schema (exclude_const : bool) (jobs : list (id * json)) : list (str * list json) :=
  let c := sp_corpus jobs in
  flat_map (fun k =>
    if str_prefix (s_sp ++ [dot]) k then
      if exclude_const && schema_const c k then []
      else [(strip_prefix k, filter (fun v => negb (is_placeholder v)) (map fst (build_index c k)))]
    else []) (dotted_keys c).

(* ---------- reference: direct summary of the state points ---------- *)
Definition leaf_pairs (sp : json) : list (str * json) := flatten (pred SFUEL) None sp.

Definition ref_keys (jobs : list (id * json)) : list str :=
  dedupe_str (flat_map (fun j => map fst (leaf_pairs (snd j))) jobs).

(* the job's value under a dotted state point key (through sub-mappings only) *)
Definition sp_value (sp : json) (key : str) : option json := lookup_path sp (split_on dot key).

Definition values_of (jobs : list (id * json)) (key : str) : list json :=
  flat_map (fun j => match sp_value (snd j) key with
                     | Some v => if is_obj v then [] else [v]
                     | None => []
                     end) jobs.

Definition same_typed (a b : json) : bool := pytype_eqb (py_type a) (py_type b) && py_eq a b.

(* all selected jobs have the key and agree on its value (type-exact; mappings compared as values) *)
Definition agree_on (jobs : list (id * json)) (key : str) : bool :=
  match jobs with
  | [] => false
  | j0 :: _ =>
      match sp_value (snd j0) key with
      | None => false
      | Some v0 =>
          forallb (fun j => match sp_value (snd j) key with
                            | Some v => if is_obj v0 || is_obj v then json_eqb (norm v0) (norm v) else same_typed v0 v
                            | None => false
                            end) jobs
      end
  end.

Definition str_set_eqb (a b : list str) : bool :=
  forallb (fun x => str_mem x b) a && forallb (fun x => str_mem x a) b.

Fixpoint no_dup_typed (l : list json) : bool :=
  match l with
  | [] => true
  | x :: r => negb (existsb (same_typed x) r) && no_dup_typed r
  end.

(* the property, on an observed schema: exact keys, exact values grouped by type *)
Definition schema_exact (exclude_const : bool) (jobs : list (id * json)) (obs : list (str * list json)) : bool :=
  let expected := filter (fun k => negb (exclude_const && agree_on jobs k)) (ref_keys jobs) in
  str_set_eqb (map fst obs) expected &&
  Nat.eqb (length (map fst obs)) (length (dedupe_str (map fst obs))) &&
  forallb (fun kv =>
             let ref := values_of jobs (fst kv) in
             forallb (fun v => existsb (same_typed v) (snd kv)) ref &&
             forallb (fun w => existsb (same_typed w) ref) (snd kv) &&
             no_dup_typed (snd kv)) obs.

(* ---------- diff_jobs ---------- *)
Definition pair_eq (a b : str * json) : bool := str_eqb (fst a) (fst b) && py_eq (snd a) (snd b).

Definition has_empty_mapping (pairs : list (str * json)) : bool := existsb (fun p => is_obj (snd p)) pairs.

(* insert value at dotted path into a nested object *)
Fixpoint set_path (fuel : nat) (d : list (str * json)) (nodes : list str) (v : json) : list (str * json) :=
  match fuel with
  | O => d
  | Datatypes.S fuel' =>
      match nodes with
      | [] => d
      | [n] => aset n v d
      | n :: r =>
          let sub := match alookup n d with Some (JObj s) => s | _ => [] end in
          aset n (JObj (set_path fuel' sub r v)) d
      end
  end.

Definition nest_pairs (pairs : list (str * json)) : json :=
  JObj (fold_left (fun d p => set_path SFUEL d (split_on dot (fst p)) (snd p)) pairs []).

(* reference for diffs: the pairs of a job not shared (under Python ==) by all jobs *)
Definition shared_by_all (jobs : list (id * json)) (pr : str * json) : bool :=
  forallb (fun j => existsb (pair_eq pr) (leaf_pairs (snd j))) jobs.

Definition diff_pairs (jobs : list (id * json)) (sp : json) : list (str * json) :=
  filter (fun pr => negb (shared_by_all jobs pr)) (leaf_pairs sp).

(* model of diff_jobs (empty mappings are made hashable since the fix in signac/diff.py):
   set difference of the flattened pairs, then _dotted_dict_to_nested_dicts *)
Definition diff_jobs (jobs : list (id * json)) : result (list (id * json)) :=
  Ok (map (fun j => (fst j, nest_pairs (diff_pairs jobs (snd j)))) jobs).

Definition pairs_set_eqb (a b : list (str * json)) : bool :=
  let same p q := str_eqb (fst p) (fst q) && json_eqb (norm (snd p)) (norm (snd q)) in
  forallb (fun p => existsb (same p) b) a && forallb (fun q => existsb (fun p => same p q) a) b.

Definition diff_exact (jobs : list (id * json)) (obs : list (id * json)) : bool :=
  forallb (fun j =>
             match alookup (fst j) obs with
             | Some d => pairs_set_eqb (leaf_pairs d) (diff_pairs jobs (snd j))
             | None => false
             end) jobs
  && forallb (fun o => str_mem (fst o) (map fst jobs)) obs.
