(* C06DocProofs.v — a filter that names no key in the doc namespace never reads job documents, so
   evaluating it on the index without documents equals evaluating it on the job's full data. *)
From SV Require Import Base Json PyVal Query QueryProofs C06Proofs.

(* ---------- string facts (generic in the separator, instantiated with "." below) ---------- *)
Section Sep.
  Variable sep : N.

  Lemma head_before_app_sep : forall k x, head_before sep (k ++ sep :: x) = head_before sep k.
  Proof.
    induction k as [|c k IH]; intro x; simpl.
    - rewrite N.eqb_refl. reflexivity.
    - destruct (N.eqb c sep); [reflexivity|]. rewrite IH. reflexivity.
  Qed.

  Lemma contains_cons : forall c s, contains_char sep (c :: s) = N.eqb sep c || contains_char sep s.
  Proof. reflexivity. Qed.

  Lemma head_before_nosep : forall k, contains_char sep k = false -> head_before sep k = k.
  Proof.
    induction k as [|c k IH]; intro H; [reflexivity|].
    rewrite contains_cons in H. apply orb_false_iff in H. destruct H as [H1 H2].
    simpl. rewrite N.eqb_sym in H1. rewrite H1. rewrite IH; auto.
  Qed.

  Lemma split_on_hd_sep : forall s, exists r, split_on sep s = head_before sep s :: r.
  Proof.
    induction s as [|c s IH]; simpl.
    - exists []. reflexivity.
    - destruct (N.eqb c sep).
      + eexists. reflexivity.
      + destruct IH as [r Hr]. rewrite Hr. eexists. reflexivity.
  Qed.

  Lemma split_on_nosep : forall s, Forall (fun n => contains_char sep n = false) (split_on sep s).
  Proof.
    induction s as [|c s IH]; simpl.
    - constructor; [reflexivity|constructor].
    - destruct (N.eqb c sep) eqn:E.
      + constructor; [reflexivity|exact IH].
      + destruct (split_on sep s) as [|h t] eqn:Es.
        * constructor; [|constructor]. rewrite contains_cons, N.eqb_sym, E. reflexivity.
        * inversion IH; subst. constructor; auto.
          rewrite contains_cons, N.eqb_sym, E. simpl. assumption.
  Qed.

  Lemma split_single : forall x, contains_char sep x = false -> split_on sep x = [x].
  Proof.
    induction x as [|c x IHx]; intro Hx; [reflexivity|].
    rewrite contains_cons in Hx. apply orb_false_iff in Hx. destruct Hx as [H1 H2].
    simpl. rewrite N.eqb_sym in H1. rewrite H1. rewrite IHx; auto.
  Qed.

  Lemma split_app_sep : forall x rest, contains_char sep x = false ->
    split_on sep (x ++ sep :: rest) = x :: split_on sep rest.
  Proof.
    induction x as [|c x IHx]; intros rest Hx.
    - simpl. rewrite N.eqb_refl. reflexivity.
    - rewrite contains_cons in Hx. apply orb_false_iff in Hx. destruct Hx as [H1 H2].
      simpl. rewrite N.eqb_sym in H1. rewrite H1. rewrite IHx; auto.
  Qed.

  Lemma split_join_sep : forall l, l <> [] -> Forall (fun n => contains_char sep n = false) l ->
    split_on sep (join_with sep l) = l.
  Proof.
    induction l as [|x l IH]; intros Hne Hall; [contradiction|].
    inversion Hall as [|? ? Hx Hl]; subst.
    destruct l as [|y l].
    - simpl. apply split_single. exact Hx.
    - change (join_with sep (x :: y :: l)) with (x ++ sep :: join_with sep (y :: l)).
      rewrite split_app_sep by exact Hx. rewrite IH; [reflexivity|discriminate|exact Hl].
  Qed.
End Sep.

Definition head_before_app_dot := head_before_app_sep dot.
Definition head_before_nodot := head_before_nosep dot.
Definition split_on_hd := split_on_hd_sep dot.
Definition split_on_nodots := split_on_nosep dot.
Definition split_join := split_join_sep dot.

Lemma str_eqb_comm : forall a b, str_eqb a b = str_eqb b a.
Proof.
  intros a b. destruct (str_eqb a b) eqn:E.
  - apply str_eqb_eq in E. subst. symmetry. apply str_eqb_refl.
  - symmetry. apply str_eqb_neq. apply str_eqb_neq in E. congruence.
Qed.

(* ---------- the two index documents of one job ---------- *)
Section DocIrrelevant.
  Variable regex_search : str -> str -> bool.
  Variable isclose : (Z * Z) -> (Z * Z) -> (Z * Z) -> (Z * Z) -> bool.
  Variables sp dv : json.

  Definition d0 : json := JObj [(s_sp, sp)].
  Definition d1 : json := JObj [(s_sp, sp); (s_doc, dv)].

  Lemma lookup_path_nodoc : forall n rest, str_eqb n s_doc = false ->
    lookup_path d1 (n :: rest) = lookup_path d0 (n :: rest).
  Proof.
    intros n rest H. unfold d0, d1. cbn [lookup_path alookup].
    destruct (str_eqb n s_sp); [reflexivity|]. rewrite H. reflexivity.
  Qed.

  Lemma own_value_nodoc : forall key, str_eqb (head_before dot key) s_doc = false ->
    own_value d1 key = own_value d0 key.
  Proof.
    intros key H. unfold own_value. destruct (split_on_hd key) as [r Hr]. rewrite Hr.
    apply lookup_path_nodoc. exact H.
  Qed.

  (* the key an operator expression looks up: all nodes but the last *)
  Lemma own_value_opkey_nodoc : forall key, str_eqb (head_before dot key) s_doc = false ->
    own_value d1 (join_with dot (removelast (split_on dot key))) =
    own_value d0 (join_with dot (removelast (split_on dot key))).
  Proof.
    intros key H. pose proof (split_on_nodots key) as Hnd.
    destruct (split_on_hd key) as [r Hr]. rewrite Hr in *.
    destruct r as [|n2 r].
    - (* a single node: the looked-up key is empty *)
      simpl. unfold own_value. reflexivity.
    - unfold own_value. rewrite split_join.
      + apply lookup_path_nodoc. exact H.
      + simpl. destruct r; discriminate.
      + clear - Hnd. revert Hnd. generalize (head_before dot key :: n2 :: r). intros l Hl.
        induction l as [|a l IH]; simpl; [constructor|]. inversion Hl; subst.
        destruct l; [constructor|]. constructor; auto.
  Qed.

  Lemma match_expression_nodoc : forall key value,
    str_eqb (head_before dot key) s_doc = false ->
    match_expression regex_search isclose d1 key value = match_expression regex_search isclose d0 key value.
  Proof.
    intros key value H. unfold match_expression.
    rewrite (own_value_nodoc key H), (own_value_opkey_nodoc key H). reflexivity.
  Qed.

  Lemma match_exprs_nodoc : forall sc es,
    Forall (fun kv => str_eqb (head_before dot (fst kv)) s_doc = false) es ->
    match_exprs regex_search isclose sc d1 es = match_exprs regex_search isclose sc d0 es.
  Proof.
    induction es as [|[k v] es IH]; intro H; [reflexivity|].
    inversion H; subst. simpl in *. rewrite match_expression_nodoc by assumption.
    rewrite IH by assumption. reflexivity.
  Qed.

  (* ---------- leaf keys keep the head of the top-level key they come from ---------- *)
  Lemma flatten_heads : forall fuel k v leaf, In leaf (flatten fuel (Some k) v) ->
    head_before dot (fst leaf) = head_before dot k.
  Proof.
    induction fuel as [|fuel IH]; intros k v leaf H; [inversion H|].
    destruct v as [| | | | | |kvs]; simpl in H; try (destruct H as [<-|[]]; reflexivity).
    destruct kvs as [|kv kvs]; [destruct H as [<-|[]]; reflexivity|].
    apply in_flat_map in H. destruct H as [[kk x] [_ Hl]]. cbn [fst snd] in Hl.
    rewrite (IH _ _ _ Hl). apply head_before_app_dot.
  Qed.

  Lemma flatten_top_heads : forall fuel kvs leaf, In leaf (flatten fuel None (JObj kvs)) ->
    exists kk x, In (kk, x) kvs /\ head_before dot (fst leaf) = head_before dot kk.
  Proof.
    intros [|fuel] kvs leaf H; [inversion H|]. destruct kvs as [|kv kvs]; [inversion H|].
    cbn [flatten] in H. apply in_flat_map in H. destruct H as [[kk x] [Hin Hl]]. cbn [fst snd] in Hl.
    exists kk, x. split; auto. eapply flatten_heads; eauto.
  Qed.

  Lemma aremove_In : forall A k (l : list (str * A)) p, In p (aremove k l) -> In p l /\ str_eqb k (fst p) = false.
  Proof.
    induction l as [|[k' v'] l IH]; simpl; intros p H; [tauto|].
    destruct (str_eqb k k') eqn:E.
    - destruct (IH _ H). auto.
    - destruct H as [<-|H]; [auto|]. destruct (IH _ H). auto.
  Qed.

  Lemma strip_logical_In : forall kvs p, In p (strip_logical kvs) ->
    In p kvs /\ str_eqb s_or (fst p) = false /\ str_eqb s_and (fst p) = false /\ str_eqb s_not (fst p) = false.
  Proof.
    intros kvs p H. unfold strip_logical in H.
    apply aremove_In in H. destruct H as [H Hn].
    apply aremove_In in H. destruct H as [H Ha].
    apply aremove_In in H. destruct H as [H Ho]. auto.
  Qed.

  Lemma root_key_of_plain : forall fuel kvs kk x,
    In (kk, x) kvs -> str_eqb s_or kk = false -> str_eqb s_and kk = false -> str_eqb s_not kk = false ->
    In (head_before dot kk) (root_keys (Datatypes.S fuel) (JObj kvs)).
  Proof.
    intros fuel kvs kk x Hin Ho Ha Hn. cbn [root_keys]. apply in_flat_map. exists (kk, x). split; auto.
    cbn [fst snd]. unfold is_logical_list.
    rewrite (str_eqb_comm kk s_and), (str_eqb_comm kk s_or), Ha, Ho. simpl.
    rewrite (str_eqb_comm kk s_not), Hn.
    destruct (contains_char dot kk) eqn:Ec; simpl; auto.
    rewrite head_before_nodot by assumption. auto.
  Qed.
End DocIrrelevant.

Section DocIrrelevant2.
  Variable regex_search : str -> str -> bool.
  Variable isclose : (Z * Z) -> (Z * Z) -> (Z * Z) -> (Z * Z) -> bool.
  Variables sp dv : json.
  Notation d0 := (d0 sp).
  Notation d1 := (d1 sp dv).
  Notation matches := (matches regex_search isclose).

  Lemma and_loop_ref_ext : forall (r1 r2 : json -> result bool) sc items,
    Forall (fun it => r1 it = r2 it) items -> and_loop_ref r1 sc items = and_loop_ref r2 sc items.
  Proof.
    induction items as [|it items IH]; intro H; [reflexivity|].
    inversion H; subst. simpl. rewrite H2. rewrite IH by assumption. reflexivity.
  Qed.

  Lemma or_loop_ref_ext : forall (r1 r2 : json -> result bool) items acc,
    Forall (fun it => r1 it = r2 it) items -> or_loop_ref r1 items acc = or_loop_ref r2 items acc.
  Proof.
    induction items as [|it items IH]; intros acc H; [reflexivity|].
    inversion H; subst. simpl. rewrite H2. destruct (r2 it); simpl; auto.
  Qed.

  Lemma root_keys_logical_items : forall fuel kvs k items,
    is_logical_list k = true -> In (k, JArr items) kvs ->
    forall it x, In it items -> In x (root_keys fuel it) -> In x (root_keys (Datatypes.S fuel) (JObj kvs)).
  Proof.
    intros fuel kvs k items Hk Hin it x Hit Hx. cbn [root_keys]. apply in_flat_map.
    exists (k, JArr items). split; auto. cbn [fst snd]. rewrite Hk. apply in_flat_map. eauto.
  Qed.

  Lemma root_keys_not : forall fuel kvs ne x,
    In (s_not, ne) kvs -> In x (root_keys fuel ne) -> In x (root_keys (Datatypes.S fuel) (JObj kvs)).
  Proof.
    intros fuel kvs ne x Hin Hx. cbn [root_keys]. apply in_flat_map.
    exists (s_not, ne). split; auto.
  Qed.

  Lemma not_null_Some : forall o v, not_null o = Some v -> o = Some v.
  Proof. intros [[]|] v H; simpl in H; congruence. Qed.

  Lemma check_logical_JArr : forall ae items, check_logical_arg ae = Ok items -> ae = JArr items.
  Proof. intros ae items H. destruct ae; try discriminate. destruct l; inversion H. reflexivity. Qed.

  Theorem matches_nodoc : forall sc fuel expr,
    str_mem s_doc (root_keys fuel expr) = false ->
    matches sc fuel d1 expr = matches sc fuel d0 expr.
  Proof.
    intros sc. induction fuel as [|fuel IH]; intros expr H; [reflexivity|].
    destruct expr as [| | | | | |kvs]; try reflexivity.
    destruct kvs as [|kv0 kvs0]; [reflexivity|].
    cbn [Query.matches]. set (kvs := kv0 :: kvs0) in *.
    assert (Hnot_in : forall x, In x (root_keys (Datatypes.S fuel) (JObj kvs)) -> str_eqb x s_doc = false).
    { intros x Hx. destruct (str_eqb x s_doc) eqn:E; auto. apply str_eqb_eq in E. subst x.
      apply str_mem_In in Hx. congruence. }
    (* plain expressions *)
    assert (Hes : match_exprs regex_search isclose sc d1 (flatten (Datatypes.S fuel) None (JObj (strip_logical kvs)))
                = match_exprs regex_search isclose sc d0 (flatten (Datatypes.S fuel) None (JObj (strip_logical kvs)))).
    { apply match_exprs_nodoc. apply Forall_forall. intros leaf Hleaf.
      destruct (flatten_top_heads _ _ _ Hleaf) as [kk [x [Hin Hh]]].
      apply (strip_logical_In regex_search isclose) in Hin. destruct Hin as [Hin' [Ho [Ha Hn]]]. cbn [fst] in *.
      rewrite Hh. apply Hnot_in. eapply root_key_of_plain; eauto. }
    (* $not *)
    assert (Hnot : not_stage_ref (matches sc fuel d1) (not_null (alookup s_not kvs))
                 = not_stage_ref (matches sc fuel d0) (not_null (alookup s_not kvs))).
    { unfold not_stage_ref. destruct (not_null (alookup s_not kvs)) as [ne|] eqn:En; [|reflexivity].
      apply not_null_Some in En. apply alookup_In in En.
      rewrite IH; [reflexivity|].
      destruct (str_mem s_doc (root_keys fuel ne)) eqn:Em; auto. apply str_mem_In in Em.
      pose proof (Hnot_in _ (root_keys_not _ _ _ _ En Em)) as Hc. rewrite str_eqb_refl in Hc. discriminate. }
    (* $and and $or items *)
    assert (Hitems : forall k, is_logical_list k = true -> forall ae items,
               not_null (alookup k kvs) = Some ae -> check_logical_arg ae = Ok items ->
               Forall (fun it => matches sc fuel d1 it = matches sc fuel d0 it) items).
    { intros k Hk ae items En Ec. apply not_null_Some in En. apply alookup_In in En.
      apply check_logical_JArr in Ec. subst ae. apply Forall_forall. intros it Hit. apply IH.
      destruct (str_mem s_doc (root_keys fuel it)) eqn:Em; auto. apply str_mem_In in Em.
      pose proof (Hnot_in _ (root_keys_logical_items _ _ _ _ Hk En _ _ Hit Em)) as Hc.
      rewrite str_eqb_refl in Hc. discriminate. }
    assert (Hand : and_stage_ref (matches sc fuel d1) sc (not_null (alookup s_and kvs))
                 = and_stage_ref (matches sc fuel d0) sc (not_null (alookup s_and kvs))).
    { unfold and_stage_ref. destruct (not_null (alookup s_and kvs)) as [ae|] eqn:En; [|reflexivity].
      destruct (check_logical_arg ae) as [items|] eqn:Ec; [|reflexivity]. simpl.
      apply and_loop_ref_ext. eapply (Hitems s_and); eauto. }
    assert (Hor : forall nothing, or_final_ref (matches sc fuel d1) (not_null (alookup s_or kvs)) nothing
                 = or_final_ref (matches sc fuel d0) (not_null (alookup s_or kvs)) nothing).
    { intro nothing. unfold or_final_ref. destruct (not_null (alookup s_or kvs)) as [oe|] eqn:En; [|reflexivity].
      destruct (check_logical_arg oe) as [items|] eqn:Ec; [|reflexivity]. simpl.
      rewrite (or_loop_ref_ext _ _ _ false (Hitems s_or eq_refl _ _ En Ec)). reflexivity. }
    rewrite Hes, Hnot, Hand, Hor. reflexivity.
  Qed.
End DocIrrelevant2.

(* the two index documents are exactly job_doc false / job_doc true *)
Theorem job_doc_irrelevant : forall rs ic sc fuel pf j,
  str_mem s_doc (root_keys fuel pf) = false ->
  matches rs ic sc fuel (snd (job_doc true j)) pf = matches rs ic sc fuel (snd (job_doc false j)) pf.
Proof.
  intros rs ic sc fuel pf j H. unfold job_doc. cbn [snd]. destruct (j_doc j) as [dv|]; [|reflexivity].
  apply (matches_nodoc rs ic (j_sp j) dv sc fuel pf H).
Qed.

(* the top-level theorem without the document side condition *)
Theorem find_job_ids_exact : forall rs ic fuel jobs f pf R,
  is_empty_filter f = false ->
  add_prefix fuel f = Ok pf ->
  let inc := str_mem s_doc (root_keys fuel pf) in
  let c := map (job_doc inc) jobs in
  NoDup (map fst c) -> NoSlotMerge c -> SlotRefl c -> AllLeaves (GoodLeaf c) fuel pf ->
  find_job_ids rs ic fuel jobs f = Ok R ->
  forall j, In j jobs -> job_matches rs ic true fuel f j = Ok (mem (j_id j) R).
Proof.
  intros rs ic fuel jobs f pf R Hne Hpf inc c Hnd Hs Hr HA H j Hj.
  unfold find_job_ids in H. unfold job_matches. rewrite Hne, Hpf in *. simpl in H. simpl.
  fold inc in H. fold c in H.
  assert (Hin : In (j_id j, snd (job_doc inc j)) c).
  { unfold c. change (j_id j, snd (job_doc inc j)) with (job_doc inc j). apply in_map. exact Hj. }
  pose proof (find_exact_partial rs ic c fuel pf R Hnd Hs Hr HA H _ _ Hin) as Hm.
  change (JObj ((s_sp, j_sp j) :: match j_doc j with Some d => [(s_doc, d)] | None => [] end))
    with (snd (job_doc true j)).
  destruct inc eqn:Einc; [exact Hm|].
  rewrite job_doc_irrelevant by exact Einc. exact Hm.
Qed.

(* top level, with purely syntactic side conditions on data and filter besides NoSlotMerge *)
Theorem find_job_ids_exact_syntactic : forall rs ic fuel jobs f pf R,
  is_empty_filter f = false ->
  add_prefix fuel f = Ok pf ->
  let inc := str_mem s_doc (root_keys fuel pf) in
  let c := map (job_doc inc) jobs in
  NoDup (map fst c) -> NoSlotMerge c ->
  Forall (fun jd => wf (snd jd) = true) c -> Forall (fun jd => deep_ok (snd jd) = true) c ->
  AllLeaves PlainLeaf fuel pf ->
  find_job_ids rs ic fuel jobs f = Ok R ->
  forall j, In j jobs -> job_matches rs ic true fuel f j = Ok (mem (j_id j) R).
Proof.
  intros rs ic fuel jobs f pf R Hne Hpf inc c Hnd Hs Hwf Hdeep HA H j Hj.
  unfold find_job_ids in H. unfold job_matches. rewrite Hne, Hpf in *. simpl in H. simpl.
  fold inc in H. fold c in H.
  assert (Hin : In (j_id j, snd (job_doc inc j)) c).
  { unfold c. change (j_id j, snd (job_doc inc j)) with (job_doc inc j). apply in_map. exact Hj. }
  pose proof (find_exact rs ic c fuel pf R Hnd Hs Hwf Hdeep HA H _ _ Hin) as Hm.
  change (JObj ((s_sp, j_sp j) :: match j_doc j with Some d => [(s_doc, d)] | None => [] end))
    with (snd (job_doc true j)).
  destruct inc eqn:Einc; [exact Hm|].
  rewrite job_doc_irrelevant by exact Einc. exact Hm.
Qed.
