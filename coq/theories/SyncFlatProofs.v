(* SyncFlatProofs.v — the flattened view of a tree used by the oracles agrees with path lookup. *)
From SV Require Import Base Json Canon Sync SyncObs SyncProofs SyncIdemProofs.

Definition flat_list (p : path) :=
  (fix go (l : list (str * node)) : list (path * option content) :=
     match l with [] => [] | (k, x) :: l' => flat_node (p ++ [k]) x ++ go l' end).

Lemma flat_node_Dir : forall p es, flat_node p (Dir es) = (p, None) :: flat_list p es.
Proof. reflexivity. Qed.

Lemma flat_list_In : forall p es e, In e (flat_list p es) ->
  exists k x, In (k, x) es /\ In e (flat_node (p ++ [k]) x).
Proof.
  induction es as [|[k x] es IH]; simpl; intros e H; [destruct H|].
  apply in_app_or in H. destruct H as [H|H]; [exists k, x; auto|].
  destruct (IH e H) as (k' & x' & Hin & He). exists k', x'. auto.
Qed.

(* every entry of the flattening is found by path lookup, with the listed kind and content *)
Lemma flat_node_sound : forall n, wf_node n = true -> forall pre p oc, In (p, oc) (flat_node pre n) ->
  exists q, p = pre ++ q /\
            match oc with
            | Some c => exists m, lookup_path q n = Some (File c m)
            | None => exists es, lookup_path q n = Some (Dir es)
            end.
Proof.
  induction n using node_ind'; intros Hwf pre p oc Hin.
  - simpl in Hin. destruct Hin as [Heq|[]]. inversion Heq; subst. exists []. rewrite app_nil_r. simpl. eauto.
  - destruct (wf_dir_inv _ Hwf) as [Hnd Hsub]. rewrite flat_node_Dir in Hin.
    destruct Hin as [Heq|Hin].
    + inversion Heq; subst. exists []. rewrite app_nil_r. simpl. eauto.
    + apply flat_list_In in Hin. destruct Hin as (k & x & Hkx & He).
      rewrite Forall_forall in H.
      pose proof (NoDup_alookup _ k x es Hnd Hkx) as Ek.
      destruct (H (k, x) Hkx (Hsub k x Ek) (pre ++ [k]) p oc He) as (q & Hp & Hq).
      exists (k :: q). split; [rewrite Hp, <- app_assoc; reflexivity|].
      rewrite lookup_path_cons, Ek. exact Hq.
Qed.

Section Refl.
  Variable frepr : fl -> str.

  Lemma content_eqb_refl : forall c, content_eqb frepr c c = true.
  Proof. intros. unfold content_eqb. apply bytes_eqb_refl. Qed.

  Lemma dir_sub_refl : forall d, wf_node (Dir d) = true -> dir_sub frepr d d = true.
  Proof.
    intros d Hwf. unfold dir_sub. apply forallb_forall. intros [p oc] Hin.
    unfold flat in Hin. rewrite flat_node_Dir in Hin. simpl in Hin.
    assert (Hin' : In (p, oc) (flat_node [] (Dir d))) by (rewrite flat_node_Dir; right; assumption).
    destruct (flat_node_sound (Dir d) Hwf [] p oc Hin') as (q & Hp & Hq). simpl in Hp. subst q.
    unfold same_at. cbn [fst snd].
    destruct oc as [c|].
    - destruct Hq as [m Hq]. rewrite Hq. apply content_eqb_refl.
    - destruct Hq as [es Hq]. rewrite Hq. reflexivity.
  Qed.

  Lemma dir_eqb_refl : forall d, wf_node (Dir d) = true -> dir_eqb frepr d d = true.
  Proof. intros. unfold dir_eqb. rewrite dir_sub_refl by assumption. reflexivity. Qed.

  Definition wf_project (p : project) : bool := wf_node (Dir (p_top p)) && wf_node (Dir (p_ws p)).

  Lemma proj_eqb_refl : forall p, wf_project p = true -> proj_eqb frepr p p = true.
  Proof.
    intros p H. unfold wf_project in H. apply andb_true_iff in H. destruct H.
    unfold proj_eqb. rewrite !dir_eqb_refl by assumption. reflexivity.
  Qed.
End Refl.
