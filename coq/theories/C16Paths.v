(* C16Paths.v — facts about str.split / join / path components used by the C16 proofs. *)
From Coq Require Import String Ascii.
From SV Require Import Base Json MD5 Canon Export.
Local Open Scope N_scope.
Local Opaque S.

Lemma split_nonempty : forall c s, split c s <> [].
Proof.
  intros c s. destruct s as [|x s]; simpl; [discriminate|].
  destruct (x =? c); [discriminate|]. destruct (split c s); discriminate.
Qed.

Lemma split_cons_other : forall c x s, (x =? c) = false ->
  exists h t, split c s = h :: t /\ split c (x :: s) = (x :: h) :: t.
Proof.
  intros c x s Hx. pose proof (split_nonempty c s) as Hn. simpl. rewrite Hx.
  destruct (split c s) as [|h t]; [congruence|]. eauto.
Qed.

Lemma join_split : forall c s, joinw [c] (split c s) = s.
Proof.
  induction s as [|x s IH]; [reflexivity|]. simpl.
  destruct (x =? c) eqn:E.
  - apply N.eqb_eq in E. subst x. pose proof (split_nonempty c s) as Hn.
    destruct (split c s) as [|h t] eqn:Es; [congruence|]. simpl in *. rewrite IH. reflexivity.
  - destruct (split c s) as [|h t] eqn:Es; [exfalso; eapply split_nonempty; eauto|].
    simpl in *. destruct t; simpl in *; rewrite <- IH; reflexivity.
Qed.

Lemma split_inj : forall c a b, split c a = split c b -> a = b.
Proof. intros c a b H. rewrite <- (join_split c a), <- (join_split c b), H. reflexivity. Qed.

Lemma split_app_sep : forall c a b, split c (a ++ c :: b) = split c a ++ split c b.
Proof.
  induction a as [|x a IH]; intro b; simpl.
  - rewrite N.eqb_refl. reflexivity.
  - destruct (x =? c); [rewrite IH; reflexivity|].
    rewrite IH. pose proof (split_nonempty c a) as Hn. destruct (split c a); [congruence|]. reflexivity.
Qed.

Lemma split_no_sep_in : forall c s, Forall (fun t => forallb (fun x => negb (x =? c)) t = true) (split c s).
Proof.
  induction s as [|x s IH]; simpl; [repeat constructor|].
  destruct (x =? c) eqn:E; [constructor; [reflexivity|exact IH]|].
  destruct (split c s) as [|h t]; [repeat constructor; simpl; rewrite E; reflexivity|].
  inversion IH; subst. constructor; auto. simpl. rewrite E. simpl. assumption.
Qed.

Lemma split_single : forall c s, forallb (fun x => negb (x =? c)) s = true -> split c s = [s].
Proof.
  induction s as [|x s IH]; simpl; auto. intro H. apply andb_true_iff in H. destruct H as [Hx Hs].
  apply negb_true_iff in Hx. rewrite Hx, (IH Hs). reflexivity.
Qed.

(* proper token prefixes, as _check_directory_structure_validity builds them *)
Lemma in_str_prefixes : forall pa rest pre, pa <> [] -> rest <> [] ->
  In (joinw slash (pre ++ pa)) (str_prefixes_from pre (pa ++ rest)).
Proof.
  induction pa as [|t pa IH]; intros rest pre Hpa Hrest; [congruence|].
  destruct pa as [|t' pa].
  - simpl. destruct rest; [congruence|]. left. reflexivity.
  - change ((t :: t' :: pa) ++ rest) with (t :: (t' :: pa) ++ rest).
    simpl str_prefixes_from. right.
    replace (pre ++ t :: t' :: pa) with ((pre ++ [t]) ++ t' :: pa) by (rewrite <- app_assoc; reflexivity).
    apply IH; [discriminate|exact Hrest].
Qed.
