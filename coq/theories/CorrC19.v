(* CorrC19.v — observational form of C19 (discovery; init_project idempotent).
   One case = one real directory tree (below the scratch directory [c19_base]) and a list of
   queries with what the implementation returned.  The model (Discover.v) is run on the same tree
   wrapped into the directories of the absolute scratch path. *)
From SV Require Import Base Json Discover.

Inductive qkind := QProject (search : bool) | QJob | QInit.
Inductive qres := RRoot (r : str) | RJob (r id : str) | RErr (e : exn).

Record query := {
  q_kind : qkind;
  q_cwd : str;                 (* os.getcwd() of the worker (physical absolute path)          *)
  q_path : str;                (* the path string handed to signac                             *)
  q_res : qres;                (* implementation: Project.path / (Job.project.path, Job.id) / exception class *)
  q_changed : bool;            (* byte snapshot of the tree differs after the call             *)
  q_post : option node         (* the tree after the call, present iff q_changed               *)
}.

Record case_C19 := { c19_base : str; c19_tree : node; c19_qs : list query }.

Definition nonempty (s : str) : bool := negb (str_eqb s []).
Definition base_comps (base : str) : list str := filter nonempty (split_sl base).
Definition mkroot (base : str) (tree : node) : node :=
  fold_right (fun c t => Dir [(c, t)]) tree (base_comps base).

Definition qres_eqb (a b : qres) : bool :=
  match a, b with
  | RRoot x, RRoot y => str_eqb x y
  | RJob x i, RJob y j => str_eqb x y && str_eqb i j
  | RErr e, RErr f => exn_eqb e f
  | _, _ => false
  end.

(* ------------------------------------------------------------------ the model on one query *)
Definition run_q (root : node) (q : query) : qres * node :=
  match q_kind q with
  | QProject s =>
      match get_project root (q_cwd q) (q_path q) s with
      | (Ok r, root') => (RRoot r, root')
      | (Err e, root') => (RErr e, root')
      end
  | QJob =>
      match get_job root (q_cwd q) (q_path q) with
      | (Ok (r, i), root') => (RJob r i, root')
      | (Err e, root') => (RErr e, root')
      end
  | QInit =>
      match init_project root (q_cwd q) (q_path q) with
      | (Ok r, root') => (RRoot r, root')
      | (Err e, root') => (RErr e, root')
      end
  end.

Definition sub_eqb (root' : node) (bc : list str) (t : node) : bool :=
  match get root' bc with Some t' => node_eqb t' t && node_eqb t t' | None => false end.

Definition agree_q (base : str) (tree : node) (q : query) : bool :=
  let root := mkroot base tree in
  let bc := base_comps base in
  let (r, root') := run_q root q in
  qres_eqb r (q_res q)
  && Bool.eqb (negb (sub_eqb root' bc tree)) (q_changed q)
  && match q_post q with
     | Some t => q_changed q && sub_eqb root' bc t
     | None => negb (q_changed q)
     end.

Definition mismatch_C19 (c : case_C19) : bool :=
  negb (forallb (agree_q (c19_base c) (c19_tree c)) (c19_qs c)).

(* ------------------------------------------------------------------ the property (oracle)
   Written over path COMPONENTS and physical lookups, independently of the string functions of
   the model. *)
Definition abs_of (comps : list str) : str := SL :: join_sl comps.

Definition q_comps (q : query) : list str :=
  norm_comps true (split_sl (os_full (q_cwd q) (q_path q))).

(* the leading empty component is the one str.split('/') yields for the leading slash *)
Definition phys (root : node) (comps : list str) : option (list str) := walk FUEL root [] ([] :: comps).

Definition slashfree (c : str) : bool := forallb (fun x => negb (is_sl x)) c.
Definition cleanb (c : str) : bool :=
  slashfree c && negb (str_eqb c []) && negb (str_eqb c s_dot) && negb (str_eqb c s_dotdot).

Definition has_cfg (root : node) (comps : list str) : bool :=
  match phys root (comps ++ [s_dotsignac; s_config]) with
  | Some ph => match get root ph with Some (File _) => true | _ => false end
  | None => false
  end.

(* the nearest enclosing project: longest prefix of the components holding .signac/config *)
Fixpoint nearest (root : node) (rcomps : list str) : option (list str) :=
  match rcomps with
  | [] => if has_cfg root [] then Some [] else None
  | _ :: r' => if has_cfg root (rev rcomps) then Some (rev rcomps) else nearest root r'
  end.

(* "32-hex-named": exactly 32 characters from 0-9a-f.  Written here from the property text, not
   taken from the model (the model's test is Discover.id_fullmatch). *)
Definition hexdigit (c : N) : bool := (N.leb 48 c && N.leb c 57) || (N.leb 97 c && N.leb c 102).
Definition is_id (c : str) : bool := Nat.eqb (List.length c) 32 && forallb hexdigit c.

(* innermost id-like component: (id, components before it, reversed) *)
Fixpoint innermost_id (rcomps : list str) : option (str * list str) :=
  match rcomps with
  | [] => None
  | c :: r => if is_id c then Some (c, r) else innermost_id r
  end.

(* layout hypothesis of the property: id-like names occur only as children of a project's workspace *)
Definition is_project_dir (es : list (str * node)) : bool :=
  match alookup s_dotsignac es with
  | Some (Dir e2) => match alookup s_config e2 with Some (File _) => true | _ => false end
  | _ => false
  end.

Fixpoint layout_ok (this_is_ws : bool) (n : node) : bool :=
  match n with
  | Dir es =>
      (fix go (l : list (str * node)) : bool :=
         match l with
         | [] => true
         | (k, v) :: l' =>
             (if is_id k then this_is_ws else true)
             && layout_ok (str_eqb k s_workspace && is_project_dir es) v
             && go l'
         end) es
  | _ => true
  end.

(* every .signac/config in the tree is an up-to-date v2 one (other versions belong to C20); leftover
   legacy signac.rc files are allowed - see rc_ok *)
Fixpoint cfgs_ok (n : node) : bool :=
  match n with
  | File (FCfg c) => optZ_eqb (cv c) (Some SCHEMA)
  | File _ => true
  | Link _ => true
  | Dir es =>
      (fix go (l : list (str * node)) : bool :=
         match l with
         | [] => true
         | (k, v) :: l' => (if str_eqb k s_rc then true else cfgs_ok v) && go l'
         end) es
  end.

(* a legacy configuration file (signac.rc) occurs somewhere in the tree *)
Fixpoint has_rc (n : node) : bool :=
  match n with
  | Dir es =>
      (fix go (l : list (str * node)) : bool :=
         match l with
         | [] => false
         | (k, v) :: l' => str_eqb k s_rc || has_rc v || go l'
         end) es
  | _ => false
  end.

Definition optpath_eqb (a b : option (list str)) : bool :=
  match a, b with
  | Some x, Some y => list_eqb str_eqb x y
  | None, None => true
  | _, _ => false
  end.

Definition dslash (p : str) : bool :=
  match p with a :: b :: _ => is_sl a && is_sl b | _ => false end.

(* the lexical reading of the query (abspath) and the kernel's reading denote the same place; the
   string-level normalisation of the model and the component-level one of this oracle agree on the
   query (validated here per query instead of proved once for every dirty input) *)
Definition regular (root : node) (q : query) : bool :=
  nonempty (q_path q) && negb (dslash (q_path q))
  && optpath_eqb (os_resolve root (q_cwd q) (q_path q)) (phys root (q_comps q))
  && forallb cleanb (q_comps q)
  && str_eqb (abspath (q_cwd q) (q_path q)) (abs_of (q_comps q))
  && str_eqb (cfgfn (q_cwd q) (q_path q)) (abs_of (q_comps q ++ [s_dotsignac; s_config])).

(* the only symbolic links of the property's quantifier are symlinked job directories *)
Fixpoint links_ok (this_is_ws : bool) (n : node) : bool :=
  match n with
  | Dir es =>
      (fix go (l : list (str * node)) : bool :=
         match l with
         | [] => true
         | (k, v) :: l' =>
             match v with Link _ => is_id k && this_is_ws | _ => true end
             && links_ok (str_eqb k s_workspace && is_project_dir es) v
             && go l'
         end) es
  | _ => true
  end.

Definition exists_at (root : node) (comps : list str) : bool :=
  match phys root comps with
  | Some ph => match get root ph with Some _ => true | None => false end
  | None => false
  end.

(* the layout hypothesis of the property, read on the query path of a get_job query (decidable facts
   about the INPUT, validated per query): if the path exists and i is its innermost id-like
   component then i is a child of <project>/workspace
   (the component before i is 'workspace', the directory before that holds a configuration, the
   workspace directory itself is not a project and resolves), and the job path /…/i is a directory
   (so that /…/i/.. exists). *)
Definition job_layout (root : node) (cwd : str) (comps : list str) : bool :=
  (negb (exists_at root comps)
      || match innermost_id (rev comps) with
         | None => true
         | Some (i, w :: rproj) =>
             str_eqb w s_workspace && has_cfg root (rev rproj) && negb (has_cfg root (rev (w :: rproj)))
             && match phys root (rev (w :: rproj)) with Some _ => true | None => false end
             && os_exists root cwd (path_join (abs_of (rev (w :: rproj) ++ [i])) s_pardir)
         | Some (_, []) => false
         end).

Definition expected (root : node) (q : query) : option qres :=
  let comps := q_comps q in
  let ex := match phys root comps with
            | Some ph => match get root ph with Some _ => true | None => false end
            | None => false
            end in
  match q_kind q with
  | QProject true =>
      Some (if ex then match nearest root (rev comps) with
                       | Some r => RRoot (abs_of r)
                       | None => RErr ELookupError
                       end
            else RErr ELookupError)
  | QProject false =>
      Some (if ex && has_cfg root comps then RRoot (abs_of comps) else RErr ELookupError)
  | QJob =>
      Some (if ex then
              match innermost_id (rev comps) with
              | None => RErr ELookupError
              | Some (i, rbefore) =>
                  match nearest root rbefore with
                  | Some r => RJob (abs_of r) i
                  | None => RErr ELookupError
                  end
              end
            else RErr ELookupError)
  | QInit =>
      if ex && has_cfg root comps then Some (RRoot (abs_of comps)) else None
  end.

(* leftover legacy files (signac.rc in a plain sub-directory, a job directory, beside a current
   configuration).  The property speaks of the nearest enclosing INITIALISED project: whenever there
   is one (the expected answer is a project / a job), a legacy file on the way is not an initialised
   project and must be walked past.  When nothing is found the refusal of a legacy project
   (IncompatibleSchemaVersion instead of LookupError) is C20's subject: such queries are compared with
   the model only, unless the path does not exist at all. *)
Definition rc_ok (root : node) (tree : node) (q : query) : bool :=
  negb (has_rc tree)
  || match expected root q with
     | Some (RErr _) => negb (exists_at root (q_comps q))
     | _ => true
     end.

Definition pre_q (base : str) (tree : node) (q : query) : bool :=
  forallb (fun c => negb (is_id c)) (base_comps base)
  && layout_ok false tree && links_ok false tree && cfgs_ok tree && rc_ok (mkroot base tree) tree q
  && regular (mkroot base tree) q
  && match q_kind q with
     | QJob => job_layout (mkroot base tree) (q_cwd q) (q_comps q)
     | _ => true
     end.

(* the job's project is the one whose workspace physically holds the job directory *)
Definition holder_ok (root : node) (q : query) : bool :=
  match q_kind q, q_res q with
  | QJob, RJob r _ =>
      match innermost_id (rev (q_comps q)) with
      | Some (_, rbefore) =>
          match phys root (rev rbefore) with
          | Some ph => optpath_eqb (Some ph) (phys root (norm_comps true (split_sl r) ++ [s_workspace]))
          | None => false
          end
      | None => false
      end
  | _, _ => true
  end.

(* init_project on an existing project: nothing changes, except that a missing workspace directory
   is (re)created empty *)
Definition init_unchanged (base : str) (tree : node) (q : query) : bool :=
  let root := mkroot base tree in
  let comps := q_comps q in
  negb (q_changed q)
  || match q_post q, phys root comps with
     | Some t, Some ph =>
         match get root (ph ++ [s_workspace]) with
         | None => sub_eqb (upd (ph ++ [s_workspace]) (Some (Dir [])) root) (base_comps base) t
         | Some _ => false
         end
     | _, _ => false
     end.

Definition holds_core (base : str) (tree : node) (q : query) : bool :=
  if pre_q base tree q then
    let root := mkroot base tree in
    match expected root q with
    | Some r =>
        qres_eqb (q_res q) r && holder_ok root q
        && match q_kind q with QInit => init_unchanged base tree q | _ => true end
    | None => true
    end
  else true.

(* discovery never resets anything: a call that returns a project (or a job of it) leaves the whole tree
   byte for byte as it was, except that the missing workspace directory of THAT project is (re)created
   empty - configuration, project document, state point cache and everything else stay; a call that
   raises leaves the tree untouched.  (init_project: clause init_unchanged of holds_core.) *)
Definition unchanged_or_ws (base : str) (tree : node) (q : query) (pcomps : list str) : bool :=
  let root := mkroot base tree in
  negb (q_changed q)
  || match q_post q, phys root pcomps with
     | Some t, Some ph =>
         match get root (ph ++ [s_workspace]) with
         | None => sub_eqb (upd (ph ++ [s_workspace]) (Some (Dir [])) root) (base_comps base) t
         | Some _ => false
         end
     | _, _ => false
     end.

Definition change_ok (base : str) (tree : node) (q : query) : bool :=
  match q_kind q, q_res q with
  | QInit, RRoot _ => true                                   (* init_unchanged *)
  | _, RRoot r => unchanged_or_ws base tree q (norm_comps true (split_sl r))
  | _, RJob r _ => unchanged_or_ws base tree q (norm_comps true (split_sl r))
  | _, RErr _ => negb (q_changed q)
  end.

Definition holds_q (base : str) (tree : node) (q : query) : bool :=
  holds_core base tree q
  && (if pre_q base tree q then
        match expected (mkroot base tree) q with Some _ => change_ok base tree q | None => true end
      else true).

Definition violation_C19 (c : case_C19) : bool :=
  negb (forallb (holds_q (c19_base c) (c19_tree c)) (c19_qs c)).

Definition mismatches_C19 (cs : list case_C19) : list N := indices_where mismatch_C19 cs.
Definition violations_C19 (cs : list case_C19) : list N := indices_where violation_C19 cs.

(* debugging aids (not used by the driver): which queries of a case disagree / violate *)
Definition bad_queries (c : case_C19) : list N :=
  indices_where (fun q => negb (agree_q (c19_base c) (c19_tree c) q)) (c19_qs c).
Definition viol_queries (c : case_C19) : list N :=
  indices_where (fun q => negb (holds_q (c19_base c) (c19_tree c) q)) (c19_qs c).
Definition model_q (c : case_C19) (i : nat) : option qres :=
  match nth_error (c19_qs c) i with
  | Some q => Some (fst (run_q (mkroot (c19_base c) (c19_tree c)) q))
  | None => None
  end.
Definition pre_count (c : case_C19) : N * N :=
  (N.of_nat (List.length (filter (pre_q (c19_base c) (c19_tree c)) (c19_qs c))), N.of_nat (List.length (c19_qs c))).
