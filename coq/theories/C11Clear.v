(* C11Clear.v — Job.clear() after 187ceef: an error (other than ENOENT) at the lstat of ANY entry of the job
   directory propagates as that OSError, for every tree, every listing order and every position of the run
   (before the repair os.path.isfile / isdir read it as "False" and the entry was skipped: known finding 5). *)
From SV Require Import Base Json MD5 Canon FS Proc Crash WsNames CorrC11.
Import ListNotations.

Section CLR.
  Variable dir : path.

  (* a stat of a direct entry of [dir]: clear's lstat of the entry, or rmtree's lstat of the same path *)
  Definition entry_stat (c : call) : bool :=
    match c with CStat q => path_eqb (parent q) dir | _ => false end.

  (* programs in which a failing entry stat raises that error at once *)
  Inductive sprog : prog unit -> Prop :=
  | sp_ret : forall a, sprog (Ret a)
  | sp_raise : forall e, sprog (Raise e)
  | sp_do : forall c k, (forall r, sprog (k r)) ->
            (entry_stat c = true -> forall e, e <> ENOENT -> k (FErr e) = Raise (POs e)) -> sprog (Do c k).

  Lemma sprog_fault : forall p, sprog p -> forall n k e f, e <> ENOENT -> n <= k ->
    (exists c, nth_error (map fst (trace p f)) (k - n) = Some c /\ entry_stat c = true) ->
    snd (run_fault (single k e) n p f) = inr (POs e).
  Proof.
    intros p Hp. induction Hp as [a|x|c k0 Hk IH Hs]; intros n k e f He Hn [c0 [Hc Hes]].
    - destruct (k - n); discriminate.
    - destruct (k - n); discriminate.
    - cbn [run_fault]. unfold single at 1. destruct (Nat.eqb n k) eqn:Enk.
      + apply Nat.eqb_eq in Enk. subst n. rewrite Nat.sub_diag in Hc. cbn [trace] in Hc.
        destruct (exec_res f c) as [f' r]. cbn in Hc. injection Hc as <-.
        rewrite (Hs Hes e He). reflexivity.
      + apply Nat.eqb_neq in Enk. cbn [trace] in Hc. destruct (exec_res f c) as [f' r] eqn:E.
        assert (Ek : k - n = S (k - S n)) by lia. rewrite Ek in Hc. cbn in Hc.
        apply (IH r (S n) k e f' He); [lia|]. exists c0. auto.
  Qed.

  Lemma sp_pure : forall c k, entry_stat c = false -> (forall r, sprog (k r)) -> sprog (Do c k).
  Proof. intros c k Hc Hk. apply sp_do; auto. rewrite Hc. discriminate. Qed.

  Lemma es_snoc : forall p m, p <> dir -> entry_stat (CStat (p ++ [m])) = false.
  Proof. intros p m Hp. cbn. rewrite parent_snoc. apply path_eqb_neq. exact Hp. Qed.

  (* the walk of rmtree below an entry: its (model-internal) stats are on deeper paths *)
  Lemma sp_rmtree : forall fuel p (k : fres unit -> prog unit),
    length dir < length p -> (forall r, sprog (k r)) -> sprog (rmtree_p fuel p k).
  Proof.
    induction fuel as [|fuel IH]; intros p k Hl Hk; cbn [rmtree_p].
    - apply sp_pure; [reflexivity|]. intros [v|e]; [|apply Hk]. destruct v; try apply Hk.
      induction l as [|m ns IHn].
      + apply sp_pure; [reflexivity|]. intros [v|e]; apply Hk.
      + apply sp_pure; [apply es_snoc; intro E; subst p; lia|]. intro rk. destruct (is_dir_r rk); [apply Hk|].
        apply sp_pure; [reflexivity|]. intros [v|e]; [exact IHn|apply Hk].
    - apply sp_pure; [reflexivity|]. intros [v|e]; [|apply Hk]. destruct v; try apply Hk.
      induction l as [|m ns IHn].
      + apply sp_pure; [reflexivity|]. intros [v|e]; apply Hk.
      + apply sp_pure; [apply es_snoc; intro E; subst p; lia|]. intro rk. destruct (is_dir_r rk).
        * apply IH; [rewrite app_length; simpl; lia|]. intros [v|e]; [exact IHn|apply Hk].
        * apply sp_pure; [reflexivity|]. intros [v|e]; [exact IHn|apply Hk].
  Qed.
End CLR.

Lemma sprog_clear : forall frepr ws i, sprog (ws ++ [i]) (clear_job frepr [] ws i ret_res).
Proof.
  intros frepr ws i. set (d := ws ++ [i]).
  assert (Hfin : forall r : unit + perr, sprog d
            match r with inr (POs ENOENT) => ret_res (inl tt) | _ => ret_res r end).
  { intros [u|[x|e]]; simpl; try constructor. destruct e; simpl; constructor. }
  assert (Hraise : forall e, e <> ENOENT ->
            match (inr (POs e) : unit + perr) with inr (POs ENOENT) => ret_res (inl tt) | r => ret_res r end = Raise (POs e)).
  { intros e He. destruct e; try contradiction; reflexivity. }
  unfold clear_job. fold d. apply sp_pure; [reflexivity|]. intros [v|e]; [|apply (Hfin (inr (POs e)))].
  destruct v; try apply (Hfin (inr (PExn EOther))).
  induction l as [|n ns IHn].
  - unfold doc_load. apply sp_pure; [reflexivity|]. intros [v|e].
    + destruct v; try apply (Hfin (inr (PExn EOther))). destruct (c_json c); [|apply (Hfin (inr (PExn EValueError)))].
      unfold doc_store, json_save.
      apply sp_pure; [reflexivity|]. intros [v1|e1]; [|apply (Hfin (inr (POs e1)))].
      apply sp_pure; [reflexivity|]. intro rw. apply sp_pure; [reflexivity|]. intro rc.
      destruct rw as [vw|ew], rc as [vc|ec]; try apply (Hfin (inr (POs _))).
      apply sp_pure; [reflexivity|]. intros [v2|e2]; [apply (Hfin (inl tt))|apply (Hfin (inr (POs e2)))].
    + destruct e; try (cbn [ret_res]; apply sp_raise).
      unfold doc_store, json_save.
      apply sp_pure; [reflexivity|]. intros [v1|e1]; [|apply (Hfin (inr (POs e1)))].
      apply sp_pure; [reflexivity|]. intro rw. apply sp_pure; [reflexivity|]. intro rc.
      destruct rw as [vw|ew], rc as [vc|ec]; try apply (Hfin (inr (POs _))).
      apply sp_pure; [reflexivity|]. intros [v2|e2]; [apply (Hfin (inl tt))|apply (Hfin (inr (POs e2)))].
  - destruct (str_eqb n SPF || str_eqb n DOCF); [exact IHn|].
    (* the lstat of the entry *)
    apply sp_do.
    + intros [v|e]; [|apply (Hfin (inr (POs e)))].
      destruct v as [|kd|c|l].
      * apply sp_pure; [reflexivity|]; intros [v1|e]; [exact IHn|apply (Hfin (inr (POs e)))].
      * destruct kd.
        -- apply (Hfin (inr (POs ENOENT))).
        -- apply sp_pure; [reflexivity|]; intros [v1|e]; [exact IHn|apply (Hfin (inr (POs e)))].
        -- unfold rmtree_top. apply sp_do.
           ++ intros [v1|e]; [|apply (Hfin (inr (POs e)))].
              apply sp_rmtree; [unfold d; rewrite !app_length; simpl; lia|].
              intros [v2|e]; [exact IHn|apply (Hfin (inr (POs e)))].
           ++ intros _ e He. destruct e; try contradiction; reflexivity.
      * apply sp_pure; [reflexivity|]; intros [v1|e]; [exact IHn|apply (Hfin (inr (POs e)))].
      * apply sp_pure; [reflexivity|]; intros [v1|e]; [exact IHn|apply (Hfin (inr (POs e)))].
    + intros _ e He. destruct e; try contradiction; reflexivity.
Qed.

(* Job.clear(): an error other than ENOENT injected at the lstat of a direct entry of the job directory — the
   k-th call of the run, whichever entry, whatever was removed before — is raised to the caller. *)
Theorem clear_entry_stat_fault_propagates : forall frepr atomic ws i f0 k e q,
  e <> ENOENT ->
  nth_error (map fst (trace (op_prog frepr atomic (KClear ws i)) f0)) k = Some (CStat q) ->
  parent q = ws ++ [i] ->
  snd (run_fault (single k e) 0 (op_prog frepr atomic (KClear ws i)) f0) = inr (POs e).
Proof.
  intros frepr atomic ws i f0 k e q He Hn Hq.
  apply (sprog_fault (ws ++ [i]) _ (sprog_clear frepr ws i) 0 k e f0 He); [lia|].
  rewrite Nat.sub_0_r. exists (CStat q). split; [exact Hn|]. cbn. rewrite Hq. apply path_eqb_refl.
Qed.
