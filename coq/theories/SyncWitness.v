(* SyncWitness.v — concrete inputs on which the faithful model (cfg_current) violates a property; each is
   also a file of /verif/corpus and is replayed on the real signac by the harness on every run. *)
From SV Require Import Base Json Canon Sync SyncObs CorrC13 CorrC14 CorrC15.

Definition nofl : fl -> str := fun _ => [].

Definition wit_C13_w1 : sinput :=
  {| i_src := {| p_top := (@nil (str * node)); p_ws := [([57;98;102;100;50;57;100;102;48;55;54;55;52;98;99;52;97;97;57;54;48;99;102;54;54;49;98;53;97;99;100;50]%N, (Dir [([116;97;103;115]%N, (File (Bytes [65]%N) (8388608000)%Z)); ([115;105;103;110;97;99;95;115;116;97;116;101;112;111;105;110;116;46;106;115;111;110]%N, (File (JDoc (JObj [([97]%N, (JInt (0)%Z))])) (10066329600)%Z))]))] |}; i_dst := {| p_top := (@nil (str * node)); p_ws := [([57;98;102;100;50;57;100;102;48;55;54;55;52;98;99;52;97;97;57;54;48;99;102;54;54;49;98;53;97;99;100;50]%N, (Dir [([115;105;103;110;97;99;95;115;116;97;116;101;112;111;105;110;116;46;106;115;111;110]%N, (File (JDoc (JObj [([97]%N, (JInt (0)%Z))])) (10066329600)%Z))]))] |}; i_opts := {| o_strategy := (Some FS_always); o_docsync := (DS_bykey None); o_recursive := false; o_exclude := (tabf (@nil (str * bool))); o_selection := None; o_check_schema := false; o_deep := false; o_dry_run := false |}; i_entry := E_project; i_parallel := false |}.

Definition wit_C13_w2 : sinput :=
  {| i_src := {| p_top := (@nil (str * node)); p_ws := [([57;98;102;100;50;57;100;102;48;55;54;55;52;98;99;52;97;97;57;54;48;99;102;54;54;49;98;53;97;99;100;50]%N, (Dir [([115;105;103;110;97;99;95;115;116;97;116;101;112;111;105;110;116;46;106;115;111;110;46;98;97;107]%N, (File (Bytes [65]%N) (8388608000)%Z)); ([115;105;103;110;97;99;95;115;116;97;116;101;112;111;105;110;116;46;106;115;111;110]%N, (File (JDoc (JObj [([97]%N, (JInt (0)%Z))])) (10066329600)%Z))]))] |}; i_dst := {| p_top := (@nil (str * node)); p_ws := [([57;98;102;100;50;57;100;102;48;55;54;55;52;98;99;52;97;97;57;54;48;99;102;54;54;49;98;53;97;99;100;50]%N, (Dir [([115;105;103;110;97;99;95;115;116;97;116;101;112;111;105;110;116;46;106;115;111;110]%N, (File (JDoc (JObj [([97]%N, (JInt (0)%Z))])) (10066329600)%Z))]))] |}; i_opts := {| o_strategy := (Some FS_always); o_docsync := (DS_bykey None); o_recursive := false; o_exclude := (tabf (@nil (str * bool))); o_selection := None; o_check_schema := false; o_deep := false; o_dry_run := false |}; i_entry := E_project; i_parallel := false |}.

Definition wit_C15_w1 : sinput :=
  {| i_src := {| p_top := (@nil (str * node)); p_ws := [([57;98;102;100;50;57;100;102;48;55;54;55;52;98;99;52;97;97;57;54;48;99;102;54;54;49;98;53;97;99;100;50]%N, (Dir [([120]%N, (File (Bytes [65]%N) (8388608000)%Z)); ([115;105;103;110;97;99;95;115;116;97;116;101;112;111;105;110;116;46;106;115;111;110]%N, (File (JDoc (JObj [([97]%N, (JInt (0)%Z))])) (10066329600)%Z))]))] |}; i_dst := {| p_top := (@nil (str * node)); p_ws := [([57;98;102;100;50;57;100;102;48;55;54;55;52;98;99;52;97;97;57;54;48;99;102;54;54;49;98;53;97;99;100;50]%N, (Dir [([115;105;103;110;97;99;95;115;116;97;116;101;112;111;105;110;116;46;106;115;111;110]%N, (File (JDoc (JObj [([97]%N, (JInt (0)%Z))])) (10066329600)%Z))]))] |}; i_opts := {| o_strategy := None; o_docsync := (DS_bykey None); o_recursive := false; o_exclude := (tabf (@nil (str * bool))); o_selection := None; o_check_schema := false; o_deep := false; o_dry_run := true |}; i_entry := E_project; i_parallel := false |}.

Definition wit_C15_w2 : sinput :=
  {| i_src := {| p_top := (@nil (str * node)); p_ws := [([57;98;102;100;50;57;100;102;48;55;54;55;52;98;99;52;97;97;57;54;48;99;102;54;54;49;98;53;97;99;100;50]%N, (Dir [([101;109;112]%N, (Dir (@nil (str * node)))); ([115;105;103;110;97;99;95;115;116;97;116;101;112;111;105;110;116;46;106;115;111;110]%N, (File (JDoc (JObj [([97]%N, (JInt (0)%Z))])) (10066329600)%Z))]))] |}; i_dst := {| p_top := (@nil (str * node)); p_ws := [([57;98;102;100;50;57;100;102;48;55;54;55;52;98;99;52;97;97;57;54;48;99;102;54;54;49;98;53;97;99;100;50]%N, (Dir [([115;105;103;110;97;99;95;115;116;97;116;101;112;111;105;110;116;46;106;115;111;110]%N, (File (JDoc (JObj [([97]%N, (JInt (0)%Z))])) (10066329600)%Z))]))] |}; i_opts := {| o_strategy := None; o_docsync := (DS_bykey None); o_recursive := true; o_exclude := (tabf (@nil (str * bool))); o_selection := None; o_check_schema := false; o_deep := false; o_dry_run := true |}; i_entry := E_project; i_parallel := false |}.

Definition wit_C15_w3 : sinput :=
  {| i_src := {| p_top := (@nil (str * node)); p_ws := [([57;98;102;100;50;57;100;102;48;55;54;55;52;98;99;52;97;97;57;54;48;99;102;54;54;49;98;53;97;99;100;50]%N, (Dir [([115;105;103;110;97;99;95;106;111;98;95;100;111;99;117;109;101;110;116;46;106;115;111;110]%N, (File (JDoc (JObj [([110]%N, (JObj [([112]%N, (JInt (1)%Z)); ([113]%N, (JInt (2)%Z))]))])) (10066329600)%Z)); ([115;105;103;110;97;99;95;115;116;97;116;101;112;111;105;110;116;46;106;115;111;110]%N, (File (JDoc (JObj [([97]%N, (JInt (0)%Z))])) (10066329600)%Z))]))] |}; i_dst := {| p_top := (@nil (str * node)); p_ws := [([57;98;102;100;50;57;100;102;48;55;54;55;52;98;99;52;97;97;57;54;48;99;102;54;54;49;98;53;97;99;100;50]%N, (Dir [([115;105;103;110;97;99;95;106;111;98;95;100;111;99;117;109;101;110;116;46;106;115;111;110]%N, (File (JDoc (JObj [([110]%N, (JObj [([112]%N, (JInt (1)%Z))]))])) (10066329600)%Z)); ([115;105;103;110;97;99;95;115;116;97;116;101;112;111;105;110;116;46;106;115;111;110]%N, (File (JDoc (JObj [([97]%N, (JInt (0)%Z))])) (10066329600)%Z))]))] |}; i_opts := {| o_strategy := None; o_docsync := (DS_bykey None); o_recursive := false; o_exclude := (tabf (@nil (str * bool))); o_selection := None; o_check_schema := true; o_deep := false; o_dry_run := true |}; i_entry := (E_job [57;98;102;100;50;57;100;102;48;55;54;55;52;98;99;52;97;97;57;54;48;99;102;54;54;49;98;53;97;99;100;50]%N [57;98;102;100;50;57;100;102;48;55;54;55;52;98;99;52;97;97;57;54;48;99;102;54;54;49;98;53;97;99;100;50]%N (JObj [([97]%N, (JInt (0)%Z))])); i_parallel := false |}.

Definition wit_C15_w4 : sinput :=
  {| i_src := {| p_top := (@nil (str * node)); p_ws := [([57;98;102;100;50;57;100;102;48;55;54;55;52;98;99;52;97;97;57;54;48;99;102;54;54;49;98;53;97;99;100;50]%N, (Dir [([120]%N, (File (Bytes [65;65]%N) (8388608000)%Z)); ([115;105;103;110;97;99;95;115;116;97;116;101;112;111;105;110;116;46;106;115;111;110]%N, (File (JDoc (JObj [([97]%N, (JInt (0)%Z))])) (10066329600)%Z))]))] |}; i_dst := {| p_top := (@nil (str * node)); p_ws := [([57;98;102;100;50;57;100;102;48;55;54;55;52;98;99;52;97;97;57;54;48;99;102;54;54;49;98;53;97;99;100;50]%N, (Dir [([120]%N, (File (Bytes [66;66]%N) (8388608000)%Z)); ([115;105;103;110;97;99;95;115;116;97;116;101;112;111;105;110;116;46;106;115;111;110]%N, (File (JDoc (JObj [([97]%N, (JInt (0)%Z))])) (10066329600)%Z))]))] |}; i_opts := {| o_strategy := None; o_docsync := (DS_bykey None); o_recursive := false; o_exclude := (tabf (@nil (str * bool))); o_selection := None; o_check_schema := false; o_deep := true; o_dry_run := false |}; i_entry := E_project; i_parallel := false |}.

Definition wit_C15_w5 : sinput :=
  {| i_src := {| p_top := (@nil (str * node)); p_ws := [([57;98;102;100;50;57;100;102;48;55;54;55;52;98;99;52;97;97;57;54;48;99;102;54;54;49;98;53;97;99;100;50]%N, (Dir [([120]%N, (File (Bytes [65]%N) (8388608000)%Z)); ([115;105;103;110;97;99;95;115;116;97;116;101;112;111;105;110;116;46;106;115;111;110]%N, (File (JDoc (JObj [([97]%N, (JInt (0)%Z))])) (10066329600)%Z))]))] |}; i_dst := {| p_top := (@nil (str * node)); p_ws := (@nil (str * node)) |}; i_opts := {| o_strategy := None; o_docsync := (DS_bykey None); o_recursive := false; o_exclude := (tabf [([120]%N, true)]); o_selection := None; o_check_schema := false; o_deep := false; o_dry_run := false |}; i_entry := E_project; i_parallel := false |}.

Definition wit_C15_w6 : sinput :=
  {| i_src := {| p_top := (@nil (str * node)); p_ws := [([57;98;102;100;50;57;100;102;48;55;54;55;52;98;99;52;97;97;57;54;48;99;102;54;54;49;98;53;97;99;100;50]%N, (Dir [([115;105;103;110;97;99;95;115;116;97;116;101;112;111;105;110;116;46;106;115;111;110]%N, (File (JDoc (JObj [([97]%N, (JInt (0)%Z))])) (10066329600)%Z))]))] |}; i_dst := {| p_top := (@nil (str * node)); p_ws := (@nil (str * node)) |}; i_opts := {| o_strategy := None; o_docsync := (DS_bykey None); o_recursive := false; o_exclude := (tabf (@nil (str * bool))); o_selection := None; o_check_schema := true; o_deep := false; o_dry_run := true |}; i_entry := (E_job [57;98;102;100;50;57;100;102;48;55;54;55;52;98;99;52;97;97;57;54;48;99;102;54;54;49;98;53;97;99;100;50]%N [52;50;98;55;98;52;102;50;57;50;49;55;56;56;101;97;49;52;100;97;99;53;53;54;54;101;54;102;48;54;100;48]%N (JObj [([97]%N, (JInt (1)%Z))])); i_parallel := false |}.

Definition wit_C14_w1 : sinput :=
  {| i_src := {| p_top := (@nil (str * node)); p_ws := [([57;98;102;100;50;57;100;102;48;55;54;55;52;98;99;52;97;97;57;54;48;99;102;54;54;49;98;53;97;99;100;50]%N, (Dir [([115;105;103;110;97;99;95;106;111;98;95;100;111;99;117;109;101;110;116;46;106;115;111;110]%N, (File (JDoc (JObj [([97]%N, (JObj [([98]%N, (JObj [([99]%N, (JInt (1)%Z))]))]))])) (10066329600)%Z)); ([115;105;103;110;97;99;95;115;116;97;116;101;112;111;105;110;116;46;106;115;111;110]%N, (File (JDoc (JObj [([97]%N, (JInt (0)%Z))])) (10066329600)%Z))]))] |}; i_dst := {| p_top := (@nil (str * node)); p_ws := [([57;98;102;100;50;57;100;102;48;55;54;55;52;98;99;52;97;97;57;54;48;99;102;54;54;49;98;53;97;99;100;50]%N, (Dir [([115;105;103;110;97;99;95;106;111;98;95;100;111;99;117;109;101;110;116;46;106;115;111;110]%N, (File (JDoc (JObj [([97]%N, (JObj [([98]%N, (JObj [([99]%N, (JInt (2)%Z))]))]))])) (10066329600)%Z)); ([115;105;103;110;97;99;95;115;116;97;116;101;112;111;105;110;116;46;106;115;111;110]%N, (File (JDoc (JObj [([97]%N, (JInt (0)%Z))])) (10066329600)%Z))]))] |}; i_opts := {| o_strategy := None; o_docsync := (DS_bykey (Some (tabf [([98;46;99]%N, true)]))); o_recursive := false; o_exclude := (tabf (@nil (str * bool))); o_selection := None; o_check_schema := true; o_deep := false; o_dry_run := false |}; i_entry := (E_job [57;98;102;100;50;57;100;102;48;55;54;55;52;98;99;52;97;97;57;54;48;99;102;54;54;49;98;53;97;99;100;50]%N [57;98;102;100;50;57;100;102;48;55;54;55;52;98;99;52;97;97;57;54;48;99;102;54;54;49;98;53;97;99;100;50]%N (JObj [([97]%N, (JInt (0)%Z))])); i_parallel := false |}.

(* F3: a dry run that would copy one file raises TypeError, the real run returns *)
Lemma w1_facts :
  o_dry_run (i_opts wit_C15_w1) = true
  /\ ob_exn (c_obs (model_case nofl cfg_current wit_C15_w1)) = Some ETypeError
  /\ option_map ob_exn (c_ref (model_case nofl cfg_current wit_C15_w1)) = Some None
  /\ dry_ok nofl (model_case nofl cfg_current wit_C15_w1) = false
  /\ dry_ok nofl (model_case nofl cfg_fixed wit_C15_w1) = true.
Proof. vm_compute. repeat split. Qed.

(* F4: a dry run creates the (empty) left-only directory *)
Lemma w2_facts :
  o_dry_run (i_opts wit_C15_w2) = true
  /\ ob_exn (c_obs (model_case nofl cfg_current wit_C15_w2)) = None
  /\ proj_eqb nofl (i_dst wit_C15_w2) (ob_dst (c_obs (model_case nofl cfg_current wit_C15_w2))) = false
  /\ dry_ok nofl (model_case nofl cfg_current wit_C15_w2) = false
  /\ dry_ok nofl (model_case nofl cfg_fixed wit_C15_w2) = true.
Proof. vm_compute. repeat split. Qed.

(* F16: a dry run writes the non-conflicting nested key n.q *)
Lemma w3_facts :
  o_dry_run (i_opts wit_C15_w3) = true
  /\ ob_exn (c_obs (model_case nofl cfg_current wit_C15_w3)) = None
  /\ proj_eqb nofl (i_dst wit_C15_w3) (ob_dst (c_obs (model_case nofl cfg_current wit_C15_w3))) = false
  /\ dry_ok nofl (model_case nofl cfg_current wit_C15_w3) = false
  /\ dry_ok nofl (model_case nofl cfg_fixed wit_C15_w3) = true.
Proof. vm_compute. repeat split. Qed.

(* F5: deep=True at project level, equal size and mtime, different bytes, no strategy: no conflict raised *)
Lemma w4_facts :
  o_deep (i_opts wit_C15_w4) = true /\ o_strategy (i_opts wit_C15_w4) = None
  /\ ob_exn (c_obs (model_case nofl cfg_current wit_C15_w4)) = None
  /\ deep_ok nofl wit_C15_w4 (c_obs (model_case nofl cfg_current wit_C15_w4)) = false
  /\ ob_exn (c_obs (model_case nofl cfg_fixed wit_C15_w4)) = Some EFileSyncConflict
  /\ deep_ok nofl wit_C15_w4 (c_obs (model_case nofl cfg_fixed wit_C15_w4)) = true.
Proof. vm_compute. repeat split. Qed.

(* exclude='x': the cloned job nevertheless contains x *)
Lemma w5_facts :
  o_exclude (i_opts wit_C15_w5) [120%N] = true
  /\ exclude_ok nofl wit_C15_w5 (c_obs (model_case nofl cfg_current wit_C15_w5)) = false
  /\ exclude_ok nofl wit_C15_w5 (c_obs (model_case nofl cfg_fixed wit_C15_w5)) = true.
Proof. vm_compute. repeat split. Qed.

(* dry run of Job.sync into an uninitialised destination job: FileNotFoundError, the real run returns *)
Lemma w6_facts :
  o_dry_run (i_opts wit_C15_w6) = true
  /\ ob_exn (c_obs (model_case nofl cfg_current wit_C15_w6)) = Some EOSError
  /\ option_map ob_exn (c_ref (model_case nofl cfg_current wit_C15_w6)) = Some None
  /\ dry_ok nofl (model_case nofl cfg_current wit_C15_w6) = false
  /\ dry_ok nofl (model_case nofl cfg_fixed wit_C15_w6) = true.
Proof. vm_compute. repeat split. Qed.

(* ByKey at depth 3: the key strategy accepts "b.c" only, the key a.b.c is overwritten *)
Lemma w1_C14_facts :
  docs_ok nofl wit_C14_w1 (c_obs (model_case nofl cfg_current wit_C14_w1)) = false
  /\ docs_ok nofl wit_C14_w1 (c_obs (model_case nofl cfg_fixed wit_C14_w1)) = true.
Proof. vm_compute. repeat split. Qed.

(* C13: a source-only file named 'tags' is not copied into the existing job (filecmp.DEFAULT_IGNORES) *)
Lemma w1_C13_facts :
  ob_exn (c_obs (model_case nofl cfg_current wit_C13_w1)) = None
  /\ superset nofl wit_C13_w1 (c_obs (model_case nofl cfg_current wit_C13_w1)) = false
  /\ holds_C13 nofl (model_case nofl cfg_fixed wit_C13_w1) = true.
Proof. vm_compute. repeat split. Qed.

(* C13: a source-only file named 'signac_statepoint.json.bak' is not copied (un-anchored implicit pattern) *)
Lemma w2_C13_facts :
  ob_exn (c_obs (model_case nofl cfg_current wit_C13_w2)) = None
  /\ superset nofl wit_C13_w2 (c_obs (model_case nofl cfg_current wit_C13_w2)) = false
  /\ holds_C13 nofl (model_case nofl cfg_fixed wit_C13_w2) = true.
Proof. vm_compute. repeat split. Qed.
