(* C02Proofs.v — lemmas behind props/C02.v *)
From SV Require Import Base Json MD5 Canon FS Ws CorrC02.

Section S.
  Variable frepr : fl -> str.

  Lemma open_sp_no_fs_effect : forall w s sp,
    w_fs (fst (open_sp frepr w s sp)) = w_fs w /\ w_tr (fst (open_sp frepr w s sp)) = w_tr w.
  Proof. intros. split; reflexivity. Qed.
End S.
