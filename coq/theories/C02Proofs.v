(* C02Proofs.v — lemmas behind props/C02.v *)
From SV Require Import Base Json MD5 Canon FS Ws WsLemmas WsInit CorrC02.

(* ------------------------------------------------------------------ id / prefix resolution *)
Lemma filter_all_eq : forall (P : str -> bool) (ids : list str) m,
  NoDup ids -> In m ids -> P m = true -> (forall m', In m' ids -> P m' = true -> m' = m) ->
  filter P ids = [m].
Proof.
  intros P ids m Hnd Hin Hp Huniq.
  induction ids as [|x ids IH]; [contradiction|].
  inversion Hnd as [|? ? Hx Hnd']; subst. simpl.
  destruct Hin as [->|Hin].
  - rewrite Hp. f_equal.
    assert (Hnone : forall y, In y ids -> P y = false).
    { intros y Hy. destruct (P y) eqn:E; auto.
      assert (y = m) by (apply Huniq; simpl; auto). subst. contradiction. }
    clear - Hnone. induction ids as [|y ids IH]; simpl; auto.
    rewrite (Hnone y) by (simpl; auto). apply IH. intros z Hz. apply Hnone. simpl. auto.
  - destruct (P x) eqn:E.
    + assert (x = m) by (apply Huniq; simpl; auto). subst. contradiction.
    + apply IH; auto. intros m' Hm'. apply Huniq. simpl. auto.
Qed.

Lemma filter_two : forall (P : str -> bool) (ids : list str) a b,
  In a ids -> In b ids -> a <> b -> P a = true -> P b = true ->
  exists x y r, filter P ids = x :: y :: r.
Proof.
  intros P ids a b Ha Hb Hab Pa Pb.
  assert (Hfa : In a (filter P ids)) by (apply filter_In; auto).
  assert (Hfb : In b (filter P ids)) by (apply filter_In; auto).
  destruct (filter P ids) as [|x [|y r]]; [contradiction| |eauto].
  simpl in Hfa, Hfb. destruct Hfa as [<-|[]]. destruct Hfb as [<-|[]]. contradiction.
Qed.

Lemma filter_none : forall (P : str -> bool) (ids : list str),
  (forall m, In m ids -> P m = false) -> filter P ids = [].
Proof.
  intros P ids H. induction ids as [|x ids IH]; simpl; auto.
  rewrite (H x) by (simpl; auto). apply IH. intros m Hm. apply H. simpl. auto.
Qed.

Lemma resolve_unique : forall ids present i m,
  NoDup ids -> (length i < 32)%nat -> In m ids -> str_prefix i m = true ->
  (forall m', In m' ids -> str_prefix i m' = true -> m' = m) ->
  resolve_ids ids present i = inl m.
Proof.
  intros ids present i m Hnd Hlen Hin Hp Hu. unfold resolve_ids.
  apply Nat.ltb_lt in Hlen. rewrite Hlen.
  rewrite (filter_all_eq (str_prefix i) ids m Hnd Hin Hp Hu). reflexivity.
Qed.

Lemma resolve_ambiguous : forall ids present i a b,
  (length i < 32)%nat -> In a ids -> In b ids -> a <> b ->
  str_prefix i a = true -> str_prefix i b = true ->
  resolve_ids ids present i = inr (FExn ELookupError).
Proof.
  intros ids present i a b Hlen Ha Hb Hab Pa Pb. unfold resolve_ids.
  apply Nat.ltb_lt in Hlen. rewrite Hlen.
  destruct (filter_two (str_prefix i) ids a b Ha Hb Hab Pa Pb) as [x [y [r ->]]]. reflexivity.
Qed.

Lemma resolve_unknown : forall ids present i,
  (length i < 32)%nat -> (forall m, In m ids -> str_prefix i m = false) ->
  resolve_ids ids present i = inr (FExn EKeyError).
Proof.
  intros ids present i Hlen H. unfold resolve_ids.
  apply Nat.ltb_lt in Hlen. rewrite Hlen. rewrite (filter_none _ _ H). reflexivity.
Qed.

Lemma resolve_full : forall ids present i,
  (32 <= length i)%nat ->
  resolve_ids ids present i = if present i then inl i else inr (FExn EKeyError).
Proof.
  intros ids present i Hlen. unfold resolve_ids.
  assert (H : Nat.ltb (length i) 32 = false) by (apply Nat.ltb_ge; auto). rewrite H. reflexivity.
Qed.

(* the oracle's expectation for open_job(id=...) is the model's resolution on the same id list *)
Lemma resolve_expect : forall ids i,
  expect_open ids i =
  match resolve_ids ids (fun x => str_mem x ids) i with
  | inl m => VStr m
  | inr e => VExn (exn_of e)
  end.
Proof.
  intros ids i. unfold expect_open, resolve_ids.
  destruct (Nat.ltb (length i) 32).
  - destruct (filter (str_prefix i) ids) as [|x [|y r]]; reflexivity.
  - destruct (str_mem i ids); reflexivity.
Qed.

(* ------------------------------------------------------------------ laziness: read-only operations *)
Definition readonly (o : op) : bool :=
  match o with
  | OOpenSp _ _ | OOpenId _ _ | OSp _ | OCached _ | OIdPath _ | OIds _ | OLen _ | OContains _ _ | OTree => true
  | _ => false
  end.

Section S.
  Variable frepr : fl -> str.

  Lemma open_sp_no_fs_effect : forall w s sp,
    w_fs (fst (open_sp frepr w s sp)) = w_fs w /\ w_tr (fst (open_sp frepr w s sp)) = w_tr w.
  Proof. intros. split; reflexivity. Qed.

  Lemma sp_read_fs : forall w h,
    w_fs (fst (sp_read frepr w h)) = w_fs w /\ w_tr (fst (sp_read frepr w h)) = w_tr w.
  Proof.
    intros w h. unfold sp_read. pose proof (sp_access_fs frepr w h) as H.
    destruct (sp_access frepr w h) as [w1 [ci|e]]; simpl in *; auto.
  Qed.

  Lemma readonly_no_fs_effect : forall w q o,
    readonly o = true ->
    let '(w1, q1, out) := step frepr w q o in
    w_fs w1 = w_fs w /\ w_tr w1 = w_tr w /\ q1 = q.
  Proof.
    intros w q o H. destruct o; simpl in H; try discriminate; simpl.
    - destruct (ensure_read_fs w s) as [A [B _]]. auto.
    - pose proof (open_id_fs (ensure_read w s) s i) as Hf. destruct (ensure_read_fs w s) as [A [B _]].
      destruct (open_id (ensure_read w s) s i) as [w1 r]. simpl in *. rewrite A, B in Hf. tauto.
    - pose proof (sp_read_fs w h) as Hf. destruct (sp_read frepr w h) as [w1 r]. simpl in *. tauto.
    - pose proof (cached_sp_r_fs frepr w h) as Hf. destruct (cached_sp_r frepr w h) as [w1 r]. simpl in *. tauto.
    - auto.
    - auto.
    - auto.
    - auto.
    - auto.
  Qed.

  (* ... and the model's own OQuiet observation after a read-only operation is "nothing was touched" *)
  Lemma readonly_quiet : forall w o,
    readonly o = true ->
    let '(w1, q1, _) := step frepr w (length (w_tr w)) o in
    snd (step frepr w1 q1 OQuiet) = VBool true.
  Proof.
    intros w o H. pose proof (readonly_no_fs_effect w (length (w_tr w)) o H) as Hr.
    destruct (step frepr w (length (w_tr w)) o) as [[w1 q1] out]. destruct Hr as [_ [Ht ->]].
    simpl. rewrite Ht, Nat.eqb_refl. reflexivity.
  Qed.

  (* no aliasing: the handle returned by open_job(sp) keeps showing sp whatever happens to other values *)
  Lemma open_sp_reads_back : forall w s sp,
    let '(w1, h) := open_sp frepr w s sp in
    snd (sp_read frepr w1 h) = inl sp /\ snd (cached_sp frepr w1 h) = inl sp /\ h_id (getH w1 h) = calc_id frepr sp.
  Proof.
    intros w s sp. unfold open_sp.
    assert (Hh : getH (add_H w (mkH s (calc_id frepr sp) (Some sp) None false)) (length (w_hs w))
                 = mkH s (calc_id frepr sp) (Some sp) None false).
    { unfold getH, add_H. simpl. apply nth_app_new. }
    repeat split.
    - unfold sp_read, sp_access. rewrite Hh. simpl.
      unfold getC, set_H, add_C. simpl. rewrite nth_app_new. reflexivity.
    - unfold cached_sp. rewrite Hh. reflexivity.
    - rewrite Hh. reflexivity.
  Qed.

  (* ---------------------------------------------------------------- init *)
  Lemma cell_loaded_fs : forall w ci v, w_fs (cell_loaded w ci v) = w_fs w /\ w_tr (cell_loaded w ci v) = w_tr w.
  Proof. intros. split; reflexivity. Qed.

  (* never rewrites a valid file: when the state point file loads and validates, init performs no
     file-system step at all *)
  Lemma init_valid_no_write : forall susp force w h,
    (let '(w1, r) := sp_access frepr w h in
     exists ci v, r = inl ci /\ load_file frepr w1 (getH w1 h) = inl v) ->
    let '(w', r') := init frepr susp force w h in
    r' = inl tt /\ w_fs w' = w_fs w /\ w_tr w' = w_tr w.
  Proof.
    intros susp force w h H. unfold init.
    pose proof (sp_access_fs frepr w h) as Hfs.
    destruct (sp_access frepr w h) as [w1 r]. destruct H as [ci [v [-> Hl]]].
    rewrite Hl. simpl in *. tauto.
  Qed.

  (* init_post (file part): whenever init returns normally, the state point file exists, parses, and
     hashes to the handle's id; the handle owns a cell *)
  Lemma init_ok_valid : forall susp force w h w',
    (h < length (w_hs w))%nat -> init frepr susp force w h = (w', inl tt) ->
    (exists v, load_file frepr w' (getH w' h) = inl v) /\ (exists ci, h_cell (getH w' h) = Some ci)
    /\ h_id (getH w' h) = h_id (getH w h).
  Proof.
    intros susp force w h w' Hlt H. unfold init in H.
    destruct (sp_access frepr w h) as [w1 r] eqn:E1.
    assert (Hlen1 : length (w_hs w1) = length (w_hs w)).
    { pose proof (sp_access_len frepr w h) as Hl. rewrite E1 in Hl. exact Hl. }
    assert (Hid1 : h_id (getH w1 h) = h_id (getH w h) /\ h_s (getH w1 h) = h_s (getH w h)).
    { destruct r as [ci|e].
      - destruct (sp_access_cell frepr w h w1 ci Hlt E1) as [_ [? ?]]. auto.
      - unfold sp_access in E1. destruct (h_cell (getH w h)); [discriminate|].
        destruct (h_cached (getH w h)); [discriminate|].
        destruct (load_file frepr w (getH w h)); inversion E1; subst; auto. }
    destruct Hid1 as [Hid1 Hs1].
    (* early exit? *)
    destruct r as [ci|e].
    - destruct (load_file frepr w1 (getH w1 h)) as [v|e] eqn:El.
      + inversion H; subst. clear H.
        destruct (sp_access_cell frepr w h w1 ci Hlt E1) as [Hc _].
        repeat split; [exists v|exists ci|]; auto.
      + (* late path, cell known *)
        destruct (sp_access_cell frepr w h w1 ci Hlt E1) as [Hc1 _].
        rewrite (sp_access_idem frepr w1 h ci Hc1) in H.
        revert H. 
        destruct (if isdir (w_fs w1) (jobdir w1 (getH w1 h)) then _ else _) as [[f2 e2]|e2]; [|discriminate].
        set (w2 := set_H (set_fs w1 f2 e2) h _).
        destruct (sp_access frepr w2 h) as [w3 r3] eqn:E3.
        destruct r3 as [ci3|e3]; [|discriminate].
        match goal with |- match ?X with FOk _ => _ | FErr _ => _ end = _ -> _ => destruct X as [[f4 e4]|e4]; [|discriminate] end.
        destruct (load_file frepr (set_fs w3 f4 e4) (getH w3 h)) as [v|ee] eqn:El4; [|discriminate].
        intro H. inversion H; subst. clear H.
        assert (Hlt2 : (h < length (w_hs w2))%nat).
        { unfold w2, set_H, set_fs. simpl. rewrite length_set_nth. lia. }
        destruct (sp_access_cell frepr w2 h w3 ci3 Hlt2 E3) as [Hc3 [Hid3 Hs3]].
        assert (Hid2 : h_id (getH w2 h) = h_id (getH w1 h)).
        { unfold w2. rewrite getH_set_H_same by (simpl; lia). reflexivity. }
        repeat split.
        * exists v. rewrite <- El4. apply load_file_ext; [reflexivity| |reflexivity].
          rewrite register_root. reflexivity.
        * exists ci3. exact Hc3.
        * simpl. rewrite getH_register. change (getH (cell_loaded (set_fs w3 f4 e4) ci3 v) h) with (getH w3 h).
          congruence.
    - (* late path, first access failed: the second evaluation of self.statepoint must succeed *)
      destruct (sp_access frepr w1 h) as [w1x [cx|ex]] eqn:E1x; [|discriminate].
      assert (Hlt1 : (h < length (w_hs w1))%nat) by lia.
      destruct (sp_access_cell frepr w1 h w1x cx Hlt1 E1x) as [_ [Hidx Hsx]].
      assert (Hlen1' : length (w_hs w1x) = length (w_hs w)).
      { pose proof (sp_access_len frepr w1 h) as Hl. rewrite E1x in Hl. simpl in Hl. lia. }
      assert (Hid1' : h_id (getH w1x h) = h_id (getH w h)) by congruence.
      clear Hlen1 Hid1 Hs1 Hidx Hsx Hlt1 E1x E1. rename w1 into w1o. rename w1x into w1.
      rename Hlen1' into Hlen1. rename Hid1' into Hid1.
      revert H.
      destruct (if isdir (w_fs w1) (jobdir w1 (getH w1 h)) then _ else _) as [[f2 e2]|e2]; [|discriminate].
      set (w2 := set_H (set_fs w1 f2 e2) h _).
      destruct (sp_access frepr w2 h) as [w3 r3] eqn:E3.
      destruct r3 as [ci3|e3]; [|discriminate].
      match goal with |- match ?X with FOk _ => _ | FErr _ => _ end = _ -> _ => destruct X as [[f4 e4]|e4]; [|discriminate] end.
      destruct (load_file frepr (set_fs w3 f4 e4) (getH w3 h)) as [v|ee] eqn:El4; [|discriminate].
      intro H. inversion H; subst. clear H.
      assert (Hlt2 : (h < length (w_hs w2))%nat).
      { unfold w2, set_H, set_fs. simpl. rewrite length_set_nth. lia. }
      destruct (sp_access_cell frepr w2 h w3 ci3 Hlt2 E3) as [Hc3 [Hid3 Hs3]].
      assert (Hid2 : h_id (getH w2 h) = h_id (getH w1 h)).
      { unfold w2. rewrite getH_set_H_same by (simpl; lia). reflexivity. }
      repeat split.
      * exists v. rewrite <- El4. apply load_file_ext; [reflexivity| |reflexivity].
        rewrite register_root. reflexivity.
      * exists ci3. exact Hc3.
      * simpl. rewrite getH_register. change (getH (cell_loaded (set_fs w3 f4 e4) ci3 v) h) with (getH w3 h).
        congruence.
  Qed.

  (* init_idempotent: a second init (with or without force) after a successful one performs no
     file-system step and succeeds *)
  Lemma init_twice : forall susp force susp' force' w h w',
    (h < length (w_hs w))%nat -> init frepr susp force w h = (w', inl tt) ->
    let '(w'', r) := init frepr susp' force' w' h in
    r = inl tt /\ w_fs w'' = w_fs w' /\ w_tr w'' = w_tr w'.
  Proof.
    intros susp force susp' force' w h w' Hlt H.
    destruct (init_ok_valid susp force w h w' Hlt H) as [[v Hv] [[ci Hc] _]].
    apply init_valid_no_write. rewrite (sp_access_idem frepr w' h ci Hc). eauto.
  Qed.

  (* init_post for a fresh job: the directory, the exact file, and the frame *)
  Lemma init_fresh_post : forall w h sp,
    (h < length (w_hs w))%nat ->
    h_cell (getH w h) = None -> h_cached (getH w h) = Some sp -> h_id (getH w h) = calc_id frepr sp ->
    is_null sp = false ->
    let wsd := wsp (getS w (h_s (getH w h))) in
    let jd := wsd ++ [h_id (getH w h)] in
    (forall k, (k <= length wsd)%nat -> get (w_fs w) (firstn k wsd) = Some Dir) ->
    (forall q, under jd q = true -> get (w_fs w) q = None) ->
    exists w', init frepr false false w h = (w', inl tt) /\
      get (w_fs w') jd = Some Dir /\
      get (w_fs w') (jd ++ [SPF]) = Some (File (sp_content frepr sp)) /\
      valid_job frepr (w_fs w') wsd (h_id (getH w h)) sp /\
      (forall q, q <> jd -> q <> jd ++ [SPF] -> get (w_fs w') q = get (w_fs w) q).
  Proof.
    intros w h sp Hlt Hcell Hcached Hid Hnn wsd jd Hchain Hfree.
    assert (E1 : exists w1, sp_access frepr w h = (w1, inl (length (w_cs w))) /\ c_data (getC w1 (length (w_cs w))) = sp).
    { unfold sp_access. rewrite Hcell, Hcached. eexists. split; [reflexivity|].
      rewrite getC_set_H. unfold getC, add_C. simpl. rewrite nth_app_new. reflexivity. }
    destruct E1 as [w1 [E1 Hd]].
    destruct (init_writes frepr w h w1 _ sp Hlt E1 Hd (eq_sym Hid) Hnn) as [w' [Hi [G _]]].
    - apply Hfree. apply under_app.
    - apply Hfree. apply under_app.
    - right. split; [apply Hfree; apply under_refl|exact Hchain].
    - fold wsd jd in G. exists w'. split; [exact Hi|].
      assert (Hne : path_eqb jd (jd ++ [SPF]) = false).
      { apply path_eqb_neq. intro E. symmetry in E. exact (snoc_neq_self _ _ E). }
      assert (Gjd : get (w_fs w') jd = Some Dir) by (rewrite G, Hne, path_eqb_refl; reflexivity).
      assert (Gf : get (w_fs w') (jd ++ [SPF]) = Some (File (sp_content frepr sp))) by (rewrite G, path_eqb_refl; reflexivity).
      split; [exact Gjd|]. split; [exact Gf|]. split.
      + unfold valid_job. split; [exact Gjd|]. exists (sp_content frepr sp).
        replace (wsd ++ [h_id (getH w h); SPF]) with (jd ++ [SPF]) by (unfold jd; rewrite <- app_assoc; reflexivity).
        split; [exact Gf|]. split; [reflexivity|]. split; [symmetry; exact Hid|exact Hnn].
      + intros q H1 H2. rewrite G. apply path_eqb_neq in H1, H2. rewrite H2, H1. reflexivity.
  Qed.

  (* a fresh session (empty cache) finds an initialised job by anything that resolves to its id, and
     reads back exactly the state point stored in the file *)
  Lemma open_id_finds : forall w si x i sp,
    alookup x (s_cache (getS w si)) = None -> alookup i (s_cache (getS w si)) = None ->
    resolve (w_fs w) (wsp (getS w si)) x = inl i ->
    valid_job frepr (w_fs w) (wsp (getS w si)) i sp ->
    exists w1 h, open_id w si x = (w1, inl h) /\ h_id (getH w1 h) = i /\
                 snd (sp_read frepr w1 h) = inl sp /\ w_fs w1 = w_fs w.
  Proof.
    intros w si x i sp Hc Hci Hr [Hdir [c [Hf [Hj [Hh Hnn]]]]].
    unfold open_id. rewrite Hc, Hr, Hci. eexists _, _. split; [reflexivity|].
    assert (Hh' : getH (add_H w (mkH si i None None true)) (length (w_hs w)) = mkH si i None None true).
    { unfold getH, add_H. simpl. apply nth_app_new. }
    split; [rewrite Hh'; reflexivity|]. split; [|reflexivity].
    unfold sp_read, sp_access. rewrite Hh'. simpl.
    unfold load_file, spfile, jobdir. simpl. rewrite getS_add_H. rewrite <- app_assoc. simpl.
    change (w_fs (add_H w (mkH si i None None true))) with (w_fs w).
    rewrite Hf, Hj, Hh, str_eqb_refl, Hnn. simpl.
    rewrite getC_set_H, getC_register. unfold getC, add_C. simpl. rewrite nth_app_new. reflexivity.
  Qed.
End S.

(* ---- provenance and working directory do not enter the model *)
Lemma erase_app : forall a b, erase_C02 (a ++ b) = erase_C02 a ++ erase_C02 b.
Proof. intros a b. unfold erase_C02. apply flat_map_app. Qed.

Lemma provenance_irrelevant : forall frepr a b r pv pv',
  run_items frepr (a ++ ISession r pv :: b) = run_items frepr (a ++ ISession r pv' :: b).
Proof. intros. unfold run_items. rewrite !erase_app. reflexivity. Qed.

Lemma cwd_irrelevant : forall frepr a b d,
  run_items frepr (a ++ IChdir d :: b) = run_items frepr (a ++ b).
Proof. intros. unfold run_items. rewrite !erase_app. reflexivity. Qed.

Lemma erased_run : forall frepr p p', erase_C02 p = erase_C02 p' -> run_items frepr p = run_items frepr p'.
Proof. intros frepr p p' H. unfold run_items. rewrite H. reflexivity. Qed.
