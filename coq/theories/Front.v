(* Front.v — query front ends: command-line token parser (filterparse.py), cursor observables and
   groupby (project.py), on top of the Query model. *)
From SV Require Export Base Json PyVal Query Canon.
From Coq Require Import DecimalN.

Module FLit.
  Import Coq.Strings.String.
  Local Open Scope string_scope.
  Definition t_true := Eval compute in S "true".
  Definition t_false := Eval compute in S "false".
  Definition t_nullw := Eval compute in S "null".
  Definition t_bang := Eval compute in S "!".
End FLit.
Export FLit.

(* ---------- decimal integer lexemes: int(x) on canonical input ---------- *)
Fixpoint uint_of_chars (s : str) : option Decimal.uint :=
  match s with
  | [] => Some Decimal.Nil
  | c :: r =>
      match uint_of_chars r with
      | None => None
      | Some u =>
          if (c =? 48)%N then Some (Decimal.D0 u) else if (c =? 49)%N then Some (Decimal.D1 u)
          else if (c =? 50)%N then Some (Decimal.D2 u) else if (c =? 51)%N then Some (Decimal.D3 u)
          else if (c =? 52)%N then Some (Decimal.D4 u) else if (c =? 53)%N then Some (Decimal.D5 u)
          else if (c =? 54)%N then Some (Decimal.D6 u) else if (c =? 55)%N then Some (Decimal.D7 u)
          else if (c =? 56)%N then Some (Decimal.D8 u) else if (c =? 57)%N then Some (Decimal.D9 u)
          else None
      end
  end.

Definition parse_nat_lexeme (s : str) : option N :=
  match s with
  | [] => None
  | _ => match uint_of_chars s with Some u => Some (N.of_uint u) | None => None end
  end.

Definition parse_int (s : str) : option Z :=
  match s with
  | 45%N :: r => match parse_nat_lexeme r with Some n => Some (- Z.of_N n)%Z | None => None end
  | 43%N :: r => match parse_nat_lexeme r with Some n => Some (Z.of_N n) | None => None end
  | _ => match parse_nat_lexeme s with Some n => Some (Z.of_N n) | None => None end
  end.

Section CLI.
  (* library oracles: float(x) for tokens Python's float() accepts; json.loads(x) *)
  Variable float_of : str -> option fl.
  Variable loads : str -> option json.

  Definition is_json_like (q : str) : result bool :=
    match q with
    | [] => Err ELookupError                                  (* q[0]: IndexError *)
    | c :: _ =>
        let l := last q 0%N in
        Ok (((c =? 123)%N && (l =? 125)%N) || ((c =? 91)%N && (l =? 93)%N))
    end.

  Definition is_regex (q : str) : bool :=
    match q with
    | 47%N :: _ => (last q 0%N =? 47)%N
    | _ => false
    end.

  (* value[1:-1] *)
  Definition strip_ends (q : str) : str := removelast (tl q).

  Definition cast (x : str) : json :=
    if str_eqb x t_true then JBool true
    else if str_eqb x t_false then JBool false
    else if str_eqb x t_nullw then JNull
    else match parse_int x with
         | Some z => JInt z
         | None => match float_of x with
                   | Some f => JFloat f
                   | None => JStr x
                   end
         end.

  Definition parse_json (q : str) : result json :=
    match loads q with Some v => Ok v | None => Err EValueError end.    (* JSONDecodeError <: ValueError *)

  Definition exists_true : json := JObj [(s_exists, JBool true)].

  Definition parse_single (key : str) (value : option str) : result (str * json) :=
    bind (is_json_like key) (fun jl =>
      if jl then Err EValueError
      else match value with
           | None => Ok (key, exists_true)
           | Some v =>
               if str_eqb v t_bang then Ok (key, exists_true)
               else bind (is_json_like v) (fun jlv =>
                      if jlv then bind (parse_json v) (fun j => Ok (key, j))
                      else if is_regex v then Ok (key, JObj [(s_regex, JStr (strip_ends v))])
                      else Ok (key, cast v))
           end).

  Fixpoint parse_simple (tokens : list str) : result (list (str * json)) :=
    match tokens with
    | [] => Ok []
    | [k] => bind (parse_single k None) (fun kv => Ok [kv])
    | k :: v :: r =>
        bind (parse_single k (Some v)) (fun kv => bind (parse_simple r) (fun rest => Ok (kv :: rest)))
    end.

  (* parse_filter_arg: None = no filter *)
  Definition parse_filter_arg (args : list str) : result (option json) :=
    match args with
    | [] => Ok None
    | [a] =>
        bind (is_json_like a) (fun jl =>
          if jl then bind (parse_json a) (fun j => Ok (Some j))
          else bind (parse_single a None) (fun kv => Ok (Some (JObj [kv]))))
    | _ => bind (parse_simple args) (fun kvs => Ok (Some (JObj (dict_of_pairs kvs))))
    end.
End CLI.

(* ---------- cursor observables over the id list the cursor cached ---------- *)
Definition cursor_len (ids : list id) : nat := length ids.
Definition cursor_getitem (ids : list id) (i : nat) : option id := nth_error ids i.
Definition cursor_contains (ids : list id) (j : id) : bool := mem j ids.

(* ---------- groupby ---------- *)
(* key.split(".", 1)[1] *)
Fixpoint after_first_dot (s : str) : option str :=
  match s with
  | [] => None
  | c :: r => if N.eqb c dot then Some r else after_first_dot r
  end.
Definition gb_is_doc_key (key : str) : bool :=
  contains_char dot key && str_eqb (head_before dot key) s_doc.
Definition gb_is_sp_key (key : str) : bool :=
  contains_char dot key && str_eqb (head_before dot key) s_sp.
(* only the namespace prefix is stripped; the remainder may be dotted *)
Definition gb_strip_prefix (key : str) : str :=
  if gb_is_doc_key key || gb_is_sp_key key
  then match after_first_dot key with Some r => r | None => key end
  else key.

(* nested lookup through sub-mappings: _get / _get_default *)
Definition key_value (sp : json) (doc : option json) (key : str) (default : option json) : result json :=
  let m := if gb_is_doc_key key then match doc with Some d => d | None => JObj [] end else sp in
  match lookup_path m (split_on dot (gb_strip_prefix key)), default with
  | Some v, _ => Ok v
  | None, Some dflt => Ok dflt
  | None, None => Err EKeyError
  end.

(* the filter groupby adds when no default is given *)
Definition gb_exists_filter (keys : list str) : json :=
  JObj (dict_of_pairs (map (fun k => (k, exists_true)) keys)).

Definition gb_filter (single : bool) (keys : list str) (default : option json) (flt : json) : json :=
  match default with
  | Some _ => flt
  | None =>
      let ex := if single then JObj [(hd [] keys, exists_true)] else gb_exists_filter keys in
      if is_empty_filter flt then ex else JObj [(s_and, JArr [ex; flt])]
  end.

(* label of one job: the value for a single key, or the tuple sp-keys first then doc-keys *)
Fixpoint key_values (sp : json) (doc : option json) (ks : list str) (default : option json) : result (list json) :=
  match ks with
  | [] => Ok []
  | k :: r => bind (key_value sp doc k default) (fun v => bind (key_values sp doc r default) (fun vs => Ok (v :: vs)))
  end.

(* the values of a tuple label are in the order of the keys *)
Definition gb_label (single : bool) (keys : list str) (default : option json) (j : job) : result json :=
  if single then key_value (j_sp j) (j_doc j) (hd [] keys) default
  else bind (key_values (j_sp j) (j_doc j) keys default) (fun vs => Ok (JArr vs)).

(* a label component read from a job document that is a list or mapping is a synced collection
   object; Python cannot order those *)
Definition doc_container (keys : list str) (default : option json) (j : job) : bool :=
  existsb (fun k => gb_is_doc_key k &&
                    match key_value (j_sp j) (j_doc j) k default with
                    | Ok (JArr _) | Ok (JObj _) => true
                    | _ => false
                    end) keys.

(* sorted(..., key=label) then itertools.groupby(..., key=label) *)
Fixpoint insert_sorted (x : json * id) (l : list (json * id)) : list (json * id) :=
  match l with
  | [] => [x]
  | y :: r =>
      match py_order (fst x) (fst y) with
      | Some Lt => x :: l
      | _ => y :: insert_sorted x r
      end
  end.

Definition sort_labeled (l : list (json * id)) : list (json * id) :=
  fold_left (fun acc x => insert_sorted x acc) l [].

Fixpoint group_adjacent (l : list (json * id)) (cur : option (json * list id)) : list (json * list id) :=
  match l with
  | [] => match cur with Some g => [g] | None => [] end
  | (lab, i) :: r =>
      match cur with
      | Some (cl, ids) =>
          if py_eq cl lab then group_adjacent r (Some (cl, ids ++ [i]))
          else (cl, ids) :: group_adjacent r (Some (lab, [i]))
      | None => group_adjacent r (Some (lab, [i]))
      end
  end.

Fixpoint all_pairs_orderable (l : list json) : bool :=
  match l with
  | [] => true
  | x :: r => forallb (fun y => match py_order x y with Some _ => true | None => false end) r
              && all_pairs_orderable r
  end.

Inductive gb_result :=
| GbGroups (g : list (json * list id))
| GbUnsortable                         (* some pair of labels cannot be ordered: sorted() may raise TypeError *)
| GbErr (e : exn).

Section GroupBy.
  Variable regex_search : str -> str -> bool.
  Variable isclose : (Z * Z) -> (Z * Z) -> (Z * Z) -> (Z * Z) -> bool.

  (* selected: the jobs (in the iteration order the implementation used) *)
  Definition groupby_model (fuel : nat) (jobs : list job) (order : list id) (flt : json)
             (single : bool) (keys : list str) (default : option json) : gb_result :=
    match find_job_ids regex_search isclose fuel jobs (gb_filter single keys default flt) with
    | Err e => GbErr e
    | Ok sel =>
        (* iterate in the given order restricted to the selected ids *)
        let seq := filter (fun i => mem i sel) order in
        let labeled :=
          (fix go (ids : list id) : result (list (json * id)) :=
             match ids with
             | [] => Ok []
             | i :: r =>
                 match find (fun j => str_eqb (j_id j) i) jobs with
                 | None => go r
                 | Some j => bind (gb_label single keys default j) (fun lab =>
                             bind (go r) (fun rest => Ok ((lab, i) :: rest)))
                 end
             end) seq in
        match labeled with
        | Err e => GbErr e
        | Ok ls =>
            if Nat.ltb 1 (length ls) &&
               existsb (fun i => match find (fun j => str_eqb (j_id j) i) jobs with
                                 | Some j => doc_container keys default j
                                 | None => false
                                 end) (map snd ls)
            then GbUnsortable
            else
            if Nat.leb (length ls) 1 || all_pairs_orderable (map fst ls)
            then GbGroups (group_adjacent (sort_labeled ls) None)
            else GbUnsortable
        end
    end.
End GroupBy.
