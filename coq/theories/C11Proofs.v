(* C11Proofs.v — lemmas for C11 (crash / fault safety of the lifecycle programs). *)
From SV Require Import Base Json MD5 Canon FS Proc Crash CorrC11.
Import ListNotations.
