(* C11Proofs.v — lemmas for C11 (crash / fault safety of the lifecycle programs). *)
From SV Require Import Base Json MD5 Canon FS Proc Crash WsNames CorrC11 C01Proofs.
Import ListNotations.

(* ------------------------------------------------------------------ small facts *)
Lemma path_eq_dec : forall a b : path, {a = b} + {a <> b}.
Proof. intros a b. apply list_eq_dec. apply str_eq_dec. Qed.

Lemma parent_len2 : forall p : path, length p = 2%nat -> exists x, parent p = [x].
Proof. intros [|a [|b [|c r]]] H; simpl in H; try discriminate. exists a. reflexivity. Qed.

Lemma json_same_refl : forall v, json_same v v = true.
Proof. intro v. unfold json_same. apply json_eqb_eq. reflexivity. Qed.

Lemma bytes_eqb_refl : forall l : list N, list_eqb N.eqb l l = true.
Proof. intro l. apply (proj2 (list_eqb_eq N N.eqb N.eqb_eq l l)). reflexivity. Qed.

Lemma node_same_refl : forall n, node_same n n = true.
Proof. intros [[c|]|]; simpl; auto. apply bytes_eqb_refl. Qed.

Lemma get_In_nodup : forall f p n, NoDup (map fst f) -> In (p, n) f -> p <> [] -> get f p = Some n.
Proof.
  intros f p n Hnd Hin Hp. destruct p as [|x p]; [contradiction|]. rewrite get_cons_path.
  induction f as [|[q m] f IH]; simpl in *; [contradiction|].
  inversion Hnd as [|? ? Hnotin Hnd']; subst.
  destruct Hin as [E|Hin].
  - inversion E; subst. rewrite path_eqb_refl. reflexivity.
  - destruct (path_eqb (x :: p) q) eqn:E.
    + apply path_eqb_eq in E. subst q. exfalso. apply Hnotin. apply (in_map fst) in Hin. exact Hin.
    + apply IH; auto.
Qed.

Lemma children_get : forall f p n, In n (children f p) <-> get f (p ++ [n]) <> None.
Proof.
  intros f p n. rewrite In_children, In_keys_lookup, get_app_cons. split.
  - intros [m H]. congruence.
  - intro H. destruct (lookup (p ++ [n]) f); [eauto|congruence].
Qed.

Lemma job_dirs_In : forall f ws i,
  In i (job_dirs f ws) <-> get f ws = Some Dir /\ get f (ws ++ [i]) <> None /\ id_match i = true.
Proof.
  intros f ws i. unfold job_dirs, listdir. destruct (get f ws) as [[c|]|]; simpl.
  - split; [contradiction|]. intros [H _]; discriminate.
  - rewrite filter_In, children_get. split; [intros [H1 H2]; auto|intros [_ [H1 H2]]; auto].
  - split; [contradiction|]. intros [H _]; discriminate.
Qed.

Lemma validates_sp_value : forall frepr f ws i, validates frepr f ws i = true ->
  exists v, sp_value f ws i = Some v /\ calc_id frepr v = i.
Proof.
  intros frepr f ws i H. unfold validates in H. unfold sp_value.
  destruct (get f (ws ++ [i; SPF])) as [[c|]|]; try discriminate.
  destruct (c_json c) as [v|]; try discriminate. exists v. split; auto. apply str_eqb_eq. exact H.
Qed.

Lemma under_len : forall (a b : path), under a b = true -> (length a <= length b)%nat.
Proof. intros a b H. apply under_spec in H. destruct H as [r ->]. rewrite app_length. lia. Qed.

(* a directory one level below a workspace that contains <ws>/<i>/<name> is <ws>/<i> *)
Lemma under_job_file : forall (ws ws' : path) i j n,
  length ws = length ws' -> under (ws' ++ [j]) (ws ++ [i; n]) = true -> ws' ++ [j] = ws ++ [i].
Proof.
  intros ws ws' i j n Hlen H. apply under_spec in H. destruct H as [r H].
  assert (Hl : length (ws ++ [i; n]) = length ((ws' ++ [j]) ++ r)) by (rewrite H; reflexivity).
  rewrite !app_length in Hl. simpl in Hl.
  destruct r as [|x [|y r]]; simpl in Hl; try lia.
  replace (ws ++ [i; n]) with ((ws ++ [i]) ++ [n]) in H by (rewrite <- app_assoc; reflexivity).
  apply app_inj_tail in H. destruct H as [H _]. symmetry. exact H.
Qed.

(* ------------------------------------------------------------------ from get-level facts to CInv *)
Section INTRO.
  Variable frepr : fl -> str.
  Variable o : cop.
  Variable wss : list path.
  Variable f0 f : fs.
  Hypothesis HW : WInv frepr wss f0.
  Let ds := affected frepr o f0.
  (* every affected directory is a job directory of one of the workspaces *)
  Hypothesis Hform : forall d, In d ds -> exists ws j, In ws wss /\ d = ws ++ [j].
  Hypothesis H1 : forall p, under_any ds p = false -> get f p = get f0 p.
  Hypothesis H2 : is_removal o = true \/
    forall r c, payload_rel r = true -> get f0 (src_dir frepr o ++ r) = Some (File c) ->
      length (filter (fun d => holds_file f d r c)
                (match o with KClone _ _ _ => [src_dir frepr o] | _ => ds end)) = 1%nat.
  Hypothesis H3 : forall d, In d ds -> get f d = None \/ get f d = Some Dir.
  Hypothesis H4 : forall ws i, In ws wss -> In (ws ++ [i]) ds -> validates frepr f ws i = true ->
    exists v, sp_value f ws i = Some v /\ existsb (json_same v) (history frepr o f0) = true.

  Lemma ws_not_affected : forall ws, In ws wss -> under_any ds ws = false.
  Proof.
    intros ws Hws. destruct (under_any ds ws) eqn:E; auto. unfold under_any in E.
    apply existsb_exists in E. destruct E as [d [Hd Hu]]. destruct (Hform d Hd) as [ws' [j [Hws' ->]]].
    apply under_len in Hu. rewrite app_length in Hu. simpl in Hu.
    destruct HW as [_ [_ [_ [Hl _]]]]. rewrite (Hl ws ws' Hws Hws') in Hu. lia.
  Qed.

  Lemma affected_job : forall ws i n, In ws wss -> under_any ds (ws ++ [i; n]) = true -> In (ws ++ [i]) ds.
  Proof.
    intros ws i n Hws E. unfold under_any in E. apply existsb_exists in E. destruct E as [d [Hd Hu]].
    destruct (Hform d Hd) as [ws' [j [Hws' ->]]].
    destruct HW as [_ [_ [_ [Hl _]]]].
    rewrite (under_job_file ws ws' i j n (Hl ws ws' Hws Hws') Hu) in Hd. exact Hd.
  Qed.

  Lemma affected_dir : forall ws i, In ws wss -> under_any ds (ws ++ [i]) = true -> In (ws ++ [i]) ds.
  Proof.
    intros ws i Hws E. unfold under_any in E. apply existsb_exists in E. destruct E as [d [Hd Hu]].
    destruct (Hform d Hd) as [ws' [j [Hws' ->]]].
    destruct HW as [_ [_ [_ [Hl _]]]].
    apply under_spec in Hu. destruct Hu as [r Hu].
    assert (Hlen : length (ws ++ [i]) = length ((ws' ++ [j]) ++ r)) by (rewrite Hu; reflexivity).
    rewrite !app_length in Hlen. simpl in Hlen. rewrite (Hl ws ws' Hws Hws') in Hlen.
    destruct r; simpl in Hlen; [|lia]. rewrite app_nil_r in Hu. rewrite Hu. exact Hd.
  Qed.

  Lemma listed_is_dir : forall ws i, In ws wss -> In i (job_dirs f ws) ->
    validates frepr f ws i = true \/ isdir f (ws ++ [i]) = true.
  Proof.
    intros ws i Hws Hi. apply job_dirs_In in Hi. destruct Hi as [Hd [Hex Hid]].
    destruct (under_any ds (ws ++ [i])) eqn:E.
    - right. destruct (H3 _ (affected_dir ws i Hws E)) as [Hn|Hdir]; [congruence|]. unfold isdir. rewrite Hdir. reflexivity.
    - left. rewrite (H1 _ E) in Hex.
      destruct HW as [_ [_ [_ [_ Hv]]]]. destruct (Hv ws Hws) as [Hwd Hval].
      assert (Hin0 : In i (job_dirs f0 ws)) by (apply job_dirs_In; auto).
      destruct (Hval i Hin0) as [Hval' _]. clear Hval. rename Hval' into Hval. unfold validates in *.
      destruct (under_any ds (ws ++ [i; SPF])) eqn:E2.
      + pose proof (affected_job ws i SPF Hws E2) as Hin.
        assert (under_any ds (ws ++ [i]) = true).
        { unfold under_any. apply existsb_exists. exists (ws ++ [i]). split; auto. apply under_refl. }
        congruence.
      + rewrite (H1 _ E2). exact Hval.
  Qed.

  Theorem cinv_intro : CInv frepr o wss f0 f.
  Proof.
    unfold CInv, cinv_b. fold ds. rewrite !andb_true_iff. repeat split.
    - (* others *)
      unfold others_same. apply andb_true_iff. split; apply forallb_forall; intros e _;
        destruct (deep (fst e)); simpl; auto; destruct (under_any ds (fst e)) eqn:E; simpl; auto;
        rewrite (H1 _ E); apply node_same_refl.
    - (* data *)
      destruct H2 as [Hr|Hd]; [rewrite Hr; reflexivity|]. apply orb_true_iff. right.
      unfold data_once. apply forallb_forall. intros [p n] Hin. simpl.
      destruct (strip (src_dir frepr o) p) as [r|] eqn:Es; auto. destruct n as [c|]; auto.
      destruct (payload_rel r) eqn:Ep; simpl; auto.
      apply strip_spec in Es. subst p.
      destruct HW as [Hnd [Hnil _]].
      assert (Hne : src_dir frepr o ++ r <> []).
      { intro E. apply Hnil. rewrite <- E. apply (in_map fst) in Hin. exact Hin. }
      pose proof (get_In_nodup f0 _ _ Hnd Hin Hne) as Hg.
      apply Nat.eqb_eq. fold ds. apply (Hd r c Ep Hg).
    - (* listed *)
      apply forallb_forall. intros w Hw. unfold observe in Hw. apply in_map_iff in Hw.
      destruct Hw as [ws [<- Hws]]. simpl. unfold listed_ok, check_report.
      assert (Hall : forallb (fun i => validates frepr f ws i || isdir f (ws ++ [i])) (job_dirs f ws) = true).
      { apply forallb_forall. intros i Hi. apply orb_true_iff. apply listed_is_dir; auto. }
      rewrite Hall. apply forallb_forall. intros i Hi.
      destruct (validates frepr f ws i) eqn:Ev; simpl; auto.
      apply str_mem_In. apply filter_In. split; auto. rewrite Ev. reflexivity.
    - (* forgery *)
      apply forallb_forall. intros w Hw. unfold observe in Hw. apply in_map_iff in Hw.
      destruct Hw as [ws [<- Hws]]. simpl. unfold no_forgery. apply forallb_forall. intros i Hi.
      destruct (validates frepr f ws i) eqn:Ev; simpl; auto. fold ds.
      destruct (under_any ds (ws ++ [i])) eqn:E.
      + destruct (H4 ws i Hws (affected_dir ws i Hws E) Ev) as [v [Hv Hh]]. rewrite Hv. exact Hh.
      + destruct (validates_sp_value _ _ _ _ Ev) as [v [Hv _]]. rewrite Hv.
        assert (E2 : under_any ds (ws ++ [i; SPF]) = false).
        { destruct (under_any ds (ws ++ [i; SPF])) eqn:E2; auto.
          pose proof (affected_job ws i SPF Hws E2) as Hin.
          assert (under_any ds (ws ++ [i]) = true).
          { unfold under_any. apply existsb_exists. exists (ws ++ [i]). split; auto. apply under_refl. }
          congruence. }
        unfold sp_value in *. rewrite <- (H1 _ E2). rewrite Hv. apply json_same_refl.
  Qed.
End INTRO.

(* ------------------------------------------------------------------ crash states, concretely *)
Lemma crashed_ret_inv : forall A (a : A) f g, crashed (Ret a) f g -> g = f.
Proof. intros A a f g H. inversion H; reflexivity. Qed.

Lemma crashed_raise_inv : forall A e f g, crashed (@Raise A e) f g -> g = f.
Proof. intros A e f g H. inversion H; reflexivity. Qed.

Definition is_write (c : call) : bool := match c with CWrite _ _ => true | _ => false end.

Lemma crashed_do_inv : forall A c (k : fres val -> prog A) f g,
  crashed (Do c k) f g -> is_write c = false ->
  g = f \/ crashed (k (snd (exec_res f c))) (fst (exec_res f c)) g.
Proof.
  intros A c k f g H Hw. inversion H as [| |c0 k0 f1 f' r g0 He Hc]; subst.
  - left. reflexivity.
  - discriminate.
  - right. rewrite He. exact Hc.
Qed.

Lemma crashed_write_inv : forall A q d (k : fres val -> prog A) f g,
  crashed (Do (CWrite q d) k) f g ->
  g = f \/ (exists n f', (0 < n < length (c_bytes d))%nat /\ write_open f q (torn_content d n) = FOk f' /\ g = f')
  \/ crashed (k (snd (exec_res f (CWrite q d)))) (fst (exec_res f (CWrite q d))) g.
Proof.
  intros A q d k f g H. inversion H as [| |c0 k0 f1 f' r g0 He Hc]; subst.
  - left. reflexivity.
  - right. left. eauto.
  - right. right. rewrite He. exact Hc.
Qed.

Lemma run_fault_do : forall A plan i c (k : fres val -> prog A) f,
  run_fault plan i (Do c k) f =
  match plan i with
  | Some e => run_fault plan (S i) (k (FErr e)) f
  | None => let '(f', r) := exec_res f c in run_fault plan (S i) (k r) f'
  end.
Proof. reflexivity. Qed.

Lemma exec_res_stat : forall f p, exec_res f (CStat p) = (f, FOk (RKind (kind_of (get f p)))).
Proof. reflexivity. Qed.

Lemma exec_res_read : forall f p, fst (exec_res f (CRead p)) = f.
Proof. intros f p. unfold exec_res. simpl. destruct (get f p) as [[d|]|]; reflexivity. Qed.

Lemma sp_value_dir : forall f ws i, sp_value f ws i =
  match get f ((ws ++ [i]) ++ [SPF]) with Some (File c) => c_json c | _ => None end.
Proof. intros. unfold sp_value. rewrite <- app_assoc. reflexivity. Qed.

Lemma validates_dir : forall frepr f ws i, validates frepr f ws i =
  match get f ((ws ++ [i]) ++ [SPF]) with
  | Some (File c) => match c_json c with Some v => str_eqb (calc_id frepr v) i | None => false end
  | _ => false
  end.
Proof. intros. unfold validates. rewrite <- app_assoc. reflexivity. Qed.

(* a listed job of a valid workspace: a directory with a validating state point file *)
Lemma winv_job_nn : forall frepr wss f0 ws i, WInv frepr wss f0 -> In ws wss -> In i (job_dirs f0 ws) ->
  forall c v, get f0 ((ws ++ [i]) ++ [SPF]) = Some (File c) -> c_json c = Some v -> is_jnull v = false.
Proof.
  intros frepr wss f0 ws i HW Hws Hi c v G J. destruct HW as [_ [_ [_ [_ Hv]]]]. destruct (Hv ws Hws) as [_ Hval].
  destruct (Hval i Hi) as [_ Hnn]. rewrite sp_value_dir, G, J in Hnn. destruct v; auto. congruence.
Qed.

Lemma winv_job : forall frepr wss f0 ws i, WInv frepr wss f0 -> In ws wss -> In i (job_dirs f0 ws) ->
  get f0 (ws ++ [i]) = Some Dir /\
  exists c v, get f0 ((ws ++ [i]) ++ [SPF]) = Some (File c) /\ c_json c = Some v /\ calc_id frepr v = i.
Proof.
  intros frepr wss f0 ws i HW Hws Hi. destruct HW as [_ [_ [Hcl [_ Hv]]]]. destruct (Hv ws Hws) as [_ Hval].
  destruct (Hval i Hi) as [Hval' _]. clear Hval. rename Hval' into Hval. rewrite validates_dir in Hval.
  destruct (get f0 ((ws ++ [i]) ++ [SPF])) as [[c|]|] eqn:G; try discriminate.
  destruct (c_json c) as [v|] eqn:J; try discriminate. apply str_eqb_eq in Hval. split; [|eauto].
  assert (Hne : get f0 ((ws ++ [i]) ++ [SPF]) <> None) by congruence.
  apply Hcl in Hne. rewrite parent_snoc in Hne. exact Hne.
Qed.

Lemma holds_file_get : forall f d r c, get f (d ++ r) = Some (File c) -> holds_file f d r c = true.
Proof. intros f d r c H. unfold holds_file. rewrite H. apply bytes_eqb_refl. Qed.

Lemma holds_file_none : forall f d r c, get f (d ++ r) = None -> holds_file f d r c = false.
Proof. intros f d r c H. unfold holds_file. rewrite H. reflexivity. Qed.

Lemma payload_rel_nonempty : forall r, payload_rel r = true -> exists x r', r = x :: r'.
Proof. intros [|x r'] H; [discriminate|eauto]. Qed.

Lemma under_any_false_cons : forall d ds p, under_any (d :: ds) p = false -> under d p = false /\ under_any ds p = false.
Proof. intros d ds p H. unfold under_any in *. simpl in H. apply orb_false_iff in H. exact H. Qed.

(* ------------------------------------------------------------------ Job.move *)
Section MOVE.
  Variable frepr : fl -> str.
  Variable wss : list path.
  Variable f0 : fs.
  Variables ws dws : path.
  Variable i : str.
  Hypothesis HW : WInv frepr wss f0.
  Hypothesis Hws : In ws wss.
  Hypothesis Hdws : In dws wss.
  Hypothesis Hi : In i (job_dirs f0 ws).
  Let o := KMove ws i dws.
  Let s := ws ++ [i].
  Let d := dws ++ [i].

  Lemma move_src : get f0 s = Some Dir /\
    exists c v, get f0 (s ++ [SPF]) = Some (File c) /\ c_json c = Some v /\ calc_id frepr v = i.
  Proof. apply (winv_job frepr wss); auto. Qed.

  Lemma move_spv : exists v, sp_value f0 ws i = Some v /\ calc_id frepr v = i.
  Proof.
    destruct move_src as [_ [c [v [G [J E]]]]]. exists v. split; auto. rewrite sp_value_dir. fold s. rewrite G. exact J.
  Qed.

  Lemma move_aff : affected frepr o f0 = if path_eqb s d || has_children f0 d || isfile f0 d then [s] else [s; d].
  Proof.
    unfold affected, o, dst_dir, src_dir. destruct move_spv as [v [Hv Hid]]. rewrite Hv, Hid. reflexivity.
  Qed.

  Lemma move_hist : exists v, history frepr o f0 = [v] /\ sp_value f0 ws i = Some v.
  Proof. destruct move_spv as [v [Hv _]]. exists v. unfold history, o. rewrite Hv. auto. Qed.

  Lemma move_form : forall x, In x (affected frepr o f0) -> exists w j, In w wss /\ x = w ++ [j].
  Proof.
    intros x Hx. rewrite move_aff in Hx.
    destruct (path_eqb s d || has_children f0 d || isfile f0 d); simpl in Hx.
    - destruct Hx as [<-|[]]. exists ws, i. auto.
    - destruct Hx as [<-|[<-|[]]]; [exists ws, i|exists dws, i]; auto.
  Qed.

  (* the destination, when it counts as affected, is empty in the pre-state *)
  Lemma move_dst_free : In d (affected frepr o f0) -> d <> s ->
    has_children f0 d = false /\ (get f0 d = None \/ get f0 d = Some Dir).
  Proof.
    intros Hin Hne. rewrite move_aff in Hin.
    destruct (path_eqb s d) eqn:E1; [apply path_eqb_eq in E1; congruence|].
    destruct (has_children f0 d) eqn:E2; simpl in Hin.
    - destruct Hin as [E|[]]. congruence.
    - destruct (isfile f0 d) eqn:E3; simpl in Hin.
      + destruct Hin as [E|[]]. congruence.
      + split; auto. unfold isfile in E3. destruct (get f0 d) as [[c|]|]; auto. discriminate.
  Qed.

  Lemma cinv_move_pre : CInv frepr o wss f0 f0.
  Proof.
    destruct move_src as [Hs [c [v [G [J E]]]]].
    apply cinv_intro; auto.
    - apply move_form.
    - right. intros r c0 Hp Hg. unfold o, src_dir in Hg. fold s in Hg.
      destruct (payload_rel_nonempty r Hp) as [x [r' ->]].
      rewrite move_aff. destruct (path_eqb s d || has_children f0 d || isfile f0 d) eqn:Eb; simpl.
      + rewrite (holds_file_get _ _ _ _ Hg). reflexivity.
      + rewrite (holds_file_get _ _ _ _ Hg).
        apply orb_false_iff in Eb. destruct Eb as [Eb _]. apply orb_false_iff in Eb. destruct Eb as [_ Hc].
        rewrite holds_file_none; [reflexivity|]. rewrite get_app_cons. apply has_children_false. exact Hc.
    - intros x Hx. destruct (path_eq_dec x s) as [->|Hne]; [right; exact Hs|].
      assert (x = d).
      { rewrite move_aff in Hx. destruct (path_eqb s d || has_children f0 d || isfile f0 d); simpl in Hx; intuition congruence. }
      subst x. destruct (move_dst_free Hx Hne) as [_ H]. exact H.
    - intros w j Hw Hin Hval. destruct (path_eq_dec (w ++ [j]) s) as [Es|Hne].
      + destruct move_hist as [v0 [Hh Hv0]]. rewrite Hh.
        destruct (validates_sp_value _ _ _ _ Hval) as [v1 [Hv1 _]]. exists v1. split; auto.
        rewrite sp_value_dir, Es in Hv1. rewrite sp_value_dir in Hv0. fold s in Hv0. rewrite Hv1 in Hv0.
        injection Hv0 as <-. simpl. rewrite json_same_refl. reflexivity.
      + assert (Ed : w ++ [j] = d).
        { rewrite move_aff in Hin. destruct (path_eqb s d || has_children f0 d || isfile f0 d); simpl in Hin; intuition congruence. }
        rewrite Ed in Hin, Hne. destruct (move_dst_free Hin Hne) as [Hc _].
        rewrite validates_dir, Ed in Hval. rewrite get_app_cons, (has_children_false f0 d SPF [] Hc) in Hval. discriminate.
  Qed.

  Lemma cinv_move_post : forall f1, s <> d -> rename f0 s d = FOk f1 -> CInv frepr o wss f0 f1.
  Proof.
    intros f1 Hne Hr. destruct move_src as [Hs [c [v [G [J E]]]]].
    destruct (rename_dir_ok_dest f0 s d f1 Hs Hne Hr) as [Hd Hc].
    assert (Haff : affected frepr o f0 = [s; d]).
    { rewrite move_aff. apply path_eqb_neq in Hne. rewrite Hne, Hc. simpl.
      unfold isfile. destruct Hd as [-> | ->]; reflexivity. }
    apply cinv_intro; auto.
    - apply move_form.
    - rewrite Haff. intros p Hp. apply under_any_false_cons in Hp. destruct Hp as [Hps Hp].
      apply under_any_false_cons in Hp. destruct Hp as [Hpd _].
      apply (rename_dir_frame f0 s d f1 p Hs Hne Hr Hps Hpd).
    - right. intros r c0 Hp Hg. unfold o, src_dir in Hg. fold s in Hg. rewrite Haff. simpl.
      rewrite (holds_file_none f1 s r c0 (rename_dir_src_gone f0 s d f1 r Hs Hne Hr)).
      rewrite (holds_file_get f1 d r c0); [reflexivity|].
      rewrite (rename_dir_carry f0 s d f1 r Hs Hne Hr). exact Hg.
    - rewrite Haff. intros x [<-|[<-|[]]].
      + left. rewrite <- (app_nil_r s). apply (rename_dir_src_gone f0 s d f1 [] Hs Hne Hr).
      + right. rewrite <- (app_nil_r d). rewrite (rename_dir_carry f0 s d f1 [] Hs Hne Hr), app_nil_r. exact Hs.
    - rewrite Haff. intros w j Hw [Es|[Ed|[]]] Hval.
      + rewrite validates_dir, <- Es, (rename_dir_src_gone f0 s d f1 [SPF] Hs Hne Hr) in Hval. discriminate.
      + destruct move_hist as [v0 [Hh Hv0]]. rewrite Hh.
        exists v0. split; [|simpl; rewrite json_same_refl; reflexivity].
        rewrite sp_value_dir, <- Ed, (rename_dir_carry f0 s d f1 [SPF] Hs Hne Hr).
        rewrite sp_value_dir in Hv0. exact Hv0.
  Qed.

  (* the destination workspace exists (Project() created it): Job.move is a single os.replace *)
  Theorem crash_safe_move_lemma : forall atomic g,
    crashed (op_prog frepr atomic o) f0 g -> CInv frepr o wss f0 g.
  Proof.
    intros atomic g H. destruct move_src as [Hs [c [v [G [J E]]]]].
    assert (Hdw : get f0 dws = Some Dir).
    { destruct HW as [_ [_ [_ [_ Hv]]]]. apply (Hv dws Hdws). }
    unfold op_prog, o, job_move, with_sp, sp_load in H.
    apply crashed_do_inv in H; [|reflexivity]. destruct H as [->|H]; [apply cinv_move_pre|].
    unfold exec_res in H. simpl in H.
    replace (ws ++ [i; SPF]) with (s ++ [SPF]) in H by (unfold s; rewrite <- app_assoc; reflexivity).
    assert (Hnn : is_jnull v = false) by (apply (winv_job_nn frepr wss f0 ws i HW Hws Hi c v G J)).
    rewrite G in H. simpl in H. rewrite J, Hnn, E, str_eqb_refl in H.
    unfold mkdir_p in H.
    apply crashed_do_inv in H; [|reflexivity]. destruct H as [->|H]; [apply cinv_move_pre|].
    rewrite exec_res_stat in H. simpl in H. rewrite Hdw in H. simpl in H.
    apply crashed_do_inv in H; [|reflexivity]. destruct H as [->|H]; [apply cinv_move_pre|].
    unfold exec_res in H. simpl in H. fold s d in H.
    destruct (rename f0 s d) as [f1|e] eqn:Er; simpl in H.
    - apply crashed_ret_inv in H. subst g.
      destruct (path_eq_dec s d) as [Esd|Hne].
      + assert (f1 = f0).
        { unfold rename in Er. rewrite <- Esd, Hs in Er.
          destruct (get f0 (parent s)) as [[c1|]|]; try discriminate. rewrite path_eqb_refl in Er. congruence. }
        subst f1. apply cinv_move_pre.
      + apply cinv_move_post; auto.
    - assert (Hg : g = f0).
      { destruct e; try (destruct (dest_exists_e _)); apply crashed_raise_inv in H; exact H. }
      subst g. apply cinv_move_pre.
  Qed.

  (* ---- faults *)
  Lemma all_payload_at_intro : forall f (a b : path),
    (forall r c, get f0 (a ++ r) = Some (File c) -> holds_file f b r c = true) ->
    all_payload_at f0 f a b = true.
  Proof.
    intros f a b H. unfold all_payload_at. apply forallb_forall. intros [p n] Hin. simpl.
    destruct (strip a p) as [r|] eqn:Es; auto. destruct n as [c|]; auto.
    destruct (payload_rel r); simpl; auto. apply strip_spec in Es. subst p.
    destruct HW as [Hnd [Hnil _]].
    assert (Hne : a ++ r <> []) by (intro E; apply Hnil; rewrite <- E; apply (in_map fst) in Hin; exact Hin).
    apply H. apply (get_In_nodup f0 _ _ Hnd Hin Hne).
  Qed.

  Lemma move_dst_dir : dst_dir frepr o f0 = d.
  Proof. unfold dst_dir, o. destruct move_spv as [v [Hv Hid]]. rewrite Hv, Hid. reflexivity. Qed.

  Lemma post_ok_move_eq : forall f, post_ok frepr o f0 f =
    validates frepr f dws i && all_payload_at f0 f s d && (path_eqb s d || negb (exists_ f s)).
  Proof.
    intro f. change (post_ok frepr o f0 f) with
      (validates frepr f dws (last (dst_dir frepr o f0) []) && all_payload_at f0 f s (dst_dir frepr o f0)
       && (path_eqb s (dst_dir frepr o f0) || negb (exists_ f s))).
    rewrite move_dst_dir. unfold d at 1. rewrite last_last. reflexivity.
  Qed.

  Lemma post_ok_move_same : s = d -> post_ok frepr o f0 f0 = true.
  Proof.
    intros Esd. destruct move_src as [Hs [c [v [G [J E]]]]].
    rewrite post_ok_move_eq.
    rewrite validates_dir. fold d. rewrite <- Esd, G, J, E, str_eqb_refl. simpl.
    rewrite all_payload_at_intro; [|intros r c0 Hg; apply holds_file_get; exact Hg].
    rewrite path_eqb_refl. reflexivity.
  Qed.

  Lemma post_ok_move_done : forall f1, s <> d -> rename f0 s d = FOk f1 -> post_ok frepr o f0 f1 = true.
  Proof.
    intros f1 Hne Hr. destruct move_src as [Hs [c [v [G [J E]]]]].
    rewrite post_ok_move_eq.
    rewrite validates_dir. fold d. rewrite (rename_dir_carry f0 s d f1 [SPF] Hs Hne Hr), G, J, E, str_eqb_refl. simpl.
    rewrite all_payload_at_intro.
    - unfold exists_. rewrite <- (app_nil_r s) at 2. rewrite (rename_dir_src_gone f0 s d f1 [] Hs Hne Hr).
      simpl. apply orb_true_r.
    - intros r c0 Hg. apply holds_file_get. rewrite (rename_dir_carry f0 s d f1 r Hs Hne Hr). exact Hg.
  Qed.

  (* the tail of the program from the rename on: either nothing happens and an exception is raised, or the
     move is complete *)
  Definition move_tail : prog unit :=
    Do (CRename s d) (fun r1 =>
      match r1 with
      | FOk _ => ret_res (inl tt)
      | FErr ENOENT => ret_res (inr (PExn ERuntimeError))
      | FErr EXDEV => ret_res (inr (PExn ERuntimeError))
      | FErr e => if dest_exists_e e then ret_res (inr (PExn EDestinationExists)) else ret_res (inr (POs e))
      end).

  Definition move_outcome_ok (g : fs) (out : outcome unit) : Prop :=
    CInv frepr o wss f0 g /\
    match out with
    | inl _ => post_ok frepr o f0 g = true          (* a normal return means the move is complete *)
    | inr _ => g = f0                               (* an exception means nothing has changed        *)
    end.

  Lemma move_tail_run : forall plan n, let '(g, out) := run_fault plan n move_tail f0 in move_outcome_ok g out.
  Proof.
    intros plan n. unfold move_tail. simpl. destruct (plan n) as [e|].
    - destruct e; simpl; (split; [apply cinv_move_pre|reflexivity]).
    - unfold exec_res. simpl. destruct (rename f0 s d) as [f1|e] eqn:Er; simpl.
      + destruct (path_eq_dec s d) as [Esd|Hne].
        * destruct move_src as [Hs _].
          assert (f1 = f0).
          { unfold rename in Er. rewrite <- Esd, Hs in Er.
            destruct (get f0 (parent s)) as [[c1|]|]; try discriminate. rewrite path_eqb_refl in Er. congruence. }
          subst f1. split; [apply cinv_move_pre|apply post_ok_move_same; auto].
        * split; [apply cinv_move_post; auto|apply post_ok_move_done; auto].
      + destruct e; simpl; (split; [apply cinv_move_pre|reflexivity]).
  Qed.

  (* every fault plan (single, double, ... faults at any positions): the caller sees an exception and the
     tree is untouched, or the call returns normally and the move is complete *)
  Theorem fault_safe_move_lemma : forall plan atomic, length dws = 2%nat ->
    let '(g, out) := run_fault plan 0 (op_prog frepr atomic o) f0 in move_outcome_ok g out.
  Proof.
    intros plan atomic Hlen. destruct move_src as [Hs [c [v [G [J E]]]]].
    assert (Hdw : get f0 dws = Some Dir).
    { destruct HW as [_ [_ [_ [_ Hv]]]]. apply (Hv dws Hdws). }
    assert (Hraise : forall x, move_outcome_ok f0 (@inr unit perr x)) by (intro x; split; [apply cinv_move_pre|reflexivity]).
    unfold op_prog, o, job_move, with_sp, sp_load. simpl.
    replace (ws ++ [i; SPF]) with (s ++ [SPF]) by (unfold s; rewrite <- app_assoc; reflexivity).
    destruct (plan 0%nat) as [e0|].
    { destruct e0; simpl; apply Hraise. }
    assert (Hnn : is_jnull v = false) by (apply (winv_job_nn frepr wss f0 ws i HW Hws Hi c v G J)).
    unfold exec_res. simpl. rewrite G. simpl. rewrite J, Hnn, E, str_eqb_refl. fold s d.
    change (Do (CRename s d) _) with move_tail.
    assert (Htail : forall n, let '(g, out) := run_fault plan n move_tail f0 in move_outcome_ok g out) by (intro n; apply move_tail_run).
    unfold mkdir_p. rewrite run_fault_do.
    destruct (plan 1%nat) as [e1|].
    - (* the isdir() of the workspace fails: os.makedirs runs *)
      cbn [is_dir_r]. rewrite makedirs_p_unfold. destruct (parent_len2 dws Hlen) as [x ->]. cbv zeta. cbv iota.
      rewrite run_fault_do. destruct (plan 2%nat) as [e2|].
      + rewrite run_fault_do. destruct (plan 3%nat) as [e3|]; [cbn [is_dir_r]; simpl; apply Hraise|].
        rewrite exec_res_stat, Hdw. cbn [kind_of is_dir_r]. apply (Htail 4%nat).
      + unfold exec_res. cbn [exec lift]. unfold mkdir. rewrite Hdw. cbn [lift].
        rewrite run_fault_do. destruct (plan 3%nat) as [e3|]; [cbn [is_dir_r]; simpl; apply Hraise|].
        rewrite exec_res_stat, Hdw. cbn [kind_of is_dir_r]. apply (Htail 4%nat).
    - rewrite exec_res_stat, Hdw. cbn [kind_of is_dir_r]. apply (Htail 2%nat).
  Qed.
End MOVE.

(* ------------------------------------------------------------------ single calls, by their effect on [get] *)
Lemma path_eqb_snoc : forall (p : path) a b, path_eqb (p ++ [a]) (p ++ [b]) = str_eqb a b.
Proof.
  intros p a b. destruct (str_eqb a b) eqn:E.
  - apply str_eqb_eq in E. subst. apply path_eqb_refl.
  - apply path_eqb_neq. intro H. apply app_inv_head in H. inversion H. apply str_eqb_neq in E. contradiction.
Qed.

Lemma path_eqb_snoc_self : forall (p : path) a, path_eqb (p ++ [a]) p = false.
Proof.
  intros p a. apply path_eqb_neq. intro H. rewrite <- (app_nil_r p) in H at 2. apply app_inv_head in H. discriminate.
Qed.

Lemma path_eqb_self_snoc : forall (p : path) a, path_eqb p (p ++ [a]) = false.
Proof. intros. rewrite path_eqb_sym. apply path_eqb_snoc_self. Qed.

Lemma mkdir_ok : forall f p, get f p = None -> get f (parent p) = Some Dir ->
  exists f', exec_res f (CMkdir p) = (f', FOk RUnit) /\
             forall q, get f' q = if path_eqb q p then Some Dir else get f q.
Proof.
  intros f p Hp Hpp. unfold exec_res. simpl. destruct (mkdir f p) as [f'|e] eqn:E.
  - exists f'. split; auto. intro q. apply (get_mkdir f p f' q E).
  - unfold mkdir in E. rewrite Hp, Hpp in E. discriminate.
Qed.

Lemma openw_ok : forall f p, get f p <> Some Dir -> get f (parent p) = Some Dir ->
  exists f', exec_res f (COpenW p) = (f', FOk RUnit) /\
             forall q, get f' q = if path_eqb q p then Some (File empty_content) else get f q.
Proof.
  intros f p Hp Hpp. unfold exec_res. simpl. destruct (write_file f p empty_content) as [f'|e] eqn:E.
  - exists f'. split; auto. intro q. apply (get_write_file f p _ f' q E).
  - unfold write_file in E. rewrite Hpp in E. destruct (get f p) as [[c|]|]; try discriminate. congruence.
Qed.

Lemma write_open_ok : forall f p c0 c, get f p = Some (File c0) -> get f (parent p) = Some Dir ->
  exists f', write_open f p c = FOk f' /\
             forall q, get f' q = if path_eqb q p then Some (File c) else get f q.
Proof.
  intros f p c0 c Hp Hpp. unfold write_open. rewrite Hp. destruct (write_file f p c) as [f'|e] eqn:E.
  - exists f'. split; auto. intro q. apply (get_write_file f p _ f' q E).
  - unfold write_file in E. rewrite Hp, Hpp in E. discriminate.
Qed.

Lemma rename_file_ok : forall f a b c, get f a = Some (File c) -> get f (parent b) = Some Dir ->
  a <> b -> get f b <> Some Dir ->
  exists f', exec_res f (CRename a b) = (f', FOk RUnit) /\
             forall q, get f' q = if path_eqb q b then Some (File c) else if path_eqb q a then None else get f q.
Proof.
  intros f a b c Ha Hpb Hab Hb. unfold exec_res. simpl. destruct (rename f a b) as [f'|e] eqn:E.
  - exists f'. split; auto. intro q. apply (get_rename_file f a b c f' q Ha Hab E).
  - unfold rename in E. rewrite Ha, Hpb in E. apply path_eqb_neq in Hab. rewrite Hab in E.
    destruct (get f b) as [[c2|]|]; try discriminate. congruence.
Qed.

(* ------------------------------------------------------------------ Job.init, every crash state *)
Lemma tmpname_snoc' : forall tag (d : path) n, tmpname tag (d ++ [n]) = d ++ [TMPPFX ++ tag ++ n].
Proof. intros. unfold tmpname. rewrite parent_snoc, last_last. reflexivity. Qed.

Section INITRUN.
  Variable frepr : fl -> str.
  Variable atomic : bool.
  Variable tag : str.
  Variables w1 w2 : str.
  Variable wr : path.
  Variable sp : json.
  Variable f : fs.
  Let ws : path := w1 :: w2 :: wr.
  Let i := calc_id frepr sp.
  Let dir := ws ++ [i].
  Let file := dir ++ [SPF].
  Let tmp := dir ++ [TMPPFX ++ tag ++ SPF].
  Hypothesis Hws : get f ws = Some Dir.
  Hypothesis Hfile : get f file = None.
  Hypothesis Htmp : get f tmp = None.
  Hypothesis Hdir : get f dir = None \/ get f dir = Some Dir.
  Hypothesis Hspnn : is_jnull sp = false.

  Definition init_st (g : fs) : Prop :=
    (forall q, q <> dir -> q <> file -> q <> tmp -> get g q = get f q) /\
    (get g dir = get f dir \/ get g dir = Some Dir) /\
    (get g file = None \/ exists c, get g file = Some (File c) /\ (c_json c = None \/ c_json c = Some sp)) /\
    (get g tmp = None \/ exists c, get g tmp = Some (File c)).

  Lemma Edf : path_eqb dir file = false. Proof. apply path_eqb_self_snoc. Qed.
  Lemma Efd : path_eqb file dir = false. Proof. apply path_eqb_snoc_self. Qed.
  Lemma Edt : path_eqb dir tmp = false. Proof. apply path_eqb_self_snoc. Qed.
  Lemma Etd : path_eqb tmp dir = false. Proof. apply path_eqb_snoc_self. Qed.
  Lemma Eft : path_eqb file tmp = false. Proof. unfold file, tmp. rewrite path_eqb_snoc. reflexivity. Qed.
  Lemma Etf : path_eqb tmp file = false. Proof. rewrite path_eqb_sym. apply Eft. Qed.
  Lemma Hft : file <> tmp. Proof. apply path_eqb_neq. apply Eft. Qed.
  Lemma par_file : parent file = dir. Proof. apply parent_snoc. Qed.
  Lemma par_tmp : parent tmp = dir. Proof. apply parent_snoc. Qed.
  Lemma par_dir : parent dir = ws. Proof. apply parent_snoc. Qed.

  Lemma init_st_start : init_st f.
  Proof. unfold init_st. rewrite Hfile, Htmp. auto. Qed.

  Ltac neq q p H := assert (path_eqb q p = false) by (apply path_eqb_neq; exact H).

  (* state after the directory exists *)
  Definition stA (fA : fs) : Prop := forall q, get fA q = if path_eqb q dir then Some Dir else get f q.

  Lemma init_st_A : forall fA, stA fA -> init_st fA.
  Proof.
    intros fA HA. unfold init_st. rewrite !HA, Efd, Etd, path_eqb_refl, Hfile, Htmp. repeat split; auto.
    intros q H1 H2 H3. rewrite HA. apply path_eqb_neq in H1. rewrite H1. reflexivity.
  Qed.

  (* a state in which, besides the directory, the state point file and the temp file hold [cf], [ct] *)
  Definition stX (g : fs) (cf ct : option node) : Prop :=
    forall q, get g q = if path_eqb q file then cf else if path_eqb q tmp then ct
                        else if path_eqb q dir then Some Dir else get f q.

  Lemma init_st_X : forall g cf ct, stX g cf ct ->
    (cf = None \/ exists c, cf = Some (File c) /\ (c_json c = None \/ c_json c = Some sp)) ->
    (ct = None \/ exists c, ct = Some (File c)) -> init_st g.
  Proof.
    intros g cf ct HX Hcf Hct. unfold init_st.
    rewrite (HX dir), (HX file), (HX tmp), Edf, Edt, !path_eqb_refl, Etf.
    repeat split; auto.
    intros q H1 H2 H3. rewrite HX. apply path_eqb_neq in H1, H2, H3. rewrite H1, H2, H3. reflexivity.
  Qed.

  Lemma stA_X : forall fA, stA fA -> stX fA None None.
  Proof.
    intros fA HA q. rewrite HA. destruct (path_eqb q file) eqn:E1.
    - apply path_eqb_eq in E1. subst q. rewrite Efd. exact Hfile.
    - destruct (path_eqb q tmp) eqn:E2; auto. apply path_eqb_eq in E2. subst q. rewrite Etd. exact Htmp.
  Qed.

  Definition K3 : json + perr -> prog unit := fun r3 => match r3 with inl _ => ret_res (inl tt) | inr e => ret_res (inr e) end.
  Definition K2 : unit + perr -> prog unit :=
    fun r2 => match r2 with inr e => ret_res (inr e) | inl _ => sp_load frepr file i K3 end.

  Lemma jc_valid : c_json (jcontent frepr sp) = Some sp /\ str_eqb (calc_id frepr sp) i = true.
  Proof. split; [reflexivity|apply str_eqb_refl]. Qed.

  Lemma init_load_tail : forall g fD ct, stX fD (Some (File (jcontent frepr sp))) ct ->
    crashed (sp_load frepr file i K3) fD g -> g = fD.
  Proof.
    intros g fD ct HX H. unfold sp_load in H.
    apply crashed_do_inv in H; [|reflexivity]. destruct H as [->|H]; auto.
    assert (Hg : get fD file = Some (File (jcontent frepr sp))) by (rewrite (HX file), path_eqb_refl; reflexivity).
    assert (E : exec_res fD (CRead file) = (fD, FOk (RData (jcontent frepr sp)))).
    { unfold exec_res. cbn [exec]. rewrite Hg. reflexivity. }
    rewrite E in H. cbn [fst snd] in H. cbn [jcontent c_json] in H. fold i in H. rewrite Hspnn, str_eqb_refl in H.
    apply crashed_ret_inv in H. exact H.
  Qed.

  Lemma init_save_states : forall force fA g, stA fA ->
    crashed (sp_save frepr atomic tag file sp force K2) fA g -> init_st g.
  Proof.
    intros force fA g HA H. pose proof (stA_X fA HA) as HXA.
    assert (HdirA : get fA dir = Some Dir) by (rewrite HA, path_eqb_refl; reflexivity).
    assert (Hjs : crashed (json_save frepr tag atomic file sp
               (fun r => match r with
                         | FOk _ => K2 (inl tt)
                         | FErr e => if errno_eqb e EEXIST || errno_eqb e EACCES then K2 (inl tt)
                                     else Do (CUnlink file) (fun _ => K2 (inr (POs e)))
                         end)) fA g -> init_st g).
    { clear H. intro H. unfold json_save in H. destruct atomic.
      - (* temp file + rename *)
        assert (Etmp : tmpname tag file = tmp) by (unfold file; rewrite tmpname_snoc'; reflexivity).
        rewrite !Etmp in H.
        apply crashed_do_inv in H; [|reflexivity]. destruct H as [->|H]; [apply init_st_A; auto|].
        destruct (openw_ok fA tmp) as [fB [EB HB]].
        { rewrite (HXA tmp), Etf, path_eqb_refl. discriminate. }
        { rewrite par_tmp. exact HdirA. }
        rewrite EB in H. cbn [fst snd] in H.
        assert (HXB : stX fB None (Some (File empty_content))).
        { intro q. rewrite HB, (HXA q). destruct (path_eqb q tmp) eqn:E; auto.
          apply path_eqb_eq in E. subst q. rewrite Etf. reflexivity. }
        assert (HdirB : get fB dir = Some Dir) by (rewrite (HXB dir), Edf, Edt, path_eqb_refl; reflexivity).
        assert (HtmpB : get fB tmp = Some (File empty_content)) by (rewrite (HXB tmp), Etf, path_eqb_refl; reflexivity).
        assert (HpB : get fB (parent tmp) = Some Dir) by (rewrite par_tmp; exact HdirB).
        apply crashed_write_inv in H. destruct H as [->|[[n [f' [Hn [Hw ->]]]]|H]].
        + apply (init_st_X _ _ _ HXB); [auto|right; eauto].
        + destruct (write_open_ok fB tmp _ (torn_content (jcontent frepr sp) n) HtmpB HpB) as [fT [ET HT]].
          rewrite ET in Hw. injection Hw as <-.
          assert (HXT : stX fT None (Some (File (torn_content (jcontent frepr sp) n)))).
          { intro q. rewrite HT, (HXB q). destruct (path_eqb q tmp) eqn:E; auto.
            apply path_eqb_eq in E. subst q. rewrite Etf. reflexivity. }
          apply (init_st_X _ _ _ HXT); [auto|right; eauto].
        + destruct (write_open_ok fB tmp _ (jcontent frepr sp) HtmpB HpB) as [fC [EC HC]].
          unfold exec_res in H. cbn [exec] in H. rewrite EC in H. cbn [lift fst snd] in H.
          assert (HXC : stX fC None (Some (File (jcontent frepr sp)))).
          { intro q. rewrite HC, (HXB q). destruct (path_eqb q tmp) eqn:E; auto.
            apply path_eqb_eq in E. subst q. rewrite Etf. reflexivity. }
          apply crashed_do_inv in H; [|reflexivity]. destruct H as [->|H]; [apply (init_st_X _ _ _ HXC); [auto|right; eauto]|].
          cbn [exec_res exec fst snd] in H.
          apply crashed_do_inv in H; [|reflexivity]. destruct H as [->|H]; [apply (init_st_X _ _ _ HXC); [auto|right; eauto]|].
          destruct (rename_file_ok fC tmp file (jcontent frepr sp)) as [fD [ED HD]].
          { rewrite (HXC tmp), Etf, path_eqb_refl. reflexivity. }
          { rewrite par_file, (HXC dir), Edf, Edt, path_eqb_refl. reflexivity. }
          { apply not_eq_sym. apply Hft. }
          { rewrite (HXC file), path_eqb_refl. discriminate. }
          rewrite ED in H. cbn [fst snd] in H.
          assert (HXD : stX fD (Some (File (jcontent frepr sp))) None).
          { intro q. rewrite HD, (HXC q). destruct (path_eqb q file); auto. destruct (path_eqb q tmp); auto. }
          apply (init_load_tail g fD None HXD) in H. subst g.
          apply (init_st_X _ _ _ HXD); [right; exists (jcontent frepr sp); split; auto|auto].
      - (* in place *)
        apply crashed_do_inv in H; [|reflexivity]. destruct H as [->|H]; [apply init_st_A; auto|].
        destruct (openw_ok fA file) as [fB [EB HB]].
        { rewrite (HXA file), path_eqb_refl. discriminate. }
        { rewrite par_file. exact HdirA. }
        rewrite EB in H. cbn [fst snd] in H.
        assert (HXB : stX fB (Some (File empty_content)) None).
        { intro q. rewrite HB, (HXA q). destruct (path_eqb q file) eqn:E; auto. }
        assert (HdirB : get fB dir = Some Dir) by (rewrite (HXB dir), Edf, Edt, path_eqb_refl; reflexivity).
        assert (HfB : get fB file = Some (File empty_content)) by (rewrite (HXB file), path_eqb_refl; reflexivity).
        assert (HpB : get fB (parent file) = Some Dir) by (rewrite par_file; exact HdirB).
        apply crashed_write_inv in H. destruct H as [->|[[n [f' [Hn [Hw ->]]]]|H]].
        + apply (init_st_X _ _ _ HXB); [right; exists empty_content; split; auto|auto].
        + destruct (write_open_ok fB file _ (torn_content (jcontent frepr sp) n) HfB HpB) as [fT [ET HT]].
          rewrite ET in Hw. injection Hw as <-.
          assert (HXT : stX fT (Some (File (torn_content (jcontent frepr sp) n))) None).
          { intro q. rewrite HT, (HXB q). destruct (path_eqb q file) eqn:E; auto. }
          apply (init_st_X _ _ _ HXT); [right; eexists; split; [reflexivity|left; reflexivity]|auto].
        + destruct (write_open_ok fB file _ (jcontent frepr sp) HfB HpB) as [fC [EC HC]].
          unfold exec_res in H. cbn [exec] in H. rewrite EC in H. cbn [lift fst snd] in H.
          assert (HXC : stX fC (Some (File (jcontent frepr sp))) None).
          { intro q. rewrite HC, (HXB q). destruct (path_eqb q file) eqn:E; auto. }
          apply crashed_do_inv in H; [|reflexivity]. destruct H as [->|H];
            [apply (init_st_X _ _ _ HXC); [right; exists (jcontent frepr sp); split; auto|auto]|].
          cbn [exec_res exec fst snd] in H.
          apply (init_load_tail g fC None HXC) in H. subst g.
          apply (init_st_X _ _ _ HXC); [right; exists (jcontent frepr sp); split; auto|auto]. }
    unfold sp_save in H. destruct force.
    - apply Hjs. exact H.
    - apply crashed_do_inv in H; [|reflexivity]. destruct H as [->|H]; [apply init_st_A; auto|].
      rewrite exec_res_stat in H. cbn [fst snd] in H. rewrite (HXA file), path_eqb_refl in H. cbn [kind_of is_file_r] in H.
      apply Hjs. exact H.
  Qed.

  Theorem init_crash_states : forall force g,
    crashed (job_init frepr atomic tag ws sp force ret_res) f g -> init_st g.
  Proof.
    intros force g H. unfold job_init, sp_load in H. cbv zeta in H. fold i dir file in H.
    apply crashed_do_inv in H; [|reflexivity]. destruct H as [->|H]; [apply init_st_start|].
    assert (E0 : exec_res f (CRead file) = (f, FErr ENOENT)) by (unfold exec_res; cbn [exec]; rewrite Hfile; reflexivity).
    rewrite E0 in H. cbn [fst snd] in H. unfold mkdir_p in H.
    apply crashed_do_inv in H; [|reflexivity]. destruct H as [->|H]; [apply init_st_start|].
    rewrite exec_res_stat in H. cbn [fst snd] in H.
    change (fun r2 : unit + perr => match r2 with inl _ => sp_load frepr file i (fun r3 => match r3 with inl _ => ret_res (inl tt) | inr e => ret_res (inr e) end) | inr e => ret_res (inr e) end) with K2 in H.
    destruct Hdir as [Hd|Hd]; rewrite Hd in H; cbn [kind_of is_dir_r] in H.
    - rewrite makedirs_p_unfold, par_dir in H. unfold ws in H at 1. cbv zeta iota in H. fold ws in H.
      apply crashed_do_inv in H; [|reflexivity]. destruct H as [->|H]; [apply init_st_start|].
      rewrite exec_res_stat, Hws in H. cbn [fst snd kind_of exists_r] in H.
      apply crashed_do_inv in H; [|reflexivity]. destruct H as [->|H]; [apply init_st_start|].
      destruct (mkdir_ok f dir Hd) as [fA [EA HA]]; [rewrite par_dir; exact Hws|].
      rewrite EA in H. cbn [fst snd] in H.
      apply (init_save_states force fA g HA H).
    - assert (HA : stA f).
      { intro q. destruct (path_eqb q dir) eqn:E; auto. apply path_eqb_eq in E. subst q. exact Hd. }
      apply (init_save_states force f g HA H).
  Qed.
End INITRUN.


(* ------------------------------------------------------------------ crash_safe_init *)
Lemma closed_absent : forall f (d : path),
  (forall p, get f p <> None -> get f (parent p) = Some Dir) -> get f d = None ->
  forall r, get f (d ++ r) = None.
Proof.
  intros f d Hcl Hd r. induction r as [|x r IH] using rev_ind.
  - rewrite app_nil_r. exact Hd.
  - destruct (get f (d ++ r ++ [x])) eqn:E; auto.
    assert (Hne : get f (d ++ r ++ [x]) <> None) by congruence.
    apply Hcl in Hne. rewrite app_assoc, parent_snoc in Hne. congruence.
Qed.

Lemma id_match_calc_id : forall frepr v, id_match (calc_id frepr v) = true.
Proof.
  intros frepr v. destruct (calc_id_shape frepr v) as [Hl Hh]. unfold id_match. rewrite Hl, Hh. reflexivity.
Qed.

Section INIT.
  Variable frepr : fl -> str.
  Variable wss : list path.
  Variable f0 : fs.
  Variables w1 w2 : str.
  Variable wr : path.
  Variable sp : json.
  Variable force : bool.
  Let ws : path := w1 :: w2 :: wr.
  Hypothesis HW : WInv frepr wss f0.
  Hypothesis Hws : In ws wss.
  Hypothesis Hspnn0 : is_jnull sp = false.
  Let o := KInit ws sp force.
  Let i := calc_id frepr sp.
  Let dir := ws ++ [i].

  Lemma init_aff : affected frepr o f0 = [dir].
  Proof. reflexivity. Qed.

  Lemma init_form : forall x, In x (affected frepr o f0) -> exists w j, In w wss /\ x = w ++ [j].
  Proof. intros x [<-|[]]. exists ws, i. auto. Qed.

  Lemma init_ws_dir : get f0 ws = Some Dir.
  Proof. destruct HW as [_ [_ [_ [_ Hv]]]]. apply (Hv ws Hws). Qed.

  (* the job exists: it validates, and init returns at once *)
  Lemma cinv_init_existing : In i (job_dirs f0 ws) -> CInv frepr o wss f0 f0.
  Proof.
    intro Hi. destruct (winv_job frepr wss f0 ws i HW Hws Hi) as [Hd [c [v [G [J E]]]]]. fold dir in Hd, G.
    apply cinv_intro; auto.
    - apply init_form.
    - right. intros r c0 Hp Hg. rewrite init_aff. simpl. unfold o, src_dir in Hg. fold i dir in Hg.
      rewrite (holds_file_get _ _ _ _ Hg). reflexivity.
    - intros x [<-|[]]. right. exact Hd.
    - intros w j Hw [Ed|[]] Hval. change (src_dir frepr o) with dir in Ed.
      destruct (validates_sp_value _ _ _ _ Hval) as [v1 [Hv1 _]]. exists v1. split; auto.
      unfold history, o. fold i.
      assert (Hs0 : sp_value f0 ws i = Some v1).
      { rewrite sp_value_dir. rewrite sp_value_dir in Hv1. change (ws ++ [i]) with dir. rewrite Ed. exact Hv1. }
      rewrite Hs0. simpl. rewrite json_same_refl. apply orb_true_r.
  Qed.

  Lemma cinv_init_st : forall g, get f0 dir = None ->
    init_st frepr [] w1 w2 wr sp f0 g -> CInv frepr o wss f0 g.
  Proof.
    intros g Hd [Hout [Hdir [Hfile Htmp]]]. fold ws i dir in Hout, Hdir, Hfile, Htmp.
    destruct HW as [Hnd [Hnil [Hcl _]]].
    apply cinv_intro; auto.
    - apply init_form.
    - rewrite init_aff. intros p Hp. apply under_any_false_cons in Hp. destruct Hp as [Hp _].
      apply Hout; intro E; subst p; [rewrite under_refl in Hp|rewrite under_app in Hp|rewrite under_app in Hp]; discriminate.
    - right. intros r c0 Hp Hg. unfold o, src_dir in Hg. fold i dir in Hg.
      rewrite (closed_absent f0 dir Hcl Hd r) in Hg. discriminate.
    - intros x [<-|[]]. rewrite Hd in Hdir. destruct Hdir; auto.
    - intros w j Hw [Ed|[]] Hval. change (src_dir frepr o) with dir in Ed.
      rewrite validates_dir, <- Ed in Hval. rewrite sp_value_dir, <- Ed.
      destruct Hfile as [Hn|[c [Hc Hj]]]; [rewrite Hn in Hval; discriminate|].
      rewrite Hc in *. destruct Hj as [Hj|Hj]; rewrite Hj in *; [discriminate|].
      exists sp. split; auto. unfold history, o. simpl. rewrite json_same_refl. reflexivity.
  Qed.

  Theorem crash_safe_init_lemma : forall atomic g,
    crashed (op_prog frepr atomic o) f0 g -> CInv frepr o wss f0 g.
  Proof.
    intros atomic g H. destruct HW as [Hnd [Hnil [Hcl [Hlen Hv]]]].
    destruct (get f0 dir) as [n|] eqn:Gd.
    - (* the directory exists: it is a listed, valid job *)
      assert (Hi : In i (job_dirs f0 ws)).
      { apply job_dirs_In. split; [apply init_ws_dir|]. split; [fold dir; congruence|apply id_match_calc_id]. }
      destruct (winv_job frepr wss f0 ws i HW Hws Hi) as [Hd [c [v [G [J E]]]]]. fold dir in Hd, G.
      unfold op_prog, o, job_init, sp_load in H. cbv zeta in H. fold i dir in H.
      apply crashed_do_inv in H; [|reflexivity]. destruct H as [->|H]; [apply cinv_init_existing; auto|].
      assert (E0 : exec_res f0 (CRead (dir ++ [SPF])) = (f0, FOk (RData c))) by (unfold exec_res; cbn [exec]; rewrite G; reflexivity).
      assert (Hnn : is_jnull v = false) by (apply (winv_job_nn frepr wss f0 ws i HW Hws Hi c v G J)).
      rewrite E0 in H. cbn [fst snd] in H. rewrite J, Hnn, E, str_eqb_refl in H.
      apply crashed_ret_inv in H. subst g. apply cinv_init_existing; auto.
    - apply (cinv_init_st g Gd).
      apply (init_crash_states frepr atomic [] w1 w2 wr sp f0) with (force := force).
      + apply init_ws_dir.
      + apply (closed_absent f0 dir Hcl Gd [SPF]).
      + apply (closed_absent f0 dir Hcl Gd [TMPPFX ++ [] ++ SPF]).
      + left. exact Gd.
      + exact Hspnn0.
      + exact H.
  Qed.
End INIT.

(* ------------------------------------------------------------------ the re-key protocol *)
Lemma under_snoc_self' : forall (p : path) n, under (p ++ [n]) p = false.
Proof.
  intros p n. destruct (under (p ++ [n]) p) eqn:E; auto. apply under_spec in E. destruct E as [r E].
  rewrite <- app_assoc in E. rewrite <- (app_nil_r p) in E at 1. apply app_inv_head in E. discriminate.
Qed.

Lemma under_sibling_deep : forall (p : path) a b r, a <> b -> under (p ++ [a]) (p ++ b :: r) = false.
Proof. intros. apply sibling_not_under_deep. auto. Qed.

Lemma strip_sibling : forall (p : path) a b r, a <> b -> strip (p ++ [a]) (p ++ b :: r) = None.
Proof.
  intros p a b r H. destruct (strip (p ++ [a]) (p ++ b :: r)) eqn:E; auto.
  assert (U : under (p ++ [a]) (p ++ b :: r) = true) by (unfold under; rewrite E; reflexivity).
  rewrite sibling_not_under_deep in U by auto. discriminate.
Qed.

Section REKEY.
  Variable frepr : fl -> str.
  Variable wss : list path.
  Variable f0 : fs.
  Variables w1 w2 : str.
  Variable wr : path.
  Variable old : str.
  Variable nsp : json.
  Let ws : path := w1 :: w2 :: wr.
  Hypothesis HW : WInv frepr wss f0.
  Hypothesis Hws : In ws wss.
  Hypothesis Hold : In old (job_dirs f0 ws).
  Let o := KRekey ws old nsp.
  Let new := calc_id frepr nsp.
  Let odir := ws ++ [old].
  Let ndir := ws ++ [new].
  Let fname := odir ++ [SPF].
  Let bak := odir ++ [SPT].
  Hypothesis Hne : old <> new.
  (* no stale temp file of an interrupted earlier write in the job directory *)
  Hypothesis Hnotmp : get f0 (odir ++ [TMPPFX ++ [] ++ SPF]) = None.
  Hypothesis Hnspnn : is_jnull nsp = false.

  Lemma rk_src : get f0 odir = Some Dir /\
    exists c v, get f0 fname = Some (File c) /\ c_json c = Some v /\ calc_id frepr v = old.
  Proof. apply (winv_job frepr wss); auto. Qed.

  Lemma rk_ws : get f0 ws = Some Dir.
  Proof. destruct HW as [_ [_ [_ [_ Hv]]]]. apply (Hv ws Hws). Qed.

  Definition occupied : bool := has_children f0 ndir || isfile f0 ndir.

  Lemma rk_dirs_ne : odir <> ndir.
  Proof. intro E. apply app_inv_head in E. inversion E. contradiction. Qed.

  Lemma rk_aff : affected frepr o f0 = if occupied then [odir] else [odir; ndir].
  Proof.
    unfold affected, o, src_dir, dst_dir. fold new odir ndir. unfold occupied.
    assert (E : path_eqb odir ndir = false) by (apply path_eqb_neq; apply rk_dirs_ne). rewrite E. reflexivity.
  Qed.

  Lemma rk_form : forall x, In x (affected frepr o f0) -> exists w j, In w wss /\ x = w ++ [j].
  Proof.
    intros x Hx. rewrite rk_aff in Hx. destruct occupied; simpl in Hx.
    - destruct Hx as [<-|[]]. exists ws, old. auto.
    - destruct Hx as [<-|[<-|[]]]; [exists ws, old|exists ws, new]; auto.
  Qed.

  Lemma rk_hist : exists v0, history frepr o f0 = [nsp; v0] /\ sp_value f0 ws old = Some v0.
  Proof.
    destruct rk_src as [_ [c [v [G [J E]]]]]. exists v. unfold history, o.
    assert (Hs : sp_value f0 ws old = Some v) by (rewrite sp_value_dir; fold odir fname; rewrite G; exact J).
    rewrite Hs. auto.
  Qed.

  (* free destination: nothing below it *)
  Lemma rk_free : occupied = false -> (get f0 ndir = None \/ get f0 ndir = Some Dir) /\ forall x r, get f0 (ndir ++ x :: r) = None.
  Proof.
    unfold occupied. intro H. apply orb_false_iff in H. destruct H as [Hc Hf]. split.
    - unfold isfile in Hf. destruct (get f0 ndir) as [[c|]|]; auto. discriminate.
    - intros x r. rewrite get_app_cons. apply has_children_false. exact Hc.
  Qed.

  (* generic CInv introduction for states in which only the two job directories differ from the pre-state *)
  Lemma rk_cinv : forall g,
    (forall p, under odir p = false -> under ndir p = false -> get g p = get f0 p) ->
    (occupied = true -> forall p, under ndir p = true -> get g p = get f0 p) ->
    (forall r c, payload_rel r = true -> get f0 (odir ++ r) = Some (File c) ->
       (get g (odir ++ r) = Some (File c) /\ (occupied = false -> get g (ndir ++ r) = None)) \/
       (occupied = false /\ get g (odir ++ r) = None /\ get g (ndir ++ r) = Some (File c))) ->
    (get g odir = None \/ get g odir = Some Dir) ->
    (occupied = false -> get g ndir = None \/ get g ndir = Some Dir) ->
    (forall c, get g fname = Some (File c) -> forall v, c_json c = Some v -> sp_value f0 ws old = Some v) ->
    (occupied = false -> forall c, get g (ndir ++ [SPF]) = Some (File c) -> forall v, c_json c = Some v -> v = nsp) ->
    CInv frepr o wss f0 g.
  Proof.
    intros g Hout Hocc Hpay Hod Hnd Hosp Hnsp.
    apply cinv_intro; auto.
    - apply rk_form.
    - rewrite rk_aff. intros p Hp. destruct occupied eqn:Eo.
      + apply under_any_false_cons in Hp. destruct Hp as [Hp _].
        destruct (under ndir p) eqn:En; [apply Hocc; auto|apply Hout; auto].
      + apply under_any_false_cons in Hp. destruct Hp as [Hp1 Hp]. apply under_any_false_cons in Hp. destruct Hp as [Hp2 _].
        apply Hout; auto.
    - right. intros r c Hp Hg. unfold o, src_dir in Hg. fold odir in Hg. rewrite rk_aff.
      destruct (Hpay r c Hp Hg) as [[H1 H2]|[Eo [H1 H2]]].
      + destruct occupied eqn:Eo; simpl; rewrite (holds_file_get _ _ _ _ H1); auto.
        rewrite (holds_file_none _ _ _ _ (H2 eq_refl)). reflexivity.
      + rewrite Eo. simpl. rewrite (holds_file_none _ _ _ _ H1), (holds_file_get _ _ _ _ H2). reflexivity.
    - rewrite rk_aff. intros x Hx. destruct occupied eqn:Eo; simpl in Hx.
      + destruct Hx as [<-|[]]. exact Hod.
      + destruct Hx as [<-|[<-|[]]]; auto.
    - rewrite rk_aff. intros w j Hw Hin Hval.
      destruct rk_hist as [v0 [Hh Hv0]]. rewrite Hh.
      destruct (validates_sp_value _ _ _ _ Hval) as [v1 [Hv1 _]]. exists v1. split; auto.
      rewrite sp_value_dir in Hv1.
      assert (Hcase : w ++ [j] = odir \/ (occupied = false /\ w ++ [j] = ndir)).
      { destruct occupied; simpl in Hin; intuition. }
      destruct Hcase as [E|[Eo E]]; rewrite E in Hv1.
      + fold fname in Hv1. destruct (get g fname) as [[c|]|] eqn:G; try discriminate.
        rewrite (Hosp c eq_refl v1 Hv1) in Hv0. injection Hv0 as <-. simpl. rewrite json_same_refl. apply orb_true_iff. right. reflexivity.
      + destruct (get g (ndir ++ [SPF])) as [[c|]|] eqn:G; try discriminate.
        rewrite (Hnsp Eo c eq_refl v1 Hv1). simpl. rewrite json_same_refl. reflexivity.
  Qed.

  (* ---- path facts *)
  Lemma rk_payload_names : forall r, payload_rel r = true -> odir ++ r <> fname /\ odir ++ r <> bak /\ r <> [].
  Proof.
    intros r Hp. destruct r as [|x [|y r]]; simpl in Hp; try discriminate.
    - apply negb_true_iff in Hp. apply orb_false_iff in Hp. destruct Hp as [Hp _]. apply orb_false_iff in Hp.
      destruct Hp as [H1 H2]. apply str_eqb_neq in H1, H2. repeat split; try discriminate.
      + intro E. apply app_inv_head in E. inversion E. contradiction.
      + intro E. apply app_inv_head in E. inversion E. contradiction.
    - repeat split; try discriminate; intro E; apply app_inv_head in E; discriminate.
  Qed.

  Lemma rk_not_under_ndir : forall r, under ndir (odir ++ r) = false.
  Proof.
    intros r. unfold odir, ndir. rewrite <- app_assoc. change ([old] ++ r) with (old :: r).
    apply (sibling_not_under_deep ws). auto.
  Qed.

  Lemma rk_not_under_odir : forall r, under odir (ndir ++ r) = false.
  Proof.
    intros r. unfold odir, ndir. rewrite <- app_assoc. change ([new] ++ r) with (new :: r).
    apply (sibling_not_under_deep ws). auto.
  Qed.

  Lemma rk_strip_ndir : forall r, strip ndir (odir ++ r) = None.
  Proof.
    intro r. destruct (strip ndir (odir ++ r)) eqn:E; auto.
    assert (U : under ndir (odir ++ r) = true) by (unfold under; rewrite E; reflexivity).
    rewrite rk_not_under_ndir in U. discriminate.
  Qed.

  (* ---- the states of the protocol *)
  Section STATES.
    Variables (c : content) (v0 : json).
    Hypothesis G : get f0 fname = Some (File c).
    Hypothesis J : c_json c = Some v0.
    Hypothesis Hod0 : get f0 odir = Some Dir.

    Lemma rk_spv0 : sp_value f0 ws old = Some v0.
    Proof. rewrite sp_value_dir. fold odir fname. rewrite G. exact J. Qed.

    Definition st1 (f1 : fs) : Prop :=
      forall q, get f1 q = if path_eqb q bak then Some (File c) else if path_eqb q fname then None else get f0 q.

    Lemma st1_same : forall f1 q, st1 f1 -> q <> bak -> q <> fname -> get f1 q = get f0 q.
    Proof. intros f1 q H1 Hb Hf. rewrite H1. apply path_eqb_neq in Hb, Hf. rewrite Hb, Hf. reflexivity. Qed.

    Lemma st1_outside : forall f1 q, st1 f1 -> under odir q = false -> get f1 q = get f0 q.
    Proof.
      intros f1 q H1 Hu. apply st1_same; auto; intro E; subst q; unfold bak, fname in Hu; rewrite under_app in Hu; discriminate.
    Qed.

    Lemma cinv_rk_pre : CInv frepr o wss f0 f0.
    Proof.
      apply rk_cinv; auto.
      - intros r c0 Hp Hg. left. split; auto. intro Eo. destruct (rk_free Eo) as [_ Hfree].
        destruct (rk_payload_names r Hp) as [_ [_ Hr]]. destruct r as [|x r]; [contradiction|]. apply Hfree.
      - intro Eo. apply (rk_free Eo).
      - intros c1 G1 v J1. rewrite G in G1. injection G1 as <-. rewrite J in J1. injection J1 as <-. apply rk_spv0.
      - intros Eo c1 G1. destruct (rk_free Eo) as [_ Hfree]. rewrite (Hfree SPF []) in G1. discriminate.
    Qed.

    Lemma cinv_rk_st1 : forall f1, st1 f1 -> CInv frepr o wss f0 f1.
    Proof.
      intros f1 H1. apply rk_cinv.
      - intros p Hp _. apply st1_outside; auto.
      - intros _ p Hp. apply st1_outside; auto.
        destruct (under odir p) eqn:E; auto. destruct (under_comparable odir ndir p E Hp) as [U|U].
        + rewrite <- (app_nil_r ndir) in U. rewrite rk_not_under_odir in U. discriminate.
        + rewrite <- (app_nil_r odir) in U. rewrite rk_not_under_ndir in U. discriminate.
      - intros r c0 Hp Hg. left. destruct (rk_payload_names r Hp) as [Hf [Hb Hr]]. split.
        + rewrite (st1_same f1 _ H1 Hb Hf). exact Hg.
        + intro Eo. destruct (rk_free Eo) as [_ Hfree]. destruct r as [|x r]; [contradiction|].
          rewrite (st1_outside f1 _ H1 (rk_not_under_odir _)). apply Hfree.
      - right. rewrite (st1_same f1 odir H1); auto; intro E; symmetry in E; revert E;
          [apply path_eqb_neq, path_eqb_snoc_self|apply path_eqb_neq, path_eqb_snoc_self].
      - intro Eo. rewrite <- (app_nil_r ndir). rewrite (st1_outside f1 _ H1 (rk_not_under_odir _)), app_nil_r.
        apply (rk_free Eo).
      - intros c1 G1. rewrite H1, path_eqb_refl in G1.
        assert (E : path_eqb fname bak = false) by (unfold fname, bak; rewrite path_eqb_snoc; reflexivity).
        rewrite E in G1. discriminate.
      - intros Eo c1 G1. destruct (rk_free Eo) as [_ Hfree].
        rewrite (st1_outside f1 _ H1 (rk_not_under_odir _)), (Hfree SPF []) in G1. discriminate.
    Qed.

    (* after the rollback: the pre-state, except that a stale backup file is gone *)
    Definition st3 (f3 : fs) : Prop :=
      forall q, get f3 q = if path_eqb q fname then Some (File c) else if path_eqb q bak then None else get f0 q.

    Lemma cinv_rk_st3 : forall f3, st3 f3 -> CInv frepr o wss f0 f3.
    Proof.
      intros f3 H3.
      assert (Hsame : forall q, q <> bak -> get f3 q = get f0 q).
      { intros q Hb. rewrite H3. destruct (path_eqb q fname) eqn:E.
        - apply path_eqb_eq in E. subst q. symmetry. exact G.
        - apply path_eqb_neq in Hb. rewrite Hb. reflexivity. }
      assert (Hout : forall q, under odir q = false -> get f3 q = get f0 q).
      { intros q Hu. apply Hsame. intro E. subst q. unfold bak in Hu. rewrite under_app in Hu. discriminate. }
      apply rk_cinv.
      - intros p Hp _. apply Hout; auto.
      - intros _ p Hp. apply Hout.
        destruct (under odir p) eqn:E; auto. destruct (under_comparable odir ndir p E Hp) as [U|U].
        + rewrite <- (app_nil_r ndir) in U. rewrite rk_not_under_odir in U. discriminate.
        + rewrite <- (app_nil_r odir) in U. rewrite rk_not_under_ndir in U. discriminate.
      - intros r c0 Hp Hg. left. destruct (rk_payload_names r Hp) as [Hf [Hb Hr]]. split.
        + rewrite (Hsame _ Hb). exact Hg.
        + intro Eo. destruct (rk_free Eo) as [_ Hfree]. destruct r as [|x r]; [contradiction|].
          rewrite (Hout _ (rk_not_under_odir _)). apply Hfree.
      - right. rewrite Hsame; auto. intro E. symmetry in E. revert E. apply path_eqb_neq, path_eqb_snoc_self.
      - intro Eo. rewrite <- (app_nil_r ndir). rewrite (Hout _ (rk_not_under_odir _)), app_nil_r. apply (rk_free Eo).
      - intros c1 G1 v J1. rewrite H3, path_eqb_refl in G1. injection G1 as <-. rewrite J in J1. injection J1 as <-. apply rk_spv0.
      - intros Eo c1 G1. destruct (rk_free Eo) as [_ Hfree].
        rewrite (Hout _ (rk_not_under_odir _)), (Hfree SPF []) in G1. discriminate.
    Qed.
  End STATES.

  Lemma payload_names : forall (dd : path) r, payload_rel r = true ->
    dd ++ r <> dd ++ [SPF] /\ dd ++ r <> dd ++ [SPT] /\ dd ++ r <> dd ++ [TMPPFX ++ [] ++ SPF] /\ dd ++ r <> dd.
  Proof.
    intros dd r Hp.
    assert (Hnil : dd ++ r <> dd).
    { intro E. rewrite <- (app_nil_r dd) in E at 2. apply app_inv_head in E. subst r. discriminate. }
    destruct r as [|x [|y r]]; simpl in Hp; try discriminate.
    - apply negb_true_iff in Hp. apply orb_false_iff in Hp. destruct Hp as [Hp Ht]. apply orb_false_iff in Hp.
      destruct Hp as [H1 H2]. apply str_eqb_neq in H1, H2. repeat split; auto.
      + intro E. apply app_inv_head in E. inversion E. contradiction.
      + intro E. apply app_inv_head in E. inversion E. contradiction.
      + intro E. apply app_inv_head in E. inversion E. subst x. unfold is_tmp_name in Ht.
        assert (str_prefix TMPPFX (TMPPFX ++ [] ++ SPF) = true) by (apply str_prefix_spec; eauto). congruence.
    - repeat split; auto; intro E; apply app_inv_head in E; discriminate.
  Qed.

  Section FREE.
    Variables (c : content) (v0 : json).
    Hypothesis G : get f0 fname = Some (File c).
    Hypothesis Hod0 : get f0 odir = Some Dir.
    Hypothesis Eo : occupied = false.
    Variables f1 f2 : fs.
    Hypothesis H1 : st1 c f1.

    Definition st2 : Prop :=
      forall q, get f2 q = match strip ndir q with
                           | Some r => get f1 (odir ++ r)
                           | None => if under odir q then None else get f1 q
                           end.
    Hypothesis H2 : st2.

    Lemma st2_new : forall r, get f2 (ndir ++ r) = get f1 (odir ++ r).
    Proof. intro r. rewrite H2, strip_app. reflexivity. Qed.

    Lemma st2_old : forall r, get f2 (odir ++ r) = None.
    Proof. intro r. rewrite H2, rk_strip_ndir, under_app. reflexivity. Qed.

    Lemma st2_out : forall q, under odir q = false -> under ndir q = false -> get f2 q = get f0 q.
    Proof.
      intros q Ho Hn. rewrite H2. unfold under in Hn. destruct (strip ndir q); [discriminate|].
      rewrite Ho. apply (st1_outside c f1 q H1 Ho).
    Qed.

    Lemma st1_pay : forall r c0, payload_rel r = true -> get f0 (odir ++ r) = Some (File c0) -> get f1 (odir ++ r) = Some (File c0).
    Proof.
      intros r c0 Hp Hg. destruct (payload_names odir r Hp) as [Hf [Hb _]].
      rewrite (st1_same c f1 _ H1 Hb Hf). exact Hg.
    Qed.

    Lemma st1_odir : get f1 odir = Some Dir.
    Proof.
      rewrite (st1_same c f1 odir H1); auto; intro E; symmetry in E; revert E; apply path_eqb_neq, path_eqb_snoc_self.
    Qed.

    Lemma st1_fname : get f1 fname = None.
    Proof.
      rewrite H1, path_eqb_refl.
      assert (E : path_eqb fname bak = false) by (unfold fname, bak; rewrite path_eqb_snoc; reflexivity).
      rewrite E. reflexivity.
    Qed.

    (* states from the directory rename on: [g] agrees with f2 except, below the new directory, on the
       backup, the state point file and the temp file *)
    Lemma cinv_rk_late : forall g,
      (forall q, q <> ndir -> q <> ndir ++ [SPF] -> q <> ndir ++ [SPT] -> q <> ndir ++ [TMPPFX ++ [] ++ SPF] -> get g q = get f2 q) ->
      get g ndir = Some Dir ->
      (forall c1, get g (ndir ++ [SPF]) = Some (File c1) -> forall v, c_json c1 = Some v -> v = nsp) ->
      CInv frepr o wss f0 g.
    Proof.
      intros g Hsame Hnd Hnsp.
      assert (Hold_side : forall r, get g (odir ++ r) = None).
      { intro r. rewrite Hsame; [apply st2_old| | | |]; intro E;
          [rewrite <- (app_nil_r ndir) in E| | |]; 
          pose proof (rk_not_under_ndir r) as U; rewrite E in U; rewrite under_app in U; discriminate. }
      apply rk_cinv.
      - intros p Hp1 Hp2. rewrite Hsame; [apply st2_out; auto| | | |]; intro E; subst p;
          [rewrite under_refl in Hp2|rewrite under_app in Hp2|rewrite under_app in Hp2|rewrite under_app in Hp2]; discriminate.
      - intro E. rewrite Eo in E. discriminate.
      - intros r c0 Hp Hg. right. split; auto. split; [apply Hold_side|].
        destruct (payload_names ndir r Hp) as [Hf [Hb [Ht Hn]]].
        rewrite Hsame; auto. rewrite st2_new. apply st1_pay; auto.
      - left. rewrite <- (app_nil_r odir). apply Hold_side.
      - intros _. right. exact Hnd.
      - intros c1 G1. unfold fname in G1. rewrite Hold_side in G1. discriminate.
      - intros _. exact Hnsp.
    Qed.

    Lemma cinv_rk_st2 : CInv frepr o wss f0 f2.
    Proof.
      apply cinv_rk_late.
      - auto.
      - rewrite <- (app_nil_r ndir). rewrite st2_new, app_nil_r. apply st1_odir.
      - intros c1 G1. rewrite st2_new in G1. fold fname in G1. rewrite st1_fname in G1. discriminate.
    Qed.

    Lemma cinv_rk_st4 : forall f4,
      (forall q, get f4 q = if path_eqb q (ndir ++ [SPT]) then None else get f2 q) -> CInv frepr o wss f0 f4.
    Proof.
      intros f4 H4. apply cinv_rk_late.
      - intros q _ _ Hq _. rewrite H4. apply path_eqb_neq in Hq. rewrite Hq. reflexivity.
      - rewrite H4, path_eqb_self_snoc. rewrite <- (app_nil_r ndir). rewrite st2_new, app_nil_r. apply st1_odir.
      - intros c1 G1. rewrite H4 in G1. rewrite path_eqb_snoc in G1.
        assert (Es : str_eqb SPF SPT = false) by reflexivity. rewrite Es in G1.
        rewrite st2_new in G1. fold fname in G1. rewrite st1_fname in G1. discriminate.
    Qed.

    Lemma cinv_rk_init : forall f4 g,
      (forall q, get f4 q = if path_eqb q (ndir ++ [SPT]) then None else get f2 q) ->
      init_st frepr [] w1 w2 wr nsp f4 g -> CInv frepr o wss f0 g.
    Proof.
      intros f4 g H4 [Hout [Hdir [Hfile _]]]. fold ws new ndir in Hout, Hdir, Hfile.
      assert (Hnd4 : get f4 ndir = Some Dir).
      { rewrite H4, path_eqb_self_snoc. rewrite <- (app_nil_r ndir). rewrite st2_new, app_nil_r. apply st1_odir. }
      apply cinv_rk_late.
      - intros q Q1 Q2 Q3 Q4. rewrite Hout; auto. rewrite H4. apply path_eqb_neq in Q3. rewrite Q3. reflexivity.
      - destruct Hdir as [E|E]; [rewrite E; exact Hnd4|exact E].
      - intros c1 G1 v Jv. destruct Hfile as [Hn|[c2 [Hc Hj]]]; [rewrite Hn in G1; discriminate|].
        rewrite Hc in G1. injection G1 as <-. destruct Hj as [Hj|Hj]; rewrite Hj in Jv; [discriminate|].
        injection Jv as <-. reflexivity.
    Qed.
  End FREE.

  Lemma st1_under_ndir : forall c f1 q, st1 c f1 -> under ndir q = true -> get f1 q = get f0 q.
  Proof.
    intros c f1 q H1 Hq. apply (st1_outside c f1 q H1).
    destruct (under odir q) eqn:E; auto. destruct (under_comparable odir ndir q E Hq) as [U|U].
    - rewrite <- (app_nil_r ndir) in U. rewrite rk_not_under_odir in U. discriminate.
    - rewrite <- (app_nil_r odir) in U. rewrite rk_not_under_ndir in U. discriminate.
  Qed.

  Lemma rk_rename_dir : forall c f1, get f0 odir = Some Dir -> st1 c f1 ->
    if occupied then exists e, rename f1 odir ndir = FErr e /\ (e = ENOTDIR \/ e = ENOTEMPTY)
    else exists f2, rename f1 odir ndir = FOk f2 /\ st2 f1 f2.
  Proof.
    intros c f1 Hod0 H1.
    assert (Hod : get f1 odir = Some Dir).
    { rewrite (st1_same c f1 odir H1); auto; intro E; symmetry in E; revert E; apply path_eqb_neq, path_eqb_snoc_self. }
    assert (Hpw : get f1 (parent ndir) = Some Dir).
    { unfold ndir. rewrite parent_snoc. rewrite (st1_outside c f1 ws H1); [apply rk_ws|].
      unfold odir. apply under_snoc_self'. }
    assert (Hnd : get f1 ndir = get f0 ndir) by (apply (st1_under_ndir c); auto; apply under_refl).
    assert (Hch : has_children f1 ndir = has_children f0 ndir).
    { apply has_children_agree. intros q Hq. apply (st1_under_ndir c); auto. }
    assert (Eon : path_eqb odir ndir = false) by (apply path_eqb_neq; apply rk_dirs_ne).
    assert (U1 : under odir ndir = false) by (rewrite <- (app_nil_r ndir); apply rk_not_under_odir).
    assert (U2 : under ndir odir = false) by (rewrite <- (app_nil_r odir); apply rk_not_under_ndir).
    destruct occupied eqn:Eo; unfold occupied in Eo.
    - unfold rename. rewrite Hod, Hpw, Eon, Hnd, U1, U2, Hch.
      destruct (get f0 ndir) as [[c1|]|] eqn:Gn.
      + eauto.
      + unfold isfile in Eo. rewrite Gn, orb_false_r in Eo. rewrite Eo. eauto.
      + unfold isfile in Eo. rewrite Gn, orb_false_r in Eo. rewrite Eo. eauto.
    - apply orb_false_iff in Eo. destruct Eo as [Hc Hf].
      assert (Hn : get f1 ndir = None \/ get f1 ndir = Some Dir).
      { rewrite Hnd. unfold isfile in Hf. destruct (get f0 ndir) as [[c1|]|]; auto. discriminate. }
      rewrite <- Hch in Hc.
      pose proof (rename_dir_ok f1 odir ndir Hod Hpw rk_dirs_ne U1 U2 Hn Hc) as Er.
      eexists. split; [exact Er|]. intro q. apply (get_rename_dir f1 odir ndir _ q Hod rk_dirs_ne Er).
  Qed.

  (* the protocol itself (_StatePointDict._save), entered WITHOUT a validating read: the program of a whole
     assignment through a handle that never loaded its state point (op_prog_r ... true), and the tail of every
     other re-key route *)
  Theorem crash_safe_rekey_core : forall atomic g,
    crashed (rekey frepr atomic [] ws old nsp ret_res) f0 g -> CInv frepr o wss f0 g.
  Proof.
    intros atomic g H. destruct rk_src as [Hod0 [c [v0 [G [J E]]]]].
    pose proof (cinv_rk_pre c v0 G J Hod0) as Hpre.
    assert (E0 : exec_res f0 (CRead fname) = (f0, FOk (RData c))) by (unfold exec_res; cbn [exec]; rewrite G; reflexivity).
    assert (Hnn : is_jnull v0 = false) by (apply (winv_job_nn frepr wss f0 ws old HW Hws Hold c v0 G J)).
    unfold rekey in H. fold new in H.
    assert (En : str_eqb old new = false) by (apply str_eqb_neq; exact Hne).
    rewrite En in H. cbv zeta in H. fold odir ndir fname bak in H.
    apply crashed_do_inv in H; [|reflexivity]. destruct H as [->|H]; [exact Hpre|].
    assert (Hfb : fname <> bak).
    { apply path_eqb_neq. unfold fname, bak. rewrite path_eqb_snoc. reflexivity. }
    assert (Hpb : get f0 (parent bak) = Some Dir) by (unfold bak; rewrite parent_snoc; exact Hod0).
    assert (Hb : get f0 bak = Some Dir \/ get f0 bak <> Some Dir).
    { destruct (get f0 bak) as [[cb|]|]; auto; right; discriminate. }
    destruct Hb as [Gb|Gb].
    { (* the backup name is a directory: the first rename fails, nothing happens *)
      assert (E1 : exec_res f0 (CRename fname bak) = (f0, FErr EISDIR)).
      { unfold exec_res. cbn [exec]. unfold rename. rewrite G, Hpb, Gb.
        apply path_eqb_neq in Hfb. rewrite Hfb. reflexivity. }
      rewrite E1 in H. cbn [fst snd] in H.
      (* the outer handler re-reads the state point file (restore of the in-memory data) *)
      apply crashed_do_inv in H; [|reflexivity]. destruct H as [->|H]; [exact Hpre|].
      rewrite E0 in H. cbn [fst snd] in H. rewrite J in H.
      apply crashed_raise_inv in H. subst g. exact Hpre. }
    destruct (rename_file_ok f0 fname bak c G Hpb Hfb Gb) as [f1 [E1 H1]].
    rewrite E1 in H. cbn [fst snd] in H.
    assert (S1 : st1 c f1) by exact H1.
    apply crashed_do_inv in H; [|reflexivity]. destruct H as [->|H]; [apply (cinv_rk_st1 c Hod0 f1 S1)|].
    pose proof (rk_rename_dir c f1 Hod0 S1) as Hren.
    destruct occupied eqn:Eo.
    - (* occupied destination: the directory rename fails, the backup is rolled back *)
      destruct Hren as [e [Er He]].
      assert (E2 : exec_res f1 (CRename odir ndir) = (f1, FErr e)) by (unfold exec_res; cbn [exec]; rewrite Er; reflexivity).
      rewrite E2 in H. cbn [fst snd] in H.
      apply crashed_do_inv in H; [|reflexivity]. destruct H as [->|H]; [apply (cinv_rk_st1 c Hod0 f1 S1)|].
      assert (P1 : get f1 bak = Some (File c)) by (rewrite S1, path_eqb_refl; reflexivity).
      assert (P2 : get f1 (parent fname) = Some Dir) by (unfold fname; rewrite parent_snoc; apply (st1_odir c Hod0 f1 S1)).
      assert (P3 : get f1 fname <> Some Dir) by (rewrite (st1_fname c f1 S1); discriminate).
      destruct (rename_file_ok f1 bak fname c P1 P2 (not_eq_sym Hfb) P3) as [f3 [E3 H3]].
      rewrite E3 in H. cbn [fst snd] in H.
      assert (S3 : st3 c f3).
      { intro q. rewrite H3. destruct (path_eqb q fname) eqn:Q1; auto. destruct (path_eqb q bak) eqn:Q2; auto.
        rewrite S1, Q2, Q1. reflexivity. }
      (* the in-memory state point is reloaded from the restored file: a read *)
      apply crashed_do_inv in H; [|reflexivity]. destruct H as [->|H]; [apply (cinv_rk_st3 c v0 G J Hod0 f3 S3)|].
      assert (E5 : exec_res f3 (CRead fname) = (f3, FOk (RData c))).
      { unfold exec_res. cbn [exec]. rewrite S3, path_eqb_refl. reflexivity. }
      rewrite E5 in H. cbn [fst snd] in H. rewrite J in H.
      assert (Hg : g = f3).
      { destruct He as [-> | ->]; cbv beta iota delta [dest_exists_e] in H.
        - first [ apply crashed_raise_inv in H; exact H
                | apply crashed_do_inv in H; [|reflexivity]; destruct H as [->|H]; [reflexivity|];
                  rewrite E5 in H; cbn [fst snd] in H; rewrite J in H; apply crashed_raise_inv in H; exact H ].
        - (* not a collision errno: the re-raised error passes the outer handler, one more read *)
          first [ apply crashed_raise_inv in H; exact H
                | apply crashed_do_inv in H; [|reflexivity]; destruct H as [->|H]; [reflexivity|];
                  rewrite E5 in H; cbn [fst snd] in H; rewrite J in H; apply crashed_raise_inv in H; exact H ]. }
      subst g. apply (cinv_rk_st3 c v0 G J Hod0 f3 S3).
    - (* free destination *)
      destruct Hren as [f2 [Er S2]].
      assert (E2 : exec_res f1 (CRename odir ndir) = (f2, FOk RUnit)) by (unfold exec_res; cbn [exec]; rewrite Er; reflexivity).
      rewrite E2 in H. cbn [fst snd] in H.
      apply crashed_do_inv in H; [|reflexivity]. destruct H as [->|H]; [apply (cinv_rk_st2 c Hod0 Eo f1 f2 S1 S2)|].
      assert (Gb2 : get f2 (ndir ++ [SPT]) = Some (File c)).
      { rewrite (st2_new f1 f2 S2). fold bak. rewrite S1, path_eqb_refl. reflexivity. }
      assert (X4 : exists f4, exec_res f2 (CUnlink (ndir ++ [SPT])) = (f4, FOk RUnit) /\
                              forall q, get f4 q = if path_eqb q (ndir ++ [SPT]) then None else get f2 q).
      { unfold exec_res. cbn [exec]. destruct (unlink f2 (ndir ++ [SPT])) as [f4|e4] eqn:Eu.
        - exists f4. split; auto. intro q. apply (get_unlink _ _ _ q Eu).
        - unfold unlink in Eu. rewrite Gb2 in Eu. discriminate. }
      destruct X4 as [f4 [E4 H4]]. rewrite E4 in H. cbn [fst snd] in H.
      apply (cinv_rk_init c Hod0 Eo f1 f2 S1 S2 f4 g H4).
      apply (init_crash_states frepr atomic [] w1 w2 wr nsp f4) with (force := false); [| | | | |exact H]; fold ws new ndir.
      + rewrite H4.
        assert (Ew : path_eqb ws (ndir ++ [SPT]) = false).
        { apply path_eqb_neq. intro Q. assert (L : length ws = length (ndir ++ [SPT])) by (rewrite <- Q; reflexivity).
          unfold ndir in L. rewrite !app_length in L. simpl in L. lia. }
        rewrite Ew. rewrite (st2_out c f1 f2 S1 S2 ws); [apply rk_ws|apply under_snoc_self'|apply under_snoc_self'].
      + rewrite H4, path_eqb_snoc. assert (Es : str_eqb SPF SPT = false) by reflexivity. rewrite Es.
        rewrite (st2_new f1 f2 S2). fold fname. apply (st1_fname c f1 S1).
      + rewrite H4, path_eqb_snoc.
        assert (Es : str_eqb (TMPPFX ++ [] ++ SPF) SPT = false) by reflexivity. rewrite Es.
        rewrite (st2_new f1 f2 S2). rewrite (st1_same c f1 _ S1); [exact Hnotmp| |];
          apply path_eqb_neq; unfold bak, fname; rewrite path_eqb_snoc; reflexivity.
      + right. rewrite H4, path_eqb_self_snoc. rewrite <- (app_nil_r ndir). rewrite (st2_new f1 f2 S2), app_nil_r.
        apply (st1_odir c Hod0 f1 S1).
      + exact Hnspnn.
  Qed.

  Theorem crash_safe_rekey_lemma : forall atomic g,
    crashed (op_prog frepr atomic o) f0 g -> CInv frepr o wss f0 g.
  Proof.
    intros atomic g H. destruct rk_src as [Hod0 [c [v0 [G [J E]]]]].
    pose proof (cinv_rk_pre c v0 G J Hod0) as Hpre.
    unfold op_prog, o, rekey_by_id, with_sp, sp_load in H.
    replace (ws ++ [old; SPF]) with fname in H by (unfold fname, odir; rewrite <- app_assoc; reflexivity).
    apply crashed_do_inv in H; [|reflexivity]. destruct H as [->|H]; [exact Hpre|].
    assert (E0 : exec_res f0 (CRead fname) = (f0, FOk (RData c))) by (unfold exec_res; cbn [exec]; rewrite G; reflexivity).
    assert (Hnn : is_jnull v0 = false) by (apply (winv_job_nn frepr wss f0 ws old HW Hws Hold c v0 G J)).
    rewrite E0 in H. cbn [fst snd] in H. rewrite J, Hnn, E, str_eqb_refl in H.
    exact (crash_safe_rekey_core atomic g H).
  Qed.
End REKEY.

(* ------------------------------------------------------------------ re-key to the same id: nothing happens *)
Lemma crash_safe_rekey_same : forall frepr wss f0 ws old nsp atomic g,
  WInv frepr wss f0 -> In ws wss -> In old (job_dirs f0 ws) -> calc_id frepr nsp = old ->
  crashed (op_prog frepr atomic (KRekey ws old nsp)) f0 g -> g = f0.
Proof.
  intros frepr wss f0 ws old nsp atomic g HW Hws Hold Heq H.
  destruct (winv_job frepr wss f0 ws old HW Hws Hold) as [Hd [c [v [G [J E]]]]].
  unfold op_prog, rekey_by_id, with_sp, sp_load in H.
  replace (ws ++ [old; SPF]) with ((ws ++ [old]) ++ [SPF]) in H by (rewrite <- app_assoc; reflexivity).
  apply crashed_do_inv in H; [|reflexivity]. destruct H as [->|H]; auto.
  assert (E0 : exec_res f0 (CRead ((ws ++ [old]) ++ [SPF])) = (f0, FOk (RData c))) by (unfold exec_res; cbn [exec]; rewrite G; reflexivity).
  assert (Hnn : is_jnull v = false) by (apply (winv_job_nn frepr wss f0 ws old HW Hws Hold c v G J)).
  rewrite E0 in H. cbn [fst snd] in H. rewrite J, Hnn, E, str_eqb_refl in H.
  unfold rekey in H. rewrite Heq, str_eqb_refl in H. apply crashed_ret_inv in H. exact H.
Qed.

(* ------------------------------------------------------------------ licence for the correspondence step *)
Lemma dedupe_In : forall l x, In x (dedupe l) -> In x l.
Proof.
  induction l as [|y l IH]; intros x H; simpl in *; auto.
  destruct (dedupe l) as [|z r] eqn:E.
  - destruct H as [<-|[]]. auto.
  - destruct (tree_match y z).
    + right. apply IH. exact H.
    + destruct H as [<-|H]; auto.
Qed.

Lemma all2_Forall2 : forall X Y (p : X -> Y -> bool) a b, all2 p a b = true -> Forall2 (fun x y => p x y = true) a b.
Proof.
  induction a as [|x a IH]; intros [|y b] H; simpl in H; try discriminate; constructor.
  - apply andb_true_iff in H. tauto.
  - apply IH. apply andb_true_iff in H. tauto.
Qed.

(* If every crash state of the model satisfies CInv (the crash_safe theorems) and the implementation's
   observations of a PCrash case agree with the model (no mismatch), then the implementation's crash
   states are, one by one, observationally equal to model states that satisfy CInv. *)
Theorem model_holds_crash : forall c wss,
  (forall g, crash_states (prog_of c) (k_pre c) g -> CInv (frepr_of c) (k_op c) wss (k_pre c) g) ->
  mismatch_C11 c = false ->
  forall out sts, k_probe c = PCrash out sts ->
  Forall2 (fun m ob => fobs_match (frepr_of c) (k_wss c) m ob = true /\ CInv (frepr_of c) (k_op c) wss (k_pre c) m)
          (model_crash_states c) sts.
Proof.
  intros c wss Hsafe Hm out sts Hp. unfold mismatch_C11 in Hm. rewrite Hp in Hm.
  apply negb_false_iff in Hm. apply andb_true_iff in Hm. destruct Hm as [_ Hm].
  apply all2_Forall2 in Hm.
  assert (Hall : forall m, In m (model_crash_states c) -> CInv (frepr_of c) (k_op c) wss (k_pre c) m).
  { intros m Hin. apply Hsafe. unfold model_crash_states in Hin. apply dedupe_In in Hin.
    apply crash_list_sound. exact Hin. }
  clear Hp. revert Hall Hm. generalize (model_crash_states c) as ms. intros ms Hall Hm. revert Hall.
  induction Hm as [|m ob ms obs Hmo Hrest IH]; intro Hall; constructor.
  - split; auto. apply Hall. left. reflexivity.
  - apply IH. intros m' Hin. apply Hall. right. exact Hin.
Qed.

(* ------------------------------------------------------------------ Project.clone: a concrete workspace and fault *)
Definition cw_repr : fl -> str := fun _ => [].
Definition cw_sp : json := JObj [([97%N], JInt 1)].
Definition cw_id : str := Eval vm_compute in calc_id cw_repr cw_sp.
Definition cw_a : path := [[112%N; 65%N]; WS].
Definition cw_b : path := [[112%N; 66%N]; WS].
Definition cw_data : str := [100%N; 97%N; 116%N; 97%N].
Definition cw_bytes : content := mkContent [104%N; 101%N; 108%N; 108%N; 111%N] None.
Definition cw_f0 : fs :=
  [ ([[112%N; 65%N]], Dir); (cw_a, Dir); (cw_a ++ [cw_id], Dir);
    (cw_a ++ [cw_id; cw_data], File cw_bytes);
    (cw_a ++ [cw_id; SPF], File (jcontent cw_repr cw_sp));
    ([[112%N; 66%N]], Dir); (cw_b, Dir) ].
Definition cw_op : cop := KClone cw_a cw_id cw_b.
Definition cw_sig : csig := {| sg_kind := SgWrite; sg_p := cw_b ++ [cw_id; cw_data]; sg_q := [] |}.

(* the former refutation witness (a write error on a data file during clone), after the repair in /repo
   (the partial destination is removed before the error is re-raised): exception and the pre-state *)
Lemma clone_fault_repaired_witness :
  match find_occ cw_sig 0 (map fst (trace (op_prog cw_repr true cw_op) cw_f0)) 0 with
  | None => False
  | Some k =>
      let '(g, out) := run_fault (single k EIO) 0 (op_prog cw_repr true cw_op) cw_f0 in
      (exists e, out = inr e) /\ exists_ g (cw_b ++ [cw_id]) = false /\
      forallb (fun e => node_same (get cw_f0 (fst e)) (get g (fst e))) (cw_f0 ++ g) = true
  end.
Proof. vm_compute. repeat split; eauto. Qed.

(* ------------------------------------------------------------------ statements as used in props/C11.v *)
Lemma crash_safe_init_thm : forall frepr wss f0 w1 w2 wr sp force atomic g,
  WInv frepr wss f0 -> In (w1 :: w2 :: wr) wss -> is_jnull sp = false ->
  crash_states (op_prog frepr atomic (KInit (w1 :: w2 :: wr) sp force)) f0 g ->
  CInv frepr (KInit (w1 :: w2 :: wr) sp force) wss f0 g.
Proof. intros. eapply crash_safe_init_lemma; eauto. Qed.

Lemma crash_safe_rekey_thm : forall frepr wss f0 w1 w2 wr old nsp atomic g,
  WInv frepr wss f0 -> In (w1 :: w2 :: wr) wss -> In old (job_dirs f0 (w1 :: w2 :: wr)) ->
  old <> calc_id frepr nsp ->
  get f0 (((w1 :: w2 :: wr) ++ [old]) ++ [TMPPFX ++ [] ++ SPF]) = None ->
  is_jnull nsp = false ->
  crash_states (op_prog frepr atomic (KRekey (w1 :: w2 :: wr) old nsp)) f0 g ->
  CInv frepr (KRekey (w1 :: w2 :: wr) old nsp) wss f0 g.
Proof. intros. eapply crash_safe_rekey_lemma; eauto. Qed.

Lemma crash_safe_assign_thm : forall frepr wss f0 w1 w2 wr old nsp atomic g,
  WInv frepr wss f0 -> In (w1 :: w2 :: wr) wss -> In old (job_dirs f0 (w1 :: w2 :: wr)) ->
  old <> calc_id frepr nsp ->
  get f0 (((w1 :: w2 :: wr) ++ [old]) ++ [TMPPFX ++ [] ++ SPF]) = None ->
  is_jnull nsp = false ->
  crash_states (op_prog_r frepr atomic true (KRekey (w1 :: w2 :: wr) old nsp)) f0 g ->
  CInv frepr (KRekey (w1 :: w2 :: wr) old nsp) wss f0 g.
Proof. intros. eapply crash_safe_rekey_core; eauto. Qed.

Lemma crash_safe_move_thm : forall frepr wss f0 ws dws i atomic g,
  WInv frepr wss f0 -> In ws wss -> In dws wss -> In i (job_dirs f0 ws) ->
  crash_states (op_prog frepr atomic (KMove ws i dws)) f0 g ->
  CInv frepr (KMove ws i dws) wss f0 g.
Proof. intros. eapply crash_safe_move_lemma; eauto. Qed.

Lemma fault_safe_move_thm : forall frepr wss f0 ws dws i atomic plan,
  WInv frepr wss f0 -> In ws wss -> In dws wss -> In i (job_dirs f0 ws) -> length dws = 2%nat ->
  let '(g, out) := run_fault plan 0 (op_prog frepr atomic (KMove ws i dws)) f0 in
  CInv frepr (KMove ws i dws) wss f0 g /\
  match out with
  | inl _ => post_ok frepr (KMove ws i dws) f0 g = true
  | inr _ => g = f0
  end.
Proof. intros. eapply fault_safe_move_lemma; eauto. Qed.
