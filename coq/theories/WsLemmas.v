(* WsLemmas.v — basic facts about the workspace model shared by the C02 and C04 proofs. *)
From SV Require Import Base Json MD5 Canon FS Ws.

(* ---------------------------------------------------------------- set_nth *)
Lemma length_set_nth : forall A (l : list A) n x, length (set_nth n x l) = length l.
Proof. induction l as [|y l IH]; intros [|n] x; simpl; auto. Qed.

Lemma nth_set_nth_other : forall A (l : list A) n i x d, i <> n -> nth i (set_nth n x l) d = nth i l d.
Proof.
  induction l as [|y l IH]; intros [|n] [|i] x d H; simpl; auto; try congruence.
Qed.

Lemma nth_set_nth_same : forall A (l : list A) n x d, (n < length l)%nat -> nth n (set_nth n x l) d = x.
Proof.
  induction l as [|y l IH]; intros [|n] x d H; simpl in *; try lia; auto. apply IH. lia.
Qed.

Lemma set_nth_oob : forall A (l : list A) n x, (length l <= n)%nat -> set_nth n x l = l.
Proof.
  induction l as [|y l IH]; intros [|n] x H; simpl in *; auto; try lia. f_equal. apply IH. lia.
Qed.

Lemma nth_app_new : forall A (l : list A) x d, nth (length l) (l ++ [x]) d = x.
Proof. intros. rewrite app_nth2 by lia. rewrite Nat.sub_diag. reflexivity. Qed.

Lemma nth_app_old : forall A (l : list A) x d i, (i < length l)%nat -> nth i (l ++ [x]) d = nth i l d.
Proof. intros. apply app_nth1. auto. Qed.

(* a projection that the update preserves is preserved at every index *)
Lemma nth_set_nth_proj : forall A B (f : A -> B) (l : list A) n i x d,
  f x = f (nth n l d) -> f (nth i (set_nth n x l) d) = f (nth i l d).
Proof.
  intros A B f l n i x d H. destruct (Nat.eq_dec i n) as [->|Hne].
  - destruct (Nat.lt_ge_cases n (length l)).
    + rewrite nth_set_nth_same by auto. exact H.
    + rewrite set_nth_oob by auto. reflexivity.
  - rewrite nth_set_nth_other by auto. reflexivity.
Qed.

Section L.
  Variable frepr : fl -> str.

  Lemma getS_set_H : forall w i h k, getS (set_H w i h) k = getS w k.
  Proof. reflexivity. Qed.
  Lemma getS_set_C : forall w i c k, getS (set_C w i c) k = getS w k.
  Proof. reflexivity. Qed.
  Lemma getS_add_C : forall w c k, getS (add_C w c) k = getS w k.
  Proof. reflexivity. Qed.
  Lemma getS_add_H : forall w h k, getS (add_H w h) k = getS w k.
  Proof. reflexivity. Qed.
  Lemma getS_set_fs : forall w f e k, getS (set_fs w f e) k = getS w k.
  Proof. reflexivity. Qed.
  Lemma getH_set_fs : forall w f e k, getH (set_fs w f e) k = getH w k.
  Proof. reflexivity. Qed.
  Lemma getH_set_C : forall w i c k, getH (set_C w i c) k = getH w k.
  Proof. reflexivity. Qed.
  Lemma getH_add_C : forall w c k, getH (add_C w c) k = getH w k.
  Proof. reflexivity. Qed.
  Lemma getH_set_S : forall w i s k, getH (set_S w i s) k = getH w k.
  Proof. reflexivity. Qed.
  Lemma getH_register : forall w si i sp k, getH (register w si i sp) k = getH w k.
  Proof. reflexivity. Qed.
  Lemma getC_set_fs : forall w f e k, getC (set_fs w f e) k = getC w k.
  Proof. reflexivity. Qed.
  Lemma getC_set_H : forall w i h k, getC (set_H w i h) k = getC w k.
  Proof. reflexivity. Qed.
  Lemma getC_register : forall w si i sp k, getC (register w si i sp) k = getC w k.
  Proof. reflexivity. Qed.

  Lemma getH_lock_move : forall w a b k, getH (lock_move w a b) k = getH w k.
  Proof. reflexivity. Qed.
  Lemma getC_lock_move : forall w a b k, getC (lock_move w a b) k = getC w k.
  Proof. reflexivity. Qed.
  Lemma getS_lock_move : forall w a b k, getS (lock_move w a b) k = getS w k.
  Proof. reflexivity. Qed.
  Lemma getH_lock_add : forall w a k, getH (lock_add w a) k = getH w k.
  Proof. reflexivity. Qed.
  Lemma getC_lock_add : forall w a k, getC (lock_add w a) k = getC w k.
  Proof. reflexivity. Qed.
  Lemma getS_lock_add : forall w a k, getS (lock_add w a) k = getS w k.
  Proof. reflexivity. Qed.

  Lemma getH_set_H_same : forall w i h, (i < length (w_hs w))%nat -> getH (set_H w i h) i = h.
  Proof. intros. unfold getH, set_H. simpl. apply nth_set_nth_same. auto. Qed.
  Lemma getH_set_H_other : forall w i k h, k <> i -> getH (set_H w i h) k = getH w k.
  Proof. intros. unfold getH, set_H. simpl. apply nth_set_nth_other. auto. Qed.

  Lemma register_root : forall w si i sp k, s_root (getS (register w si i sp) k) = s_root (getS w k).
  Proof.
    intros. unfold register, set_S, getS. simpl. apply (nth_set_nth_proj _ _ s_root). reflexivity.
  Qed.

  (* ---------------------------------------------------------------- which components an update touches *)
  Lemma sp_access_fs : forall w h,
    w_fs (fst (sp_access frepr w h)) = w_fs w /\ w_tr (fst (sp_access frepr w h)) = w_tr w.
  Proof.
    intros w h. unfold sp_access.
    destruct (h_cell (getH w h)); [simpl; auto|].
    destruct (h_cached (getH w h)); [simpl; auto|].
    destruct (load_file frepr w (getH w h)); simpl; auto.
  Qed.

  Lemma sp_access_roots : forall w h i,
    s_root (getS (fst (sp_access frepr w h)) i) = s_root (getS w i).
  Proof.
    intros w h i. unfold sp_access.
    destruct (h_cell (getH w h)); [reflexivity|].
    destruct (h_cached (getH w h)); [reflexivity|].
    destruct (load_file frepr w (getH w h)); [|reflexivity].
    simpl fst. rewrite getS_set_H, register_root. reflexivity.
  Qed.

  Lemma cached_sp_fs : forall w h,
    w_fs (fst (cached_sp frepr w h)) = w_fs w /\ w_tr (fst (cached_sp frepr w h)) = w_tr w.
  Proof.
    intros w h. unfold cached_sp.
    destruct (h_cached (getH w h)); [simpl; auto|].
    destruct (alookup _ _); [simpl; auto|].
    destruct (get _ _) as [[c|]|]; simpl; auto.
    destruct (c_json c); simpl; auto.
    destruct (str_eqb _ _); simpl; auto.
  Qed.

  Lemma ensure_read_fs : forall w s,
    w_fs (ensure_read w s) = w_fs w /\ w_tr (ensure_read w s) = w_tr w /\ w_hs (ensure_read w s) = w_hs w
    /\ w_cs (ensure_read w s) = w_cs w.
  Proof. intros w s. unfold ensure_read. destruct (s_cread (getS w s)); simpl; auto. Qed.

  Lemma cached_sp_r_fs : forall w h,
    w_fs (fst (cached_sp_r frepr w h)) = w_fs w /\ w_tr (fst (cached_sp_r frepr w h)) = w_tr w.
  Proof.
    intros w h. unfold cached_sp_r. destruct (h_cached (getH w h)); [apply cached_sp_fs|].
    destruct (cached_sp_fs (ensure_read w (h_s (getH w h))) h) as [A B].
    destruct (ensure_read_fs w (h_s (getH w h))) as [C [D _]]. rewrite A, B, C, D. auto.
  Qed.

  Lemma reset_docs_frame : forall js w,
    w_fs (reset_docs w js) = w_fs w /\ w_ss (reset_docs w js) = w_ss w /\ w_hs (reset_docs w js) = w_hs w
    /\ w_cs (reset_docs w js) = w_cs w /\ w_tr (reset_docs w js) = w_tr w.
  Proof.
    unfold reset_docs. induction js as [|j js IH]; intros w; simpl; [auto 6|].
    destruct (IH (set_HD w j None)) as [A [B [C [D E]]]]. rewrite A, B, C, D, E. simpl. auto 6.
  Qed.

  Lemma open_id_fs : forall w s i,
    w_fs (fst (open_id w s i)) = w_fs w /\ w_tr (fst (open_id w s i)) = w_tr w.
  Proof.
    intros w s i. unfold open_id.
    destruct (alookup i _); [simpl; auto|].
    destruct (resolve _ _ _); simpl; auto.
  Qed.

  (* ---------------------------------------------------------------- the JSON backend's write *)
  Lemma snoc_neq_self : forall (d : path) n, d ++ [n] <> d.
  Proof.
    intros d n H. assert (L : length (d ++ [n]) = length d) by (rewrite H; reflexivity).
    rewrite app_length in L. simpl in L. lia.
  Qed.

  Lemma snoc_inj : forall (d : path) a b, d ++ [a] = d ++ [b] -> a = b.
  Proof. intros d a b H. apply app_inv_head in H. inversion H. reflexivity. Qed.

  Lemma tmp_name_neq : forall name : str, TMPPFX ++ name <> name.
  Proof.
    intros name H. assert (L : length (TMPPFX ++ name) = length name) by (rewrite H; reflexivity).
    rewrite app_length in L. simpl in L. lia.
  Qed.

  Lemma json_write_fresh : forall f d name v,
    get f d = Some Dir ->
    get f (d ++ [name]) = None -> get f (d ++ [TMPPFX ++ name]) = None ->
    exists f', json_write frepr f (d ++ [name]) v = FOk f' /\
      forall q, get f' q = if path_eqb q (d ++ [name]) then Some (File (sp_content frepr v)) else get f q.
  Proof.
    intros f d name v Hd Hfile Htmp.
    unfold json_write, tmp_of. rewrite parent_snoc, last_last.
    set (file := d ++ [name]). set (tmp := d ++ [TMPPFX ++ name]). set (c := sp_content frepr v).
    assert (Hne : tmp <> file).
    { unfold tmp, file. intro E. apply snoc_inj in E. exact (tmp_name_neq name E). }
    assert (Hw : write_file f tmp c = FOk ((tmp, File c) :: remove tmp f)).
    { unfold write_file. fold tmp in Htmp. rewrite Htmp. unfold tmp at 1. rewrite parent_snoc, Hd. reflexivity. }
    rewrite Hw. set (f1 := (tmp, File c) :: remove tmp f).
    assert (G1 : forall q, get f1 q = if path_eqb q tmp then Some (File c) else get f q).
    { intro q. apply (get_write_file f tmp c f1 q Hw). }
    assert (Ht1 : get f1 tmp = Some (File c)) by (rewrite G1, path_eqb_refl; reflexivity).
    assert (Hd1 : get f1 (parent file) = Some Dir).
    { unfold file. rewrite parent_snoc, G1.
      assert (E : path_eqb d tmp = false).
      { apply path_eqb_neq. intro E. symmetry in E. exact (snoc_neq_self d _ E). }
      rewrite E. exact Hd. }
    assert (Hf1 : get f1 file = None).
    { rewrite G1. assert (E : path_eqb file tmp = false) by (apply path_eqb_neq; auto). rewrite E. exact Hfile. }
    assert (Hr : exists f2, rename f1 tmp file = FOk f2).
    { unfold rename. rewrite Ht1, Hd1.
      assert (E : path_eqb tmp file = false) by (apply path_eqb_neq; auto). rewrite E, Hf1. eauto. }
    destruct Hr as [f2 Hr]. exists f2. split; [exact Hr|].
    intro q. rewrite (get_rename_file f1 tmp file c f2 q Ht1 Hne Hr).
    destruct (path_eqb q file) eqn:Eq; [reflexivity|].
    destruct (path_eqb q tmp) eqn:Et.
    - apply path_eqb_eq in Et. subst q. symmetry. exact Htmp.
    - rewrite G1, Et. reflexivity.
  Qed.
End L.
