(* WsLemmas.v — basic facts about the workspace model shared by the C02 and C04 proofs. *)
From SV Require Import Base Json MD5 Canon FS Ws.

(* ---------------------------------------------------------------- set_nth *)
Lemma length_set_nth : forall A (l : list A) n x, length (set_nth n x l) = length l.
Proof. induction l as [|y l IH]; intros [|n] x; simpl; auto. Qed.

Lemma nth_set_nth_other : forall A (l : list A) n i x d, i <> n -> nth i (set_nth n x l) d = nth i l d.
Proof.
  induction l as [|y l IH]; intros [|n] [|i] x d H; simpl; auto; try congruence.
Qed.

Lemma nth_set_nth_same : forall A (l : list A) n x d, (n < length l)%nat -> nth n (set_nth n x l) d = x.
Proof.
  induction l as [|y l IH]; intros [|n] x d H; simpl in *; try lia; auto. apply IH. lia.
Qed.

Lemma set_nth_oob : forall A (l : list A) n x, (length l <= n)%nat -> set_nth n x l = l.
Proof.
  induction l as [|y l IH]; intros [|n] x H; simpl in *; auto; try lia. f_equal. apply IH. lia.
Qed.

Lemma nth_app_new : forall A (l : list A) x d, nth (length l) (l ++ [x]) d = x.
Proof. intros. rewrite app_nth2 by lia. rewrite Nat.sub_diag. reflexivity. Qed.

Lemma nth_app_old : forall A (l : list A) x d i, (i < length l)%nat -> nth i (l ++ [x]) d = nth i l d.
Proof. intros. apply app_nth1. auto. Qed.

(* a projection that the update preserves is preserved at every index *)
Lemma nth_set_nth_proj : forall A B (f : A -> B) (l : list A) n i x d,
  f x = f (nth n l d) -> f (nth i (set_nth n x l) d) = f (nth i l d).
Proof.
  intros A B f l n i x d H. destruct (Nat.eq_dec i n) as [->|Hne].
  - destruct (Nat.lt_ge_cases n (length l)).
    + rewrite nth_set_nth_same by auto. exact H.
    + rewrite set_nth_oob by auto. reflexivity.
  - rewrite nth_set_nth_other by auto. reflexivity.
Qed.

Section L.
  Variable frepr : fl -> str.

  Lemma getS_set_H : forall w i h k, getS (set_H w i h) k = getS w k.
  Proof. reflexivity. Qed.
  Lemma getS_set_C : forall w i c k, getS (set_C w i c) k = getS w k.
  Proof. reflexivity. Qed.
  Lemma getS_add_C : forall w c k, getS (add_C w c) k = getS w k.
  Proof. reflexivity. Qed.
  Lemma getS_add_H : forall w h k, getS (add_H w h) k = getS w k.
  Proof. reflexivity. Qed.
  Lemma getS_set_fs : forall w f e k, getS (set_fs w f e) k = getS w k.
  Proof. reflexivity. Qed.
  Lemma getH_set_fs : forall w f e k, getH (set_fs w f e) k = getH w k.
  Proof. reflexivity. Qed.
  Lemma getH_set_C : forall w i c k, getH (set_C w i c) k = getH w k.
  Proof. reflexivity. Qed.
  Lemma getH_add_C : forall w c k, getH (add_C w c) k = getH w k.
  Proof. reflexivity. Qed.
  Lemma getH_set_S : forall w i s k, getH (set_S w i s) k = getH w k.
  Proof. reflexivity. Qed.
  Lemma getH_register : forall w si i sp k, getH (register w si i sp) k = getH w k.
  Proof. reflexivity. Qed.
  Lemma getC_set_fs : forall w f e k, getC (set_fs w f e) k = getC w k.
  Proof. reflexivity. Qed.
  Lemma getC_set_H : forall w i h k, getC (set_H w i h) k = getC w k.
  Proof. reflexivity. Qed.
  Lemma getC_register : forall w si i sp k, getC (register w si i sp) k = getC w k.
  Proof. reflexivity. Qed.

  Lemma getH_set_H_same : forall w i h, (i < length (w_hs w))%nat -> getH (set_H w i h) i = h.
  Proof. intros. unfold getH, set_H. simpl. apply nth_set_nth_same. auto. Qed.
  Lemma getH_set_H_other : forall w i k h, k <> i -> getH (set_H w i h) k = getH w k.
  Proof. intros. unfold getH, set_H. simpl. apply nth_set_nth_other. auto. Qed.

  Lemma register_root : forall w si i sp k, s_root (getS (register w si i sp) k) = s_root (getS w k).
  Proof.
    intros. unfold register, set_S, getS. simpl. apply (nth_set_nth_proj _ _ s_root). reflexivity.
  Qed.

  (* ---------------------------------------------------------------- which components an update touches *)
  Lemma sp_access_fs : forall w h,
    w_fs (fst (sp_access frepr w h)) = w_fs w /\ w_tr (fst (sp_access frepr w h)) = w_tr w.
  Proof.
    intros w h. unfold sp_access.
    destruct (h_cell (getH w h)); [simpl; auto|].
    destruct (h_cached (getH w h)); [simpl; auto|].
    destruct (load_file frepr w (getH w h)); simpl; auto.
  Qed.

  Lemma sp_access_roots : forall w h i,
    s_root (getS (fst (sp_access frepr w h)) i) = s_root (getS w i).
  Proof.
    intros w h i. unfold sp_access.
    destruct (h_cell (getH w h)); [reflexivity|].
    destruct (h_cached (getH w h)); [reflexivity|].
    destruct (load_file frepr w (getH w h)); [|reflexivity].
    simpl fst. rewrite getS_set_H, register_root. reflexivity.
  Qed.

  Lemma cached_sp_fs : forall w h,
    w_fs (fst (cached_sp frepr w h)) = w_fs w /\ w_tr (fst (cached_sp frepr w h)) = w_tr w.
  Proof.
    intros w h. unfold cached_sp.
    destruct (h_cached (getH w h)); [simpl; auto|].
    destruct (alookup _ _); [simpl; auto|].
    destruct (get _ _) as [[c|]|]; simpl; auto.
    destruct (c_json c); simpl; auto.
    destruct (str_eqb _ _); simpl; auto.
  Qed.

  Lemma open_id_fs : forall w s i,
    w_fs (fst (open_id w s i)) = w_fs w /\ w_tr (fst (open_id w s i)) = w_tr w.
  Proof.
    intros w s i. unfold open_id.
    destruct (alookup i _); [simpl; auto|].
    destruct (resolve _ _ _); simpl; auto.
  Qed.
End L.
