(* CorrC12.v — observational form of C12 (concurrent processes initialise jobs and write documents).

   A case is one lock-step run: n actor scripts, the pre-state, the REALISED schedule (actor index and
   signature of the call granted at each position), each actor's result (values read, or the exception
   class), and what a fresh Project sees afterwards (tree, listing, check(), documents).
   mismatch: the model (Crash.actor_prog under Proc's interleaving semantics, same schedule) differs —
             including "the actor's next call is not the one the implementation performed".
   violation: the oracle, evaluated on the implementation's observation, fails: an actor failed; a read
             returned something that is not a complete version of the document; a read scheduled after
             a writer's rename did not return that version; the final workspace does not pass check(),
             or differs from that of every sequential execution of the actors. *)
From SV Require Import Base Json MD5 Canon FS Proc Crash WsNames CorrC11.
Import ListNotations.

(* an elementary document operation as the actor logged it: assignment doc[d_key] = d_val, or a read that
   returned d_val; d_start / d_end = number of the actor's own scheduled calls completed when the operation
   began / returned *)
Record docop := { d_set : bool; d_file : path; d_key : str; d_val : json; d_start : nat; d_end : nat }.

Record case_C12 := {
  q_atomic : bool;
  q_ftab : list (fl * str);
  q_ws : path;
  q_pre : fs;
  q_actors : list (list act);
  q_tags : list str;                          (* temp-file tag of each actor                      *)
  q_sched : list (nat * csig);
  q_results : list (list aobs + exn);
  q_final : fobs;
  q_docops : list (list docop)                (* per actor; [] for an actor that failed *)
}.

Definition frepr12 (c : case_C12) : fl -> str := ftab_lookup (q_ftab c).

Definition progs_of (c : case_C12) : list (prog (list aobs)) :=
  map (fun at_ => actor_prog (frepr12 c) (q_atomic c) (snd at_) (q_ws c) (fst at_) [])
      (combine (q_actors c) (q_tags c)).

(* run the schedule, checking at every position that the actor's next call is the granted one *)
Fixpoint irun_chk {A} (sched : list (nat * csig)) (st : istate A) : option (istate A) :=
  match sched with
  | [] => Some st
  | (a, s) :: rest =>
      match nth_error (snd st) a with
      | Some (Do c k) => if csig_eqb (sig_of c) s then irun_chk rest (istep st a) else None
      | _ => None
      end
  end.

Definition finished {A} (p : prog A) : bool := match p with Do _ _ => false | _ => true end.

Definition result_of {A} (p : prog A) : option (A + exn) :=
  match p with
  | Ret a => Some (inl a)
  | Raise e => Some (inr (exn_of_perr e))
  | Do _ _ => None
  end.

Definition aobs_eqb (a b : aobs) : bool :=
  match a, b with
  | OUnit, OUnit => true
  | ODoc x, ODoc y => json_same x y
  | ONum x, ONum y => Nat.eqb x y
  | ODocs x, ODocs y => all2 json_same x y
  | _, _ => false
  end.

Definition result_match (m : option (list aobs + exn)) (i : list aobs + exn) : bool :=
  match m, i with
  | Some (inl x), inl y => all2 aobs_eqb x y
  | Some (inr x), inr y => exn_eqb x y
  | _, _ => false
  end.

Definition mismatch_C12 (c : case_C12) : bool :=
  match irun_chk (q_sched c) (q_pre c, progs_of c) with
  | None => true
  | Some (f, ps) =>
      negb (all2 result_match (map result_of ps) (q_results c)
            && fobs_match (frepr12 c) [q_ws c] f (q_final c))
  end.

(* ------------------------------------------------------------------ the oracle *)
Definition sp_of_act (a : act) : option json :=
  match a with AInit sp | ADocSet sp _ _ | ADocRead sp => Some sp | _ => None end.
Definition sps_of_act (a : act) : list json :=
  match a with
  | AWithInit o i => [o; i]
  | _ => match sp_of_act a with Some sp => [sp] | None => [] end
  end.

(* the document file an action works on: a job document or the project document (next to the workspace) *)
Definition pdoc_of (c : case_C12) : path := parent (q_ws c) ++ [PDOCF].

Definition act_docfile (c : case_C12) (a : act) : option path :=
  match a with
  | ADocSet sp _ _ | ADocRead sp => Some (q_ws c ++ [calc_id (frepr12 c) sp; DOCF])
  | APDocSet _ _ | APDocRead => Some (pdoc_of c)
  | _ => None
  end.

Definition on_file (c : case_C12) (file : path) (a : act) : bool :=
  match act_docfile c a with Some p => path_eqb p file | None => false end.

Definition set_of_act (a : act) : option (str * json) :=
  match a with ADocSet _ k v | APDocSet k v => Some (k, v) | _ => None end.

Definition is_read_act (a : act) : bool := match a with ADocRead _ | APDocRead => true | _ => false end.

Fixpoint nodup_paths (l : list path) : list path :=
  match l with
  | [] => []
  | p :: l' => if existsb (path_eqb p) l' then nodup_paths l' else p :: nodup_paths l'
  end.

(* every document file some actor names *)
Definition doc_files (c : case_C12) : list path :=
  nodup_paths (flat_map (fun acts => flat_map (fun a => match act_docfile c a with Some p => [p] | None => [] end) acts)
                        (q_actors c)).

(* every id some actor names *)
Definition requested (c : case_C12) : list str :=
  flat_map (fun acts => flat_map (fun a => map (calc_id (frepr12 c)) (sps_of_act a)) acts) (q_actors c).

(* the document in a tree ({} when there is no file) *)
Definition doc_at (f : fs) (file : path) : option json :=
  match get f file with
  | None => Some (JObj [])
  | Some (File d) => c_json d
  | Some Dir => None
  end.

(* the assignments to [file], in actor order then program order (one writing actor per document) *)
Definition sets_on (c : case_C12) (file : path) : list docop :=
  flat_map (fun ops => filter (fun o => d_set o && path_eqb (d_file o) file) ops) (q_docops c).

Definition versions_ops (c : case_C12) (file : path) : list json :=
  let d0 := match doc_at (q_pre c) file with Some d => d | None => JNull end in
  (fix go (d : json) (l : list docop) : list json :=
     match l with [] => [d] | o :: l' => d :: go (doc_set d (d_key o) (d_val o)) l' end) d0 (sets_on c file).

(* the complete versions of a document: the initial one and the one after each assignment, in the program
   order of the (single) writing actor — taken from the actors' operation logs, so that assignments made in the
   body of an iteration construct count too *)
Definition doc_versions (c : case_C12) (file : path) : list json := versions_ops c file.

(* positions (in the schedule) of actor a's opens-for-read of a document file, in order *)
Fixpoint read_positions (a : nat) (file : path) (sched : list (nat * csig)) (pos : nat) : list nat :=
  match sched with
  | [] => []
  | (b, s) :: rest =>
      (if Nat.eqb a b && ckind_eqb (sg_kind s) SgRead && path_eqb (sg_p s) file then [pos] else [])
      ++ read_positions a file rest (S pos)
  end.

(* number of COMPLETED installations of a new content of [file] among the first n positions: a rename onto
   it, or (in-place protocol) the write of the bytes into the file itself.  Between the truncating open and
   that write an in-place writer exposes a torn file: a read there fails and is counted by [no_failure]. *)
Fixpoint renames_before (file : path) (sched : list (nat * csig)) (n : nat) : nat :=
  match n, sched with
  | S n', (_, s) :: rest =>
      (if (ckind_eqb (sg_kind s) SgRename && path_eqb (sg_q s) file)
          || (ckind_eqb (sg_kind s) SgWrite && path_eqb (sg_p s) file) then 1 else 0)%nat + renames_before file rest n'
  | _, _ => O
  end.

(* the ODoc observations of one actor, paired with the schedule position of the read that produced each:
   the actor's actions on the document consume its reads of that file in order *)
Fixpoint pair_reads (c : case_C12) (file : path) (acts : list act) (obs : list aobs) (reads : list nat)
  : list (nat * json) :=
  match acts, obs with
  | a :: acts', o :: obs' =>
      if on_file c file a then
        match reads with
        | [] => []
        | p :: reads' =>
            match is_read_act a, o with
            | true, ODoc v => (p, v) :: pair_reads c file acts' obs' reads'
            | _, _ => pair_reads c file acts' obs' reads'
            end
        end
      else pair_reads c file acts' obs' reads
  | _, _ => []
  end.

(* no torn document: every value read is a COMPLETE version, and exactly the one installed by the renames
   completed before the read (read-after-write) *)
Definition reads_ok_actor (c : case_C12) (a : nat) (acts : list act) (r : list aobs + exn) : bool :=
  match r with
  | inr _ => true                                  (* failures are counted by [no_failure] *)
  | inl obs =>
      forallb (fun file =>
        let vs := doc_versions c file in
        forallb (fun pv =>
          match nth_error vs (renames_before file (q_sched c) (fst pv)) with
          | Some v => json_same v (snd pv)
          | None => false
          end) (pair_reads c file acts obs (read_positions a file (q_sched c) 0)))
      (doc_files c)
  end.

Fixpoint reads_ok (c : case_C12) (a : nat) (actors : list (list act)) (rs : list (list aobs + exn)) : bool :=
  match actors, rs with
  | acts :: actors', r :: rs' => reads_ok_actor c a acts r && reads_ok c (S a) actors' rs'
  | _, _ => true
  end.

(* ------------------------------------------------------------------ a write that RETURNED is visible *)
(* position in the schedule of actor a's n-th call (n >= 1) *)
Fixpoint pos_of (a n : nat) (sched : list (nat * csig)) (pos : nat) : option nat :=
  match sched with
  | [] => None
  | (b, _) :: rest =>
      if Nat.eqb a b then
        match n with
        | O => None
        | S O => Some pos
        | S n' => pos_of a n' rest (S pos)
        end
      else pos_of a n rest (S pos)
  end.

Fixpoint count_ops (b : nat) (file : path) (p0 : nat) (sched : list (nat * csig)) (a : nat) (opss : list (list docop)) : nat :=
  match opss with
  | [] => O
  | ops :: rest =>
      (if Nat.eqb a b then O
       else length (filter (fun o => d_set o && path_eqb (d_file o) file
                                     && match pos_of a (d_end o) sched 0 with Some q => Nat.ltb q p0 | None => false end) ops))
      + count_ops b file p0 sched (S a) rest
  end.

(* Happens-before in the lock-step run: the scheduler grants a call only after every other actor has run up
   to its next call (or its end).  So an assignment of actor a whose last call sits at a position before the
   call that precedes actor b's read HAD RETURNED when that read began: the read must return a version at least
   as new.  (One writer per document: the completed assignments are a prefix of the version list.) *)
(* ---- the same for job creation and len(project).  A len(project) is logged as a read of the workspace
   directory itself (d_val = JInt count).  A job directory exists from its mkdir on; the mkdir calls are in the
   schedule.  A count taken by a call that BEGAN after the creating mkdir had been made must include that job;
   it cannot include a job whose mkdir comes after the last call of the len(project). *)
Definition is_len_op (c : case_C12) (o : docop) : bool := negb (d_set o) && path_eqb (d_file o) (q_ws c).

(* new JOBS whose directory came into being among the first n positions: a directory of the workspace named
   by the id of a job that some actor REQUESTED (the only jobs there can be), made by mkdir under that name or
   moved into place by a rename onto that name.  A directory under any other name — however id-shaped, e.g. a
   staging directory named by 32 hex digits — is not a job, and len(project) must not count it (seeded trial
   C12-11: with one job requested by two initialisers a process saw len(project) = 2). *)
Definition makes_job_dir (c : case_C12) (s : csig) : option str :=
  let target := if ckind_eqb (sg_kind s) SgMkdir then Some (sg_p s)
                else if ckind_eqb (sg_kind s) SgRename then Some (sg_q s) else None in
  match target with
  | Some p =>
      match rev p with
      | i :: wsr => if path_eqb (rev wsr) (q_ws c) && id_match i && str_mem i (requested c) then Some i else None
      | [] => None
      end
  | None => None
  end.

Fixpoint created_before (c : case_C12) (sched : list (nat * csig)) (n : nat) (acc : list str) : list str :=
  match n, sched with
  | S n', (_, s) :: rest =>
      let acc' :=
        match makes_job_dir c s with
        | Some i => if negb (str_mem i (job_dirs (q_pre c) (q_ws c))) && negb (str_mem i acc) then i :: acc else acc
        | None => acc
        end in
      created_before c rest n' acc'
  | _, _ => acc
  end.

Definition len_visible (c : case_C12) (b : nat) (r : docop) : bool :=
  negb (is_len_op c r) ||
  match d_val r with
  | JInt z =>
      let lo := length (job_dirs (q_pre c) (q_ws c)) in
      let lower := match pos_of b (d_start r) (q_sched c) 0 with
                   | Some p0 => lo + length (created_before c (q_sched c) p0 [])
                   | None => lo
                   end in
      let upper := match pos_of b (d_end r) (q_sched c) 0 with
                   | Some p1 => lo + length (created_before c (q_sched c) (S p1) [])
                   | None => lo + length (created_before c (q_sched c) (length (q_sched c)) [])
                   end in
      Z.leb (Z.of_nat lower) z && Z.leb z (Z.of_nat upper)
  | _ => false
  end.

Definition read_visible (c : case_C12) (b : nat) (r : docop) : bool :=
  d_set r || is_len_op c r ||
  let vs := versions_ops c (d_file r) in
  let cnt := match pos_of b (d_start r) (q_sched c) 0 with
             | Some p0 => count_ops b (d_file r) p0 (q_sched c) 0 (q_docops c)
             | None => O
             end in
  existsb (fun m => Nat.leb cnt m && match nth_error vs m with Some v => json_same v (d_val r) | None => false end)
          (seq 0 (length vs)).

Fixpoint returned_visible_from (c : case_C12) (b : nat) (opss : list (list docop)) : bool :=
  match opss with
  | [] => true
  | ops :: rest => forallb (read_visible c b) ops && forallb (len_visible c b) ops && returned_visible_from c (S b) rest
  end.
Definition returned_visible (c : case_C12) : bool := returned_visible_from c 0 (q_docops c).

Definition no_failure (c : case_C12) : bool :=
  forallb (fun r => match r with inl _ => true | inr _ => false end) (q_results c).

(* len(project) lies between the number of jobs before and after *)
Definition lens_ok (c : case_C12) : bool :=
  let lo := length (job_dirs (q_pre c) (q_ws c)) in
  let hi := length (job_dirs (fo_tree (q_final c)) (q_ws c)) in
  forallb (fun r => match r with
                    | inl obs => forallb (fun o => match o with ONum n => Nat.leb lo n && Nat.leb n hi | _ => true end) obs
                    | inr _ => true end) (q_results c).

Fixpoint insert_all {X} (x : X) (l : list X) : list (list X) :=
  match l with
  | [] => [[x]]
  | y :: l' => (x :: l) :: map (cons y) (insert_all x l')
  end.
Fixpoint perms {X} (l : list X) : list (list X) :=
  match l with
  | [] => [[]]
  | x :: l' => flat_map (insert_all x) (perms l')
  end.

(* the final tree is the one some sequential execution of the actors produces *)
Definition sequential_ok (c : case_C12) : bool :=
  existsb (fun ps => tree_match (fst (sequential (q_pre c) ps)) (fo_tree (q_final c))) (perms (progs_of c)).

Definition final_ok (c : case_C12) : bool :=
  match fo_ws (q_final c) with
  | [w] =>
      match wo_reported w with
      | Some [] =>
          let want := nodup str_eq_dec (requested c ++ job_dirs (q_pre c) (q_ws c)) in
          (* exactly the requested jobs (next to those that were there); ARmWs scripts are exempt *)
          strs_sameset (wo_listed w) want
          && forallb (fun i => validates (frepr12 c) (fo_tree (q_final c)) (q_ws c) i) (wo_listed w)
      | _ => false
      end
  | _ => false
  end.

Definition holds_C12 (c : case_C12) : bool :=
  no_failure c && reads_ok c 0 (q_actors c) (q_results c) && returned_visible c && lens_ok c && final_ok c && sequential_ok c.

Definition violation_C12 (c : case_C12) : bool := negb (holds_C12 c).

Definition mismatches_C12 (cs : list case_C12) : list N := indices_where mismatch_C12 cs.
Definition violations_C12 (cs : list case_C12) : list N := indices_where violation_C12 cs.

(* known finding, classified on the input: with JSON thread support switched OFF (not the default) the
   state point is written in place, and two actors that initialise the same job can collide *)
Definition inits_same_job (c : case_C12) : bool :=
  let ids_of (acts : list act) := flat_map (fun a => match sp_of_act a with Some sp => [calc_id (frepr12 c) sp] | None => [] end) acts in
  match q_actors c with
  | a :: rest => existsb (fun i => existsb (fun acts => str_mem i (ids_of acts)) rest) (ids_of a)
                 || match rest with
                    | b :: rest' => existsb (fun i => existsb (fun acts => str_mem i (ids_of acts)) rest') (ids_of b)
                    | [] => false
                    end
  | [] => false
  end.

Definition known_tag_C12 (c : case_C12) : N :=
  if negb (q_atomic c) && inits_same_job c then 1%N else 0%N.

Fixpoint known_aux_C12 (cs : list case_C12) (i : N) : list N :=
  match cs with
  | [] => []
  | c :: cs' =>
      (if violation_C12 c && negb (N.eqb (known_tag_C12 c) 0) then [i * 100 + known_tag_C12 c] else [])%N
      ++ known_aux_C12 cs' (i + 1)%N
  end.
Definition known_C12 (cs : list case_C12) : list N := known_aux_C12 cs 0%N.
