(* Cache.v — the state point cache of a signac project, written path by path after
   /repo/signac/project.py (_sp_cache, _read_cache, _get_statepoint, _get_statepoint_from_workspace,
   _register, _update_in_memory_cache, update_cache, _job_dirs, _find_job_ids, open_job(id=...)) and
   /repo/signac/job.py (Job.__init__, Job.statepoint, _StatePointDict.load/save, Job.init, the
   statepoint setter, Job.remove), as of the fix: commits d7351f9, ae33aa8, 3837846, 5a38a4a, b6340e2, 270ca63.
   Shared by C08 and C09 (Repair.v).

   One project whose root is the path [[]]: the workspace is [[WS]], the persistent cache file is
   [[DOTSIGNAC; FNCACHE]].  One session = one Project object: its [_sp_cache] (an insertion-ordered
   dict, here an association list maintained with [aset]) and its [_sp_cache_read] flag.

   Decoding of file bytes is NOT modelled: the two decoders signac uses are Section variables
     [loads_s] = bytes.decode() followed by json.loads(str)   (project._get_statepoint_from_workspace;
                 None = undecodable: it raised a ValueError — JSON or unicode — or a RecursionError)
     [loads_b] = json.loads(bytes)                            (_StatePointDict.load -> _load_from_resource)
   (they differ: the first rejects a BOM and every non-UTF-8 byte with a ValueError, the second sniffs
   UTF-8/16/32 and lets a UnicodeDecodeError escape).  The theorems assume only that both invert the
   file printer [dumps frepr] on intact files; correspondence shards pass tables of what Python did.
   The persistent cache file is a gzip container whose bytes hold a time stamp; its node carries the
   decoded mapping in [c_json] and the model never looks at its bytes. *)
From SV Require Import Base Json MD5 Canon FS Ws.

Definition DOTSIGNAC : str := [46; 115; 105; 103; 110; 97; 99]%N.   (* ".signac" *)
Definition FNCACHE : str := [115; 116; 97; 116; 101; 112; 111; 105; 110; 116; 95; 99; 97; 99; 104; 101; 46; 106; 115; 111; 110; 46; 103; 122]%N.   (* "statepoint_cache.json.gz" *)
Definition FNCACHETMP : str := FNCACHE ++ [126%N].   (* ...~ *)

Definition WSP : path := [WS].
Definition CACHEP : path := [DOTSIGNAC; FNCACHE].
Definition CACHETMP : path := [DOTSIGNAC; FNCACHETMP].
Definition jdir (i : str) : path := [WS; i].
Definition spf (i : str) : path := [WS; i; SPF].
Definition spt (i : str) : path := [WS; i; SPT].

(* outcome of json.loads(bytes) *)
Inductive dec := DVal (v : json) | DJsonErr | DRecErr | DOtherErr.   (* value / JSONDecodeError / RecursionError / other *)

Definition cache := list (str * json).
Record sess := mkSess { s_cache : cache; s_read : bool }.
Definition fresh : sess := mkSess [] false.

Definition is_objb (v : json) : bool := match v with JObj _ => true | _ => false end.

(* dict.update(other) *)
Definition dict_upd (c new : cache) : cache := fold_left (fun acc kv => aset (fst kv) (snd kv) acc) new c.

Fixpoint aremove_all (ks : list str) (c : cache) : cache :=
  match ks with [] => c | k :: r => aremove_all r (aremove k c) end.

Definition subset_s (a b : list str) : bool := forallb (fun x => str_mem x b) a.
Definition seteq_s (a b : list str) : bool := subset_s a b && subset_s b a.

(* the decoded content of the persistent cache file; anything but a regular file holding a JSON
   object counts as "no cache file" (a damaged cache file is outside C08/C09) *)
Definition cache_file (f : fs) : option cache :=
  match get f CACHEP with
  | Some (File c) => match c_json c with Some (JObj kvs) => Some kvs | _ => None end
  | _ => None
  end.

Definition cache_content (c : cache) : content := mkContent [] (Some (JObj c)).

Definition reg (s : sess) (i : str) (v : json) : sess := mkSess (aset i v (s_cache s)) (s_read s).

Section MODEL.
  Variable frepr : fl -> str.
  Variable loads_s : list N -> option json.
  Variable loads_b : list N -> dec.

  Definition cid (v : json) : str := calc_id frepr v.

  (* ---------------------------------------------------------------- project.py *)
  (* Project._read_cache: merge the file into _sp_cache, return the decoded mapping (or None) *)
  Definition read_cache (f : fs) (s : sess) : sess * option cache :=
    match cache_file f with
    | Some c => (mkSess (dict_upd (s_cache s) c) (s_read s), Some c)
    | None => (s, None)
    end.

  (* "if not self._sp_cache_read: self._read_cache(); self._sp_cache_read = True" *)
  Definition ensure_read (f : fs) (s : sess) : sess :=
    if s_read s then s else mkSess (s_cache (fst (read_cache f s))) true.

  (* Project._get_statepoint_from_workspace(job_id, validate) *)
  Definition sp_from_ws (f : fs) (validate : bool) (i : str) : result json :=
    let bad := if isdir f (jdir i) then Err EJobsCorrupted else Err EKeyError in
    match get f (spf i) with
    | Some (File c) =>
        match loads_s (c_bytes c) with
        | Some v =>
            (* the JobsCorruptedError raised here is not an OSError/ValueError: it is not re-mapped *)
            if validate && negb (str_eqb (cid v) i) then Err EJobsCorrupted else Ok v
        | None => bad                                   (* ValueError (JSON or unicode) or RecursionError *)
        end
    | _ => bad                                          (* OSError from open() *)
    end.

  (* Project._get_statepoint(job_id, validate) *)
  Definition get_statepoint (f : fs) (s : sess) (validate : bool) (i : str) : sess * result json :=
    let s1 := ensure_read f s in
    match alookup i (s_cache s1) with
    | Some sp => (s1, Ok sp)
    | None =>
        match sp_from_ws f validate i with
        | Ok v => (if validate then reg s1 i v else s1, Ok v)   (* only a validated state point is cached *)
        | Err e => (s1, Err e)
        end
    end.

  (* Project._job_dirs / _find_job_ids(): ALWAYS the directory listing *)
  Definition listing (f : fs) : list str := job_dirs f WSP.

  (* Project._build_index, consumed completely before the search *)
  Fixpoint index_sps (f : fs) (s : sess) (ids : list str) : sess * result (list (str * json)) :=
    match ids with
    | [] => (s, Ok [])
    | i :: r =>
        match get_statepoint f s true i with
        | (s1, Err e) => (s1, Err e)
        | (s1, Ok v) =>
            match index_sps f s1 r with
            | (s2, Ok l) => (s2, Ok ((i, v) :: l))
            | (s2, Err e) => (s2, Err e)
            end
        end
    end.

  (* Project.find_jobs(filter) for a non-empty filter whose per-job meaning is [ev] (C06 ties the
     search index to such a per-job evaluator) *)
  Definition find_ids (f : fs) (s : sess) (ev : json -> bool) : sess * result (list str) :=
    match index_sps f s (listing f) with
    | (s1, Ok l) => (s1, Ok (map fst (filter (fun p => ev (snd p)) l)))
    | (s1, Err e) => (s1, Err e)
    end.

  (* ---------------------------------------------------------------- job.py *)
  (* _StatePointDict.load(job_id): _load_from_resource (ENOENT -> None), hash validation.
     Returns the DECODED DATA (what load() returns and what gets registered). *)
  Definition sp_load (f : fs) (i : str) : result json :=
    let validate (v : json) :=
      match v with
      | JNull => Err EJobsCorrupted                 (* "if data is None or calc_id(data) != job_id" *)
      | _ => if str_eqb (cid v) i then Ok v else Err EJobsCorrupted
      end in
    match get f (spf i) with
    | None => validate JNull                      (* ENOENT -> data None *)
    | Some Dir => Err EOSError
    | Some (File c) =>
        match loads_b (c_bytes c) with
        | DVal v => validate v
        | DJsonErr => Err EJobsCorrupted
        | DRecErr => Err EJobsCorrupted              (* nested beyond the recursion limit: caught since 178057f *)
        | DOtherErr => Err EValueError           (* UnicodeDecodeError is not a JSONDecodeError: escapes *)
        end
    end.

  (* ... followed by self._update(data): a mapping is taken over, anything else is rejected by the
     collection with a ValueError (None would leave the dict empty, but load() no longer lets it through) *)
  Definition sp_view (v : json) : result json :=
    match v with JObj _ => Ok v | JNull => Ok (JObj []) | _ => Err EValueError end.

  (* load + _update: (registered data, state point shown by statepoint()) *)
  Definition sp_load_view (f : fs) (i : str) : result (json * json) :=
    match sp_load f i with
    | Err e => Err e
    | Ok d => match sp_view d with Ok v => Ok (d, v) | Err e => Err e end
    end.

  (* Project._contains_job_id: an id-shaped name that exists in the workspace *)
  Definition contains_id (f : fs) (i : str) : bool := id_match i && exists_ f (jdir i).

  (* the id / prefix resolution of open_job(id=...) after a cache miss *)
  Definition resolve_id (f : fs) (i : str) : result str :=
    if Nat.ltb (length i) 32 then
      match filter (str_prefix i) (listing f) with
      | [m] => Ok m
      | [] => Err EKeyError
      | _ => Err ELookupError
      end
    else if contains_id f i then Ok i else Err EKeyError.

  (* project.open_job(id=i): the handle is (resolved id, _cached_statepoint) *)
  Definition open_id (f : fs) (s : sess) (i : str) : sess * result (str * option json) :=
    let s1 := ensure_read f s in
    match alookup i (s_cache s1) with
    | Some sp => (s1, Ok (i, Some sp))
    | None =>
        match resolve_id f i with
        | Ok m => (s1, Ok (m, alookup m (s_cache s1)))     (* Job.__init__(id_=m) looks m up once more *)
        | Err e => (s1, Err e)
        end
    end.

  (* job.statepoint() on such a handle *)
  Definition handle_sp (f : fs) (s : sess) (h : str * option json) : sess * result json :=
    match snd h with
    | Some sp => (s, if is_objb sp then Ok sp else Err EOther)     (* _StatePointDict(data=sp) *)
    | None =>
        match sp_load_view f (fst h) with
        | Ok (d, v) => (reg s (fst h) d, Ok v)
        | Err e => (s, Err e)
        end
    end.

  Definition open_sp_by_id (f : fs) (s : sess) (i : str) : sess * result json :=
    match open_id f s i with
    | (s1, Err e) => (s1, Err e)
    | (s1, Ok h) => handle_sp f s1 h
    end.

  (* Job.init(force) of a handle opened with the state point [sp] (id = calc_id sp); the in-memory
     data of its _StatePointDict is [sp] *)
  Definition jinit (force : bool) (f : fs) (s : sess) (sp : json) : fs * sess * result unit :=
    let i := cid sp in
    if negb (is_objb sp) then
      (* self.statepoint raises in the first try block, and again in the handler BEFORE the directory is made *)
      (f, s, Err EOther)
    else
      match sp_load_view f i with
      | Ok _ => (f, s, Ok tt)                         (* early exit: nothing is registered *)
      | Err _ =>
          match makedirs f (jdir i) with
          | FErr _ => (f, s, Err EOSError)
          | FOk f1 =>
              let wr := if force || negb (isfile f1 (spf i)) then json_write frepr f1 (spf i) sp else FOk f1 in
              match wr with
              | FErr _ => (f1, s, Err EOSError)
              | FOk f2 =>
                  match sp_load_view f2 i with
                  | Ok (d, _) => (f2, reg s i d, Ok tt)
                  | Err e => (f2, s, Err e)
                  end
              end
          end
      end.

  (* project.open_job(sp).init() *)
  Definition op_init (f : fs) (s : sess) (sp : json) : fs * sess * result unit :=
    jinit false f (ensure_read f s) sp.

  (* project.open_job(sp).remove() *)
  Definition op_remove (f : fs) (s : sess) (sp : json) : fs * sess * result unit :=
    let s1 := ensure_read f s in
    match rmtree f (jdir (cid sp)) with
    | FOk f1 => (f1, s1, Ok tt)
    | FErr ENOENT => (f, s1, Ok tt)
    | FErr _ => (f, s1, Err EOSError)
    end.

  (* j = project.open_job(old); j.statepoint = new   (fresh handle: the _StatePointDict is created
     empty, reset(new) fills it and calls _StatePointDict._save, then the setter registers) *)
  Definition rekey_core (f : fs) (s0 : sess) (oi : str) (new : json) : fs * sess * result unit :=
    let ni := cid new in
    if negb (is_objb new) then (f, s0, Err EValueError)
    else if str_eqb oi ni then (f, reg s0 ni new, Ok tt)
    else
      let post (g : fs) (should_init : bool) : fs * sess * result unit :=
        match (match unlink g (spt ni) with
               | FOk g' => FOk g' | FErr ENOENT => FOk g | FErr e => FErr e end) with
        | FErr _ => (g, s0, Err EOSError)
        | FOk g1 =>
            if should_init then
              match jinit false g1 s0 new with
              | (g2, s2, Ok _) => (g2, reg s2 ni new, Ok tt)
              | (g2, s2, Err e) => (g2, s2, Err e)
              end
            else (g1, reg s0 ni new, Ok tt)
        end in
      match rename f (spf oi) (spt oi) with
      | FErr ENOENT => post f false
      | FErr _ => (f, s0, Err EOSError)
      | FOk f1 =>
          match rename f1 (jdir oi) (jdir ni) with
          | FOk f2 => post f2 true
          | FErr e =>
              match rename f1 (spt oi) (spf oi) with          (* rollback *)
              | FErr _ => (f1, s0, Err EOSError)
              | FOk f3 =>
                  if dest_exists_errno e then (f3, s0, Err EDestinationExists)
                  else match e with ENOENT => post f3 false | _ => (f3, s0, Err EOSError) end
              end
          end
      end.

  Definition op_rekey (f : fs) (s : sess) (old new : json) : fs * sess * result unit :=
    rekey_core f (ensure_read f s) (cid old) new.

  (* j = project.open_job(id=i); j.statepoint = new   (a handle reached BY ID; its _cached_statepoint is the
     very dict held in _sp_cache — _save rebinds it, it never mutates it) *)
  Definition op_rekey_id (f : fs) (s : sess) (i : str) (new : json) : fs * sess * result unit :=
    match open_id f s i with
    | (s1, Err e) => (f, s1, Err e)
    | (s1, Ok h) => rekey_core f s1 (fst h) new
    end.

  (* j = project.open_job(id=i); j.update_statepoint(upd, overwrite=True)   (a handle reached BY ID or by iteration).
     update_statepoint starts from self.statepoint() — a fresh plain dict; a lazy load registers the loaded data —,
     applies dict.update(upd) to that copy and assigns the result through the setter.  The dict held in _sp_cache
     under the old id is never written to: after a rejected re-key (DestinationExistsError) or when the old id is
     created again by another session, the old id still maps to the old state point.  (For values of which no two
     different ones compare == in Python the merge of reset() takes the new data over; the other case is C04's.) *)
  Definition op_upd_id (f : fs) (s : sess) (i : str) (upd : json) : fs * sess * result unit :=
    match open_id f s i with
    | (s1, Err e) => (f, s1, Err e)
    | (s1, Ok h) =>
        match handle_sp f s1 h with
        | (s2, Err e) => (f, s2, Err e)
        | (s2, Ok sp) =>
            match sp, upd with
            | JObj kvs, JObj u => rekey_core f s2 (fst h) (JObj (dict_upd kvs u))
            | _, _ => (f, s2, Err EOther)
            end
        end
    end.

  (* n accesses of job.statepoint through the SAME handle: a successful access binds the handle's
     _cached_statepoint (and clears _statepoint_requires_init); a failed one (JobsCorruptedError from load)
     leaves the handle as it was, so the next access loads and validates again *)
  Fixpoint handle_sp_rep (n : nat) (f : fs) (s : sess) (h : str * option json) : sess * list (result json) :=
    match n with
    | O => (s, [])
    | S k =>
        let '(s1, r) := handle_sp f s h in
        let h1 := match r with Ok v => (fst h, Some v) | Err _ => h end in
        let '(s2, l) := handle_sp_rep k f s1 h1 in
        (s2, r :: l)
    end.

  (* j = project.open_job(id=i), then n accesses; when open_job itself raises there is no handle: n times that *)
  Definition open_sp_rep (n : nat) (f : fs) (s : sess) (i : str) : sess * list (result json) :=
    match open_id f s i with
    | (s1, Err e) => (s1, repeat (Err e) n)
    | (s1, Ok h) => handle_sp_rep n f s1 h
    end.

  (* j = project.open_job(id=i); j.cached_statepoint   (also what iteration handles show) *)
  Definition cached_by_id (f : fs) (s : sess) (i : str) : sess * result json :=
    match open_id f s i with
    | (s1, Err e) => (s1, Err e)
    | (s1, Ok (m, Some sp)) => (s1, Ok sp)
    | (s1, Ok (m, None)) => get_statepoint f s1 true m
    end.

  Fixpoint cached_all (f : fs) (s : sess) (ids : list str) : sess * list (str * result json) :=
    match ids with
    | [] => (s, [])
    | i :: r =>
        let '(s1, x) := cached_by_id f s i in
        let '(s2, l) := cached_all f s1 r in
        (s2, (i, x) :: l)
    end.

  (* ---------------------------------------------------------------- update_cache *)
  (* Project._update_in_memory_cache; the ThreadPool only permutes the insertion order of the
     added keys.  The first failing lookup aborts (JobsCorruptedError / KeyError). *)
  Fixpoint add_from_ws (f : fs) (c : cache) (ids : list str) : result cache :=
    match ids with
    | [] => Ok c
    | i :: r =>
        match sp_from_ws f true i with
        | Ok v => add_from_ws f (aset i v c) r
        | Err e => Err e
        end
    end.

  Definition update_in_memory (f : fs) (s : sess) : result sess :=
    let ids := listing f in
    let cached := map fst (s_cache s) in
    let to_add := filter (fun i => negb (str_mem i cached)) ids in
    let to_remove := filter (fun i => negb (str_mem i ids)) cached in
    match add_from_ws f (aremove_all to_remove (s_cache s)) to_add with
    | Ok c => Ok (mkSess c (s_read s))
    | Err e => Err e
    end.

  (* Project.update_cache().  [late] selects WHERE the id set used in the comparison is taken:
       late = false : cached_ids = set(self._sp_cache) BEFORE _update_in_memory_cache()  (the code before d7351f9: F9)
       late = true  : after it (the code as it is).
     Result: None = "Cache is up to date", Some n = n entries written. *)
  Definition update_cache_gen (late : bool) (f : fs) (s : sess) : fs * sess * result (option N) :=
    let '(s1, cf) := read_cache f s in
    let before := map fst (s_cache s1) in
    match update_in_memory f s1 with
    | Err e => (f, s1, Err e)
    | Ok s2 =>
        let cached_ids := if late then map fst (s_cache s2) else before in
        let rewrite_needed :=
          match cf with
          | None => true
          | Some c => negb (seteq_s (map fst c) cached_ids)
          end in
        if rewrite_needed then
          match write_file f CACHETMP (cache_content (s_cache s2)) with
          | FErr _ => (f, s2, Err EOSError)
          | FOk f1 =>
              match rename f1 CACHETMP CACHEP with
              | FErr _ => (f1, s2, Err EOSError)
              | FOk f2 => (f2, s2, Ok (Some (N.of_nat (length (s_cache s2)))))
              end
          end
        else (f, s2, Ok None)
    end.

  (* The one place where defect F9 lived.  [false] = the code before fix: d7351f9 (cached_ids taken before
     the reconciliation), [true] = the code as it is now. *)
  Definition F9_FIXED : bool := true.
  Definition update_cache := update_cache_gen F9_FIXED.

  (* the state in which update_cache() of the code before d7351f9 wrongly reported "up to date":
     a cache file exists, every id the session holds in memory is in it, and its id set differs
     from the directory listing *)
  Definition f9_state (f : fs) (s : sess) : bool :=
    match cache_file f with
    | None => false
    | Some c =>
        subset_s (map fst (s_cache s)) (map fst c) && negb (seteq_s (map fst c) (listing f))
    end.

  (* ---------------------------------------------------------------- observations of one session *)
  Record obs := mkObs {
    o_find : result (list str);            (* ids returned by find_jobs(filter) *)
    o_len : N;                             (* len(project) *)
    o_ids : list str;                      (* ids by iteration *)
    o_open : list (str * result json)      (* open_job(id=i).statepoint() for every listed i *)
  }.

  Fixpoint open_all (f : fs) (s : sess) (ids : list str) : sess * list (str * result json) :=
    match ids with
    | [] => (s, [])
    | i :: r =>
        let '(s1, x) := open_sp_by_id f s i in
        let '(s2, l) := open_all f s1 r in
        (s2, (i, x) :: l)
    end.

  Definition observe (f : fs) (s : sess) (ev : json -> bool) : sess * obs :=
    let '(s1, r) := find_ids f s ev in
    let ids := listing f in
    let '(s2, opens) := open_all f s1 ids in
    (s2, mkObs r (N.of_nat (length ids)) ids opens).

  (* j = project.open_job(id=p); j.statepoint() for an ABBREVIATED id p: the resolved id (or the exception
     of open_job) and what statepoint() gives *)
  Definition open_pre (f : fs) (s : sess) (p : str) : sess * result (str * result json) :=
    match open_id f s p with
    | (s1, Err e) => (s1, Err e)
    | (s1, Ok h) => let '(s2, r) := handle_sp f s1 h in (s2, Ok (fst h, r))
    end.

  Fixpoint open_pres (f : fs) (s : sess) (ps : list str) : sess * list (str * result (str * result json)) :=
    match ps with
    | [] => (s, [])
    | p :: r =>
        let '(s1, x) := open_pre f s p in
        let '(s2, l) := open_pres f s1 r in
        (s2, (p, x) :: l)
    end.

  (* the file system with the persistent cache file moved away *)
  Definition without_cache (f : fs) : fs := remove CACHEP f.

End MODEL.
