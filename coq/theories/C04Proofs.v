(* C04Proofs.v — lemmas behind props/C04.v *)
From SV Require Import Base Json MD5 Canon FS Ws WsLemmas WsInit CorrC02 CorrC04.

Lemma SPF_neq_SPT : SPF <> SPT.
Proof. intro H. apply (f_equal (@length N)) in H. vm_compute in H. discriminate. Qed.

Lemma two_snoc : forall (p : path) a b, p ++ [a; b] = (p ++ [a]) ++ [b].
Proof. intros. rewrite <- app_assoc. reflexivity. Qed.

(* trees that agree on every path are byte-identical for the oracle *)
Lemma node_same_refl : forall a, node_same a a = true.
Proof.
  destruct a as [[c|]|]; simpl; auto.
  apply (list_eqb_eq N N.eqb); [intros; apply N.eqb_eq|reflexivity].
Qed.

Lemma fs_eq_tree_same : forall skip a b, fs_eq a b -> tree_same_except skip a b = true.
Proof.
  intros skip a b H. unfold tree_same_except. apply andb_true_iff. split; apply forallb_forall; intros e _;
    apply orb_true_iff; right; rewrite (H (fst e)); apply node_same_refl.
Qed.

Section S.
  Variable frepr : fl -> str.

  (* ---------------------------------------------------------------- re-key *)
  Lemma rekey_noop : forall susp w ci,
    calc_id frepr (c_data (getC w ci)) = h_id (getH w (hd 0%nat (c_jobs (getC w ci)))) ->
    sp_save frepr susp w ci = (w, inl tt).
  Proof. intros susp w ci H. unfold sp_save. rewrite H, str_eqb_refl. destruct susp; reflexivity. Qed.

  Lemma rekey_conflict : forall w ci cf,
    let c := getC w ci in
    let h0 := getH w (hd 0%nat (c_jobs c)) in
    let old := h_id h0 in
    let new := calc_id frepr (c_data c) in
    let wsd := wsp (getS w (h_s h0)) in
    old <> new ->
    getCF w ci = wsd ++ [old; SPF] ->
    get (w_fs w) (wsd ++ [old; SPF]) = Some (File cf) ->
    get (w_fs w) (wsd ++ [old; SPT]) = None ->
    get (w_fs w) (wsd ++ [old]) = Some Dir -> get (w_fs w) wsd = Some Dir ->
    get (w_fs w) (wsd ++ [new]) = Some Dir -> has_children (w_fs w) (wsd ++ [new]) = true ->
    exists w', sp_save frepr false w ci = (w', inr (FExn EDestinationExists)) /\
      fs_eq (w_fs w') (w_fs w) /\ w_hs w' = w_hs w /\ w_ss w' = w_ss w /\
      (* the in-memory state point is rolled back too (fix 5e72814): merged back from the restored file *)
      w_cs w' = set_nth ci (mkC (match c_json cf with Some v => snd (upd_root (c_data c) v) | None => c_data c end)
                                (c_jobs c)) (w_cs w).
  Proof.
    intros w ci cf c h0 old new wsd Hne HCF Hfile Htmp Hsrc Hws Hdst Hkids.
    set (f := w_fs w) in *. set (src := wsd ++ [old]) in *. set (dst := wsd ++ [new]) in *.
    assert (Efn : wsd ++ [old; SPF] = src ++ [SPF]) by apply two_snoc.
    assert (Etn : wsd ++ [old; SPT] = src ++ [SPT]) by apply two_snoc.
    rewrite Efn in Hfile. rewrite Etn in Htmp.
    set (fname := src ++ [SPF]) in *. set (tmp := src ++ [SPT]) in *.
    assert (Hft : fname <> tmp).
    { unfold fname, tmp. intro E. apply snoc_inj in E. exact (SPF_neq_SPT E). }
    (* forward rename of the state point file *)
    assert (R1 : exists f1, rename f fname tmp = FOk f1).
    { unfold rename. rewrite Hfile. unfold tmp at 1. rewrite parent_snoc, Hsrc.
      apply path_eqb_neq in Hft. rewrite Hft, Htmp. eauto. }
    destruct R1 as [f1 R1].
    assert (G1 : forall q, get f1 q = if path_eqb q tmp then Some (File cf) else if path_eqb q fname then None else get f q).
    { intro q. apply (get_rename_file f fname tmp cf f1 q Hfile Hft R1). }
    assert (Hout : forall q, under src q = false -> get f1 q = get f q).
    { intros q Hq. rewrite G1.
      assert (E1 : path_eqb q tmp = false).
      { apply path_eqb_neq. intro E. subst q. unfold tmp in Hq. rewrite under_app in Hq. discriminate. }
      assert (E2 : path_eqb q fname = false).
      { apply path_eqb_neq. intro E. subst q. unfold fname in Hq. rewrite under_app in Hq. discriminate. }
      rewrite E1, E2. reflexivity. }
    assert (Hsd : under src dst = false) by (apply sibling_not_under; exact Hne).
    assert (Hds : under dst src = false) by (apply sibling_not_under; auto).
    assert (Hsrc1 : get f1 src = Some Dir).
    { rewrite G1.
      assert (E1 : path_eqb src tmp = false) by (apply path_eqb_neq; intro E; symmetry in E; exact (snoc_neq_self _ _ E)).
      assert (E2 : path_eqb src fname = false) by (apply path_eqb_neq; intro E; symmetry in E; exact (snoc_neq_self _ _ E)).
      rewrite E1, E2. exact Hsrc. }
    (* the directory rename fails with ENOTEMPTY *)
    assert (R2 : rename f1 src dst = FErr ENOTEMPTY).
    { apply rename_dir_nonempty; auto.
      - unfold dst. rewrite parent_snoc. rewrite Hout; auto.
        destruct (under src wsd) eqn:E; auto. apply under_spec in E. destruct E as [r E].
        unfold src in E. rewrite <- app_assoc in E. rewrite <- (app_nil_r wsd) in E at 1.
        apply app_inv_head in E. discriminate.
      - rewrite Hout; auto.
      - intro E. unfold src, dst in E. apply snoc_inj in E. contradiction.
      - apply has_children_get. apply has_children_get in Hkids. destruct Hkids as [q [n [Hb Hg]]].
        exists q, n. split; auto. rewrite Hout; auto.
        destruct (under src q) eqn:E; auto.
        destruct (under_comparable src dst q E (below_under _ _ Hb)); congruence. }
    (* the rollback succeeds and restores the tree *)
    destruct (rename_file_back_ok f fname tmp cf f1 Hfile Htmp) as [f3 R3]; auto.
    { unfold fname. rewrite parent_snoc. exact Hsrc. }
    { unfold fname. rewrite parent_snoc. intro E. symmetry in E. exact (snoc_neq_self _ _ E). }
    unfold sp_save. fold c. fold h0. fold old. fold new. fold wsd.
    assert (Hon : str_eqb old new = false) by (apply str_eqb_neq; exact Hne). rewrite Hon.
    assert (Htmp_eq : parent fname ++ [last fname [] ++ [126%N]] = tmp).
    { unfold fname, tmp. rewrite parent_snoc, last_last. reflexivity. }
    rewrite HCF, Efn. fold fname. rewrite Htmp_eq. fold f. rewrite R1. simpl w_fs. fold src dst. rewrite R2, R3.
    pose proof (rename_file_roundtrip f fname tmp cf f1 f3 Hfile Htmp R1 R3) as Hrt.
    assert (Hback : get f3 fname = Some (File cf)) by (rewrite (Hrt fname); exact Hfile).
    rewrite Hback. simpl.
    eexists. split; [reflexivity|]. split; [exact Hrt|]. simpl. auto.
  Qed.

  (* ---------------------------------------------------------------- update_statepoint *)
  Lemma update_statepoint_no_overwrite : forall w h u w1 ci,
    sp_access frepr w h = (w1, inl ci) -> update_conflict (c_data (getC w1 ci)) u = true ->
    update_statepoint frepr w h u false = (w1, inr (FExn EKeyError)) /\
    w_fs w1 = w_fs w /\ w_tr w1 = w_tr w.
  Proof.
    intros w h u w1 ci E Hc. unfold update_statepoint. rewrite E, Hc. simpl.
    pose proof (sp_access_fs frepr w h) as Hf. rewrite E in Hf. simpl in Hf. tauto.
  Qed.

  (* ---------------------------------------------------------------- move *)
  Lemma move_uninitialised : forall w h sj w1 ci,
    sp_access frepr w h = (w1, inl ci) ->
    get (w_fs w) (wsp (getS w1 sj)) = Some Dir ->
    get (w_fs w) (jobdir w1 (getH w1 h)) = None ->
    exists w', move frepr w h sj = (w', inr (FExn ERuntimeError)) /\ w_fs w' = w_fs w /\ w_hs w' = w_hs w1.
  Proof.
    intros w h sj w1 ci E Hws Hsrc. unfold move. rewrite E.
    pose proof (sp_access_fs frepr w h) as Hf. rewrite E in Hf. simpl in Hf. destruct Hf as [Hf _].
    unfold isdir. rewrite Hf, Hws. simpl w_fs.
    change (jobdir (set_fs w1 (w_fs w) []) (getH w1 h)) with (jobdir w1 (getH w1 h)).
    rewrite (rename_missing _ _ _ Hsrc). eexists. split; [reflexivity|]. split; reflexivity.
  Qed.

  Lemma move_conflict : forall w h sj w1 ci,
    sp_access frepr w h = (w1, inl ci) ->
    let src := jobdir w1 (getH w1 h) in
    let dst := wsp (getS w1 sj) ++ [calc_id frepr (c_data (getC w1 ci))] in
    get (w_fs w) (wsp (getS w1 sj)) = Some Dir ->
    get (w_fs w) src = Some Dir -> get (w_fs w) dst = Some Dir -> has_children (w_fs w) dst = true ->
    src <> dst -> under src dst = false ->
    exists w', move frepr w h sj = (w', inr (FExn EDestinationExists)) /\ w_fs w' = w_fs w /\ w_hs w' = w_hs w1.
  Proof.
    intros w h sj w1 ci E src dst Hws Hsrc Hdst Hkids Hne Hu. unfold move. rewrite E.
    pose proof (sp_access_fs frepr w h) as Hf. rewrite E in Hf. simpl in Hf. destruct Hf as [Hf _].
    unfold isdir. rewrite Hf, Hws. simpl w_fs.
    change (jobdir (set_fs w1 (w_fs w) []) (getH w1 h)) with src. fold dst.
    rewrite (rename_dir_nonempty (w_fs w) src dst); auto.
    - eexists. split; [reflexivity|]. split; reflexivity.
    - unfold dst. rewrite parent_snoc. exact Hws.
  Qed.

  Lemma move_ok : forall w h sj w1 ci,
    sp_access frepr w h = (w1, inl ci) ->
    let src := jobdir w1 (getH w1 h) in
    let d := c_data (getC w1 ci) in
    let dst := wsp (getS w1 sj) ++ [calc_id frepr d] in
    get (w_fs w) (wsp (getS w1 sj)) = Some Dir ->
    get (w_fs w) src = Some Dir -> src <> dst -> under src dst = false -> under dst src = false ->
    (get (w_fs w) dst = None \/ get (w_fs w) dst = Some Dir) -> has_children (w_fs w) dst = false ->
    (h < length (w_hs w))%nat ->
    exists w', move frepr w h sj = (w', inl tt) /\
      (forall r, get (w_fs w') (dst ++ r) = get (w_fs w) (src ++ r)) /\     (* everything is carried, byte for byte *)
      (forall r, get (w_fs w') (src ++ r) = None) /\                          (* the old place is gone *)
      (forall q, under src q = false -> under dst q = false -> get (w_fs w') q = get (w_fs w) q) /\
      getH w' h = mkH sj (calc_id frepr d) (Some d) None false /\
      ~ In h (c_jobs (getC w' ci)).            (* fix d38783c: it no longer follows / leads its old shallow copies *)
  Proof.
    intros w h sj w1 ci E src d dst Hws Hsrc Hne Hu1 Hu2 Hdst Hkids Hlt. unfold move. rewrite E.
    pose proof (sp_access_fs frepr w h) as Hf. rewrite E in Hf. simpl in Hf. destruct Hf as [Hf _].
    unfold isdir. rewrite Hf, Hws. simpl w_fs.
    change (jobdir (set_fs w1 (w_fs w) []) (getH w1 h)) with src. fold d. fold dst.
    assert (Hp : get (w_fs w) (parent dst) = Some Dir) by (unfold dst; rewrite parent_snoc; exact Hws).
    pose proof (rename_dir_ok (w_fs w) src dst Hsrc Hp Hne Hu1 Hu2 Hdst Hkids) as R. rewrite R.
    eexists. split; [reflexivity|].
    assert (Hlen : (h < length (w_hs w1))%nat).
    { pose proof (sp_access_len frepr w h) as Hl. rewrite E in Hl. simpl in Hl. lia. }
    split; [|split; [|split; [|split]]].
    - intro r. simpl. apply (rename_dir_carry (w_fs w) src dst _ r Hsrc Hne R).
    - intro r. simpl. apply (rename_dir_src_gone (w_fs w) src dst _ r Hsrc Hne R).
    - intros q H1 H2. simpl. apply (rename_dir_frame (w_fs w) src dst _ q Hsrc Hne R H1 H2).
    - rewrite getH_register. apply getH_set_H_same. simpl. exact Hlen.
    - rewrite getC_register. unfold getC, set_HD, set_H, set_C. simpl.
      destruct (Nat.lt_ge_cases ci (length (w_cs w1))) as [Hci|Hci].
      + rewrite nth_set_nth_same by exact Hci. simpl. intro Hin. apply filter_In in Hin.
        destruct Hin as [_ Hb]. rewrite Nat.eqb_refl in Hb. discriminate.
      + rewrite set_nth_oob by exact Hci. rewrite nth_overflow by exact Hci. simpl. tauto.
  Qed.

  (* ---------------------------------------------------------------- clone *)
  Lemma clone_conflict : forall w sj h w1 ci x,
    sp_access frepr w h = (w1, inl ci) ->
    let src := jobdir w1 (getH w1 h) in
    let wsd := wsp (getS w1 sj) in
    let dst := wsd ++ [calc_id frepr (c_data (getC w1 ci))] in
    get (w_fs w) src = Some Dir -> under src dst = false ->
    (forall k, (k <= length wsd)%nat -> get (w_fs w) (firstn k wsd) = Some Dir) ->
    get (w_fs w) dst = Some x ->                       (* ANY existing destination, also an empty directory *)
    clone frepr w sj h = (w1, inr (FExn EDestinationExists)) /\ w_fs w1 = w_fs w.
  Proof.
    intros w sj h w1 ci x E src wsd dst Hsrc Hu Hchain Hx. unfold clone. rewrite E.
    pose proof (sp_access_fs frepr w h) as Hf. rewrite E in Hf. simpl in Hf. destruct Hf as [Hf _].
    fold src. fold wsd. fold dst. rewrite Hf.
    unfold dst. rewrite (copytree_exists (w_fs w) src wsd _ x Hsrc Hu Hchain Hx). auto.
  Qed.

  Lemma clone_uninitialised : forall w sj h w1 ci,
    sp_access frepr w h = (w1, inl ci) ->
    get (w_fs w) (jobdir w1 (getH w1 h)) = None ->
    clone frepr w sj h = (w1, inr (FExn EValueError)) /\ w_fs w1 = w_fs w.
  Proof.
    intros w sj h w1 ci E Hsrc. unfold clone. rewrite E.
    pose proof (sp_access_fs frepr w h) as Hf. rewrite E in Hf. simpl in Hf. destruct Hf as [Hf _].
    rewrite Hf, (copytree_missing _ _ _ Hsrc). auto.
  Qed.

  Lemma clone_ok : forall w sj h w1 ci,
    sp_access frepr w h = (w1, inl ci) ->
    let src := jobdir w1 (getH w1 h) in
    let wsd := wsp (getS w1 sj) in
    let d := c_data (getC w1 ci) in
    let dst := wsd ++ [calc_id frepr d] in
    get (w_fs w) src = Some Dir -> under src dst = false -> under dst src = false ->
    (forall k, (k <= length wsd)%nat -> get (w_fs w) (firstn k wsd) = Some Dir) ->
    (forall q, under dst q = true -> get (w_fs w) q = None) ->        (* nothing at the destination *)
    exists w' hn, clone frepr w sj h = (w', inl hn) /\
      get (w_fs w') dst = Some Dir /\
      (forall x r, get (w_fs w') (dst ++ x :: r) = get (w_fs w) (src ++ x :: r)) /\   (* identical copy *)
      (forall q, under dst q = false -> get (w_fs w') q = get (w_fs w) q) /\          (* source and all else untouched *)
      getH w' hn = mkH sj (calc_id frepr d) (Some d) None false /\ hn = length (w_hs w1).
  Proof.
    intros w sj h w1 ci E src wsd d dst Hsrc Hu1 Hu2 Hchain Hfree. unfold clone. rewrite E.
    pose proof (sp_access_fs frepr w h) as Hf. rewrite E in Hf. simpl in Hf. destruct Hf as [Hf _].
    fold src. fold wsd. fold d. fold dst. rewrite Hf.
    assert (Hn : get (w_fs w) dst = None) by (apply Hfree, under_refl).
    destruct (copytree (w_fs w) src dst) as [f2|e] eqn:Ec.
    - pose proof (fun q => get_copytree (w_fs w) src wsd _ f2 q Hsrc Hu1 Hu2 Hchain Hn Ec) as G. fold dst in G.
      eexists _, _. split; [reflexivity|]. simpl w_fs.
      split; [|split; [|split; [|split]]].
      + rewrite G. assert (Hs : strip dst dst = Some []) by (apply strip_spec; rewrite app_nil_r; reflexivity).
        rewrite Hs. reflexivity.
      + intros x r. rewrite G, strip_app.
        destruct (get (w_fs w) (src ++ x :: r)) eqn:Eg; auto. apply Hfree. apply under_app.
      + intros q Hq. rewrite G. unfold under in Hq. destruct (strip dst q); [discriminate|reflexivity].
      + unfold getH, add_H. simpl. apply nth_app_new.
      + reflexivity.
    - exfalso. unfold copytree in Ec. rewrite Hsrc in Ec. unfold makedirs_new in Ec.
      unfold dst in Ec. rewrite (makedirs_from_leaf_new wsd (w_fs w) [] _) in Ec; [|intros k Hk; simpl; apply Hchain; lia|exact Hn].
      fold dst in Ec. rewrite Hu1 in Ec. discriminate.
  Qed.

  (* ---------------------------------------------------------------- set_ids *)
  Lemma set_ids_frame : forall js w i,
    w_fs (set_ids w js i) = w_fs w /\ w_ss (set_ids w js i) = w_ss w /\ w_cs (set_ids w js i) = w_cs w
    /\ w_tr (set_ids w js i) = w_tr w /\ length (w_hs (set_ids w js i)) = length (w_hs w).
  Proof.
    induction js as [|j js IH]; intros w i; simpl; [auto 6|].
    destruct (IH (set_H w j (mkH (h_s (getH w j)) i (h_cached (getH w j)) (h_cell (getH w j)) (h_dk (getH w j)))) i)
      as [H1 [H2 [H3 [H4 H5]]]].
    rewrite H1, H2, H3, H4, H5. simpl. rewrite length_set_nth. auto 6.
  Qed.

  Lemma set_ids_fields : forall js w i k,
    h_s (getH (set_ids w js i) k) = h_s (getH w k) /\ h_cell (getH (set_ids w js i) k) = h_cell (getH w k)
    /\ h_cached (getH (set_ids w js i) k) = h_cached (getH w k) /\ h_dk (getH (set_ids w js i) k) = h_dk (getH w k).
  Proof.
    induction js as [|j js IH]; intros w i k; simpl; [auto|].
    destruct (IH (set_H w j (mkH (h_s (getH w j)) i (h_cached (getH w j)) (h_cell (getH w j)) (h_dk (getH w j)))) i k)
      as [H1 [H2 [H3 H4]]].
    rewrite H1, H2, H3, H4. unfold getH, set_H. simpl.
    repeat split; apply (nth_set_nth_proj handle); reflexivity.
  Qed.

  Lemma set_ids_notin : forall js w i k, ~ In k js -> h_id (getH (set_ids w js i) k) = h_id (getH w k).
  Proof.
    induction js as [|j js IH]; intros w i k Hn; simpl; [reflexivity|].
    rewrite IH by (intro H; apply Hn; simpl; auto).
    rewrite getH_set_H_other; [reflexivity|]. intro E. apply Hn. simpl. auto.
  Qed.

  Lemma set_ids_in : forall js w i k, In k js -> (k < length (w_hs w))%nat -> h_id (getH (set_ids w js i) k) = i.
  Proof.
    induction js as [|j js IH]; intros w i k Hin Hlt; simpl; [contradiction|].
    destruct (in_dec Nat.eq_dec k js) as [Hk|Hk].
    - apply IH; auto. simpl. rewrite length_set_nth. exact Hlt.
    - destruct Hin as [->|Hin]; [|contradiction].
      rewrite set_ids_notin by exact Hk. rewrite getH_set_H_same by exact Hlt. reflexivity.
  Qed.

  (* ---------------------------------------------------------------- set_cached *)
  Lemma set_cached_frame : forall js w d,
    w_fs (set_cached w js d) = w_fs w /\ w_ss (set_cached w js d) = w_ss w /\ w_cs (set_cached w js d) = w_cs w
    /\ w_tr (set_cached w js d) = w_tr w /\ length (w_hs (set_cached w js d)) = length (w_hs w).
  Proof.
    induction js as [|j js IH]; intros w d; simpl; [auto 6|].
    destruct (IH (set_H w j (mkH (h_s (getH w j)) (h_id (getH w j)) (Some d) (h_cell (getH w j)) (h_dk (getH w j)))) d)
      as [H1 [H2 [H3 [H4 H5]]]].
    rewrite H1, H2, H3, H4, H5. simpl. rewrite length_set_nth. auto 6.
  Qed.

  Lemma set_cached_fields : forall js w d k,
    h_s (getH (set_cached w js d) k) = h_s (getH w k) /\ h_cell (getH (set_cached w js d) k) = h_cell (getH w k)
    /\ h_id (getH (set_cached w js d) k) = h_id (getH w k) /\ h_dk (getH (set_cached w js d) k) = h_dk (getH w k).
  Proof.
    induction js as [|j js IH]; intros w d k; simpl; [auto|].
    destruct (IH (set_H w j (mkH (h_s (getH w j)) (h_id (getH w j)) (Some d) (h_cell (getH w j)) (h_dk (getH w j)))) d k)
      as [H1 [H2 [H3 H4]]].
    rewrite H1, H2, H3, H4. unfold getH, set_H. simpl.
    repeat split; apply (nth_set_nth_proj handle); reflexivity.
  Qed.

  Lemma set_cached_notin : forall js w d k, ~ In k js -> h_cached (getH (set_cached w js d) k) = h_cached (getH w k).
  Proof.
    induction js as [|j js IH]; intros w d k Hn; simpl; [reflexivity|].
    rewrite IH by (intro H; apply Hn; simpl; auto).
    rewrite getH_set_H_other; [reflexivity|]. intro E. apply Hn. simpl. auto.
  Qed.

  Lemma set_cached_in : forall js w d k, In k js -> (k < length (w_hs w))%nat ->
    h_cached (getH (set_cached w js d) k) = Some d.
  Proof.
    induction js as [|j js IH]; intros w d k Hin Hlt; simpl; [contradiction|].
    destruct (in_dec Nat.eq_dec k js) as [Hk|Hk].
    - apply IH; auto. simpl. rewrite length_set_nth. exact Hlt.
    - destruct Hin as [->|Hin]; [|contradiction].
      rewrite set_cached_notin by exact Hk. rewrite getH_set_H_same by exact Hlt. reflexivity.
  Qed.

  (* ---------------------------------------------------------------- the successful re-key *)
  Lemma rekey_ok : forall w ci cf,
    let c := getC w ci in
    let js := c_jobs c in
    let h0 := getH w (hd 0%nat js) in
    let old := h_id h0 in
    let new := calc_id frepr (c_data c) in
    let wsd := wsp (getS w (h_s h0)) in
    let src := wsd ++ [old] in
    let dst := wsd ++ [new] in
    old <> new -> is_null (c_data c) = false ->
    js <> [] ->
    (forall j, In j js -> (j < length (w_hs w))%nat /\ h_cell (getH w j) = Some ci /\ h_s (getH w j) = h_s h0) ->
    getCF w ci = src ++ [SPF] ->
    get (w_fs w) (src ++ [SPF]) = Some (File cf) ->
    get (w_fs w) (src ++ [SPT]) = None -> get (w_fs w) (src ++ [TMPPFX ++ SPF]) = None ->
    get (w_fs w) src = Some Dir -> get (w_fs w) wsd = Some Dir ->
    (get (w_fs w) dst = None \/ get (w_fs w) dst = Some Dir) -> has_children (w_fs w) dst = false ->
    exists w', sp_save frepr false w ci = (w', inl tt) /\
      (forall r, get (w_fs w') (src ++ r) = None) /\
      get (w_fs w') dst = Some Dir /\
      get (w_fs w') (dst ++ [SPF]) = Some (File (sp_content frepr (c_data c))) /\
      get (w_fs w') (dst ++ [SPT]) = None /\
      (forall x r, x :: r <> [SPF] -> x :: r <> [SPT] -> get (w_fs w') (dst ++ x :: r) = get (w_fs w) (src ++ x :: r)) /\
      (forall q, under src q = false -> under dst q = false -> get (w_fs w') q = get (w_fs w) q) /\
      (forall j, In j js -> h_id (getH w' j) = new /\ h_s (getH w' j) = h_s h0) /\
      (forall j, In j js -> h_cached (getH w' j) = Some (c_data c)) /\
      (forall k, ~ In k js -> h_cached (getH w' k) = h_cached (getH w k)).
  Proof.
    intros w ci cf c js h0 old new wsd src dst Hne Hnn Hjs Hall HCF Hfile Htmp Htmp2 Hsrc Hws Hdst Hkids.
    set (f := w_fs w) in *.
    set (fname := src ++ [SPF]) in *. set (tmp := src ++ [SPT]) in *.
    assert (Hft : fname <> tmp).
    { unfold fname, tmp. intro E. apply snoc_inj in E. exact (SPF_neq_SPT E). }
    assert (R1 : exists f1, rename f fname tmp = FOk f1).
    { unfold rename. rewrite Hfile. unfold tmp at 1. rewrite parent_snoc, Hsrc.
      apply path_eqb_neq in Hft. rewrite Hft, Htmp. eauto. }
    destruct R1 as [f1 R1].
    assert (G1 : forall q, get f1 q = if path_eqb q tmp then Some (File cf) else if path_eqb q fname then None else get f q).
    { intro q. apply (get_rename_file f fname tmp cf f1 q Hfile Hft R1). }
    assert (Hout : forall q, under src q = false -> get f1 q = get f q).
    { intros q Hq. rewrite G1.
      assert (E1 : path_eqb q tmp = false).
      { apply path_eqb_neq. intro E. subst q. unfold tmp in Hq. rewrite under_app in Hq. discriminate. }
      assert (E2 : path_eqb q fname = false).
      { apply path_eqb_neq. intro E. subst q. unfold fname in Hq. rewrite under_app in Hq. discriminate. }
      rewrite E1, E2. reflexivity. }
    assert (Hsd : under src dst = false) by (apply sibling_not_under; exact Hne).
    assert (Hds : under dst src = false) by (apply sibling_not_under; auto).
    assert (Hsrc_ne_dst : src <> dst) by (intro E; unfold src, dst in E; apply snoc_inj in E; contradiction).
    assert (Hsrc1 : get f1 src = Some Dir).
    { rewrite G1.
      assert (E1 : path_eqb src tmp = false) by (apply path_eqb_neq; intro E; symmetry in E; exact (snoc_neq_self _ _ E)).
      assert (E2 : path_eqb src fname = false) by (apply path_eqb_neq; intro E; symmetry in E; exact (snoc_neq_self _ _ E)).
      rewrite E1, E2. exact Hsrc. }
    assert (Hwsd_out : under src wsd = false).
    { destruct (under src wsd) eqn:E; auto. apply under_spec in E. destruct E as [r E].
      unfold src in E. rewrite <- app_assoc in E. rewrite <- (app_nil_r wsd) in E at 1.
      apply app_inv_head in E. discriminate. }
    (* the directory rename succeeds *)
    assert (R2 : rename f1 src dst = FOk (move_tree src dst (del_under dst f1))).
    { apply rename_dir_ok; auto.
      - unfold dst. rewrite parent_snoc, Hout; auto.
      - rewrite Hout by exact Hsd. exact Hdst.
      - destruct (has_children f1 dst) eqn:Ek; auto. exfalso.
        apply has_children_get in Ek. destruct Ek as [q [n [Hb Hg]]].
        assert (Hq : under src q = false).
        { destruct (under src q) eqn:E; auto.
          destruct (under_comparable src dst q E (below_under _ _ Hb)); congruence. }
        rewrite Hout in Hg by exact Hq.
        assert (Hk : has_children f dst = true) by (apply has_children_get; eauto). congruence. }
    set (f2 := move_tree src dst (del_under dst f1)) in *.
    assert (G2 : forall q, get f2 q = match strip dst q with
                                       | Some r => get f1 (src ++ r)
                                       | None => if under src q then None else get f1 q end).
    { intro q. apply (get_rename_dir f1 src dst f2 q Hsrc1 Hsrc_ne_dst R2). }
    (* run sp_save up to the unlink *)
    unfold sp_save. fold c. fold js. fold h0. fold old. fold new. fold wsd.
    assert (Hon : str_eqb old new = false) by (apply str_eqb_neq; exact Hne). rewrite Hon.
    assert (Htmp_eq : parent fname ++ [last fname [] ++ [126%N]] = tmp).
    { unfold fname, tmp. rewrite parent_snoc, last_last. reflexivity. }
    rewrite HCF. fold fname. rewrite Htmp_eq. fold src dst f. rewrite R1. simpl w_fs. rewrite R2.
    set (wa := set_fs (set_fs w f1 [EvRename fname tmp]) f2 [EvRename src dst]).
    set (w2i := set_ids wa js new).
    set (w2c := set_cached w2i js (c_data c)).
    set (w2 := reset_docs w2c js).
    assert (Hhs2 : w_hs w2 = w_hs w2c) by (destruct (reset_docs_frame js w2c) as [_ [_ [X _]]]; exact X).
    assert (HgetH2 : forall k, getH w2 k = getH w2c k) by (intro k; unfold getH; rewrite Hhs2; reflexivity).
    assert (FF : w_fs w2 = w_fs wa /\ w_ss w2 = w_ss wa /\ w_cs w2 = w_cs wa /\ w_tr w2 = w_tr wa
                 /\ length (w_hs w2) = length (w_hs wa)).
    { destruct (set_ids_frame js wa new) as [A1 [A2 [A3 [A4 A5]]]]. fold w2i in A1, A2, A3, A4, A5.
      destruct (set_cached_frame js w2i (c_data c)) as [B1 [B2 [B3 [B4 B5]]]]. fold w2c in B1, B2, B3, B4, B5.
      destruct (reset_docs_frame js w2c) as [C1 [C2 [C3 [C4 C5]]]]. fold w2 in C1, C2, C3, C4, C5.
      rewrite C1, C2, C3, C4, C5, B1, B2, B3, B4, B5. auto 6. }
    destruct FF as [F1 [F2 [F3 [F4 F5]]]].
    (* the last handle of the cell (the loop variable) *)
    set (hl := last js 0%nat).
    assert (Hl_in : In hl js).
    { unfold hl. destruct js as [|j0 js0]; [contradiction|]. apply exists_last in Hjs || idtac.
      clear. assert (H : j0 :: js0 <> []) by discriminate. destruct (exists_last H) as [l' [a E]].
      rewrite E. rewrite last_last. apply in_or_app. right. simpl. auto. }
    destruct (Hall hl Hl_in) as [Hl_lt [Hl_cell Hl_s]].
    assert (Hh2 : forall k, h_s (getH w2 k) = h_s (getH w k) /\ h_cell (getH w2 k) = h_cell (getH w k)).
    { intro k. rewrite HgetH2. unfold w2c.
      destruct (set_cached_fields js w2i (c_data c) k) as [A' [B' _]]. rewrite A', B'. unfold w2i.
      destruct (set_ids_fields js wa new k) as [A [B _]]. rewrite A, B. auto. }
    assert (Hid2 : forall j, In j js -> h_id (getH w2 j) = new).
    { intros j Hj. rewrite HgetH2. unfold w2c.
      destruct (set_cached_fields js w2i (c_data c) j) as [_ [_ [C' _]]]. rewrite C'. unfold w2i.
      apply set_ids_in; auto. destruct (Hall j Hj) as [Hlt _]. exact Hlt. }
    assert (Hjd : jobdir w2 (getH w2 hl) = dst).
    { unfold jobdir, wsp. rewrite (Hid2 hl Hl_in). destruct (Hh2 hl) as [A _]. rewrite A, Hl_s.
      unfold dst, wsd, wsp, getS. rewrite F2. reflexivity. }
    assert (Hspf : spfile w2 (getH w2 hl) = dst ++ [SPF]) by (unfold spfile; rewrite Hjd; reflexivity).
    rewrite Hjd, Hspf.
    set (tmp' := dst ++ [SPT]).
    assert (Htmp'2 : get f2 tmp' = Some (File cf)).
    { rewrite G2. unfold tmp'. rewrite strip_app. fold tmp. rewrite G1, path_eqb_refl. reflexivity. }
    assert (U : unlink (w_fs w2) tmp' = FOk (remove tmp' f2)).
    { rewrite F1. simpl. unfold unlink. rewrite Htmp'2. reflexivity. }
    rewrite U.
    set (f3 := remove tmp' f2).
    assert (G3 : forall q, get f3 q = if path_eqb q tmp' then None else get f2 q).
    { intro q. apply (get_unlink f2 tmp' f3 q). unfold unlink. rewrite Htmp'2. reflexivity. }
    set (w3 := set_CF (lock_move (set_fs w2 f3 [EvUnlink tmp']) fname (dst ++ [SPF])) ci (dst ++ [SPF])).
    (* re-initialisation through the last handle of the cell *)
    assert (Hh3 : forall k, h_s (getH w3 k) = h_s (getH w k) /\ h_cell (getH w3 k) = h_cell (getH w k)).
    { intro k. exact (Hh2 k). }
    assert (Hid3 : forall j, In j js -> h_id (getH w3 j) = new).
    { intros j Hj. exact (Hid2 j Hj). }
    assert (E3 : sp_access frepr w3 hl = (w3, inl ci)).
    { apply sp_access_idem. destruct (Hh3 hl) as [_ B]. rewrite B. exact Hl_cell. }
    assert (Hws3 : wsp (getS w3 (h_s (getH w3 hl))) = wsd).
    { destruct (Hh3 hl) as [A _]. rewrite A, Hl_s. unfold wsd, wsp, getS, w3. simpl. rewrite F2. reflexivity. }
    assert (Hlt3 : (hl < length (w_hs w3))%nat) by (unfold w3; simpl; rewrite F5; simpl; exact Hl_lt).
    assert (Hd3 : c_data (getC w3 ci) = c_data c).
    { change (getC w3 ci) with (getC w2 ci). unfold getC. rewrite F3. reflexivity. }
    pose proof (init_writes frepr w3 hl w3 ci (c_data c) Hlt3 E3 Hd3) as IW.
    cbv zeta in IW. rewrite (Hid3 hl Hl_in), Hws3 in IW. fold dst in IW.
    change (w_fs w3) with f3 in IW.
    destruct IW as [w' [Hi [G [Hids _]]]]; [reflexivity|exact Hnn| | | |].
    { change (wsd ++ [new]) with dst. rewrite G3, G2, strip_app. fold fname.
      assert (E : path_eqb (dst ++ [SPF]) tmp' = false).
      { apply path_eqb_neq. unfold tmp'. intro E. apply snoc_inj in E. exact (SPF_neq_SPT E). }
      rewrite E, G1, path_eqb_refl.
      assert (E' : path_eqb fname tmp = false) by (apply path_eqb_neq; exact Hft). rewrite E'. reflexivity. }
    { change (wsd ++ [new]) with dst. rewrite G3, G2, strip_app.
      assert (E : path_eqb (dst ++ [TMPPFX ++ SPF]) tmp' = false).
      { apply path_eqb_neq. unfold tmp'. intro E. apply snoc_inj in E.
        apply (f_equal (@length N)) in E. vm_compute in E. discriminate. }
      rewrite E, G1.
      assert (E1 : path_eqb (src ++ [TMPPFX ++ SPF]) tmp = false).
      { apply path_eqb_neq. unfold tmp. intro E1. apply snoc_inj in E1.
        apply (f_equal (@length N)) in E1. vm_compute in E1. discriminate. }
      assert (E2 : path_eqb (src ++ [TMPPFX ++ SPF]) fname = false).
      { apply path_eqb_neq. unfold fname. intro E2. apply snoc_inj in E2. exact (tmp_name_neq SPF E2). }
      rewrite E1, E2. exact Htmp2. }
    { left. change (wsd ++ [new]) with dst. rewrite G3, G2.
      assert (E : path_eqb dst tmp' = false) by (apply path_eqb_neq; intro E; symmetry in E; exact (snoc_neq_self _ _ E)).
      assert (Hs : strip dst dst = Some []) by (apply strip_spec; rewrite app_nil_r; reflexivity).
      rewrite E, Hs, app_nil_r. exact Hsrc1. }
    (* assemble *)
    assert (Hlast : last (c_jobs c) 0%nat = hl) by reflexivity.
    exists w'. split; [exact Hi|].
    assert (Gq : forall q, get (w_fs w') q =
              if path_eqb q (dst ++ [SPF]) then Some (File (sp_content frepr (c_data c)))
              else if path_eqb q dst then Some Dir else get f3 q) by exact G.
    split; [|split; [|split; [|split; [|split; [|split; [|split; [|split]]]]]]].
    - intro r. rewrite Gq.
      assert (Hu : under dst (src ++ r) = false).
      { destruct (under dst (src ++ r)) eqn:E; auto.
        destruct (under_comparable src dst (src ++ r) (under_app src r) E); congruence. }
      assert (E1 : path_eqb (src ++ r) (dst ++ [SPF]) = false).
      { apply path_eqb_neq. intro E. rewrite E, under_app in Hu. discriminate. }
      assert (E2 : path_eqb (src ++ r) dst = false).
      { apply path_eqb_neq. intro E. rewrite E, under_refl in Hu. discriminate. }
      assert (E3' : path_eqb (src ++ r) tmp' = false).
      { apply path_eqb_neq. intro E. unfold tmp' in E. rewrite E, under_app in Hu. discriminate. }
      rewrite E1, E2, G3, E3', G2. unfold under in Hu. destruct (strip dst (src ++ r)); [discriminate|].
      rewrite under_app. reflexivity.
    - rewrite Gq.
      assert (E1 : path_eqb dst (dst ++ [SPF]) = false) by (apply path_eqb_neq; intro E; symmetry in E; exact (snoc_neq_self _ _ E)).
      rewrite E1, path_eqb_refl. reflexivity.
    - rewrite Gq, path_eqb_refl. reflexivity.
    - rewrite Gq.
      assert (E1 : path_eqb tmp' (dst ++ [SPF]) = false).
      { apply path_eqb_neq. unfold tmp'. intro E. apply snoc_inj in E. symmetry in E. exact (SPF_neq_SPT E). }
      assert (E2 : path_eqb tmp' dst = false) by (apply path_eqb_neq, snoc_neq_self).
      rewrite E1, E2, G3. rewrite path_eqb_refl. reflexivity.
    - intros x r Hx1 Hx2. rewrite Gq.
      assert (E1 : path_eqb (dst ++ x :: r) (dst ++ [SPF]) = false).
      { apply path_eqb_neq. intro E. apply app_inv_head in E. contradiction. }
      assert (E2 : path_eqb (dst ++ x :: r) dst = false).
      { apply path_eqb_neq. intro E. rewrite <- (app_nil_r dst) in E at 2. apply app_inv_head in E. discriminate. }
      assert (E3' : path_eqb (dst ++ x :: r) tmp' = false).
      { apply path_eqb_neq. unfold tmp'. intro E. apply app_inv_head in E. contradiction. }
      rewrite E1, E2, G3, E3', G2, strip_app, G1.
      assert (E4 : path_eqb (src ++ x :: r) tmp = false).
      { apply path_eqb_neq. unfold tmp. intro E. apply app_inv_head in E. contradiction. }
      assert (E5 : path_eqb (src ++ x :: r) fname = false).
      { apply path_eqb_neq. unfold fname. intro E. apply app_inv_head in E. contradiction. }
      rewrite E4, E5. reflexivity.
    - intros q Hq1 Hq2. rewrite Gq.
      assert (E1 : path_eqb q (dst ++ [SPF]) = false).
      { apply path_eqb_neq. intro E. rewrite E, under_app in Hq2. discriminate. }
      assert (E2 : path_eqb q dst = false).
      { apply path_eqb_neq. intro E. rewrite E, under_refl in Hq2. discriminate. }
      assert (E3' : path_eqb q tmp' = false).
      { apply path_eqb_neq. intro E. unfold tmp' in E. rewrite E, under_app in Hq2. discriminate. }
      rewrite E1, E2, G3, E3', G2. unfold under in Hq2. destruct (strip dst q) eqn:Es; [discriminate|].
      rewrite Hq1. apply Hout. exact Hq1.
    - intros j Hj. destruct (Hids j) as [A [B _]]. rewrite A, B. split; [apply Hid3; exact Hj|].
      destruct (Hh3 j) as [C _]. rewrite C. destruct (Hall j Hj) as [_ [_ D]]. exact D.
    - intros j Hj. destruct (Hids j) as [_ [_ C]]. rewrite C. change (getH w3) with (getH w2). rewrite HgetH2. unfold w2c.
      apply set_cached_in; auto. destruct (set_ids_frame js wa new) as [_ [_ [_ [_ A5]]]]. fold w2i in A5.
      rewrite A5. simpl. destruct (Hall j Hj) as [Hlt _]. exact Hlt.
    - intros k Hk. destruct (Hids k) as [_ [_ C]]. rewrite C. change (getH w3) with (getH w2). rewrite HgetH2. unfold w2c.
      rewrite set_cached_notin by exact Hk. unfold w2i.
      destruct (set_ids_fields js wa new k) as [_ [_ [D _]]]. rewrite D. reflexivity.
  Qed.

  (* whole assignment is ONE re-key with the merged data: the root saves that nested lists trigger in
     the middle of _update return at once (fix 3806f72) *)
  Lemma cell_reset_single_rekey : forall w ci new,
    cell_reset frepr w ci new = sp_save frepr false (set_data w ci (snd (upd_root (c_data (getC w ci)) new))) ci.
  Proof. intros. unfold cell_reset. destruct (upd_root (c_data (getC w ci)) new). reflexivity. Qed.

  Lemma sp_save_suspended : forall w ci, sp_save frepr true w ci = (w, inl tt).
  Proof. reflexivity. Qed.

  (* ---------------------------------------------------------------- licence for the correspondence (conflict clause) *)
  Lemma conflict_oracle_clause : forall w ci cf,
    let c := getC w ci in
    let h0 := getH w (hd 0%nat (c_jobs c)) in
    let old := h_id h0 in
    let new := calc_id frepr (c_data c) in
    let wsd := wsp (getS w (h_s h0)) in
    old <> new ->
    getCF w ci = wsd ++ [old; SPF] ->
    get (w_fs w) (wsd ++ [old; SPF]) = Some (File cf) ->
    get (w_fs w) (wsd ++ [old; SPT]) = None ->
    get (w_fs w) (wsd ++ [old]) = Some Dir -> get (w_fs w) wsd = Some Dir ->
    get (w_fs w) (wsd ++ [new]) = Some Dir -> has_children (w_fs w) (wsd ++ [new]) = true ->
    let '(w', r) := sp_save frepr false w ci in
    out_unit r = VExn EDestinationExists /\ tree_same_except [] (w_fs w) (w_fs w') = true.
  Proof.
    intros w ci cf c h0 old new wsd H1 H0 H2 H3 H4 H5 H6 H7.
    destruct (rekey_conflict w ci cf H1 H0 H2 H3 H4 H5 H6 H7) as [w' [E [Hfs _]]].
    fold c h0 old new wsd in E. rewrite E. split; [reflexivity|].
    apply fs_eq_tree_same. apply fs_eq_sym. exact Hfs.
  Qed.

End S.

(* ------------------------------------------------------------------ concrete witnesses of the defects *)
Definition wfr (f : fl) : str := [].
Definition kA : str := [97%N].
Definition wA : path := [[65%N]].

(* after a successful re-key the handle AND its shallow copy show the new job in all attributes *)
Lemma follow_example :
  let old := JObj [(kA, JInt 0)] in let new := JObj [(kA, JInt 1)] in
  run wfr w0 0 [ONewSession wA; OOpenSp 0 old; OInit 0 false; OCopy 0; OEdit 0 [] (ESetKey kA (JInt 1));
                OIdPath 1; OSp 1; OCached 1; OCached 0]
  = [VUnit; VStr (calc_id wfr old); VUnit; VStr (calc_id wfr old); VUnit;
     VIdPath (calc_id wfr new) (wA ++ [WS; calc_id wfr new]); VJson new; VJson new; VJson new].
Proof. vm_compute. reflexivity. Qed.

(* a shallow copy taken before the state point was ever accessed follows the re-key as well (fix 0894ce6) *)
Lemma early_copy_example :
  let old := JObj [(kA, JInt 0)] in let new := JObj [(kA, JInt 1)] in
  run wfr w0 0 [ONewSession wA; OOpenSp 0 old; OInit 0 false; ONewSession wA; OOpenId 1 (calc_id wfr old);
                OCopy 1; OEdit 1 [] (ESetKey kA (JInt 1)); OIdPath 1; OIdPath 2; OSp 2; OCached 2]
  = [VUnit; VStr (calc_id wfr old); VUnit; VUnit; VStr (calc_id wfr old); VStr (calc_id wfr old); VUnit;
     VIdPath (calc_id wfr new) (wA ++ [WS; calc_id wfr new]);
     VIdPath (calc_id wfr new) (wA ++ [WS; calc_id wfr new]); VJson new; VJson new].
Proof. vm_compute. reflexivity. Qed.

(* whole assignment of a value that compares == in Python is dropped: id, file and statepoint() stay *)
Lemma assign_drop_witness :
  let old := JObj [(kA, JInt 1)] in let new := JObj [(kA, JBool true)] in
  calc_id wfr old <> calc_id wfr new /\
  run wfr w0 0 [ONewSession wA; OOpenSp 0 old; OInit 0 false; OAssign 0 new; OIdPath 0; OSp 0; OIds 0]
  = [VUnit; VStr (calc_id wfr old); VUnit; VUnit;
     VIdPath (calc_id wfr old) (wA ++ [WS; calc_id wfr old]); VJson old; VStrs [calc_id wfr old]].
Proof. split; [vm_compute; discriminate|vm_compute; reflexivity]. Qed.

(* whole assignment that changes a list in place re-keys correctly (was: JobsCorruptedError + lost file) *)
Lemma assign_list_example :
  let old := JObj [(kA, JArr [JInt 1; JInt 2]); ([120%N], JInt 0)] in
  let new := JObj [(kA, JArr [JInt 1; JInt 3; JInt 4]); ([120%N], JInt 1)] in
  run wfr w0 0 [ONewSession wA; OOpenSp 0 old; OInit 0 false; OAssign 0 new; OIds 0; OSp 0; OCached 0; OIdPath 0]
  = [VUnit; VStr (calc_id wfr old); VUnit; VUnit; VStrs [calc_id wfr new]; VJson new; VJson new;
     VIdPath (calc_id wfr new) (wA ++ [WS; calc_id wfr new])].
Proof. vm_compute. reflexivity. Qed.

(* the world reached by a list of operations (observations dropped) *)
Fixpoint exec (fr : fl -> str) (w : world) (q : nat) (ops : list op) : world :=
  match ops with
  | [] => w
  | o :: r => let '(w1, q1, _) := step fr w q o in exec fr w1 q1 r
  end.

(* copy.copy at ANY time: the copy shares the original's state point cell and is registered in its _jobs, so the
   "every handle in _jobs" clauses of rekey_ok apply to it *)
Section Copy.
  Variable frepr : fl -> str.

  Lemma copy_shares_cell : forall w h w' hj,
    (h < length (w_hs w))%nat -> copy_handle frepr w h = (w', inl hj) ->
    exists ci, h_cell (getH w' h) = Some ci /\ h_cell (getH w' hj) = Some ci /\
               h_id (getH w' hj) = h_id (getH w' h) /\ h_s (getH w' hj) = h_s (getH w' h) /\
               (ci < length (w_cs w') -> In hj (c_jobs (getC w' ci))).
  Proof.
    intros w h w' hj Hlt H. unfold copy_handle in H.
    destruct (sp_access frepr w h) as [w1 [ci|e]] eqn:E; [|discriminate].
    inversion H; subst. clear H.
    destruct (sp_access_cell frepr w h w1 ci Hlt E) as [Hc _].
    assert (Hlen : length (w_hs w1) = length (w_hs w)).
    { pose proof (sp_access_len frepr w h) as Hl. rewrite E in Hl. exact Hl. }
    exists ci.
    assert (Hh : getH (add_job (set_HD (add_H w1 (getH w1 h)) (length (w_hs w1)) (getHD w1 h)) ci (length (w_hs w1))) h
                 = getH w1 h).
    { unfold getH, add_job, set_C, set_HD, add_H. simpl. apply app_nth1. lia. }
    assert (Hj : getH (add_job (set_HD (add_H w1 (getH w1 h)) (length (w_hs w1)) (getHD w1 h)) ci (length (w_hs w1)))
                      (length (w_hs w1)) = getH w1 h).
    { unfold getH at 1, add_job, set_C, set_HD, add_H. simpl. apply nth_app_new. }
    rewrite Hh, Hj. repeat split; auto.
    intro Hci. unfold add_job, getC, set_C in *. simpl in *. rewrite length_set_nth in Hci.
    rewrite nth_set_nth_same by exact Hci. simpl.
    apply in_or_app. right. simpl. auto.
  Qed.
End Copy.
