(* C04Proofs.v — lemmas behind props/C04.v *)
From SV Require Import Base Json MD5 Canon FS Ws CorrC02 CorrC04.

Lemma rollback_restores : forall f a t c f1 f2,
  get f a = Some (File c) -> get f t = None ->
  rename f a t = FOk f1 -> rename f1 t a = FOk f2 -> fs_eq f2 f.
Proof. exact rename_file_roundtrip. Qed.
