(* CorrC02.v — observational form of C02 (initialised jobs persist and reopen exactly; opening is lazy).

   A case is a sequence of steps.  After every operation the harness takes a snapshot of the workspace
   trees and asks "was any inode / mtime / ctime touched at all since the previous step" (OQuiet).
   [mismatch_C02]: the model (Ws.v), run on the operations, does not reproduce these observations.
   [violation_C02]: the property, evaluated as a specification-level oracle on the IMPLEMENTATION's
   observations, is false.  The oracle does not use the model's programs: it reads the
   implementation's own trees. *)
From SV Require Import Base Json MD5 Canon FS Ws.

Fixpoint ftab_lookup (t : list (fl * str)) (f : fl) : str :=
  match t with
  | [] => [63%N]
  | (g, s) :: t' => if fl_eqb f g then s else ftab_lookup t' f
  end.

Record step_C02 := mkStep2 {
  st_op : op;
  st_out : oval;        (* what the operation returned / raised *)
  st_tree : oval;       (* VTree t | VTreeSame : the workspaces after the operation *)
  st_quiet : bool       (* no inode/mtime/ctime changed during the operation *)
}.

Record case_C02 := mkCase2 {
  c2_ftab : list (fl * str);
  c2_steps : list step_C02
}.

Definition ops_C02 (c : case_C02) : list op := flat_map (fun s => [st_op s; OTree; OQuiet]) (c2_steps c).
Definition outs_C02 (c : case_C02) : list oval :=
  flat_map (fun s => [st_out s; st_tree s; VBool (st_quiet s)]) (c2_steps c).

Definition mismatch_C02 (c : case_C02) : bool :=
  negb (run_cmp (ftab_lookup (c2_ftab c)) w0 0 [] (ops_C02 c) (outs_C02 c)).

(* ------------------------------------------------------------------ the oracle *)
(* exact ids: 32 lower-case hex characters *)
Definition is_id (n : str) : bool := Nat.eqb (length n) 32 && forallb lower_hex n.

(* id-named directories directly below [wsd] in a tree *)
Definition tree_ids (t : fs) (wsd : path) : list str :=
  flat_map (fun e => match strip wsd (fst e), snd e with
                     | Some [n], Dir => if is_id n then [n] else []
                     | _, _ => []
                     end) t.

Definition file_json (t : fs) (p : path) : option json :=
  match get t p with Some (File c) => c_json c | _ => None end.

Definition node_same (a b : option node) : bool :=
  match a, b with
  | Some Dir, Some Dir => true
  | Some (File c), Some (File c') => list_eqb N.eqb (c_bytes c) (c_bytes c')
  | None, None => true
  | _, _ => false
  end.

(* byte-identical trees, except below the paths in [skip] *)
Definition tree_same_except (skip : list path) (a b : fs) : bool :=
  let ok t t' := forallb (fun e => existsb (fun s => under s (fst e)) skip
                                   || node_same (get t (fst e)) (get t' (fst e))) t in
  ok a b && ok b a.

Definition below_tree (p : path) (t : fs) : fs := filter (fun e => below p (fst e)) t.

Record spec2 := mkSpec2 {
  sp_roots : list path;                         (* session -> project root *)
  sp_hs : list (str * option json)              (* handle -> (id, state point when known) *)
}.

Definition root_of (s : spec2) (i : nat) : path := nth i (sp_roots s) [].
Definition hinfo (s : spec2) (h : nat) : str * option json := nth h (sp_hs s) ([], None).

(* expected outcome of open_job(id = x) given the ids present in the workspace *)
Definition expect_open (ids : list str) (x : str) : oval :=
  if Nat.ltb (length x) 32 then
    match filter (str_prefix x) ids with
    | [m] => VStr m
    | [] => VExn EKeyError
    | _ => VExn ELookupError
    end
  else if str_mem x ids then VStr x else VExn EKeyError.

Definition oval_is (a b : oval) : bool :=
  match a, b with
  | VStr x, VStr y => str_eqb x y
  | VExn x, VExn y => exn_eqb x y
  | VUnit, VUnit => true
  | VBool x, VBool y => Bool.eqb x y
  | VNum x, VNum y => N.eqb x y
  | _, _ => false
  end.

Definition json_is (o : oval) (sp : json) : bool :=
  match o with VJson v => json_same v sp | _ => false end.

(* one step: [t0] tree before, [t1] tree after; returns (ok, new spec state) *)
Definition ok_step (frepr : fl -> str) (s : spec2) (t0 t1 : fs) (st : step_C02) : bool * spec2 :=
  let pure := st_quiet st && tree_same_except [] t0 t1 in
  match st_op st with
  | ONewSession root => (tree_same_except [] t0 t1, mkSpec2 (sp_roots s ++ [root]) (sp_hs s))
  | OPlantDir _ | OPlantFile _ _ => (true, s)
  | OOpenSp si sp =>
      match st_out st with
      | VStr i => (pure && str_eqb i (calc_id frepr sp), mkSpec2 (sp_roots s) (sp_hs s ++ [(i, Some sp)]))
      | _ => (false, s)
      end
  | OOpenId si x =>
      let wsd := root_of s si ++ [WS] in
      let ids := tree_ids t0 wsd in
      let s' := match st_out st with
                | VStr m =>
                    (* the state point a handle opened by id stands for: what the file holds, if it validates *)
                    let osp := match file_json t0 (wsd ++ [m; SPF]) with
                               | Some v => if str_eqb (calc_id frepr v) m then Some v else None
                               | None => None
                               end in
                    mkSpec2 (sp_roots s) (sp_hs s ++ [(m, osp)])
                | _ => s
                end in
      (pure && oval_is (st_out st) (expect_open ids x), s')
  | OInit h false =>
      let '(i, osp) := hinfo s h in
      match osp with
      | None => (true, s)           (* a handle by id onto a planted directory: nothing is claimed *)
      | Some sp =>
          (* which session the handle lives in is irrelevant for the check: find the job directory by id *)
          let ok :=
            existsb (fun root =>
              let jd := root ++ [WS; i] in
              let f := jd ++ [SPF] in
              tree_same_except [jd] t0 t1 &&
              tree_same_except [f] (below_tree jd t0) (below_tree jd t1) &&
              match get t0 f with
              | Some (File c0) =>
                  (* an existing state point file is never rewritten without force; init may only
                     report success when that file parses to the handle's state point, and then it
                     touches nothing at all *)
                  node_same (get t0 f) (get t1 f) &&
                  (match c_json c0 with
                   | Some v => if json_same v sp then oval_is (st_out st) VUnit && pure
                               else oval_is (st_out st) (VExn EJobsCorrupted)
                   | None => oval_is (st_out st) (VExn EJobsCorrupted)
                   end)
              | _ =>
                  oval_is (st_out st) VUnit &&
                  match get t1 jd with Some Dir => true | _ => false end &&
                  match file_json t1 f with Some v => json_same v sp | None => false end
              end) (sp_roots s) in
          (ok, s)
      end
  | OInit h true =>
      (* force only matters for a file that does NOT hold the handle's state point: an initialised job persists exactly -
         a forced init of a job whose state point file already parses to the handle's state point succeeds and touches
         nothing (same bytes, same inode); for a damaged / foreign file nothing is claimed here *)
      let '(i, osp) := hinfo s h in
      match osp with
      | None => (true, s)
      | Some sp =>
          (existsb (fun root =>
             let jd := root ++ [WS; i] in
             let f := jd ++ [SPF] in
             tree_same_except [jd] t0 t1 &&
             match get t0 f with
             | Some (File c0) =>
                 match c_json c0 with
                 | Some v => if json_same v sp
                             then oval_is (st_out st) VUnit && pure && node_same (get t0 f) (get t1 f)
                             else true
                 | None => true
                 end
             | _ => true
             end) (sp_roots s), s)
      end
  | OSp h | OCached h =>
      let '(i, osp) := hinfo s h in
      match osp with
      | Some sp => (pure && json_is (st_out st) sp, s)
      | None => (pure, s)
      end
  | OIds si => (pure && match st_out st with
                        | VStrs l => strs_sameset l (tree_ids t0 (root_of s si ++ [WS]))
                        | _ => false end, s)
  | OLen si => (pure && oval_is (st_out st) (VNum (N.of_nat (length (tree_ids t0 (root_of s si ++ [WS]))))), s)
  | OContains si h =>
      let '(i, _) := hinfo s h in
      (pure && oval_is (st_out st) (VBool (str_mem i (tree_ids t0 (root_of s si ++ [WS])))), s)
  | _ => (true, s)
  end.

Fixpoint ok_steps (frepr : fl -> str) (s : spec2) (t0 : fs) (sts : list step_C02) : bool :=
  match sts with
  | [] => true
  | st :: rest =>
      let t1 := match st_tree st with VTree t => t | _ => t0 end in
      let '(ok, s') := ok_step frepr s t0 t1 st in
      ok && ok_steps frepr s' t1 rest
  end.

Definition holds_C02 (c : case_C02) : bool :=
  ok_steps (ftab_lookup (c2_ftab c)) (mkSpec2 [] []) [] (c2_steps c).

Definition violation_C02 (c : case_C02) : bool := negb (holds_C02 c).

Definition mismatches_C02 (cs : list case_C02) : list N := indices_where mismatch_C02 cs.
Definition violations_C02 (cs : list case_C02) : list N := indices_where violation_C02 cs.

(* ------------------------------------------------------------------ handle / project provenance, working directory *)
(* MODELLING STEP.  The model identifies a project by its canonical root (a [path]) and a job by project + id: HOW a
   Project object was obtained (init_project, get_project, the constructor; absolute path, path relative to the
   current working directory, a path with '..' or a trailing separator), what the project directory and its parents
   are called (glob / shell metacharacters, spaces, non-ASCII), and where the process's working directory points when
   an operation runs do not exist in the model.  What the harness does is a program over [item_C02]; what the model
   runs (and what the case records) is its erasure.  That the implementation canonicalises the path once, when the
   Project object is made, is part of the correspondence and is checked on every provenance the harness generates. *)
Inductive prov_C02 := PvInitAbs | PvInitRel | PvCtorAbs | PvCtorRel | PvGetAbs | PvGetRel | PvDotDot | PvSlash | PvRelSlash
                     | PvCtorNone | PvGetNone.   (* no path argument: the project of the current working directory *)

Inductive item_C02 :=
| IOp (o : op)                                  (* an operation of the model's language *)
| ISession (r : path) (pv : prov_C02)           (* a new Project object for root r, obtained in the way pv *)
| IChdir (d : nat).                             (* os.chdir to the d-th directory of the scratch area *)

Definition erase_item (it : item_C02) : list op :=
  match it with
  | IOp o => [o]
  | ISession r _ => [ONewSession r]
  | IChdir _ => []
  end.

Definition erase_C02 (prog : list item_C02) : list op := flat_map erase_item prog.

Definition run_items (frepr : fl -> str) (prog : list item_C02) : list oval := run frepr w0 0 (erase_C02 prog).
