(* ViewThm2.v — the analysis of _analyze_view on plain views, the from-scratch build, idempotence. *)
From SV Require Import Base View CorrC17 C17Proofs ViewFS ViewThm ViewTrie.
From Coq Require Import Lia.

(* ------------------------------------------------------------------ specifications and their link maps *)
Definition spec := list (path * path).          (* (tokens, job directory) *)
Definition lk_of (sp : spec) : links := map (fun e => (join_sep (key_of e), snd e)) sp.

Definition good_spec (sp : spec) : Prop :=
  NoDup (map fst sp) /\ forall e, In e sp -> Forall tok (fst e).

Lemma nosep_job : nosep s_job.
Proof. unfold nosep, s_job, SEP. simpl. intros [H|[H|[H|[]]]]; discriminate. Qed.

Lemma key_nosep : forall e, Forall tok (fst e) -> Forall nosep (key_of e).
Proof.
  intros e H. unfold key_of. apply Forall_app. split.
  - eapply Forall_impl; [|exact H]. intros a [_ [Ha _]]. exact Ha.
  - constructor; [apply nosep_job|constructor].
Qed.

Lemma key_ne : forall e, key_of e <> [].
Proof. intros e. unfold key_of. destruct (fst e); discriminate. Qed.

Lemma split_join_key : forall e, Forall tok (fst e) -> split_sep (join_sep (key_of e)) = key_of e.
Proof. intros e H. apply split_join; [apply key_ne|apply key_nosep; exact H]. Qed.

Lemma keys_of_lk : forall sp, (forall e, In e sp -> Forall tok (fst e)) -> keys_of (lk_of sp) = map key_of sp.
Proof.
  induction sp as [|e sp IH]; intro H; [reflexivity|].
  unfold keys_of, lk_of in *. simpl. rewrite split_join_key by (apply H; left; reflexivity).
  f_equal. apply IH. intros e' He'. apply H. right. exact He'.
Qed.

Lemma key_of_inj : forall e e', key_of e = key_of e' -> fst e = fst e'.
Proof. intros e e' H. unfold key_of in H. apply app_inj_tail in H. tauto. Qed.

Lemma lk_lookup : forall sp e, good_spec sp -> In e sp -> alookup (join_sep (key_of e)) (lk_of sp) = Some (snd e).
Proof.
  intros sp e [Hnd Ht] Hin. apply NoDup_alookup.
  - unfold lk_of. rewrite map_map. simpl.
    clear Hin. induction sp as [|e0 sp IH]; simpl; [constructor|].
    inversion Hnd as [|? ? Hn1 Hn2]; subst. constructor.
    + intro Hin. apply in_map_iff in Hin. destruct Hin as [e1 [E He1]].
      assert (key_of e1 = key_of e0).
      { rewrite <- (split_join_key e1), <- (split_join_key e0), E; auto.
        - apply Ht. left. reflexivity.
        - apply Ht. right. exact He1. }
      apply Hn1. rewrite <- (key_of_inj _ _ H). apply in_map. exact He1.
    + apply IH; auto. intros e' He'. apply Ht. right. exact He'.
  - unfold lk_of. apply in_map_iff. exists e. auto.
Qed.

(* ------------------------------------------------------------------ small list facts *)
Lemma nil_of_no_elements : forall X (l : list X), (forall x, ~ In x l) -> l = [].
Proof. intros X [|x l] H; [reflexivity|]. exfalso. apply (H x). left. reflexivity. Qed.

Lemma order_by_nil : forall hint, order_by hint [] = [].
Proof.
  intro hint. apply nil_of_no_elements. intros x Hx. apply order_by_In in Hx. exact Hx.
Qed.

Lemma filter_all : forall X (f : X -> bool) l, (forall x, In x l -> f x = true) -> filter f l = l.
Proof.
  induction l as [|x l IH]; intro H; simpl; [reflexivity|].
  rewrite (H x) by (left; reflexivity). f_equal. apply IH. intros y Hy. apply H. right. exact Hy.
Qed.

Lemma filter_none : forall X (f : X -> bool) l, (forall x, In x l -> f x = false) -> filter f l = [].
Proof.
  induction l as [|x l IH]; intro H; simpl; [reflexivity|].
  rewrite (H x) by (left; reflexivity). apply IH. intros y Hy. apply H. right. exact Hy.
Qed.

(* a duplicate-free list of keys of a specification is the key list of a sub-specification *)
Lemma entries_for : forall (sp : spec) ks,
  NoDup ks -> (forall k, In k ks -> In k (map key_of sp)) ->
  exists L, map key_of L = ks /\ (forall e, In e L -> In e sp) /\ NoDup (map fst L).
Proof.
  intros sp ks. induction ks as [|k ks IH]; intros Hnd Hin.
  - exists []. repeat split; [intros e []|constructor].
  - inversion Hnd as [|? ? Hn1 Hn2]; subst.
    destruct IH as [L [E [HL HLn]]]; auto. { intros k' Hk'. apply Hin. right. exact Hk'. }
    assert (Hk : In k (map key_of sp)) by (apply Hin; left; reflexivity).
    apply in_map_iff in Hk. destruct Hk as [e [Ee He]].
    exists (e :: L). simpl. rewrite Ee, E. split; [reflexivity|]. split.
    + intros e' [<-|He']; auto.
    + constructor; [|exact HLn]. intro Hf. apply in_map_iff in Hf. destruct Hf as [e' [E' He']].
      apply Hn1. rewrite <- E, <- Ee. apply in_map_iff. exists e'. split; [|exact He'].
      unfold key_of. rewrite E'. reflexivity.
Qed.

(* ------------------------------------------------------------------ the analysis on a prefix that does not exist *)
Section Scratch.
Variable P : path.
Hypothesis P_ne : P <> [].
Hypothesis P_plain : Forall plain P.

Lemma find_all_links_missing : forall w cwd,
  dirs_to w (removelast P) -> get w P = None -> find_all_links w cwd (A P) = [].
Proof.
  intros w cwd Hd Hg. unfold find_all_links. rewrite absolutize_A by exact P_ne.
  unfold A. rewrite walk_skip by reflexivity.
  rewrite (app_removelast_last [] P_ne).
  assert (Hp : Forall plain (removelast P ++ [last P []])) by (rewrite <- app_removelast_last; auto).
  apply Forall_app in Hp. destruct Hp as [Hp1 Hp2]. inversion Hp2; subst.
  change (removelast P ++ [last P []]) with (removelast P ++ last P [] :: []).
  rewrite walk_missing.
  - reflexivity.
  - exact Hp1.
  - assumption.
  - intros a b E. simpl. apply (Hd a b E).
  - simpl. rewrite <- app_removelast_last by exact P_ne. exact Hg.
Qed.

Lemma inv_missing : forall w, dirs_to w (removelast P) -> get w P = None -> Inv P w false [].
Proof.
  intros w Hd Hg. constructor; auto.
  - intro q. unfold kind_at. rewrite (get_none_app w P q Hg). destruct q; reflexivity.
  - intros e [].
Qed.

Lemma analysis_missing : forall hint w cwd lk,
  dirs_to w (removelast P) -> get w P = None ->
  analyze_view hint w cwd (A P) lk =
  {| a_obsolete := []; a_update := []; a_new := order_by hint (keys_of lk) |}.
Proof.
  intros hint w cwd lk Hd Hg. unfold analyze_view. rewrite find_all_links_missing by auto.
  simpl map. simpl rev. simpl pnodup. simpl filter. rewrite order_by_nil.
  f_equal.
  - match goal with |- context [filter ?f (find_dead_branches ?t [])] =>
      assert (E : filter f (find_dead_branches t []) = []) end.
    { apply nil_of_no_elements. intros b Hb. apply filter_In in Hb. destruct Hb as [Hb Hn].
      apply (analysis_dead [] (keys_of lk) b) in Hb. destruct Hb as [H1 _].
      simpl in H1. rewrite Bool.orb_false_r in H1. rewrite H1 in Hn. discriminate. }
    rewrite E. rewrite order_by_nil. reflexivity.
  - f_equal. apply filter_all. intros; reflexivity.
Qed.

Theorem from_scratch_inv : forall (sp : spec) hint w n cwd,
  good_spec sp -> dirs_to w (removelast P) -> get w P = None ->
  exists w' k L,
    update_view hint (w, n) cwd (A P) (lk_of sp) = ok (w', (n + k)%N) /\
    (sp <> [] -> (0 < k)%N) /\
    (forall e, In e L <-> In e sp) /\ NoDup (map fst L) /\
    Inv P w' (negb (is_nil sp)) (map (placed P cwd) L) /\ frame P w w'.
Proof.
  intros sp hint w n cwd [Hnd Ht] Hd Hg.
  unfold update_view. simpl fst. rewrite analysis_missing by auto. cbn [a_obsolete a_update a_new].
  rewrite keys_of_lk by exact Ht.
  assert (HndK : NoDup (map key_of sp)).
  { clear Ht. induction sp as [|e sp IH]; simpl; [constructor|]. inversion Hnd as [|? ? Hn1 Hn2]; subst.
    constructor; auto. intro Hin. apply in_map_iff in Hin. destruct Hin as [e' [E He']].
    apply Hn1. rewrite <- (key_of_inj _ _ E). apply in_map. exact He'. }
  destruct (entries_for sp (order_by hint (map key_of sp))) as [L [EL [HL HLn]]].
  { apply order_by_NoDup. exact HndK. }
  { intros k Hk. apply order_by_In in Hk. exact Hk. }
  assert (HLsp : forall e, In e L <-> In e sp).
  { intro e. split; [apply HL|]. intro He.
    assert (Hk : In (key_of e) (map key_of L)).
    { rewrite EL. apply order_by_In. apply in_map. exact He. }
    apply in_map_iff in Hk. destruct Hk as [e' [E He']].
    assert (e' = e); [|subst; exact He'].
    specialize (HL e' He'). apply key_of_inj in E.
    (* equal tokens in a duplicate-free specification: the same entry *)
    clear - Hnd HL He E. induction sp as [|x sp IH]; [destruct He|].
    simpl in Hnd. inversion Hnd as [|? ? Hn1 Hn2]; subst.
    destruct HL as [<-|HL]; destruct He as [<-|He]; auto.
    - exfalso. apply Hn1. rewrite E. apply in_map. exact He.
    - exfalso. apply Hn1. rewrite <- E. apply in_map. exact HL. }
  destruct (link_all_spec P P_ne P_plain L w false [] n cwd (lk_of sp) (inv_missing w Hd Hg)) as [w' [k [M [Hk [I F]]]]].
  { intros e He. apply Ht. apply HL. exact He. }
  { exact HLn. }
  { intros e _ []. }
  { intros e He. apply lk_lookup; [split; auto|apply HL; exact He]. }
  rewrite EL in M. simpl in I.
  destruct (order_by hint (map key_of sp)) as [|k0 ks0] eqn:EO.
  - (* nothing to link *)
    assert (sp = []).
    { destruct sp as [|e sp']; [reflexivity|]. exfalso.
      assert (In (key_of e) (order_by hint (map key_of (e :: sp')))) by (apply order_by_In; left; reflexivity).
      rewrite EO in H. exact H. }
    subst sp. destruct L as [|e L']; [|discriminate].
    exists w, 0%N, []. simpl. rewrite N.add_0_r.
    split; [reflexivity|]. split; [congruence|]. split; [tauto|]. split; [constructor|].
    split; [apply inv_missing; auto|intros r _; reflexivity].
  - exists w', k, L. rewrite app_nil_r. simpl remove_obsolete. simpl unlink_all. unfold ok at 1 2. cbv iota beta.
    split; [exact M|]. split; [intros _; apply Hk; destruct L; [discriminate|congruence]|].
    split; [exact HLsp|]. split; [exact HLn|].
    assert (Es : negb (is_nil sp) = negb (is_nil L)).
    { destruct sp as [|e sp']; destruct L as [|e' L']; try reflexivity.
      - exfalso. apply (HLsp e'). left. reflexivity.
      - discriminate. }
    rewrite Es. auto.
Qed.
End Scratch.

(* ------------------------------------------------------------------ vk only depends on the set of links *)
Lemma same_fst_same_entry : forall (c : list (path * str)) e e',
  NoDup (map fst c) -> In e c -> In e' c -> fst e = fst e' -> e = e'.
Proof.
  induction c as [|x c IH]; intros e e' Hnd He He' E; [destruct He|].
  simpl in Hnd. inversion Hnd as [|? ? Hn1 Hn2]; subst.
  destruct He as [<-|He]; destruct He' as [<-|He']; auto.
  - exfalso. apply Hn1. rewrite E. apply in_map. exact He'.
  - exfalso. apply Hn1. rewrite <- E. apply in_map. exact He.
Qed.

Lemma vk_ext : forall ex c1 c2 q,
  (forall e, In e c1 <-> In e c2) -> NoDup (map fst c1) -> NoDup (map fst c2) -> vk ex c1 q = vk ex c2 q.
Proof.
  intros ex c1 c2 q Hs N1 N2. unfold vk. destruct q as [|x q']; [reflexivity|].
  assert (Hfind : forall g : path * str -> bool,
             (forall e e', g e = true -> g e' = true -> fst e = fst e') -> find g c1 = find g c2).
  { intros g Hg.
    destruct (find g c1) as [e|] eqn:F1; destruct (find g c2) as [e'|] eqn:F2; auto.
    - apply find_some in F1. apply find_some in F2. destruct F1 as [I1 G1]. destruct F2 as [I2 G2].
      f_equal. apply (same_fst_same_entry c2); auto. apply Hs. exact I1.
    - apply find_some in F1. destruct F1 as [I1 G1].
      rewrite (find_none _ _ F2 e) in G1; [discriminate|apply Hs; exact I1].
    - apply find_some in F2. destruct F2 as [I2 G2].
      rewrite (find_none _ _ F1 e') in G2; [discriminate|apply Hs; exact I2]. }
  assert (Hex : forall g : path * str -> bool, existsb g c1 = existsb g c2).
  { intro g. apply Bool.eq_true_iff_eq. rewrite !existsb_exists.
    split; intros [e [I G]]; exists e; split; auto; apply Hs; exact I. }
  rewrite Hfind.
  - rewrite Hex. reflexivity.
  - intros e e' G1 G2. apply path_eqb_eq in G1. apply path_eqb_eq in G2.
    rewrite G1 in G2. apply app_inj_tail in G2. tauto.
Qed.

(* the from-scratch build, pointwise: below the prefix exactly the links of the specification with
   their relative targets and the directories leading to them; everything else keeps its kind *)
Theorem from_scratch_exact : forall P (sp : spec) hint w n cwd,
  P <> [] -> Forall plain P -> good_spec sp -> dirs_to w (removelast P) -> get w P = None ->
  exists w' k,
    update_view hint (w, n) cwd (A P) (lk_of sp) = ok (w', (n + k)%N) /\
    (sp <> [] -> (0 < k)%N) /\
    (forall q, kind_at w' (P ++ q) = vk (negb (is_nil sp)) (map (placed P cwd) sp) q) /\
    (forall r, is_prefix P r = false -> kind_at w' r = kind_at w r).
Proof.
  intros P sp hint w n cwd Pne Ppl Hg Hd Hn.
  destruct (from_scratch_inv P Pne Ppl sp hint w n cwd Hg Hd Hn) as [w' [k [L [M [Hk [HL [HLn [I F]]]]]]]].
  exists w', k. split; [exact M|]. split; [exact Hk|]. split; [|exact F].
  intro q. rewrite (inv_kinds _ _ _ _ I). apply vk_ext.
  - intro e. rewrite !in_map_iff. split; intros [e0 [E He0]]; exists e0; split; auto; apply HL; exact He0.
  - rewrite map_map. simpl. exact HLn.
  - rewrite map_map. simpl. destruct Hg as [Hg _]. exact Hg.
Qed.
