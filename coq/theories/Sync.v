(* Sync.v — executable model of signac/sync.py (sync_jobs, sync_projects, _sync_job_workspaces,
   FileSync, DocSync, _FileModifyProxy, _DocProxy), Project.clone as used by sync_projects,
   filecmp.dircmp / shutil.copytree as used by them.

   The model follows the code path by path, INCLUDING ITS DEFECTS.  Every defect is localised in one
   definition that consults a switch of the record [cfg]; [cfg_current] describes /repo as it is (seven
   of the repairs of notes/C13-15.md have landed), [cfg_fixed] has every proposed repair.  When a fix lands in /repo, flip the
   corresponding field of [cfg_current] (nothing else has to change). *)
From SV Require Import Base Json Canon.

(* ------------------------------------------------------------------ file trees *)
Inductive content :=
| Bytes (b : str)          (* an ordinary file *)
| JDoc (v : json).         (* a JSON file written by json.dumps (state point, documents) *)

Inductive node :=
| File (c : content) (mt : Z)
| Dir (es : list (str * node)).      (* entries in os.scandir order *)

Definition dir := list (str * node).

Section NodeInd.
  Variable P : node -> Prop.
  Hypothesis Hfile : forall c m, P (File c m).
  Hypothesis Hdir : forall es, Forall (fun kn => P (snd kn)) es -> P (Dir es).
  Fixpoint node_ind' (n : node) : P n :=
    match n with
    | File c m => Hfile c m
    | Dir es =>
        Hdir es ((fix go (l : list (str * node)) : Forall (fun kn => P (snd kn)) l :=
                    match l with
                    | [] => Forall_nil _
                    | kn :: l' => Forall_cons kn (node_ind' (snd kn)) (go l')
                    end) es)
    end.
End NodeInd.

(* a sync'ed project: the project directory (only the project document and stray files next to it
   matter) and the workspace listing id -> job directory, in the iteration order of list(project) *)
Record project := { p_top : dir; p_ws : dir }.

(* ------------------------------------------------------------------ switches for the known defects *)
Record cfg := {
  fix_F3 : bool;      (* _FileModifyProxy.copy: dry run no longer raises TypeError            *)
  fix_F4 : bool;      (* _FileModifyProxy.copytree: dry run creates nothing                    *)
  fix_F5 : bool;      (* sync_projects forwards deep to sync_jobs                              *)
  fix_F16 : bool;     (* ByKey recursion wraps the nested destination in a _DocProxy           *)
  fix_root : bool;    (* ByKey recursion passes root + key + "." instead of key + "."          *)
  fix_excl : bool;    (* exclude honoured inside copytree (left-only directories, cloned jobs) *)
  fix_dryinit : bool; (* dry run into an uninitialised destination job does not list it        *)
  fix_ignore : bool;  (* dircmp(..., ignore=[]): names of filecmp.DEFAULT_IGNORES are synchronised *)
  fix_implicit : bool;(* the two implicit exclude patterns are escaped and anchored              *)
  fix_shared : bool;  (* ByKey keeps its skipped keys per call (thread pool) and clear() is gated   *)
  fix_own : bool;     (* only the job's OWN state point / document (top level) are left out (2602a0e) *)
  fix_funny : bool;   (* a file on one side and a directory on the other raises FileSyncConflict (4239e5d) *)
  fix_keep : bool     (* a cloned job keeps its two own files at its top level only (618e7cc)              *)
}.

(* /repo at the current head: F3 (9f55003), F5 (0ec1e88), F4 (6b3ddc7), F16 + root (7de64dd), dryinit
   (402f6f3), ignore (0fb80cd), implicit (af70570), ByKey conflicts per call + gated clear() (c3330a7) are
   exclude patterns inside copytree / cloned jobs (74ea1a0), own files only at the top level (2602a0e) and
   file / directory clashes (4239e5d) are repaired: every switch is on, cfg_current and cfg_fixed coincide (the
   repairs 17ddeb7 — caller's exclude list — and 23d4b64 — filecmp's cache — concern state the model never had); the switches remain as the record of what each repair changed *)
Definition cfg_current : cfg :=
  {| fix_F3 := true; fix_F4 := true; fix_F5 := true; fix_F16 := true; fix_root := true;
     fix_excl := true; fix_dryinit := true; fix_ignore := true; fix_implicit := true;
     fix_shared := true; fix_own := true; fix_funny := true; fix_keep := true |}.
Definition cfg_fixed : cfg :=
  {| fix_F3 := true; fix_F4 := true; fix_F5 := true; fix_F16 := true; fix_root := true;
     fix_excl := true; fix_dryinit := true; fix_ignore := true; fix_implicit := true;
     fix_shared := true; fix_own := true; fix_funny := true; fix_keep := true |}.

(* ------------------------------------------------------------------ options *)
Inductive fstrategy :=
| FS_always | FS_never | FS_update
| FS_custom (f : str -> bool).            (* verdict as a function of the path relative to the job *)

Inductive docsync :=
| DS_bykey (ks : option (str -> option bool))   (* key strategy: predicate / regex as a function of the dotted
                                                   name; None = the callback raises (KeyboardInterrupt, SystemExit) *)
| DS_update | DS_nosync | DS_copy.

Record opts := {
  o_strategy : option fstrategy;
  o_docsync : docsync;
  o_recursive : bool;
  o_exclude : str -> bool;                (* any(re.match(p, name) for p in user patterns) *)
  o_selection : option (list str);        (* {str(j) for j in selection} *)
  o_check_schema : bool;
  o_deep : bool;
  o_dry_run : bool;
  o_top : bool                            (* not a user option: the walk is at the top level of the job directory
                                             (`not subdir`); true at every entry point *)
}.

Definition set_dry (o : opts) (b : bool) : opts :=
  {| o_strategy := o_strategy o; o_docsync := o_docsync o; o_recursive := o_recursive o;
     o_exclude := o_exclude o; o_selection := o_selection o; o_check_schema := o_check_schema o;
     o_deep := o_deep o; o_dry_run := b; o_top := o_top o |}.

Definition set_top (o : opts) (b : bool) : opts :=
  {| o_strategy := o_strategy o; o_docsync := o_docsync o; o_recursive := o_recursive o;
     o_exclude := o_exclude o; o_selection := o_selection o; o_check_schema := o_check_schema o;
     o_deep := o_deep o; o_dry_run := o_dry_run o; o_top := b |}.

(* ------------------------------------------------------------------ constants *)
Definition FN_SP : str := [115;105;103;110;97;99;95;115;116;97;116;101;112;111;105;110;116;46;106;115;111;110]%N.
Definition FN_DOC : str := [115;105;103;110;97;99;95;106;111;98;95;100;111;99;117;109;101;110;116;46;106;115;111;110]%N.
Definition FN_PDOC : str := [115;105;103;110;97;99;95;112;114;111;106;101;99;116;95;100;111;99;117;109;101;110;116;46;106;115;111;110]%N.
Definition DEFAULT_IGNORES : list str :=     (* filecmp.DEFAULT_IGNORES *)
  [[82;67;83]%N; [67;86;83]%N; [116;97;103;115]%N; [46;103;105;116]%N; [46;104;103]%N;
   [46;98;122;114]%N; [95;100;97;114;99;115]%N; [95;95;112;121;99;97;99;104;101;95;95]%N].
Definition TILDE : N := 126%N.
Definition SLASH : N := 47%N.
Definition DOT : N := 46%N.

(* modification time of everything written during the call; the harness sets all earlier mtimes
   explicitly and far below this value *)
Definition NOW : Z := (2 ^ 62)%Z.

(* ------------------------------------------------------------------ Python == on JSON values *)
Definition b2z (b : bool) : Z := if b then 1%Z else 0%Z.
Definition fl_is_zero (f : fl) : bool := Z.eqb (fst f) 0.
Definition fl_int_eq (z : Z) (f : fl) : bool :=
  if (0 <=? snd f)%Z then Z.eqb z (fst f * 2 ^ snd f) else false.
Definition fl_fl_eq (a b : fl) : bool := fl_eqb a b || (fl_is_zero a && fl_is_zero b).

Fixpoint py_eq (a b : json) {struct a} : bool :=
  match a, b with
  | JNull, JNull => true
  | JBool x, JBool y => Bool.eqb x y
  | JBool x, JInt y => Z.eqb (b2z x) y
  | JInt y, JBool x => Z.eqb (b2z x) y
  | JBool x, JFloat f => fl_int_eq (b2z x) f
  | JFloat f, JBool x => fl_int_eq (b2z x) f
  | JInt x, JInt y => Z.eqb x y
  | JInt x, JFloat f => fl_int_eq x f
  | JFloat f, JInt x => fl_int_eq x f
  | JFloat x, JFloat y => fl_fl_eq x y
  | JStr x, JStr y => str_eqb x y
  | JArr x, JArr y =>
      (fix go (x y : list json) : bool :=
         match x, y with
         | [], [] => true
         | a :: x', b :: y' => py_eq a b && go x' y'
         | _, _ => false
         end) x y
  | JObj x, JObj y =>
      Nat.eqb (length x) (length y)
      && (fix go (x : list (str * json)) : bool :=
            match x with
            | [] => true
            | (k, a) :: x' =>
                match alookup k y with Some b => py_eq a b | None => false end && go x'
            end) x
  | _, _ => false
  end.

Definition is_obj (v : json) : bool := match v with JObj _ => true | _ => false end.
Definition kvs := list (str * json).
Definition kvs_eqb (a b : kvs) : bool := json_eqb (JObj a) (JObj b).

(* ------------------------------------------------------------------ generic helpers *)
Fixpoint insert_str (s : str) (l : list str) : list str :=
  match l with
  | [] => [s]
  | x :: l' => if str_leb s x then s :: l else x :: insert_str s l'
  end.
Definition sort_strs (l : list str) : list str := fold_right insert_str [] l.

Definition wstate := (dir * option exn)%type.

(* run the steps of a loop in order, stopping at the first exception (the state reached so far stays) *)
Fixpoint run_steps {A} (f : A -> dir -> wstate) (l : list A) (d : dir) : wstate :=
  match l with
  | [] => (d, None)
  | x :: l' => match f x d with
               | (d', None) => run_steps f l' d'
               | r => r
               end
  end.

(* thread-pool variant: every step runs (on the state left by the previous ones), the first exception
   in list order is the one reported *)
Fixpoint run_steps_all {A} (f : A -> dir -> wstate) (l : list A) (d : dir) : wstate :=
  match l with
  | [] => (d, None)
  | x :: l' => let '(d', e) := f x d in
               let '(d'', e') := run_steps_all f l' d' in
               (d'', match e with Some _ => e | None => e' end)
  end.

Definition has_file (fn : str) (d : dir) : bool :=
  match alookup fn d with Some (File _ _) => true | _ => false end.

Definition join (subdir fn : str) : str :=       (* os.path.join *)
  match subdir with [] => fn | _ => subdir ++ [SLASH] ++ fn end.

(* re.match(pattern, name) for a pattern made of literal characters and '.' (the two implicit
   exclude patterns are used un-escaped and un-anchored at the end) *)
Fixpoint re_match_lit (pat name : str) : bool :=
  match pat, name with
  | [], _ => true
  | p :: pat', c :: name' =>
      (if N.eqb p DOT then negb (N.eqb c 10) else N.eqb p c) && re_match_lit pat' name'
  | _ :: _, [] => false
  end.

Fixpoint depth (n : node) : nat :=
  match n with
  | File _ _ => O
  | Dir es => S ((fix go (l : list (str * node)) : nat :=
                    match l with [] => O | (_, x) :: l' => Nat.max (depth x) (go l') end) es)
  end.

(* shutil.copy of every file below a directory: same bytes, fresh mtime *)
Fixpoint touch (n : node) : node :=
  match n with
  | File c _ => File c NOW
  | Dir es => Dir ((fix go (l : list (str * node)) : list (str * node) :=
                      match l with [] => [] | (k, x) :: l' => (k, touch x) :: go l' end) es)
  end.

Section Model.
  Variable frepr : fl -> str.        (* float.__repr__, for the bytes of JSON files *)
  Variable cf : cfg.

  Definition content_bytes (c : content) : str :=
    match c with Bytes b => b | JDoc v => dumps frepr v end.

  Definition bytes_eqb (a b : str) : bool := list_eqb N.eqb a b.

  (* ---------------------------------------------------------------- filecmp.cmp / dircmp *)
  (* shallow: equal (size, mtime) => same without reading; otherwise sizes, then bytes.  deep: bytes *)
  Definition file_same (deep : bool) (c1 : content) (m1 : Z) (c2 : content) (m2 : Z) : bool :=
    let b1 := content_bytes c1 in
    let b2 := content_bytes c2 in
    (negb deep && Nat.eqb (length b1) (length b2) && Z.eqb m1 m2) || bytes_eqb b1 b2.

  Definition ignored (n : str) : bool := if fix_ignore cf then false else str_mem n DEFAULT_IGNORES.
  Definition names (d : dir) : list str :=
    sort_strs (filter (fun n => negb (ignored n)) (map fst d)).

  Inductive cls := LeftOnly | Same | Diff | SubDir | Funny.

  Definition classify (deep : bool) (n : str) (sdir ddir : dir) : cls :=
    match alookup n sdir, alookup n ddir with
    | _, None => LeftOnly
    | Some (File c1 m1), Some (File c2 m2) => if file_same deep c1 m1 c2 m2 then Same else Diff
    | Some (Dir _), Some (Dir _) => SubDir
    | _, _ => Funny
    end.

  Definition is_cls (a b : cls) : bool :=
    match a, b with
    | LeftOnly, LeftOnly | Same, Same | Diff, Diff | SubDir, SubDir | Funny, Funny => true
    | _, _ => false
    end.

  (* ---------------------------------------------------------------- _FileModifyProxy *)
  (* copy(): F3 — with dry_run and root set (always, through the entry points) the call
     _safe_relpath(src, self.root) raises TypeError before anything else happens *)
  Definition copy_file (dry : bool) (n : str) (c : content) (d : dir) : wstate :=
    if dry then (if fix_F3 cf then (d, None) else (d, Some ETypeError))
    else (aset n (File c NOW) d, None).

  (* shutil.copytree under a dry-run proxy (F4): os.makedirs is real, the files go through copy();
     returns the skeleton created so far and whether copy() raised *)
  Fixpoint skel_node (n : node) : node * bool :=
    match n with
    | File c m => (n, negb (fix_F3 cf))
    | Dir es =>
        let '(s, r) :=
          (fix go (l : list (str * node)) : dir * bool :=
             match l with
             | [] => ([], false)
             | (k, x) :: l' =>
                 match x with
                 | File _ _ => if fix_F3 cf then go l' else ([], true)
                 | Dir _ =>
                     let '(s, r) := skel_node x in
                     if r then ([(k, s)], true)
                     else let '(s2, r2) := go l' in ((k, s) :: s2, r2)
                 end
             end) es in
        (Dir s, r)
    end.

  (* with fix_excl the repaired copytree skips excluded names at every level *)
  Fixpoint prune (ex : str -> bool) (n : node) : node :=
    match n with
    | File _ _ => n
    | Dir es => Dir ((fix go (l : list (str * node)) : list (str * node) :=
                        match l with
                        | [] => []
                        | (k, x) :: l' => if ex k then go l' else (k, prune ex x) :: go l'
                        end) es)
    end.

  (* the ignore function of a clone (618e7cc): [ex_top] decides directly in the job directory, [ex] below it *)
  Definition prune_top (ex_top ex : str -> bool) (n : node) : node :=
    match n with
    | File _ _ => n
    | Dir es => Dir ((fix go (l : list (str * node)) : list (str * node) :=
                        match l with
                        | [] => []
                        | (k, x) :: l' => if ex_top k then go l' else (k, prune ex x) :: go l'
                        end) es)
    end.

  Definition copy_tree_gen (pr : node -> node) (dry : bool) (n : str) (src : node) (d : dir) : wstate :=
    let src := if fix_excl cf then pr src else src in
    if dry then
      if fix_F4 cf then (d, None)
      else let '(s, r) := skel_node src in (d ++ [(n, s)], if r then Some ETypeError else None)
    else (d ++ [(n, touch src)], None).

  Definition copy_tree (ex : str -> bool) := copy_tree_gen (prune ex).

  (* ---------------------------------------------------------------- FileSync strategies *)
  Definition verdict (s : fstrategy) (rel : str) (m_src m_dst : Z) : bool :=
    match s with
    | FS_always => true
    | FS_never => false
    | FS_update => Z.gtb m_src m_dst
    | FS_custom f => f rel
    end.

  (* ---------------------------------------------------------------- sync_jobs: exclude list *)
  Definition implicit_match (pat n : str) : bool :=
    if fix_implicit cf then str_eqb pat n else re_match_lit pat n.
  (* the job's own files: the state point, and the document unless documents are copied like files *)
  Definition own_file (o : opts) (n : str) : bool :=
    str_eqb FN_SP n || match o_docsync o with DS_copy => false | _ => str_eqb FN_DOC n end.

  (* `_skip(fn)`: a user pattern matches, or — at the top level of the job only — it is one of the job's own
     files.  Before 2602a0e the two names were appended to the pattern list and hence skipped at every depth. *)
  Definition excluded (o : opts) (n : str) : bool :=
    if fix_own cf then o_exclude o n || (o_top o && own_file o n)
    else o_exclude o n || implicit_match FN_SP n
         || match o_docsync o with DS_copy => false | _ => implicit_match FN_DOC n end.

  (* what copytree's ignore function sees for a left-only directory: the pattern list *)
  Definition tree_excl (o : opts) (n : str) : bool :=
    if fix_own cf then o_exclude o n
    else o_exclude o n || implicit_match FN_SP n
         || match o_docsync o with DS_copy => false | _ => implicit_match FN_DOC n end.

  (* ---------------------------------------------------------------- _sync_job_workspaces *)
  Fixpoint sync_ws (fuel : nat) (o : opts) (deep : bool) (sdir ddir : dir) (subdir : str) : wstate :=
    match fuel with
    | O => (ddir, Some EOther)
    | S fuel' =>
        let dry := o_dry_run o in
        let ns := names sdir in
        let of_cls c := filter (fun n => is_cls (classify deep n sdir ddir) c) ns in
        let step1 (n : str) (d : dir) : wstate :=
          if excluded o n then (d, None)
          else match alookup n sdir with
               | Some (File c _) => copy_file dry n c d
               | Some (Dir es) =>
                   if o_recursive o then copy_tree (tree_excl o) dry n (Dir es) d else (d, None)
               | None => (d, None)
               end in
        let step2 (n : str) (d : dir) : wstate :=
          if excluded o n then (d, None)
          else match o_strategy o with
               | None => (d, Some EFileSyncConflict)
               | Some s =>
                   match alookup n sdir, alookup n d with
                   | Some (File c1 m1), Some (File _ m2) =>
                       if verdict s (join subdir n) m1 m2 then copy_file dry n c1 d else (d, None)
                   | _, _ => (d, None)
                   end
               end in
        let step3 (n : str) (d : dir) : wstate :=
          if o_recursive o then
            match alookup n sdir, alookup n d with
            | Some (Dir ses), Some (Dir des) =>
                let '(des', e) := sync_ws fuel' (set_top o false) deep ses des (join subdir n) in
                (aset n (Dir des') d, e)
            | _, _ => (d, None)
            end
          else (d, None) in
        match run_steps step1 (of_cls LeftOnly) ddir with
        | (d1, None) =>
            match run_steps step2 (of_cls Diff) d1 with
            | (d2, None) =>
                (* 4239e5d: a name that is a file on one side and a directory on the other cannot be
                   synchronised: FileSyncConflict, whatever the strategy *)
                if fix_funny cf && existsb (fun n => negb (excluded o n)) (of_cls Funny)
                then (d2, Some EFileSyncConflict)
                else run_steps step3 (of_cls SubDir) d2
            | r => r
            end
        | r => r
        end
    end.

  (* ---------------------------------------------------------------- DocSync *)
  Definition pset (dry : bool) (k : str) (v : json) (d : kvs) : kvs :=   (* _DocProxy.__setitem__ *)
    if dry then d else aset k v d.

  Definition child_root (root k : str) : str :=
    if fix_root cf then root ++ k ++ [DOT] else k ++ [DOT].
  (* F16: dst[key] of a _DocProxy is the raw synced dict, so nested writes are not gated *)
  Definition nested_dry (dry : bool) : bool := if fix_F16 cf then dry else false.

  Definition selected (ks : option (str -> option bool)) (name : str) : bool :=
    match ks with Some f => match f name with Some b => b | None => false end | None => false end.
  (* the key strategy callback does not return: it raises a BaseException (an interactive strategy
     interrupted with Ctrl-C, sys.exit() in a callback); reported as EOther *)
  Definition ks_raises (ks : option (str -> option bool)) (name : str) : bool :=
    match ks with Some f => match f name with None => true | Some _ => false end | None => false end.

  (* ByKey.__call__(src, dst, root); returns the destination value, the skipped keys, an exception *)
  Fixpoint bykey (ks : option (str -> option bool)) (sv dv : json) (root : str) (dry : bool)
           (sk : list str) {struct sv} : json * list str * option exn :=
    match sv with
    | JObj skvs =>
        if py_eq sv dv then (dv, sk, None)
        else
          match dv with
          | JObj dkvs =>
              let '(d', sk', e) :=
                (fix loop (items : list (str * json)) (d : kvs) (sk : list str)
                   : kvs * list str * option exn :=
                   match items with
                   | [] => (d, sk, None)
                   | (k, v) :: rest =>
                       match alookup k d with
                       | Some dvk =>
                           if py_eq dvk v then loop rest d sk
                           else
                             match v with
                             | JObj _ =>
                                 let '(dvk', sk', e) :=
                                   bykey ks v dvk (child_root root k) (nested_dry dry) sk in
                                 let d' := aset k dvk' d in
                                 match e with
                                 | Some _ => (d', sk', e)
                                 | None => loop rest d' sk'
                                 end
                             | _ =>
                                 if ks_raises ks (root ++ k) then (d, sk, Some EOther)
                                 else if selected ks (root ++ k) then loop rest (pset dry k v d) sk
                                 else loop rest d ((root ++ k) :: sk)
                             end
                       | None => loop rest (pset dry k v d) sk
                       end
                   end) skvs dkvs sk in
              (JObj d', sk', e)
          | _ =>
              (* `key in dst`, dst[key], dst[key] = value on a non-mapping: TypeError on the first key *)
              match skvs with [] => (dv, sk, None) | _ :: _ => (dv, sk, Some ETypeError) end
          end
    | _ => (dv, sk, None)
    end.

  Definition bykey_top (ks : option (str -> option bool)) (sdoc ddoc : kvs) (dry : bool) : kvs * option exn :=
    let '(d, sk, e) := bykey ks (JObj sdoc) (JObj ddoc) [] dry [] in
    let d' := match d with JObj x => x | _ => ddoc end in
    match e with
    | Some x => (d', Some x)
    | None =>
        match sk, ks with
        | _ :: _, None => (d', Some EDocumentSyncConflict)
        | _, _ => (d', None)
        end
    end.

  Definition ds_update (sdoc ddoc : kvs) (dry : bool) : kvs :=
    fold_left (fun d kv => pset dry (fst kv) (snd kv) d) sdoc ddoc.

  Definition apply_docsync (ds : docsync) (sdoc ddoc : kvs) (dry : bool) : kvs * option exn :=
    match ds with
    | DS_bykey ks => bykey_top ks sdoc ddoc dry
    | DS_update => (ds_update sdoc ddoc dry, None)
    | _ => (ddoc, None)
    end.

  Definition read_doc (fn : str) (d : dir) : kvs :=
    match alookup fn d with Some (File (JDoc (JObj x)) _) => x | _ => [] end.

  Definition write_doc (fn : str) (x : kvs) (d : dir) : dir := aset fn (File (JDoc (JObj x)) NOW) d.

  (* `if src.document != dst.document: with proxy.create_doc_backup(dst.document) as p: doc_sync(src.document, p)` *)
  Definition backup_name (fn : str) : str := fn ++ [TILDE].

  (* the part of create_doc_backup / create_backup around the document function: given the destination
     document before (ddoc), what the document function made of it (d') and how it ended (e) *)
  Definition doc_finish (dry : bool) (fn : str) (ddir : dir) (ddoc d' : kvs) (e : option exn) : wstate :=
    (* every assignment through the synced dict rewrites the file *)
    let put (base : dir) : dir := if kvs_eqb d' ddoc then base else write_doc fn d' base in
    match ddoc, alookup fn ddir with
    | _ :: _, Some (File c mt) =>
        (* create_backup(fn): refuse if fn~ exists; _copy2(fn, fn~); on any exception _copy2(fn~, fn);
           finally _remove(fn~) — all three gated by dry_run *)
        match alookup (backup_name fn) ddir with
        | Some (File _ _) => (ddir, Some ERuntimeError)
        | Some (Dir _) => (ddir, Some EOther)                 (* not modelled *)
        | None =>
            if dry then (put ddir, e)
            else
              let worked := put (ddir ++ [(backup_name fn, File c mt)]) in
              match e with
              | None => (aremove (backup_name fn) worked, None)
              | Some x => (aremove (backup_name fn) (aset fn (File c mt) worked), Some x)
              end
        end
    | _, _ =>
        (* `not len(proxy)` or no file: in-memory backup.  roll-back = proxy.clear() (NOT gated by
           dry_run) followed by proxy.update(backup) (gated) *)
        match e with
        | None => (put ddir, None)
        | Some x =>
            (* with fix_shared (c3330a7) clear() honours dry_run as well: a dry run rolls nothing back *)
            (if dry && fix_shared cf then ddir else write_doc fn (if dry then [] else ddoc) ddir, Some x)
        end
    end.

  Definition sync_doc (o : opts) (fn : str) (sdir ddir : dir) : wstate :=
    match o_docsync o with
    | DS_nosync | DS_copy => (ddir, None)
    | ds =>
        let sdoc := read_doc fn sdir in
        let ddoc := read_doc fn ddir in
        let dry := o_dry_run o in
        if py_eq (JObj sdoc) (JObj ddoc) then (ddir, None)
        else
          let '(d', e) := apply_docsync ds sdoc ddoc dry in
          doc_finish dry fn ddir ddoc d' e
    end.

  (* ---------------------------------------------------------------- sync_jobs *)
  Definition sync_jobs_m (o : opts) (deep : bool) (from_project : bool)
             (src dst : option dir) (dsp : json) : option dir * option exn :=
    match src with
    | None => (dst, None)                          (* `if src not in src._project: return` *)
    | Some sdir =>
        let dry := o_dry_run o in
        (* `if not dry_run: dst.init()` — dry_run is the (truthy) proxy when called from sync_projects *)
        let dst1 := if from_project || dry then dst
                    else match dst with None => Some [(FN_SP, File (JDoc dsp) NOW)] | _ => dst end in
        match dst1 with
        | None =>
            (* dry run into an uninitialised job: dircmp lists a missing directory -> FileNotFoundError *)
            if fix_dryinit cf then (None, None) else (None, Some EOSError)
        | Some ddir =>
            let '(d1, e1) := sync_ws (S (depth (Dir sdir))) (set_top o true) deep sdir ddir [] in
            match e1 with
            | Some _ => (Some d1, e1)
            | None => let '(d2, e2) := sync_doc o FN_DOC sdir d1 in (Some d2, e2)
            end
        end
    end.

  (* ---------------------------------------------------------------- sync_projects *)
  Definition sp_entries (jd : node) : kvs :=
    match jd with
    | Dir es => match alookup FN_SP es with Some (File (JDoc (JObj x)) _) => x | _ => [] end
    | _ => []
    end.
  (* detect_schema for flat state points with int / str values: the set of (key, value) *)
  Definition schema_of (ws : dir) : kvs := flat_map (fun kn => sp_entries (snd kn)) ws.
  Definition kv_mem (kv : str * json) (l : kvs) : bool :=
    existsb (fun x => str_eqb (fst kv) (fst x) && json_eqb (snd kv) (snd x)) l.
  Definition schema_eq (a b : kvs) : bool :=
    forallb (fun x => kv_mem x b) a && forallb (fun x => kv_mem x a) b.
  Definition nonempty {A} (l : list A) : bool := match l with [] => false | _ => true end.

  Definition schema_conflict (o : opts) (src dst : project) : bool :=
    o_check_schema o && nonempty (schema_of (p_ws dst)) && nonempty (schema_of (p_ws src))
    && negb (schema_eq (schema_of (p_ws src)) (schema_of (p_ws dst))).

  Definition job_selected (o : opts) (id : str) : bool :=
    match o_selection o with None => true | Some ids => str_mem id ids end.

  Definition proj_deep (o : opts) : bool := if fix_F5 cf then o_deep o else false.   (* F5 *)

  Definition own_name (k : str) : bool := str_eqb k FN_SP || str_eqb k FN_DOC.
  Definition clone_prune (o : opts) : node -> node :=
    if fix_keep cf then prune_top (fun k => o_exclude o k && negb (own_name k)) (o_exclude o)
    else prune (fun k => o_exclude o k && negb (own_name k)).

  (* _clone_or_sync *)
  Definition clone_or_sync (o : opts) (kn : str * node) (ws : dir) : wstate :=
    let '(id, n) := kn in
    match n with
    | Dir sdir =>
        match alookup id ws with
        | None =>
            (* Project.clone: (with fix_excl) the user patterns apply; the state point and the document are
               protected — since 618e7cc directly in the job directory only, before that at every depth *)
            copy_tree_gen (clone_prune o) (o_dry_run o) id n ws
        | Some (Dir ddir) =>
            let '(d', e) := sync_jobs_m o (proj_deep o) true (Some sdir) (Some ddir) JNull in
            (match d' with Some x => aset id (Dir x) ws | None => ws end, e)
        | Some (File _ _) => (ws, Some EOther)
        end
    | File _ _ => (ws, None)
    end.

  (* [all]: with parallel=True/int the jobs after a failing one may or may not have been processed when
     the exception surfaces; all=false is the sequential loop (and the lower bound of what a pool does),
     all=true the upper bound *)
  (* ---------------------------------------------------------------- thread pool: shared ByKey state
     With parallel=True/int all worker threads use ONE ByKey instance, hence one skipped_keys set.  A job whose
     ByKey loop runs after another thread recorded a conflict raises DocumentSyncConflict at the end of its own
     (conflict-free) merge; create_doc_backup then rolls back — through the un-gated proxy.clear() when the
     destination document was empty.  This is the outcome of such a job. *)
  Definition sync_doc_spurious (o : opts) (fn : str) (sdir ddir : dir) : wstate :=
    match o_docsync o with
    | DS_bykey None =>
        let sdoc := read_doc fn sdir in
        let ddoc := read_doc fn ddir in
        let dry := o_dry_run o in
        if py_eq (JObj sdoc) (JObj ddoc) then (ddir, None)
        else
          let '(d', e) := apply_docsync (DS_bykey None) sdoc ddoc dry in
          doc_finish dry fn ddir ddoc d' (match e with None => Some EDocumentSyncConflict | x => x end)
    | _ => sync_doc o fn sdir ddir
    end.

  Definition clone_or_sync_spurious (o : opts) (kn : str * node) (ws : dir) : wstate :=
    let '(id, n) := kn in
    match n, alookup id ws with
    | Dir sdir, Some (Dir ddir) =>
        let '(d1, e1) := sync_ws (S (depth (Dir sdir))) (set_top o true) (proj_deep o) sdir ddir [] in
        match e1 with
        | Some _ => (aset id (Dir d1) ws, e1)
        | None => let '(d2, e2) := sync_doc_spurious o FN_DOC sdir d1 in (aset id (Dir d2) ws, e2)
        end
    | _, _ => clone_or_sync o kn ws
    end.

  Definition sync_projects_m (all : bool) (o : opts) (src dst : project) : project * option exn :=
    if schema_conflict o src dst then (dst, Some ESchemaSyncConflict)
    else
      let '(top', e) := sync_doc o FN_PDOC (p_top src) (p_top dst) in
      match e with
      | Some _ => ({| p_top := top'; p_ws := p_ws dst |}, e)
      | None =>
          let jobs := filter (fun kn => job_selected o (fst kn)) (p_ws src) in
          let '(ws', e') := (if all then run_steps_all else run_steps) (clone_or_sync o) jobs (p_ws dst) in
          ({| p_top := top'; p_ws := ws' |}, e')
      end.

  (* ---------------------------------------------------------------- entry points *)
  Inductive entry :=
  | E_project                                  (* Project.sync / sync_projects *)
  | E_job (sid did : str) (dsp : json).        (* Job.sync / sync_jobs: source id, destination id and its state point *)

  Definition job_dir (id : str) (ws : dir) : option dir :=
    match alookup id ws with Some (Dir d) => Some d | _ => None end.

  Definition run_sync_gen (all : bool) (o : opts) (en : entry) (src dst : project) : project * option exn :=
    match en with
    | E_project => sync_projects_m all o src dst
    | E_job sid did dsp =>
        let '(d', e) := sync_jobs_m o (o_deep o) false (job_dir sid (p_ws src)) (job_dir did (p_ws dst)) dsp in
        ({| p_top := p_top dst;
            p_ws := match d' with Some x => aset did (Dir x) (p_ws dst) | None => p_ws dst end |}, e)
    end.
  Definition run_sync := run_sync_gen false.
End Model.
