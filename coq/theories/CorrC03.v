(* CorrC03.v — observational form of C03 (the workspace equals a simple model after any history).

   SPEC level: a project is an association list  id |-> (state point, document, files); handles are
   references to a shared state point cell (copy.copy shares the cell, deepcopy / pickle get their own);
   every public operation has its one-line meaning on this state ([sstep]).
   A case is a list of steps (operation, its result, a snapshot taken right after it: raw walk of all
   workspaces, the view through a brand-new Project of every root, check()).
   [mismatch_C03]: the concrete model (Ws.v) run on the operations does not reproduce the observations.
   [violation_C03]: the implementation's observations differ from the spec run, or check() fails, or a
   directory that is not exactly id-named counts as a job, or len/iteration/membership disagree, or a
   temporary / backup file is left behind.  [known_C03]: classification of violating cases by the first
   known trigger that precedes the first violating step. *)
From SV Require Import Base Json MD5 Canon FS Ws CorrC02.

Record sjob := mkSJ { j_sp : json; j_doc : json; j_files : list (path * list N); j_gen : nat }.
Definition sproj := list (str * sjob).

(* spec handle: project root, state point cell; bookkeeping used ONLY for the known-finding triggers:
   [sh_dk] the real handle has _directory_known set, [sh_doc] it holds a document object created when the
   job had generation g *)
(* [sh_byid]: obtained by id (or a copy of such a handle): it may not know its state point *)
(* the handle's document OBJECT (bookkeeping for finding 3 only): [d_t] when it was created (a point on the scale of the
   job generations: an object older than the current incarnation of the job holds that earlier incarnation's data),
   [d_id] its identity (shallow copies taken after the first document access share the object, deep copies / pickles get
   a copy), [d_clean] its in-memory data was emptied by remove() through one of the handles that share it *)
Record sdoc := mkSD { d_t : nat; d_id : N; d_clean : bool }.   (* d_id in binary: copies multiply it *)
Record shandle := mkSH { sh_root : path; sh_cell : nat; sh_dk : bool; sh_doc : option sdoc; sh_byid : bool }.

Record sstate := mkSS {
  ss_projs : list (path * sproj);
  ss_sess : list path;
  ss_hs : list shandle;
  ss_cells : list json;
  ss_gen : nat;                     (* a fresh number for every job creation *)
  ss_planted : list path;           (* foreign directories the harness put into a workspace: never jobs *)
  ss_orph : list nat                (* cells one of whose handles was moved to another project (trigger bookkeeping) *)
}.

Definition ss0 : sstate := mkSS [] [] [] [] 0 [] [].

(* expected result class of an operation *)
Inductive sres := SOk | SErr (e : exn) | SAny | SJson (v : json) | SIds (l : list str) | SNum (n : N) | SBool (b : bool)
| SList (l : list sres).

Fixpoint plookup {A} (p : path) (l : list (path * A)) : option A :=
  match l with [] => None | (q, x) :: l' => if path_eqb p q then Some x else plookup p l' end.
Fixpoint pset {A} (p : path) (x : A) (l : list (path * A)) : list (path * A) :=
  match l with
  | [] => [(p, x)]
  | (q, y) :: l' => if path_eqb p q then (q, x) :: l' else (q, y) :: pset p x l'
  end.

Definition proj_of (s : sstate) (r : path) : sproj := match plookup r (ss_projs s) with Some p => p | None => [] end.
Definition set_proj (s : sstate) (r : path) (p : sproj) : sstate :=
  mkSS (pset r p (ss_projs s)) (ss_sess s) (ss_hs s) (ss_cells s) (ss_gen s) (ss_planted s) (ss_orph s).
Definition hS (s : sstate) (h : nat) : shandle := nth h (ss_hs s) (mkSH [] 0 false None false).
Definition cellS (s : sstate) (c : nat) : json := nth c (ss_cells s) (JObj []).
Definition set_hS (s : sstate) (h : nat) (x : shandle) : sstate :=
  mkSS (ss_projs s) (ss_sess s) (set_nth h x (ss_hs s)) (ss_cells s) (ss_gen s) (ss_planted s) (ss_orph s).
Definition set_cellS (s : sstate) (c : nat) (v : json) : sstate :=
  mkSS (ss_projs s) (ss_sess s) (ss_hs s) (set_nth c v (ss_cells s)) (ss_gen s) (ss_planted s) (ss_orph s).
Definition add_hS (s : sstate) (x : shandle) : sstate :=
  mkSS (ss_projs s) (ss_sess s) (ss_hs s ++ [x]) (ss_cells s) (ss_gen s) (ss_planted s) (ss_orph s).
Definition add_cellS (s : sstate) (v : json) : sstate :=
  mkSS (ss_projs s) (ss_sess s) (ss_hs s) (ss_cells s ++ [v]) (ss_gen s) (ss_planted s) (ss_orph s).
Definition add_sessS (s : sstate) (r : path) : sstate :=
  mkSS (ss_projs s) (ss_sess s ++ [r]) (ss_hs s) (ss_cells s) (ss_gen s) (ss_planted s) (ss_orph s).
Definition bump (s : sstate) : sstate :=
  mkSS (ss_projs s) (ss_sess s) (ss_hs s) (ss_cells s) (S (ss_gen s)) (ss_planted s) (ss_orph s).
Definition sessS (s : sstate) (i : nat) : path := nth i (ss_sess s) [].

(* the shallow copies of a handle: all handles with the same cell *)
Definition map_cell (s : sstate) (c : nat) (f : shandle -> shandle) : sstate :=
  mkSS (ss_projs s) (ss_sess s) (map (fun h => if Nat.eqb (sh_cell h) c then f h else h) (ss_hs s))
       (ss_cells s) (ss_gen s) (ss_planted s) (ss_orph s).

Definition upd_spec (old u : json) (ov : bool) : option json :=
  if ov then Some (dict_update old u)
  else if update_conflict old u then None
  else match old, u with
       | JObj kvs, JObj us =>
           Some (JObj (fold_left (fun acc kv => if has_key (fst kv) acc then acc else acc ++ [kv]) us kvs))
       | _, _ => Some old
       end.

Definition set_file (rel : path) (b : list N) (fl : list (path * list N)) : list (path * list N) :=
  (rel, b) :: filter (fun e => negb (path_eqb (fst e) rel)) fl.

Section Spec.
  Variable frepr : fl -> str.
  Definition cid (v : json) : str := calc_id frepr v.

  Definition job_of (s : sstate) (h : nat) : option sjob :=
    alookup (cid (cellS s (sh_cell (hS s h)))) (proj_of s (sh_root (hS s h))).

  (* create the job of handle h if it does not exist (init / document access) *)
  Definition ensure_job (s : sstate) (h : nat) : sstate :=
    let x := hS s h in
    let sp := cellS s (sh_cell x) in
    match alookup (cid sp) (proj_of s (sh_root x)) with
    | Some _ => s
    | None => bump (set_proj s (sh_root x) (aset (cid sp) (mkSJ sp (JObj []) [] (ss_gen s)) (proj_of s (sh_root x))))
    end.

  Definition set_job (s : sstate) (h : nat) (j : sjob) : sstate :=
    let x := hS s h in
    set_proj s (sh_root x) (aset (cid (cellS s (sh_cell x))) j (proj_of s (sh_root x))).

  Definition mark_dk (s : sstate) (h : nat) : sstate :=
    let x := hS s h in set_hS s h (mkSH (sh_root x) (sh_cell x) true (sh_doc x) (sh_byid x)).
  (* every handle that shares the document object [i] *)
  Definition map_doc (s : sstate) (i : N) (f : sdoc -> option sdoc) : sstate :=
    mkSS (ss_projs s) (ss_sess s)
         (map (fun y => match sh_doc y with
                        | Some d => if N.eqb (d_id d) i then mkSH (sh_root y) (sh_cell y) (sh_dk y) (f d) (sh_byid y) else y
                        | None => y end) (ss_hs s))
         (ss_cells s) (ss_gen s) (ss_planted s) (ss_orph s).
  (* the handle creates its document object now (if it has none); an emptied object that is used again while the job
     exists is as good as new *)
  Definition mark_doc (s : sstate) (h : nat) : sstate :=
    let x := hS s h in
    match sh_doc x with
    | Some d =>
        if d_clean d && match job_of s h with Some _ => true | None => false end
        then bump (map_doc s (d_id d) (fun d' => Some (mkSD (ss_gen s) (d_id d') false)))
        else s
    | None => bump (set_hS s h (mkSH (sh_root x) (sh_cell x) true (Some (mkSD (ss_gen s) (N.of_nat (ss_gen s)) false)) (sh_byid x)))
    end.
  (* clear() / reset() through the handle: its document object is loaded, emptied and saved - current again *)
  Definition fresh_doc (s : sstate) (h : nat) : sstate :=
    match sh_doc (hS s h) with
    | Some d => bump (map_doc s (d_id d) (fun d' => Some (mkSD (ss_gen s) (d_id d') false)))
    | None => s
    end.
  Definition copy_doc (n : nat) (o : option sdoc) : option sdoc :=
    match o with Some d => Some (mkSD (d_t d) (d_id d * 1000 + N.of_nat (S n))%N (d_clean d)) | None => None end.

  (* the state point of the job changes to [new] through handle h (sp[k]=v, del, assignment, update_statepoint) *)
  Definition rekey_spec (s : sstate) (h : nat) (new : json) : sstate * sres :=
    let x := hS s h in
    let old := cellS s (sh_cell x) in
    let p := proj_of s (sh_root x) in
    if str_eqb (cid old) (cid new) then (set_cellS s (sh_cell x) new, SOk)
    else
      match alookup (cid old) p with
      | None => (set_cellS s (sh_cell x) new, SOk)            (* not initialised: the handles just follow *)
      | Some j =>
          match alookup (cid new) p with
          | Some _ => (s, SErr EDestinationExists)
          | None =>
              let p' := aset (cid new) (mkSJ new (j_doc j) (j_files j) (ss_gen s)) (aremove (cid old) p) in
              let s1 := bump (set_cellS (set_proj s (sh_root x) p') (sh_cell x) new) in
              (* every handle of the cell drops its document object *)
              (* ... and init() of one of them sets _directory_known (bookkeeping: all of them) *)
              (map_cell s1 (sh_cell x) (fun y => mkSH (sh_root y) (sh_cell y) true None (sh_byid y)), SOk)
          end
      end.

  Definition new_handle (s : sstate) (r : path) (sp : json) (dk : bool) : sstate :=
    add_hS (add_cellS s sp) (mkSH r (length (ss_cells s)) dk None dk).

  Definition created (out : oval) : bool := match out with VStr _ => true | _ => false end.

  (* one operation; [out] = what the implementation returned (used only to know whether a handle was created
     and which id an open-by-prefix resolved to) *)
  Definition sstep0 (s : sstate) (o : op) (out : oval) : sstate * sres :=
    match o with
    | ONewSession r =>
        let s1 := add_sessS s r in
        (match plookup r (ss_projs s1) with Some _ => s1 | None => set_proj s1 r [] end, SOk)
    | OOpenSp si sp => (new_handle s (sessS s si) sp false, SAny)
    | OOpenId si x =>
        match out with
        | VStr m =>
            match alookup m (proj_of s (sessS s si)) with
            | Some j => (new_handle s (sessS s si) (j_sp j) true, SAny)
            | None =>
                (* no such job: KeyError - unless a live handle of this process holds (held) a state point with this
                   id, registered in the Project's in-memory cache: then open_job(id=...) is open_job(that state point),
                   a handle to a job that is not initialised (which Project objects know it is checked by the model
                   correspondence, not here) *)
                match find (fun sp => str_eqb (cid sp) m) (ss_cells s) with
                | Some sp => (new_handle s (sessS s si) sp false, SAny)
                | None => (new_handle s (sessS s si) JNull true, SErr EKeyError)
                end
            end
        | _ => (s, SAny)
        end
    | OInit h _ | OEnter h => (mark_dk (ensure_job s h) h, SOk)
    | OSp h => (s, SJson (cellS s (sh_cell (hS s h))))
    | OCached h => (s, SJson (cellS s (sh_cell (hS s h))))
    | OIdPath h => (s, SAny)
    | ODoc h =>
        let s1 := mark_doc (ensure_job s h) h in
        (s1, match job_of s1 h with Some j => SJson (j_doc j) | None => SAny end)
    | ODocReset h d =>
        let s1 := mark_doc (ensure_job s h) h in
        (match job_of s1 h with
         | Some j => set_job s1 h (mkSJ (j_sp j) d (j_files j) (j_gen j))
         | None => s1 end, SOk)
    | ODocSet h k v =>
        let s1 := mark_doc (ensure_job s h) h in
        (match job_of s1 h with
         | Some j => set_job s1 h (mkSJ (j_sp j) (match j_doc j with JObj kvs => JObj (aset k v kvs) | d => d end)
                                        (j_files j) (j_gen j))
         | None => s1 end, SOk)
    | OWriteFile h rel b =>
        (match job_of s h with
         | Some j => set_job s h (mkSJ (j_sp j) (j_doc j) (set_file rel b (j_files j)) (j_gen j))
         | None => s end, SAny)
    | OPlantDir p => (mkSS (ss_projs s) (ss_sess s) (ss_hs s) (ss_cells s) (ss_gen s) (p :: ss_planted s) (ss_orph s), SAny)
    | OPlantFile _ _ => (s, SAny)
    | OWipe _ => (s, SAny)          (* C02's op (a workspace removed behind the Project object); no C03 history uses it *)
    | OIds si => (s, SIds (map fst (proj_of s (sessS s si))))
    | OLen si => (s, SNum (N.of_nat (length (proj_of s (sessS s si)))))
    | OContains si h => (s, SBool (has_key (cid (cellS s (sh_cell (hS s h)))) (proj_of s (sessS s si))))
    | OCopy h =>
        if created out then (add_hS s (hS s h), SAny) else (s, SAny)
    | ODeepCopy h | OPickle h =>
        if created out then
          let x := hS s h in
          let s1 := add_sessS (add_cellS s (cellS s (sh_cell x))) (sh_root x) in
          let s2 := add_hS s1 (mkSH (sh_root x) (length (ss_cells s)) (sh_dk x) (copy_doc (length (ss_hs s)) (sh_doc x)) (sh_byid x)) in
          (* the copy of a cell that still lists a moved handle lists (a copy of) it too *)
          (if existsb (Nat.eqb (sh_cell x)) (ss_orph s) then
             mkSS (ss_projs s2) (ss_sess s2) (ss_hs s2) (ss_cells s2) (ss_gen s2) (ss_planted s2)
                  (length (ss_cells s) :: ss_orph s2)
           else s2, SAny)
        else (s, SAny)
    | OEdit h p a =>
        match edit_sp p a (cellS s (sh_cell (hS s h))) with
        | Some new => rekey_spec s h new
        | None => (s, SErr EKeyError)
        end
    | OAssign h new => rekey_spec s h new
    | OUpdateSp h u ov =>
        match upd_spec (cellS s (sh_cell (hS s h))) u ov with
        | Some new => rekey_spec s h new
        | None => (s, SErr EKeyError)
        end
    | OMove h sj =>
        let x := hS s h in
        let sp := cellS s (sh_cell x) in
        let r' := sessS s sj in
        match alookup (cid sp) (proj_of s (sh_root x)) with
        | None => (s, SErr ERuntimeError)
        | Some j =>
            if path_eqb r' (sh_root x) then (s, SAny)     (* moving into the own project: not generated *)
            else match alookup (cid sp) (proj_of s r') with
                 | Some _ => (s, SErr EDestinationExists)
                 | None =>
                     let s1 := set_proj s (sh_root x) (aremove (cid sp) (proj_of s (sh_root x))) in
                     let s2 := bump (set_proj s1 r' (aset (cid sp) (mkSJ sp (j_doc j) (j_files j) (ss_gen s)) (proj_of s1 r'))) in
                     (* only this handle adopts the destination; it gets a cell of its own *)
                     let s3 := set_hS (add_cellS s2 sp) h (mkSH r' (length (ss_cells s2)) false None false) in
                     (mkSS (ss_projs s3) (ss_sess s3) (ss_hs s3) (ss_cells s3) (ss_gen s3) (ss_planted s3)
                           (sh_cell x :: ss_orph s3), SOk)
                 end
        end
    | OClone sj h =>
        let x := hS s h in
        let sp := cellS s (sh_cell x) in
        let r' := sessS s sj in
        match alookup (cid sp) (proj_of s (sh_root x)) with
        | None => (s, SErr EValueError)
        | Some j =>
            match alookup (cid sp) (proj_of s r') with
            | Some _ => (s, SErr EDestinationExists)
            | None =>
                let s1 := bump (set_proj s r' (aset (cid sp) (mkSJ sp (j_doc j) (j_files j) (ss_gen s)) (proj_of s r'))) in
                (new_handle s1 r' sp false, SAny)
            end
        end
    | ORemove h =>
        let x := hS s h in
        let s1 := set_proj s (sh_root x) (aremove (cid (cellS s (sh_cell x))) (proj_of s (sh_root x))) in
        (* bookkeeping for finding 3: remove() of an existing job empties the handle's document object - which the
           shallow copies taken after the first document access SHARE - and drops it from this handle; remove() of a job
           that is already gone leaves the object alone *)
        let s2 := match job_of s h, sh_doc x with
                  | Some _, Some d => map_doc s1 (d_id d) (fun d' => Some (mkSD (d_t d') (d_id d') true))
                  | _, _ => s1
                  end in
        (set_hS s2 h (mkSH (sh_root x) (sh_cell x) false
                           (match job_of s h with Some _ => None | None => sh_doc x end) (sh_byid x)), SOk)
    | OClear h =>
        match job_of s h with
        | Some j => (fresh_doc (mark_doc (set_job s h (mkSJ (j_sp j) (JObj []) [] (j_gen j))) h) h, SOk)
        | None => (s, SOk)
        end
    | OReset h =>
        match job_of s h with
        | Some j => (fresh_doc (mark_doc (set_job s h (mkSJ (j_sp j) (JObj []) [] (j_gen j))) h) h, SOk)
        | None => (mark_dk (ensure_job s h) h, SOk)
        end
    | OUpdateCache _ | OCheck _ | OTree | OQuiet | OSnap => (s, SAny)
    | OPickle2 _ _ | OFresh _ _ _ => (s, SAny)          (* handled by [sstep_top] *)
    end.

  Definition op_handle (o : op) : option nat :=
    match o with
    | OInit h _ | OSp h | OCached h | ODoc h | ODocReset h _ | ODocSet h _ _ | OCopy h | ODeepCopy h | OPickle h
    | OEdit h _ _ | OAssign h _ | OUpdateSp h _ _ | OMove h _ | OClone _ h | OReset h | OEnter h => Some h
    | _ => None
    end.

  (* A handle obtained by id that has no job any more may not know its state point: it is allowed to refuse
     to act with JobsCorruptedError, provided nothing changes (since fix 270ca63 it no longer leaves an empty
     directory behind). *)
  Definition sstep (s : sstate) (o : op) (out : oval) : sstate * sres :=
    match op_handle o, out with
    | Some h, VExn EJobsCorrupted =>
        if sh_byid (hS s h) && match job_of s h with None => true | Some _ => false end
        then (s, SErr EJobsCorrupted) else sstep0 s o out
    (* ... and its cached_statepoint / repr, never read while the job existed, answers like open_job(id=<unknown>) *)
    | Some h, VExn EKeyError =>
        match o with
        | OCached _ =>
            if sh_byid (hS s h) && match job_of s h with None => true | Some _ => false end
            then (s, SErr EKeyError) else sstep0 s o out
        | _ => sstep0 s o out
        end
    | _, _ => sstep0 s o out
    end.

  (* ---------------------------------------------------------------- triggers of the known defects *)
  (* several handles restored from ONE pickle: one restored Project, handles that shared a state point share the
     restored one *)
  Fixpoint srestore_at (off : nat) (s : sstate) (hs : list nat) (cm : list (nat * nat)) (acc : list nat) : sstate * list nat :=
    match hs with
    | [] => (s, acc)
    | h :: rest =>
        let x := hS s h in
        let '(s1, cj, cm') := match amap_find (sh_cell x) cm with
                              | Some cj => (s, cj, cm)
                              | None => (add_cellS s (cellS s (sh_cell x)), length (ss_cells s), (sh_cell x, length (ss_cells s)) :: cm)
                              end in
        srestore_at off (add_hS s1 (mkSH (sh_root x) cj (sh_dk x) (copy_doc off (sh_doc x)) (sh_byid x))) rest cm'
                    (acc ++ [length (ss_hs s1)])
    end.
  (* (handles that shared a document object share the restored copy: one offset per pickle) *)
  Definition srestore (s : sstate) (hs : list nat) (cm : list (nat * nat)) (acc : list nat) : sstate * list nat :=
    srestore_at (length (ss_hs s)) s hs cm acc.

  Fixpoint sfresh (s : sstate) (nhs : list nat) (fs : list fop) (outs : list oval) : sstate * list sres :=
    match fs, outs with
    | f :: fs', o :: outs' =>
        let '(s1, r) := sstep s (fop_op nhs f) o in
        let '(s2, rs) := sfresh s1 nhs fs' outs' in (s2, r :: rs)
    | _, _ => (s, [])
    end.

  Definition sstep_top (s : sstate) (o : op) (out : oval) : sstate * sres :=
    match o with
    | OPickle2 h1 h2 =>
        match out with
        | VStrs _ => (fst (srestore (add_sessS s (sh_root (hS s h1))) [h1; h2] [] []), SAny)
        | _ => sstep s (OPickle h1) out      (* a failure is judged like the failure of pickling h1 *)
        end
    | OFresh h1 h2 fs =>
        match out with
        | VList outs =>
            let '(s1, nhs) := srestore (add_sessS s (sh_root (hS s h1))) (h1 :: match h2 with Some h => [h] | None => [] end) [] [] in
            let '(s2, rs) := sfresh s1 nhs fs outs in
            (* the child process is gone: its handles and its Project with it *)
            (mkSS (ss_projs s2) (firstn (length (ss_sess s)) (ss_sess s2)) (firstn (length (ss_hs s)) (ss_hs s2))
                  (ss_cells s2) (ss_gen s2) (ss_planted s2) (ss_orph s2), SList rs)
        | _ => sstep s (OPickle h1) out
        end
    | _ => sstep s o out
    end.

  (* the handle's lazily cached fields are out of date w.r.t. the spec: its job is gone although the handle
     believes the directory exists, or it holds a document object of an earlier incarnation of the job *)
  Definition stale_handle (s : sstate) (h : nat) : bool :=
    let x := hS s h in
    match job_of s h with
    | None => sh_dk x || match sh_doc x with Some _ => true | None => false end
    | Some j => match sh_doc x with Some d => negb (d_clean d) && Nat.ltb (d_t d) (j_gen j) | None => false end
    end.

  (* tags 1, 2, 5, 6, 7 were repaired in /repo (5a38a4a, 5e72814, 270ca63, b6340e2, d38783c) and are no longer
     classified.  tag 3: a document-touching operation through a stale handle; tag 4: a state point change
     raises the lock registry's KeyError *)
  Definition trigger0 (s : sstate) (o : op) (r : sres) (out : oval) : nat :=
    match o with
    | OEdit _ _ _ | OAssign _ _ | OUpdateSp _ _ _ =>
        match r, out with
        | SErr EKeyError, _ => 0
        | _, VExn EKeyError => 4
        | _, _ => 0
        end
    (* only the operations that really misbehave on /repo through a stale handle: a document read (does not re-create
       the job), a document write (FileNotFoundError, or the stale in-memory document is written into the re-created
       job).  clear() / reset() / remove() / init() through a stale handle look at the file system and are checked
       exactly. *)
    | ODoc h | ODocSet h _ _ | ODocReset h _ =>
        if stale_handle s h then 3 else 0
    (* `with job:` trusts a stale _directory_known as well: FileNotFoundError from chdir instead of re-creating the job *)
    | OEnter h =>
        match job_of s h with None => if sh_dk (hS s h) then 3 else 0 | Some _ => 0 end
    | _ => 0
    end.

  (* a document operation through a stale handle INSIDE the freshly started process (same finding 3) *)
  Fixpoint ftrig3 (s : sstate) (nhs : list nat) (fs : list fop) (outs : list oval) : bool :=
    match fs, outs with
    | f :: fs', o :: outs' =>
        let '(s1, r) := sstep s (fop_op nhs f) o in
        Nat.eqb (trigger0 s (fop_op nhs f) r o) 3 || ftrig3 s1 nhs fs' outs'
    | _, _ => false
    end.

  Definition trigger (s : sstate) (o : op) (r : sres) (out : oval) : nat :=
    match o with
    (* tag 8: a handle unpickled in a freshly started process has no lock-registry entries: every state point change
       through it, and every write through its already materialised document, raises KeyError *)
    | OFresh h1 h2 fs =>
        match out with
        | VList outs =>
            if existsb (fun fo => match fo with
                                  | (FEdit _ _ _, VExn EKeyError) | (FDocSet _ _ _, VExn EKeyError) => true
                                  | _ => false end) (combine fs outs) then 8
            else
              let '(s1, nhs) := srestore (add_sessS s (sh_root (hS s h1)))
                                         (h1 :: match h2 with Some h => [h] | None => [] end) [] [] in
              if ftrig3 s1 nhs fs outs then 3 else 0
        | _ => 0
        end
    | _ => trigger0 s o r out
    end.

  (* ---------------------------------------------------------------- the oracle *)
  Definition res_ok (r : sres) (out : oval) : bool :=
    match r, out with
    | SAny, _ => true
    | SOk, (VUnit | VStr _) => true
    | SErr e, VExn x => exn_eqb e x
    | SJson v, VJson x => json_same v x
    | SIds l, VStrs x => strs_sameset l x
    | SNum n, VNum x => N.eqb n x
    | SBool b, VBool x => Bool.eqb b x
    | _, _ => false
    end.

  Definition res_ok_top (r : sres) (out : oval) : bool :=
    match r, out with
    | SList rs, VList outs =>
        (fix go (rs : list sres) (outs : list oval) : bool :=
           match rs, outs with
           | [], [] => true
           | x :: rs', y :: outs' => res_ok x y && go rs' outs'
           | _, _ => false
           end) rs outs
    | _, _ => res_ok r out
    end.

  Definition spec_view (p : sproj) : list jview :=
    map (fun e => mkJV (fst e) (Some (j_sp (snd e))) (Some (j_doc (snd e))) (j_files (snd e))) p.

  Definition ends_with_tilde (n : str) : bool := match rev n with 126%N :: _ => true | _ => false end.
  Definition starts_dot_underscore (n : str) : bool := match n with 46%N :: 95%N :: _ => true | _ => false end.

  (* raw walk: below <root>/workspace only exactly-id-named directories that are jobs of the view, and no
     temporary / backup file anywhere *)
  Definition tree_clean (planted : list path) (t : fs) (r : path) (ids : list str) : bool :=
    forallb (fun e =>
      existsb (fun p => under p (fst e)) planted ||
      match strip (r ++ [WS]) (fst e) with
      | Some [n] => is_id n && str_mem n ids && match snd e with Dir => true | _ => false end
      | Some (_ :: rest) => let n := last rest [] in negb (ends_with_tilde n) && negb (starts_dot_underscore n)
      | _ => true
      end) t
    (* ... and a planted directory is never listed as a job unless its name is exactly an id *)
    && forallb (fun p => match strip (r ++ [WS]) p with
                         | Some [n] => is_id n || negb (str_mem n ids)
                         | _ => true end) planted.

  (* every job of the view is named by the hash of its state point *)
  Definition names_hash (v : list jview) : bool :=
    forallb (fun j => match v_sp j with Some sp => str_eqb (cid sp) (v_id j) | None => false end) v.

  (* nothing but workspace/ and the cache file in a project directory (the harness leaves .signac/config out) *)
  Definition no_strays (t : fs) (rs : list path) : bool :=
    forallb (fun e => existsb (fun r => under (r ++ [WS]) (fst e) || path_eqb (fst e) (r ++ [DOTSIG; CACHEFN])) rs) t.

  Definition snap_ok (s : sstate) (t : fs) (vs : list (path * list jview * bool)) : bool :=
    Nat.eqb (length vs) (length (ss_projs s)) && no_strays t (map fst (ss_projs s)) &&
    forallb (fun x => match x with
                      | (r, v, chk) =>
                          views_same (spec_view (proj_of s r)) v && chk && names_hash v
                          && tree_clean (ss_planted s) t r (map v_id v)
                      end) vs.

  Record step_C03 := mkStep3 { t_op : op; t_out : oval; t_snap : oval }.

  (* walks the steps; returns (index of the first violating step, trigger tags seen so far as (index, tag)) *)
  Fixpoint walk (s : sstate) (prev : oval) (idx : nat) (trg : list (nat * nat)) (sts : list step_C03)
    : option nat * list (nat * nat) :=
    match sts with
    | [] => (None, trg)
    | st :: rest =>
        let '(s1, r) := sstep_top s (t_op st) (t_out st) in
        let tg := trigger s (t_op st) r (t_out st) in
        let trg1 := if Nat.eqb tg 0 then trg else (idx, tg) :: trg in
        let cur := match t_snap st with VSnapSame => prev | x => x end in
        let ok := res_ok_top r (t_out st) &&
                  match cur with VSnap t vs => snap_ok s1 t vs | _ => false end in
        if ok then walk s1 cur (S idx) trg1 rest else (Some idx, trg1)
    end.
End Spec.

Record case_C03 := mkCase3 { c3_ftab : list (fl * str); c3_steps : list step_C03 }.

Definition fr3 (c : case_C03) : fl -> str := ftab_lookup (c3_ftab c).

Definition ops_C03 (c : case_C03) : list op := flat_map (fun s => [t_op s; OSnap]) (c3_steps c).
Definition outs_C03 (c : case_C03) : list oval := flat_map (fun s => [t_out s; t_snap s]) (c3_steps c).

Definition mismatch_C03 (c : case_C03) : bool :=
  negb (run_cmp3 (fr3 c) w0 0 [] 0 (ops_C03 c) (outs_C03 c)).

Definition first_bad (c : case_C03) : option nat * list (nat * nat) :=
  walk (fr3 c) ss0 (VSnap [] []) 0 [] (c3_steps c).

Definition holds_C03 (c : case_C03) : bool := match fst (first_bad c) with None => true | Some _ => false end.
Definition violation_C03 (c : case_C03) : bool := negb (holds_C03 c).

(* the trigger AT the first violating step (snapshots are taken after every operation, so each known defect shows
   at the very step that triggers it; a violation at a step without trigger is never classified, whatever happened
   earlier in the history) *)
Definition known_tag3 (c : case_C03) : nat :=
  match first_bad c with
  | (Some k, trg) =>
      match filter (fun x => Nat.eqb (fst x) k) trg with
      | (_, t) :: _ => t
      | [] => 0
      end
  | (None, _) => 0
  end.

Definition mismatches_C03 (cs : list case_C03) : list N := indices_where mismatch_C03 cs.
Definition violations_C03 (cs : list case_C03) : list N := indices_where violation_C03 cs.

Fixpoint known_aux3 (cs : list case_C03) (idx : N) : list N :=
  match cs with
  | [] => []
  | c :: cs' =>
      match known_tag3 c with
      | O => known_aux3 cs' (N.succ idx)
      | t => (idx * 100 + N.of_nat t)%N :: known_aux3 cs' (N.succ idx)
      end
  end.
Definition known_C03 (cs : list case_C03) : list N := known_aux3 cs 0%N.
