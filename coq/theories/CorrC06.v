(* CorrC06.v — observational form of C06 (find_jobs = per-job reference evaluator). *)
From SV Require Import Base Json PyVal Query C06Collide.
From Coq Require Import Uint63 PrimFloat FloatOps.

(* math.isclose on binary64, following CPython's implementation; inputs are exact dyadics *)
Definition float_of_dy (p : Z * Z) : float :=
  let '(m, e) := p in
  let a := of_uint63 (Uint63.of_Z (Z.abs m)) in
  let s := if (m <? 0)%Z then opp a else a in
  Z.ldexp s e.

Definition isclose_float (a b rel abs_tol : float) : bool :=
  if (a =? b)%float then true
  else
    let d := PrimFloat.abs (b - a)%float in
    ((d <=? PrimFloat.abs (rel * b))%float || (d <=? PrimFloat.abs (rel * a))%float) || (d <=? abs_tol)%float.

Definition isclose_dy (v x r t : Z * Z) : bool :=
  isclose_float (float_of_dy v) (float_of_dy x) (float_of_dy r) (float_of_dy t).

(* regex oracle table: ((pattern, subject), re.search(...) is not None) *)
Fixpoint regex_lookup (t : list ((str * str) * bool)) (p s : str) : bool :=
  match t with
  | [] => false
  | ((p', s'), b) :: r => if str_eqb p p' && str_eqb s s' then b else regex_lookup r p s
  end.

Inductive obs6 := ObsIds (ids : list str) | ObsExn (e : exn).

Record case_C06 := {
  c6_jobs : list job;                         (* in the implementation's listing order *)
  c6_filter : json;
  c6_regex : list ((str * str) * bool);
  c6_obs : obs6                               (* what Project.find_jobs(filter) did *)
}.

Definition FUEL : nat := 12.

Definition model_C06 (c : case_C06) : result (list str) :=
  find_job_ids (regex_lookup (c6_regex c)) isclose_dy FUEL (c6_jobs c) (c6_filter c).

(* the reference evaluates the filter AS WRITTEN: a key given in two spellings ('a' and 'sp.a') contributes both
   conditions (before the repair recorded as C06 tag 2 the implementation's dict(...) kept one of them).  On collision-free
   filters this is job_matches (C06Collide.job_matches_all_eq). *)
Definition reference_C06 (c : case_C06) (j : job) : result bool :=
  job_matches_all (regex_lookup (c6_regex c)) isclose_dy true FUEL (c6_filter c) j.

(* non-short-circuit evaluation: Ok iff every operator application on this job's own data is defined *)
Definition strict_C06 (c : case_C06) (j : job) : result bool :=
  job_matches_all (regex_lookup (c6_regex c)) isclose_dy false FUEL (c6_filter c) j.

Definition mismatch_C06 (c : case_C06) : bool :=
  match model_C06 c, c6_obs c with
  | Ok a, ObsIds b => negb (set_eqb a b)
  | Err e, ObsExn e' => negb (exn_eqb e e')
  | _, _ => true
  end.

(* the property as an oracle on the implementation's observation *)
(* the filter is well-typed on this corpus: direct evaluation of every part of it on every job's own
   data (and on a job without data) is defined *)
Definition well_typed_C06 (c : case_C06) : bool :=
  forallb (fun j => match strict_C06 c j with Ok _ => true | Err _ => false end)
          ({| j_id := []; j_sp := JObj []; j_doc := None |} :: c6_jobs c).

Definition holds_C06 (c : case_C06) : bool :=
  match c6_obs c with
  | ObsIds s =>
      forallb (fun j => match reference_C06 c j with
                        | Ok b => Bool.eqb b (mem (j_id j) s)
                        | Err _ => false
                        end) (c6_jobs c)
      && subset s (map j_id (c6_jobs c))
  | ObsExn _ =>
      (* raising is acceptable only if the filter is not well-typed on this corpus *)
      negb (well_typed_C06 c)
  end.

Definition violation_C06 (c : case_C06) : bool := negb (holds_C06 c).

(* ---- known-finding classifiers (defined over the input) ---- *)
(* keys queried with $type anywhere in the prefixed filter *)
Fixpoint type_keys (fuel : nat) (f : json) : list str :=
  match fuel with
  | O => []
  | Datatypes.S fuel' =>
      match f with
      | JObj kvs =>
          flat_map (fun kv =>
                      if is_logical_list (fst kv) then
                        match snd kv with JArr items => flat_map (type_keys fuel') items | _ => [] end
                      else if str_eqb (fst kv) s_not then type_keys fuel' (snd kv)
                      else []) kvs
          ++ flat_map (fun kv =>
                         let nodes := split_on dot (fst kv) in
                         if str_eqb (last nodes []) s_type then [join_with dot (removelast nodes)] else [])
                      (flatten fuel None (JObj (strip_logical kvs)))
      | _ => []
      end
  end.

Definition values_at (jobs : list job) (key : str) : list json :=
  flat_map (fun j => match own_value (snd (job_doc true j)) key with Some v => [v] | None => [] end) jobs.

Fixpoint any_pair (p : json -> json -> bool) (l : list json) : bool :=
  match l with
  | [] => false
  | x :: r => existsb (p x) r || any_pair p r
  end.

(* tag 1: $type query on a key under which two jobs hold same-slot values of different type
          (True/1, False/0, -1/-1.0, -2/-2.0) *)
Definition known1_C06 (c : case_C06) : bool :=
  match add_prefix FUEL (c6_filter c) with
  | Ok pf => existsb (fun k => any_pair slot_clash (values_at (c6_jobs c) k)) (type_keys FUEL pf)
  | Err _ => false
  end.

Definition known_tag_C06 (c : case_C06) : N :=
  if known1_C06 c then 1%N else 0%N.

Fixpoint known_aux (cs : list case_C06) (i : N) : list N :=
  match cs with
  | [] => []
  | c :: r =>
      let t := known_tag_C06 c in
      if N.eqb t 0 then known_aux r (N.succ i) else (i * 100 + t)%N :: known_aux r (N.succ i)
  end.

Definition mismatches_C06 (cs : list case_C06) : list N := indices_where mismatch_C06 cs.
Definition violations_C06 (cs : list case_C06) : list N := indices_where violation_C06 cs.
Definition known_C06 (cs : list case_C06) : list N := known_aux cs 0%N.
