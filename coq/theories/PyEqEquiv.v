(* PyEqEquiv.v — Python's == is an equivalence on mapping-free values, and so is the dict-slot relation. *)
From SV Require Import Base Json PyVal PyValProofs.
Local Open Scope Z_scope.

(* values whose lists contain no mappings (state point lists hold scalars and lists) *)
Fixpoint flatv (v : json) : bool :=
  match v with
  | JArr l => forallb flatv l
  | JObj _ => false
  | _ => true
  end.

Definition dy_eqb (p q : Z * Z) : bool := match dy_cmp p q with Eq => true | _ => false end.

Lemma dy_cmp_antisym : forall p q, dy_cmp q p = CompOpp (dy_cmp p q).
Proof.
  intros [m1 e1] [m2 e2]. unfold dy_cmp. rewrite (Z.min_comm e2 e1). apply Z.compare_antisym.
Qed.

Lemma dy_eqb_sym : forall p q, dy_eqb p q = dy_eqb q p.
Proof. intros p q. unfold dy_eqb. rewrite (dy_cmp_antisym p q). destruct (dy_cmp p q); reflexivity. Qed.

Lemma dy_eqb_trans : forall p q r, dy_eqb p q = true -> dy_eqb q r = true -> dy_eqb p r = true.
Proof.
  intros [m1 e1] [m2 e2] [m3 e3] H1 H2. unfold dy_eqb in *.
  set (E := Z.min e1 (Z.min e2 e3)).
  assert (HE1 : E <= e1) by (unfold E; lia). assert (HE2 : E <= e2) by (unfold E; lia).
  assert (HE3 : E <= e3) by (unfold E; lia).
  rewrite (dy_cmp_E m1 e1 m2 e2 E) in H1 by (apply Z.min_glb; lia).
  rewrite (dy_cmp_E m2 e2 m3 e3 E) in H2 by (apply Z.min_glb; lia).
  rewrite (dy_cmp_E m1 e1 m3 e3 E) by (apply Z.min_glb; lia).
  destruct (m1 * 2 ^ (e1 - E) ?= m2 * 2 ^ (e2 - E)) eqn:C1; try discriminate.
  destruct (m2 * 2 ^ (e2 - E) ?= m3 * 2 ^ (e3 - E)) eqn:C2; try discriminate.
  apply Z.compare_eq in C1, C2. rewrite C1, C2, Z.compare_refl. reflexivity.
Qed.

(* py_eq on a numeric left operand *)
Lemma py_eq_numl : forall a b p, num_of a = Some p ->
  py_eq a b = match num_of b with Some q => dy_eqb p q | None => false end.
Proof.
  intros a b p H. destruct a as [|x|z|[m e]|s|l|kvs]; simpl in H; try discriminate; inversion H; subst;
    destruct b as [|y|z'|[m' e']|s'|l'|kvs']; reflexivity.
Qed.

Lemma py_eq_nonnum_l_num_r : forall a b q, num_of a = None -> num_of b = Some q -> py_eq a b = false.
Proof.
  intros a b q Ha Hb. destruct a as [|x|z|[m e]|s|l|kvs]; simpl in Ha; try discriminate;
    destruct b as [|y|z'|[m' e']|s'|l'|kvs']; simpl in Hb; try discriminate; reflexivity.
Qed.

Lemma py_eq_sym_num : forall a c p, num_of a = Some p -> py_eq a c = py_eq c a.
Proof.
  intros a c p H. rewrite (py_eq_numl a c p H). destruct (num_of c) as [q|] eqn:Ec.
  - rewrite (py_eq_numl c a q Ec), H. apply dy_eqb_sym.
  - symmetry. apply (py_eq_nonnum_l_num_r c a p Ec H).
Qed.

Lemma py_eq_sym : forall a b, flatv a = true -> flatv b = true -> py_eq a b = py_eq b a.
Proof.
  intro a. induction a using json_ind'; intros c Ha Hc.
  - (* null *) destruct c as [|y|z'|[m' e']|s'|l'|kvs']; try reflexivity; try discriminate;
      symmetry; eapply py_eq_sym_num; reflexivity.
  - eapply py_eq_sym_num; reflexivity.
  - eapply py_eq_sym_num; reflexivity.
  - destruct f as [m e]. eapply py_eq_sym_num; reflexivity.
  - (* str *) destruct c as [|y|z'|[m' e']|s'|l'|kvs']; try reflexivity; try discriminate;
      try (symmetry; eapply py_eq_sym_num; reflexivity).
    simpl. destruct (str_eqb s s') eqn:E.
    + apply str_eqb_eq in E. subst. symmetry. apply str_eqb_refl.
    + symmetry. apply str_eqb_neq. apply str_eqb_neq in E. congruence.
  - (* arr *) destruct c as [|y|z'|[m' e']|s'|l'|kvs']; try reflexivity; try discriminate;
      try (symmetry; eapply py_eq_sym_num; reflexivity).
    simpl in Ha, Hc. simpl. revert l' Hc. induction H as [|x l Hx Hl IH]; intros l' Hc; destruct l' as [|y l']; try reflexivity.
    simpl in Ha, Hc. apply andb_true_iff in Ha, Hc. destruct Ha as [Hax Hal], Hc as [Hcy Hcl].
    rewrite (Hx y Hax Hcy). f_equal. apply IH; assumption.
  - discriminate.
Qed.

Lemma py_eq_trans : forall a b c, flatv a = true -> flatv b = true -> flatv c = true ->
  py_eq a b = true -> py_eq b c = true -> py_eq a c = true.
Proof.
  intro a. induction a using json_ind'; intros bb c Ha Hb Hc H1 H2.
  - (* null *) destruct bb; simpl in H1; try discriminate. exact H2.
  - (* bool: numeric *)
    rewrite (py_eq_numl (JBool b) bb _ eq_refl) in H1. destruct (num_of bb) as [q|] eqn:Eq; [|discriminate].
    rewrite (py_eq_numl bb c q Eq) in H2. rewrite (py_eq_numl (JBool b) c _ eq_refl).
    destruct (num_of c) as [r|]; [|discriminate]. eapply dy_eqb_trans; eauto.
  - rewrite (py_eq_numl (JInt z) bb _ eq_refl) in H1. destruct (num_of bb) as [q|] eqn:Eq; [|discriminate].
    rewrite (py_eq_numl bb c q Eq) in H2. rewrite (py_eq_numl (JInt z) c _ eq_refl).
    destruct (num_of c) as [r|]; [|discriminate]. eapply dy_eqb_trans; eauto.
  - destruct f as [m e].
    rewrite (py_eq_numl (JFloat (m, e)) bb _ eq_refl) in H1. destruct (num_of bb) as [q|] eqn:Eq; [|discriminate].
    rewrite (py_eq_numl bb c q Eq) in H2. rewrite (py_eq_numl (JFloat (m, e)) c _ eq_refl).
    destruct (num_of c) as [r|]; [|discriminate]. eapply dy_eqb_trans; eauto.
  - (* str *) destruct bb; simpl in H1; try discriminate. apply str_eqb_eq in H1. subst. exact H2.
  - (* arr *)
    destruct bb as [| | | | |lb|]; simpl in H1; try discriminate.
    destruct c as [| | | | |lc|]; simpl in H2; try discriminate.
    simpl in Ha, Hb, Hc. simpl.
    revert lb lc Hb Hc H1 H2. induction H as [|x l Hx Hl IH]; intros lb lc Hb Hc H1 H2.
    + destruct lb; try discriminate. exact H2.
    + destruct lb as [|y lb]; try discriminate. destruct lc as [|w lc]; try discriminate.
      simpl in Ha, Hb, Hc. apply andb_true_iff in Ha, Hb, Hc, H1, H2.
      destruct Ha as [Ha1 Ha2], Hb as [Hb1 Hb2], Hc as [Hc1 Hc2], H1 as [H1a H1b], H2 as [H2a H2b].
      rewrite (Hx y w Ha1 Hb1 Hc1 H1a H2a). simpl. apply (IH Ha2 lb lc); assumption.
  - discriminate.
Qed.

(* ---------- the slot relation ---------- *)
(* floats are given normalised: a negative exponent comes with an odd mantissa *)
Definition norm_num (a : json) : bool :=
  match a with JFloat (m, e) => (0 <=? e) || Z.odd m | _ => true end.

Lemma dy_int_vs_nonint : forall M m e, e < 0 -> Z.odd m = true -> forall e1, 0 <= e1 ->
  dy_cmp (M, e1) (m, e) <> Eq.
Proof.
  intros M m e He Hodd e1 He1 H.
  rewrite (dy_cmp_E M e1 m e e) in H by (apply Z.min_glb; lia).
  apply Z.compare_eq in H. replace (e - e) with 0 in H by lia. rewrite Z.mul_1_r in H.
  assert (Hev : Z.even (M * 2 ^ (e1 - e)) = true).
  { rewrite Z.even_mul. replace (e1 - e) with (Z.succ (e1 - e - 1)) by lia.
    rewrite Z.pow_succ_r by lia. rewrite Z.even_mul. simpl. apply orb_true_r. }
  rewrite H in Hev. rewrite <- Z.negb_odd, Hodd in Hev. discriminate.
Qed.

Lemma num_of_norm : forall a m e, norm_num a = true -> num_of a = Some (m, e) -> e < 0 -> Z.odd m = true.
Proof.
  intros a m e Hn H He. destruct a as [|b|z|[m' e']|s|l|kvs]; simpl in H; try discriminate.
  - inversion H; subst. lia.
  - inversion H; subst. lia.
  - inversion H; subst. simpl in Hn. destruct (m =? 0) eqn:E0; [lia|].
    apply orb_true_iff in Hn. destruct Hn as [Hn|Hn]; auto. apply Z.leb_le in Hn. lia.
Qed.

Lemma int_value_compat : forall a b, norm_num a = true -> norm_num b = true ->
  is_num a = true -> py_eq a b = true -> int_value a = int_value b.
Proof.
  intros a b Na Nb Hn H. unfold is_num in Hn. destruct (num_of a) as [[m1 e1]|] eqn:Ea; [|discriminate].
  rewrite (py_eq_numl a b _ Ea) in H. destruct (num_of b) as [[m2 e2]|] eqn:Eb; [|discriminate].
  unfold int_value. rewrite Ea, Eb. unfold dy_eqb in H.
  destruct (dy_cmp (m1, e1) (m2, e2)) eqn:C; try discriminate. clear H.
  destruct (0 <=? e1) eqn:L1; destruct (0 <=? e2) eqn:L2.
  - apply Z.leb_le in L1, L2. rewrite (dy_cmp_E m1 e1 m2 e2 0) in C by (apply Z.min_glb; lia).
    apply Z.compare_eq in C. rewrite !Z.sub_0_r in C. congruence.
  - exfalso. apply Z.leb_le in L1. apply Z.leb_gt in L2.
    pose proof (num_of_norm b m2 e2 Nb Eb L2) as Ho. apply (dy_int_vs_nonint m1 m2 e2 L2 Ho e1 L1). exact C.
  - exfalso. apply Z.leb_gt in L1. apply Z.leb_le in L2.
    pose proof (num_of_norm a m1 e1 Na Ea L1) as Ho. apply (dy_int_vs_nonint m2 m1 e1 L1 Ho e2 L2).
    rewrite dy_cmp_antisym, C. reflexivity.
  - reflexivity.
Qed.

Lemma m1m2_compat : forall a b, norm_num a = true -> norm_num b = true -> py_eq a b = true ->
  is_m1_m2 a = true -> is_m1_m2 b = true.
Proof.
  intros a b Na Nb H Hm. unfold is_m1_m2 in *. destruct (int_value a) as [z|] eqn:Ea; [|discriminate].
  assert (Hn : is_num a = true).
  { unfold is_num. unfold int_value in Ea. destruct (num_of a); [reflexivity|discriminate]. }
  rewrite <- (int_value_compat a b Na Nb Hn H), Ea. exact Hm.
Qed.

Definition okv (v : json) : bool := (flatv v || is_obj v) && norm_num v.

Lemma is_obj_flat : forall v, okv v = true -> is_obj v = false -> flatv v = true.
Proof.
  intros v H Ho. unfold okv in H. apply andb_true_iff in H. destruct H as [H _].
  rewrite Ho in H. rewrite orb_false_r in H. exact H.
Qed.

Lemma okv_norm : forall v, okv v = true -> norm_num v = true.
Proof. intros v H. unfold okv in H. apply andb_true_iff in H. tauto. Qed.

Lemma py_eq_float_kind : forall a b, is_float a = true -> py_eq a b = true -> is_num b = true.
Proof.
  intros a b Ha H. destruct a as [| | |[m e]| | |]; try discriminate.
  rewrite (py_eq_numl (JFloat (m, e)) b _ eq_refl) in H. unfold is_num. destruct (num_of b); [reflexivity|discriminate].
Qed.

Theorem slot_eq_sym : forall a b, okv a = true -> okv b = true -> slot_eq a b = slot_eq b a.
Proof.
  intros a b Ha Hb. unfold slot_eq.
  destruct (is_obj a) eqn:Oa; destruct (is_obj b) eqn:Ob; simpl; try reflexivity.
  pose proof (is_obj_flat a Ha Oa) as Fa. pose proof (is_obj_flat b Hb Ob) as Fb.
  rewrite (py_eq_sym a b Fa Fb).
  destruct (is_float a) eqn:Fla; destruct (is_float b) eqn:Flb; simpl; try reflexivity.
  - (* a float, b not *) destruct (py_eq b a) eqn:E; simpl; [|reflexivity].
    destruct (is_m1_m2 a) eqn:Ma; destruct (is_m1_m2 b) eqn:Mb; try reflexivity.
    + rewrite (m1m2_compat a b (okv_norm _ Ha) (okv_norm _ Hb)) in Mb; [discriminate| |exact Ma].
      rewrite (py_eq_sym a b Fa Fb). exact E.
    + rewrite (m1m2_compat b a (okv_norm _ Hb) (okv_norm _ Ha) E Mb) in Ma. discriminate.
  - destruct (py_eq b a) eqn:E; simpl; [|reflexivity].
    destruct (is_m1_m2 a) eqn:Ma; destruct (is_m1_m2 b) eqn:Mb; try reflexivity.
    + rewrite (m1m2_compat a b (okv_norm _ Ha) (okv_norm _ Hb)) in Mb; [discriminate| |exact Ma].
      rewrite (py_eq_sym a b Fa Fb). exact E.
    + rewrite (m1m2_compat b a (okv_norm _ Hb) (okv_norm _ Ha) E Mb) in Ma. discriminate.
Qed.

Theorem slot_eq_trans : forall a b c, okv a = true -> okv b = true -> okv c = true ->
  slot_eq a b = true -> slot_eq b c = true -> slot_eq a c = true.
Proof.
  intros a b c Ha Hb Hc H1 H2. unfold slot_eq in *.
  destruct (is_obj a) eqn:Oa; destruct (is_obj b) eqn:Ob; simpl in H1; try discriminate;
    destruct (is_obj c) eqn:Oc; simpl in H2; try discriminate; simpl; try reflexivity.
  pose proof (is_obj_flat a Ha Oa) as Fa. pose proof (is_obj_flat b Hb Ob) as Fb.
  pose proof (is_obj_flat c Hc Oc) as Fc.
  pose proof (okv_norm _ Ha) as Na. pose proof (okv_norm _ Hb) as Nb. pose proof (okv_norm _ Hc) as Nc.
  assert (Pab : py_eq a b = true).
  { destruct (is_float a), (is_float b); simpl in H1; try exact H1; apply andb_true_iff in H1; tauto. }
  assert (Pbc : py_eq b c = true).
  { destruct (is_float b), (is_float c); simpl in H2; try exact H2; apply andb_true_iff in H2; tauto. }
  pose proof (py_eq_trans a b c Fa Fb Fc Pab Pbc) as Pac. rewrite Pac.
  destruct (is_float a) eqn:Fla; destruct (is_float c) eqn:Flc; simpl; try reflexivity.
  - (* a float, c not: need is_m1_m2 a *)
    destruct (is_float b) eqn:Flb; simpl in H1, H2.
    + (* b float: from b~c *) apply andb_true_iff in H2. destruct H2 as [_ Mb].
      apply (m1m2_compat b a Nb Na); auto. rewrite (py_eq_sym b a Fb Fa). exact Pab.
    + apply andb_true_iff in H1. tauto.
  - (* a not float, c float: need is_m1_m2 a *)
    destruct (is_float b) eqn:Flb; simpl in H1, H2.
    + apply andb_true_iff in H1. tauto.
    + apply andb_true_iff in H2. destruct H2 as [_ Mb].
      apply (m1m2_compat b a Nb Na); auto. rewrite (py_eq_sym b a Fb Fa). exact Pab.
Qed.

(* the form used by the index lookup: two keys in the probe's slot are in one slot *)
Corollary slot_eq_euclid : forall k v p, okv k = true -> okv v = true -> okv p = true ->
  slot_eq k p = true -> slot_eq v p = true -> slot_eq k v = true.
Proof.
  intros k v p Hk Hv Hp H1 H2. rewrite (slot_eq_sym v p Hv Hp) in H2.
  apply (slot_eq_trans k p v); auto.
Qed.
