(* C08Proofs.v — lemmas behind props/C08.v *)
From SV Require Import Base Json MD5 Canon FS Ws WsLemmas Cache CacheLemmas.

Section P.
  Variable frepr : fl -> str.
  Variable loads_s : list N -> option json.
  Variable loads_b : list N -> dec.

  Notation cid := (cid frepr).
  Notation read_cache := (read_cache).
  Notation ensure_read := (ensure_read).
  Notation sp_from_ws := (sp_from_ws frepr loads_s).
  Notation get_statepoint := (get_statepoint frepr loads_s).
  Notation sp_load := (sp_load frepr loads_b).
  Notation sp_load_view := (sp_load_view frepr loads_b).
  Notation jinit := (jinit frepr loads_b).
  Notation op_init := (op_init frepr loads_b).
  Notation op_remove := (op_remove frepr).
  Notation op_rekey := (op_rekey frepr loads_b).
  Notation update_in_memory := (update_in_memory frepr loads_s).
  Notation update_cache_gen := (update_cache_gen frepr loads_s).
  Notation update_cache := (update_cache frepr loads_s).
  Notation observe := (observe frepr loads_s loads_b).
  Notation find_ids := (find_ids frepr loads_s).
  Notation index_sps := (index_sps frepr loads_s).
  Notation open_sp_by_id := (open_sp_by_id frepr loads_b).
  Notation open_all := (open_all frepr loads_b).
  Notation add_from_ws := (add_from_ws frepr loads_s).

  (* ================================================================ A. soundness of the caches *)
  Definition sound (c : cache) : Prop := forall i v, In (i, v) c -> cid v = i.
  Definition file_sound (f : fs) : Prop := forall c, cache_file f = Some c -> sound c.
  Definition Inv (f : fs) (s : sess) : Prop := sound (s_cache s) /\ file_sound f.

  Lemma sound_nil : sound [].
  Proof. intros i v []. Qed.

  Lemma sound_aset : forall c i v, sound c -> cid v = i -> sound (aset i v c).
  Proof.
    intros c i v Hc Hv k x H. apply In_aset in H. destruct H as [H|H]; [inversion H; subst; auto|auto].
  Qed.

  Lemma sound_aremove_all : forall ks c, sound c -> sound (aremove_all ks c).
  Proof. intros ks c Hc k x H. apply In_aremove_all in H. auto. Qed.

  Lemma sound_dict_upd : forall c new, sound c -> sound new -> sound (dict_upd c new).
  Proof. intros c new H1 H2 k x H. apply In_dict_upd in H. destruct H; auto. Qed.

  Lemma sound_reg : forall s i v, sound (s_cache s) -> cid v = i -> sound (s_cache (reg s i v)).
  Proof. intros. simpl. apply sound_aset; auto. Qed.

  Lemma read_cache_sound : forall f s, Inv f s -> sound (s_cache (fst (read_cache f s))).
  Proof.
    intros f s [Hs Hf]. unfold Cache.read_cache. destruct (cache_file f) as [c|] eqn:E; simpl; auto.
    apply sound_dict_upd; auto.
  Qed.

  Lemma ensure_read_sound : forall f s, Inv f s -> sound (s_cache (ensure_read f s)).
  Proof.
    intros f s H. unfold Cache.ensure_read. destruct (s_read s); [exact (proj1 H)|]. simpl. apply read_cache_sound; auto.
  Qed.

  Lemma sp_from_ws_valid : forall f i v, sp_from_ws f true i = Ok v -> cid v = i.
  Proof.
    intros f i v H. unfold Cache.sp_from_ws in H.
    destruct (get f (spf i)) as [[c|]|]; try (destruct (isdir f (jdir i)); discriminate).
    destruct (loads_s (c_bytes c)) as [x|]; [|destruct (isdir f (jdir i)); discriminate].
    simpl in H. destruct (str_eqb (Cache.cid frepr x) i) eqn:E; simpl in H; [|discriminate].
    inversion H; subst. apply str_eqb_eq. exact E.
  Qed.

  Lemma sp_load_valid : forall f i d, sp_load f i = Ok d -> cid d = i.
  Proof.
    intros f i d H. unfold Cache.sp_load in H.
    assert (V : forall v, (if str_eqb (Cache.cid frepr v) i then Ok v else Err EJobsCorrupted) = Ok d -> cid d = i).
    { intros v Hv. destruct (str_eqb (Cache.cid frepr v) i) eqn:E; [|discriminate]. inversion Hv; subst.
      apply str_eqb_eq. exact E. }
    destruct (get f (spf i)) as [[c|]|]; [|discriminate|eauto].
    destruct (loads_b (c_bytes c)); try discriminate. eauto.
  Qed.

  Lemma sp_load_view_valid : forall f i d v, sp_load_view f i = Ok (d, v) -> cid d = i.
  Proof.
    intros f i d v H. unfold Cache.sp_load_view in H. destruct (sp_load f i) as [d'|] eqn:E; [|discriminate].
    destruct (sp_view d'); [|discriminate]. inversion H; subst. eapply sp_load_valid; eauto.
  Qed.

  Lemma get_statepoint_sound : forall f s i s' r,
    Inv f s -> get_statepoint f s true i = (s', r) -> sound (s_cache s').
  Proof.
    intros f s i s' r H E. unfold Cache.get_statepoint in E.
    pose proof (ensure_read_sound f s H) as H1.
    destruct (alookup i (s_cache (ensure_read f s))); [inversion E; subst; auto|].
    destruct (sp_from_ws f true i) eqn:Ew; inversion E; subst; auto.
    apply sound_reg; auto. eapply sp_from_ws_valid; eauto.
  Qed.

  (* ---- the footprint of Job.init on the file system and on the session *)
  Lemma jinit_ws_only : forall force f s sp f' s' r, jinit force f s sp = (f', s', r) -> ws_only f f'.
  Proof.
    intros force f s sp f' s' r H. unfold Cache.jinit in H.
    destruct (is_objb sp); simpl in H.
    - destruct (sp_load_view f (Cache.cid frepr sp)); [inversion H; subst; apply ws_only_refl|].
      destruct (makedirs f (jdir (Cache.cid frepr sp))) as [f1|] eqn:Em; [|inversion H; subst; apply ws_only_refl].
      pose proof (makedirs_ws_only _ _ _ Em) as W1.
      destruct (force || negb (isfile f1 (spf (Cache.cid frepr sp)))).
      + destruct (json_write frepr f1 (spf (Cache.cid frepr sp)) sp) as [f2|] eqn:Ew; [|inversion H; subst; auto].
        pose proof (json_write_ws_only _ _ _ _ _ Ew) as W2.
        destruct (sp_load_view f2 (Cache.cid frepr sp)) as [[d v]|]; inversion H; subst; eapply ws_only_trans; eauto.
      + destruct (sp_load_view f1 (Cache.cid frepr sp)) as [[d v]|]; inversion H; subst; auto.
    - destruct (makedirs f (jdir (Cache.cid frepr sp))) eqn:Em; inversion H; subst; [|apply ws_only_refl].
      eapply makedirs_ws_only; eauto.
  Qed.

  Lemma jinit_sound : forall force f s sp f' s' r,
    sound (s_cache s) -> jinit force f s sp = (f', s', r) -> sound (s_cache s').
  Proof.
    intros force f s sp f' s' r Hs H. unfold Cache.jinit in H.
    destruct (is_objb sp); simpl in H.
    - destruct (sp_load_view f (Cache.cid frepr sp)); [inversion H; subst; auto|].
      destruct (makedirs f (jdir (Cache.cid frepr sp))) as [f1|]; [|inversion H; subst; auto].
      destruct (if force || negb (isfile f1 (spf (Cache.cid frepr sp)))
                then json_write frepr f1 (spf (Cache.cid frepr sp)) sp else FOk f1) as [f2|]; [|inversion H; subst; auto].
      destruct (sp_load_view f2 (Cache.cid frepr sp)) as [[d v]|] eqn:El; inversion H; subst; auto.
      apply sound_reg; auto. eapply sp_load_view_valid; eauto.
    - destruct (makedirs f (jdir (Cache.cid frepr sp))); inversion H; subst; auto.
  Qed.

  Lemma Inv_ws_only : forall f f' s', file_sound f -> ws_only f f' -> sound (s_cache s') -> Inv f' s'.
  Proof.
    intros f f' s' Hf W Hs. split; auto. intros c Hc. rewrite (ws_only_cache_file _ _ W) in Hc. auto.
  Qed.

  Theorem inv_init : forall f s sp f' s' r, Inv f s -> op_init f s sp = (f', s', r) -> Inv f' s'.
  Proof.
    intros f s sp f' s' r H E. unfold Cache.op_init in E.
    eapply (Inv_ws_only f f' s'); [exact (proj2 H)|eapply jinit_ws_only; eauto|].
    eapply jinit_sound; [|exact E]. apply ensure_read_sound; auto.
  Qed.

  Theorem inv_remove : forall f s sp f' s' r, Inv f s -> op_remove f s sp = (f', s', r) -> Inv f' s'.
  Proof.
    intros f s sp f' s' r H E. unfold Cache.op_remove in E.
    pose proof (ensure_read_sound f s H) as H1.
    destruct (rmtree f (jdir (Cache.cid frepr sp))) as [f1|e] eqn:Er.
    - inversion E; subst. eapply (Inv_ws_only f f'); [exact (proj2 H)|eapply rmtree_ws_only; eauto|auto].
    - destruct e; inversion E; subst; (eapply (Inv_ws_only f' f'); [exact (proj2 H)|apply ws_only_refl|auto]).
  Qed.

  Theorem inv_rekey : forall f s old new f' s' r, Inv f s -> op_rekey f s old new = (f', s', r) -> Inv f' s'.
  Proof.
    intros f s old new f' s' r H E. unfold Cache.op_rekey in E.
    pose proof (ensure_read_sound f s H) as H1.
    set (s0 := ensure_read f s) in *.
    set (oi := Cache.cid frepr old) in *. set (ni := Cache.cid frepr new) in *.
    destruct (is_objb new); simpl in E;
      [|inversion E; subst; eapply (Inv_ws_only f' f'); [exact (proj2 H)|apply ws_only_refl|auto]].
    destruct (str_eqb oi ni).
    { inversion E; subst. eapply (Inv_ws_only f' f'); [exact (proj2 H)|apply ws_only_refl|].
      apply sound_reg; auto. }
    (* the common tail *)
    assert (POST : forall (g : fs) (b : bool) (f' : fs) (s' : sess) (r : result unit), ws_only f g ->
      match (match unlink g (spt ni) with FOk g' => FOk g' | FErr ENOENT => FOk g | FErr e => FErr e end) with
      | FErr _ => (g, s0, Err EOSError)
      | FOk g1 =>
          if b then
            match jinit false g1 s0 new with
            | (g2, s2, Ok _) => (g2, reg s2 ni new, Ok tt)
            | (g2, s2, Err e) => (g2, s2, Err e)
            end
          else (g1, reg s0 ni new, Ok tt)
      end = (f', s', r) -> Inv f' s').
    { intros g b f2 s2 r2 Wg E2.
      assert (Hu : forall g1, (match unlink g (spt ni) with FOk g' => FOk g' | FErr ENOENT => FOk g | FErr e => FErr e end) = FOk g1 ->
                              ws_only f g1).
      { intros g1 Hg1. destruct (unlink g (spt ni)) as [g'|e] eqn:Eu.
        - inversion Hg1; subst. eapply ws_only_trans; [exact Wg|]. eapply unlink_ws_only; eauto. reflexivity.
        - destruct e; inversion Hg1; subst; auto. }
      destruct (match unlink g (spt ni) with FOk g' => FOk g' | FErr ENOENT => FOk g | FErr e => FErr e end) as [g1|e] eqn:Eu.
      - specialize (Hu g1 eq_refl). destruct b.
        + destruct (jinit false g1 s0 new) as [[g2 s3] [u|e]] eqn:Ej; inversion E2; subst.
          * eapply (Inv_ws_only f f2); [exact (proj2 H)| |].
            -- eapply ws_only_trans; [exact Hu|]. eapply jinit_ws_only; eauto.
            -- apply sound_reg; auto. eapply jinit_sound; eauto.
          * eapply (Inv_ws_only f f2); [exact (proj2 H)| |].
            -- eapply ws_only_trans; [exact Hu|]. eapply jinit_ws_only; eauto.
            -- eapply jinit_sound; eauto.
        + inversion E2; subst. eapply (Inv_ws_only f f2); [exact (proj2 H)|exact Hu|]. apply sound_reg; auto.
      - inversion E2; subst. eapply (Inv_ws_only f f2); [exact (proj2 H)|exact Wg|auto]. }
    destruct (rename f (spf oi) (spt oi)) as [f1|e] eqn:E1.
    - assert (W1 : ws_only f f1) by (eapply rename_ws_only; eauto; reflexivity).
      destruct (rename f1 (jdir oi) (jdir ni)) as [f2|e2] eqn:E2.
      + eapply POST; [|exact E]. eapply ws_only_trans; [exact W1|]. eapply rename_ws_only; eauto; reflexivity.
      + destruct (rename f1 (spt oi) (spf oi)) as [f3|e3] eqn:E3.
        * assert (W3 : ws_only f f3).
          { eapply ws_only_trans; [exact W1|]. eapply rename_ws_only; eauto; reflexivity. }
          destruct (dest_exists_errno e2).
          -- inversion E; subst. eapply (Inv_ws_only f f'); [exact (proj2 H)|exact W3|auto].
          -- destruct e2; try (inversion E; subst; eapply (Inv_ws_only f f'); [exact (proj2 H)|exact W3|auto]).
             eapply POST; [exact W3|exact E].
        * inversion E; subst. eapply (Inv_ws_only f f'); [exact (proj2 H)|exact W1|auto].
    - destruct e; try (inversion E; subst; eapply (Inv_ws_only f' f'); [exact (proj2 H)|apply ws_only_refl|auto]).
      eapply POST; [apply ws_only_refl|exact E].
  Qed.

  (* ---- update_cache *)
  Lemma add_from_ws_sound : forall f ids c c', sound c -> add_from_ws f c ids = Ok c' -> sound c'.
  Proof.
    induction ids as [|i r IH]; simpl; intros c c' Hc H; [inversion H; subst; auto|].
    destruct (sp_from_ws f true i) as [v|] eqn:E; [|discriminate].
    eapply IH; [|exact H]. apply sound_aset; auto. eapply sp_from_ws_valid; eauto.
  Qed.

  Lemma update_in_memory_sound : forall f s s', sound (s_cache s) -> update_in_memory f s = Ok s' -> sound (s_cache s').
  Proof.
    intros f s s' Hs H. unfold Cache.update_in_memory in H.
    match type of H with match ?X with _ => _ end = _ => destruct X as [c|] eqn:E; [|discriminate] end.
    inversion H; subst. simpl. eapply add_from_ws_sound; [|exact E]. apply sound_aremove_all; auto.
  Qed.

  Lemma cache_file_written : forall f c f1 f2,
    write_file f CACHETMP (cache_content c) = FOk f1 -> rename f1 CACHETMP CACHEP = FOk f2 ->
    cache_file f2 = Some c /\ (forall q, q <> CACHEP -> q <> CACHETMP -> get f2 q = get f q).
  Proof.
    intros f c f1 f2 H1 H2.
    assert (G1 : forall q, get f1 q = if path_eqb q CACHETMP then Some (File (cache_content c)) else get f q)
      by (intro; eapply get_write_file; eauto).
    assert (Ht : get f1 CACHETMP = Some (File (cache_content c))) by (rewrite G1; reflexivity).
    assert (Hne : CACHETMP <> CACHEP) by discriminate.
    pose proof (fun q => get_rename_file f1 CACHETMP CACHEP _ f2 q Ht Hne H2) as G2.
    split.
    - unfold cache_file. rewrite G2, path_eqb_refl. reflexivity.
    - intros q Hq1 Hq2. rewrite G2. apply path_eqb_neq in Hq1, Hq2. rewrite Hq1, Hq2, G1, Hq2. reflexivity.
  Qed.

  Theorem inv_update_cache_gen : forall late f s f' s' r,
    Inv f s -> update_cache_gen late f s = (f', s', r) -> Inv f' s'.
  Proof.
    intros late f s f' s' r H E. unfold Cache.update_cache_gen in E.
    pose proof (read_cache_sound f s H) as H1.
    destruct (read_cache f s) as [s1 cf] eqn:Er. simpl in H1.
    destruct (update_in_memory f s1) as [s2|e] eqn:Eu.
    - pose proof (update_in_memory_sound _ _ _ H1 Eu) as H2.
      match type of E with (if ?b then _ else _) = _ => destruct b end.
      + destruct (write_file f CACHETMP (cache_content (s_cache s2))) as [f1|] eqn:Ew;
          [|inversion E; subst; split; [auto|exact (proj2 H)]].
        destruct (rename f1 CACHETMP CACHEP) as [f2|] eqn:En.
        * inversion E; subst. split; auto. intros c Hc.
          destruct (cache_file_written _ _ _ _ Ew En) as [Hcf _]. rewrite Hcf in Hc. inversion Hc; subst. auto.
        * inversion E; subst. split; auto. intros c Hc.
          (* only the temp name was written *)
          assert (Hg : get f' CACHEP = get f CACHEP).
          { rewrite (get_write_file _ _ _ _ CACHEP Ew). reflexivity. }
          unfold cache_file in Hc. rewrite Hg in Hc. apply (proj2 H c). exact Hc.
      + inversion E; subst. split; [auto|exact (proj2 H)].
    - inversion E; subst. split; [auto|exact (proj2 H)].
  Qed.

  Theorem inv_restart : forall f s, Inv f s -> Inv f fresh.
  Proof. intros f s H. split; [apply sound_nil|exact (proj2 H)]. Qed.

  Theorem inv_delcache : forall f s f', Inv f s -> unlink f CACHEP = FOk f' -> Inv f' s.
  Proof.
    intros f s f' H E. split; [exact (proj1 H)|]. intros c Hc. unfold cache_file in Hc.
    rewrite (get_unlink _ _ _ CACHEP E), path_eqb_refl in Hc. discriminate.
  Qed.

End P.
