(* C08Proofs.v — lemmas behind props/C08.v *)
From SV Require Import Base Json MD5 Canon FS Ws WsLemmas Cache CacheLemmas CorrC01 CorrC08 C01Proofs.

Section P.
  Variable frepr : fl -> str.
  Variable loads_s : list N -> option json.
  Variable loads_b : list N -> dec.

  Notation cid := (cid frepr).
  Notation read_cache := (read_cache).
  Notation ensure_read := (ensure_read).
  Notation sp_from_ws := (sp_from_ws frepr loads_s).
  Notation get_statepoint := (get_statepoint frepr loads_s).
  Notation sp_load := (sp_load frepr loads_b).
  Notation sp_load_view := (sp_load_view frepr loads_b).
  Notation jinit := (jinit frepr loads_b).
  Notation op_init := (op_init frepr loads_b).
  Notation op_remove := (op_remove frepr).
  Notation op_rekey := (op_rekey frepr loads_b).
  Notation op_rekey_id := (op_rekey_id frepr loads_b).
  Notation rekey_core := (rekey_core frepr loads_b).
  Notation update_in_memory := (update_in_memory frepr loads_s).
  Notation update_cache_gen := (update_cache_gen frepr loads_s).
  Notation update_cache := (update_cache frepr loads_s).
  Notation observe := (observe frepr loads_s loads_b).
  Notation find_ids := (find_ids frepr loads_s).
  Notation index_sps := (index_sps frepr loads_s).
  Notation open_sp_by_id := (open_sp_by_id frepr loads_b).
  Notation open_all := (open_all frepr loads_b).
  Notation add_from_ws := (add_from_ws frepr loads_s).
  Notation resolve_id := (resolve_id).
  Notation open_pre := (open_pre frepr loads_b).
  Notation open_pres := (open_pres frepr loads_b).
  Notation handle_sp := (handle_sp frepr loads_b).
  Notation cached_by_id := (cached_by_id frepr loads_s).
  Notation op_upd_id := (op_upd_id frepr loads_b).
  Notation handle_sp_rep := (handle_sp_rep frepr loads_b).
  Notation open_sp_rep := (open_sp_rep frepr loads_b).
  Notation cached_all := (cached_all frepr loads_s).

  (* ================================================================ A. soundness of the caches *)
  Definition sound (c : cache) : Prop := forall i v, In (i, v) c -> cid v = i.
  Definition file_sound (f : fs) : Prop := forall c, cache_file f = Some c -> sound c.
  Definition Inv (f : fs) (s : sess) : Prop := sound (s_cache s) /\ file_sound f.

  Lemma sound_nil : sound [].
  Proof. intros i v []. Qed.

  Lemma sound_aset : forall c i v, sound c -> cid v = i -> sound (aset i v c).
  Proof.
    intros c i v Hc Hv k x H. apply In_aset in H. destruct H as [H|H]; [inversion H; subst; auto|auto].
  Qed.

  Lemma sound_aremove_all : forall ks c, sound c -> sound (aremove_all ks c).
  Proof. intros ks c Hc k x H. apply In_aremove_all in H. auto. Qed.

  Lemma sound_dict_upd : forall c new, sound c -> sound new -> sound (dict_upd c new).
  Proof. intros c new H1 H2 k x H. apply In_dict_upd in H. destruct H; auto. Qed.

  Lemma sound_reg : forall s i v, sound (s_cache s) -> cid v = i -> sound (s_cache (reg s i v)).
  Proof. intros. simpl. apply sound_aset; auto. Qed.

  Lemma read_cache_sound : forall f s, Inv f s -> sound (s_cache (fst (read_cache f s))).
  Proof.
    intros f s [Hs Hf]. unfold Cache.read_cache. destruct (cache_file f) as [c|] eqn:E; simpl; auto.
    apply sound_dict_upd; auto.
  Qed.

  Lemma ensure_read_sound : forall f s, Inv f s -> sound (s_cache (ensure_read f s)).
  Proof.
    intros f s H. unfold Cache.ensure_read. destruct (s_read s); [exact (proj1 H)|]. simpl. apply read_cache_sound; auto.
  Qed.

  Lemma sp_from_ws_valid : forall f i v, sp_from_ws f true i = Ok v -> cid v = i.
  Proof.
    intros f i v H. unfold Cache.sp_from_ws in H.
    destruct (get f (spf i)) as [[c|]|]; try (destruct (isdir f (jdir i)); discriminate).
    destruct (loads_s (c_bytes c)) as [x|]; [|destruct (isdir f (jdir i)); discriminate].
    simpl in H. destruct (str_eqb (Cache.cid frepr x) i) eqn:E; simpl in H; [|discriminate].
    inversion H; subst. apply str_eqb_eq. exact E.
  Qed.

  Lemma sp_load_valid : forall f i d, sp_load f i = Ok d -> cid d = i /\ d <> JNull.
  Proof.
    intros f i d H. unfold Cache.sp_load in H.
    assert (V : forall v, match v with
                          | JNull => Err EJobsCorrupted
                          | _ => if str_eqb (Cache.cid frepr v) i then Ok v else Err EJobsCorrupted
                          end = Ok d -> cid d = i /\ d <> JNull).
    { intros v Hv. destruct v; try discriminate Hv;
        (destruct (str_eqb (Cache.cid frepr _) i) eqn:E; [|discriminate Hv]; inversion Hv; subst;
         split; [apply str_eqb_eq; exact E|discriminate]). }
    destruct (get f (spf i)) as [[c|]|]; [|discriminate|discriminate].
    destruct (loads_b (c_bytes c)); try discriminate. eauto.
  Qed.

  Lemma sp_load_view_valid : forall f i d v, sp_load_view f i = Ok (d, v) -> cid d = i.
  Proof.
    intros f i d v H. unfold Cache.sp_load_view in H. destruct (sp_load f i) as [d'|] eqn:E; [|discriminate].
    destruct (sp_view d'); [|discriminate]. inversion H; subst. exact (proj1 (sp_load_valid _ _ _ E)).
  Qed.

  Lemma get_statepoint_sound : forall f s i s' r,
    Inv f s -> get_statepoint f s true i = (s', r) -> sound (s_cache s').
  Proof.
    intros f s i s' r H E. unfold Cache.get_statepoint in E.
    pose proof (ensure_read_sound f s H) as H1.
    destruct (alookup i (s_cache (ensure_read f s))); [inversion E; subst; auto|].
    destruct (sp_from_ws f true i) eqn:Ew; cbv iota in E; inversion E; subst; auto.
    apply sound_reg; auto. eapply sp_from_ws_valid; eauto.
  Qed.

  (* ---- the footprint of Job.init on the file system and on the session *)
  Lemma jinit_ws_only : forall force f s sp f' s' r, jinit force f s sp = (f', s', r) -> ws_only f f'.
  Proof.
    intros force f s sp f' s' r H. unfold Cache.jinit in H.
    destruct (is_objb sp); simpl in H.
    - destruct (sp_load_view f (Cache.cid frepr sp)); [inversion H; subst; apply ws_only_refl|].
      destruct (makedirs f (jdir (Cache.cid frepr sp))) as [f1|] eqn:Em; [|inversion H; subst; apply ws_only_refl].
      pose proof (makedirs_ws_only _ _ _ Em) as W1.
      destruct (force || negb (isfile f1 (spf (Cache.cid frepr sp)))).
      + destruct (json_write frepr f1 (spf (Cache.cid frepr sp)) sp) as [f2|] eqn:Ew; [|inversion H; subst; auto].
        pose proof (json_write_ws_only _ _ _ _ _ Ew) as W2.
        destruct (sp_load_view f2 (Cache.cid frepr sp)) as [[d v]|]; inversion H; subst; eapply ws_only_trans; eauto.
      + destruct (sp_load_view f1 (Cache.cid frepr sp)) as [[d v]|]; inversion H; subst; auto.
    - inversion H; subst. apply ws_only_refl.
  Qed.

  Lemma jinit_sound : forall force f s sp f' s' r,
    sound (s_cache s) -> jinit force f s sp = (f', s', r) -> sound (s_cache s').
  Proof.
    intros force f s sp f' s' r Hs H. unfold Cache.jinit in H.
    destruct (is_objb sp); simpl in H.
    - destruct (sp_load_view f (Cache.cid frepr sp)); [inversion H; subst; auto|].
      destruct (makedirs f (jdir (Cache.cid frepr sp))) as [f1|]; [|inversion H; subst; auto].
      destruct (if force || negb (isfile f1 (spf (Cache.cid frepr sp)))
                then json_write frepr f1 (spf (Cache.cid frepr sp)) sp else FOk f1) as [f2|]; [|inversion H; subst; auto].
      destruct (sp_load_view f2 (Cache.cid frepr sp)) as [[d v]|] eqn:El; inversion H; subst; auto.
      apply sound_reg; auto. eapply sp_load_view_valid; eauto.
    - inversion H; subst; auto.
  Qed.

  Lemma Inv_ws_only : forall f f' s', file_sound f -> ws_only f f' -> sound (s_cache s') -> Inv f' s'.
  Proof.
    intros f f' s' Hf W Hs. split; auto. intros c Hc. rewrite (ws_only_cache_file _ _ W) in Hc. auto.
  Qed.

  Theorem inv_init : forall f s sp f' s' r, Inv f s -> op_init f s sp = (f', s', r) -> Inv f' s'.
  Proof.
    intros f s sp f' s' r H E. unfold Cache.op_init in E.
    eapply (Inv_ws_only f f' s'); [exact (proj2 H)|eapply jinit_ws_only; eauto|].
    eapply jinit_sound; [|exact E]. apply ensure_read_sound; auto.
  Qed.

  Theorem inv_remove : forall f s sp f' s' r, Inv f s -> op_remove f s sp = (f', s', r) -> Inv f' s'.
  Proof.
    intros f s sp f' s' r H E. unfold Cache.op_remove in E.
    pose proof (ensure_read_sound f s H) as H1.
    destruct (rmtree f (jdir (Cache.cid frepr sp))) as [f1|e] eqn:Er.
    - inversion E; subst. eapply (Inv_ws_only f f'); [exact (proj2 H)|eapply rmtree_ws_only; eauto|auto].
    - destruct e; inversion E; subst; (eapply (Inv_ws_only f' f'); [exact (proj2 H)|apply ws_only_refl|auto]).
  Qed.

  Lemma inv_rekey_core : forall f s0 oi new f' s' r,
    file_sound f -> sound (s_cache s0) -> rekey_core f s0 oi new = (f', s', r) -> Inv f' s'.
  Proof.
    intros f s0 oi new f' s' r Hfs H1 E. unfold Cache.rekey_core in E.
    set (ni := Cache.cid frepr new) in *.
    destruct (is_objb new); simpl in E;
      [|inversion E; subst; eapply (Inv_ws_only f' f'); [exact Hfs|apply ws_only_refl|auto]].
    destruct (str_eqb oi ni).
    { inversion E; subst. eapply (Inv_ws_only f' f'); [exact Hfs|apply ws_only_refl|].
      apply sound_reg; auto. }
    (* the common tail *)
    assert (POST : forall (g : fs) (b : bool) (f' : fs) (s' : sess) (r : result unit), ws_only f g ->
      match (match unlink g (spt ni) with FOk g' => FOk g' | FErr ENOENT => FOk g | FErr e => FErr e end) with
      | FErr _ => (g, s0, Err EOSError)
      | FOk g1 =>
          if b then
            match jinit false g1 s0 new with
            | (g2, s2, Ok _) => (g2, reg s2 ni new, Ok tt)
            | (g2, s2, Err e) => (g2, s2, Err e)
            end
          else (g1, reg s0 ni new, Ok tt)
      end = (f', s', r) -> Inv f' s').
    { intros g b f2 s2 r2 Wg E2.
      assert (Hu : forall g1, (match unlink g (spt ni) with FOk g' => FOk g' | FErr ENOENT => FOk g | FErr e => FErr e end) = FOk g1 ->
                              ws_only f g1).
      { intros g1 Hg1. destruct (unlink g (spt ni)) as [g'|e] eqn:Eu.
        - inversion Hg1; subst. eapply ws_only_trans; [exact Wg|]. eapply unlink_ws_only; eauto. reflexivity.
        - destruct e; inversion Hg1; subst; auto. }
      destruct (match unlink g (spt ni) with FOk g' => FOk g' | FErr ENOENT => FOk g | FErr e => FErr e end) as [g1|e] eqn:Eu.
      - specialize (Hu g1 eq_refl). destruct b.
        + destruct (jinit false g1 s0 new) as [[g2 s3] [u|e]] eqn:Ej; inversion E2; subst.
          * eapply (Inv_ws_only f f2); [exact Hfs| |].
            -- eapply ws_only_trans; [exact Hu|]. eapply jinit_ws_only; eauto.
            -- apply sound_reg; auto. eapply jinit_sound; eauto.
          * eapply (Inv_ws_only f f2); [exact Hfs| |].
            -- eapply ws_only_trans; [exact Hu|]. eapply jinit_ws_only; eauto.
            -- eapply jinit_sound; eauto.
        + inversion E2; subst. eapply (Inv_ws_only f f2); [exact Hfs|exact Hu|]. apply sound_reg; auto.
      - inversion E2; subst. eapply (Inv_ws_only f f2); [exact Hfs|exact Wg|auto]. }
    destruct (rename f (spf oi) (spt oi)) as [f1|e] eqn:E1.
    - assert (W1 : ws_only f f1) by (eapply rename_ws_only; eauto; reflexivity).
      destruct (rename f1 (jdir oi) (jdir ni)) as [f2|e2] eqn:E2.
      + eapply (POST f2 true); [|exact E]. eapply ws_only_trans; [exact W1|]. eapply rename_ws_only; eauto; reflexivity.
      + destruct (rename f1 (spt oi) (spf oi)) as [f3|e3] eqn:E3.
        * assert (W3 : ws_only f f3).
          { eapply ws_only_trans; [exact W1|]. eapply rename_ws_only; eauto; reflexivity. }
          destruct (dest_exists_errno e2).
          -- inversion E; subst. eapply (Inv_ws_only f f'); [exact Hfs|exact W3|auto].
          -- destruct e2; try (inversion E; subst; eapply (Inv_ws_only f f'); [exact Hfs|exact W3|auto]).
             eapply (POST f3 false); [exact W3|exact E].
        * inversion E; subst. eapply (Inv_ws_only f f'); [exact Hfs|exact W1|auto].
    - destruct e; try (inversion E; subst; eapply (Inv_ws_only f' f'); [exact Hfs|apply ws_only_refl|auto]).
      eapply (POST f false); [apply ws_only_refl|exact E].
  Qed.

  Theorem inv_rekey : forall f s old new f' s' r, Inv f s -> op_rekey f s old new = (f', s', r) -> Inv f' s'.
  Proof.
    intros f s old new f' s' r H E. unfold Cache.op_rekey in E.
    eapply inv_rekey_core; [exact (proj2 H)|apply ensure_read_sound; exact H|exact E].
  Qed.

  Theorem inv_rekey_id : forall f s i new f' s' r, Inv f s -> op_rekey_id f s i new = (f', s', r) -> Inv f' s'.
  Proof.
    intros f s i new f' s' r H E. unfold Cache.op_rekey_id, Cache.open_id in E.
    pose proof (ensure_read_sound f s H) as H1.
    destruct (alookup i (s_cache (ensure_read f s))).
    - eapply inv_rekey_core; [exact (proj2 H)|exact H1|exact E].
    - destruct (Cache.resolve_id f i) as [m|e].
      + eapply inv_rekey_core; [exact (proj2 H)|exact H1|exact E].
      + inversion E; subst. split; [exact H1|exact (proj2 H)].
  Qed.

  (* ---- update_cache *)
  (* job.statepoint on a handle (id, _cached_statepoint): only a validated load reaches the session *)
  Lemma handle_sp_sound : forall f s h s' r,
    sound (s_cache s) -> handle_sp f s h = (s', r) -> sound (s_cache s').
  Proof.
    intros f s h s' r H E. unfold Cache.handle_sp in E. destruct (snd h) as [x|].
    - inversion E; subst; auto.
    - destruct (sp_load_view f (fst h)) as [[d v]|] eqn:Ev; inversion E; subst; auto.
      apply sound_reg; auto. eapply sp_load_view_valid; eauto.
  Qed.

  Theorem inv_upd_id : forall f s i upd f' s' r, Inv f s -> op_upd_id f s i upd = (f', s', r) -> Inv f' s'.
  Proof.
    intros f s i upd f' s' r H E. unfold Cache.op_upd_id in E.
    destruct (Cache.open_id f s i) as [s1 [h|e]] eqn:Eo.
    - assert (H1 : sound (s_cache s1)).
      { unfold Cache.open_id in Eo. pose proof (ensure_read_sound f s H) as H1.
        destruct (alookup i (s_cache (ensure_read f s))); [inversion Eo; subst; auto|].
        destruct (Cache.resolve_id f i); inversion Eo; subst; auto. }
      destruct (handle_sp f s1 h) as [s2 [sp|e]] eqn:Eh.
      + pose proof (handle_sp_sound _ _ _ _ _ H1 Eh) as H2.
        destruct sp; try (inversion E; subst; split; [exact H2|exact (proj2 H)]).
        destruct upd; try (inversion E; subst; split; [exact H2|exact (proj2 H)]).
        eapply inv_rekey_core; [exact (proj2 H)|exact H2|exact E].
      + pose proof (handle_sp_sound _ _ _ _ _ H1 Eh) as H2. inversion E; subst. split; [exact H2|exact (proj2 H)].
    - assert (H1 : sound (s_cache s1)).
      { unfold Cache.open_id in Eo. pose proof (ensure_read_sound f s H) as H1.
        destruct (alookup i (s_cache (ensure_read f s))); [inversion Eo|].
        destruct (Cache.resolve_id f i); inversion Eo; subst; auto. }
      inversion E; subst. split; [exact H1|exact (proj2 H)].
  Qed.

  Theorem inv_foreign_init : forall f s sp f' s' r, Inv f s -> op_init f fresh sp = (f', s', r) -> Inv f' s.
  Proof.
    intros f s sp f' s' r H E. split; [exact (proj1 H)|].
    assert (H0 : Inv f fresh) by (split; [apply sound_nil|exact (proj2 H)]).
    exact (proj2 (inv_init _ _ _ _ _ _ H0 E)).
  Qed.

  (* repeated access through one handle: every state point it ever shows hashes to the handle's id *)
  Lemma handle_sp_rep_ok : forall n f s h s' l,
    (forall x, snd h = Some x -> cid x = fst h) ->
    handle_sp_rep n f s h = (s', l) -> forall sp, In (Ok sp) l -> cid sp = fst h.
  Proof.
    induction n as [|n IH]; intros f s h s' l Hh E sp Hin; simpl in E.
    - inversion E; subst. contradiction.
    - destruct (handle_sp f s h) as [s1 r] eqn:Eh.
      destruct (handle_sp_rep n f s1 (match r with Ok v => (fst h, Some v) | Err _ => h end)) as [s2 l2] eqn:Er.
      inversion E; subst. clear E.
      assert (Hr : forall v, r = Ok v -> cid v = fst h).
      { intros v Hv. subst r. unfold Cache.handle_sp in Eh. destruct (snd h) as [x|] eqn:Es.
        - destruct (is_objb x); inversion Eh; subst. apply Hh; reflexivity.
        - destruct (sp_load_view f (fst h)) as [[d w]|] eqn:Ev; inversion Eh; subst.
          unfold Cache.sp_load_view in Ev. destruct (sp_load f (fst h)) as [d'|] eqn:Ed; [|discriminate].
          destruct (sp_load_valid f (fst h) d' Ed) as [Hid Hnn].
          destruct d'; simpl in Ev; inversion Ev; subst; auto. exfalso. apply Hnn. reflexivity. }
      destruct Hin as [Hin|Hin].
      + apply Hr. exact Hin.
      + destruct r as [v|e].
        * eapply (IH f s1 (fst h, Some v)); [|exact Er|exact Hin]. simpl. intros x Hx. inversion Hx; subst. apply Hr. reflexivity.
        * eapply (IH f s1 h); [exact Hh|exact Er|exact Hin].
  Qed.

  Theorem open_sp_rep_never_wrong : forall n f s i s' l sp,
    Inv f s -> open_sp_rep n f s i = (s', l) -> In (Ok sp) l ->
    exists m, (m = i \/ resolve_id f i = Ok m) /\ cid sp = m.
  Proof.
    intros n f s i s' l sp H E Hin. unfold Cache.open_sp_rep, Cache.open_id in E.
    pose proof (ensure_read_sound f s H) as H1.
    destruct (alookup i (s_cache (ensure_read f s))) as [x|] eqn:El.
    - exists i. split; auto.
      apply (handle_sp_rep_ok n f (ensure_read f s) (i, Some x) s' l); auto.
      simpl. intros y Hy. inversion Hy; subst. apply alookup_In in El. apply H1 in El. exact El.
    - destruct (resolve_id f i) as [m|e] eqn:Er.
      + exists m. split; auto.
        apply (handle_sp_rep_ok n f (ensure_read f s) (m, alookup m (s_cache (ensure_read f s))) s' l); auto.
        simpl. intros y Hy. apply alookup_In in Hy. apply H1 in Hy. exact Hy.
      + inversion E; subst. apply repeat_spec in Hin. discriminate.
  Qed.

  Lemma add_from_ws_sound : forall f ids c c', sound c -> add_from_ws f c ids = Ok c' -> sound c'.
  Proof.
    induction ids as [|i r IH]; simpl; intros c c' Hc H; [inversion H; subst; auto|].
    destruct (sp_from_ws f true i) as [v|] eqn:E; [|discriminate].
    eapply IH; [|exact H]. apply sound_aset; auto. eapply sp_from_ws_valid; eauto.
  Qed.

  Lemma update_in_memory_sound : forall f s s', sound (s_cache s) -> update_in_memory f s = Ok s' -> sound (s_cache s').
  Proof.
    intros f s s' Hs H. unfold Cache.update_in_memory in H.
    match type of H with match ?X with _ => _ end = _ => destruct X as [c|] eqn:E; [|discriminate] end.
    inversion H; subst. simpl. eapply add_from_ws_sound; [|exact E]. apply sound_aremove_all; auto.
  Qed.

  Lemma cache_file_written : forall f c f1 f2,
    write_file f CACHETMP (cache_content c) = FOk f1 -> rename f1 CACHETMP CACHEP = FOk f2 ->
    cache_file f2 = Some c /\ (forall q, q <> CACHEP -> q <> CACHETMP -> get f2 q = get f q).
  Proof.
    intros f c f1 f2 H1 H2.
    assert (G1 : forall q, get f1 q = if path_eqb q CACHETMP then Some (File (cache_content c)) else get f q)
      by (intro; eapply get_write_file; eauto).
    assert (Ht : get f1 CACHETMP = Some (File (cache_content c))) by (rewrite G1; reflexivity).
    assert (Hne : CACHETMP <> CACHEP) by discriminate.
    pose proof (fun q => get_rename_file f1 CACHETMP CACHEP _ f2 q Ht Hne H2) as G2.
    split.
    - unfold cache_file. rewrite G2, path_eqb_refl. reflexivity.
    - intros q Hq1 Hq2. rewrite G2. apply path_eqb_neq in Hq1, Hq2. rewrite Hq1, Hq2, G1, Hq2. reflexivity.
  Qed.

  Theorem inv_update_cache_gen : forall late f s f' s' r,
    Inv f s -> update_cache_gen late f s = (f', s', r) -> Inv f' s'.
  Proof.
    intros late f s f' s' r H E. unfold Cache.update_cache_gen in E.
    pose proof (read_cache_sound f s H) as H1.
    destruct (read_cache f s) as [s1 cf] eqn:Er. simpl in H1.
    destruct (update_in_memory f s1) as [s2|e] eqn:Eu.
    - pose proof (update_in_memory_sound _ _ _ H1 Eu) as H2.
      match type of E with (if ?b then _ else _) = _ => destruct b end.
      + destruct (write_file f CACHETMP (cache_content (s_cache s2))) as [f1|] eqn:Ew;
          [|inversion E; subst; split; [auto|exact (proj2 H)]].
        destruct (rename f1 CACHETMP CACHEP) as [f2|] eqn:En.
        * inversion E; subst. split; auto. intros c Hc.
          destruct (cache_file_written _ _ _ _ Ew En) as [Hcf _]. rewrite Hcf in Hc. inversion Hc; subst. auto.
        * inversion E; subst. split; auto. intros c Hc.
          (* only the temp name was written *)
          assert (Hg : get f' CACHEP = get f CACHEP).
          { rewrite (get_write_file _ _ _ _ CACHEP Ew). reflexivity. }
          unfold cache_file in Hc. rewrite Hg in Hc. apply (proj2 H c). exact Hc.
      + inversion E; subst. split; [auto|exact (proj2 H)].
    - inversion E; subst. split; [auto|exact (proj2 H)].
  Qed.

  Theorem inv_restart : forall f s, Inv f s -> Inv f fresh.
  Proof. intros f s H. split; [apply sound_nil|exact (proj2 H)]. Qed.

  Theorem inv_delcache : forall f s f', Inv f s -> unlink f CACHEP = FOk f' -> Inv f' s.
  Proof.
    intros f s f' H E. split; [exact (proj1 H)|]. intros c Hc. unfold cache_file in Hc.
    rewrite (get_unlink _ _ _ CACHEP E), path_eqb_refl in Hc. discriminate.
  Qed.


  (* ================================================================ B. transparency *)
  (* what the workspace itself says about job i *)
  Definition wsv (f : fs) (i : str) : option json :=
    match get f (spf i) with Some (File c) => loads_s (c_bytes c) | _ => None end.

  (* an uncorrupted workspace: every listed directory holds a file that both decoders read as the same
     mapping, whose id is the directory name *)
  Definition ws_intact (f : fs) : Prop := forall i, In i (listing f) ->
    exists c v, get f (spf i) = Some (File c) /\ loads_s (c_bytes c) = Some v /\ loads_b (c_bytes c) = DVal v
                /\ cid v = i /\ is_objb v = true.

  (* no two DIFFERENT values among those at hand share an id (MD5 collision freedom on this finite set) *)
  Definition coll_free (f : fs) (vals : list json) : Prop :=
    forall i w v, In i (listing f) -> wsv f i = Some w -> In v vals -> cid v = cid w -> norm v = norm w.

  Definition file_vals (f : fs) : list json := match cache_file f with Some c => map snd c | None => [] end.

  (* cached values agree with the workspace up to key order *)
  Definition agrees (f : fs) (c : cache) : Prop :=
    forall i v w, In (i, v) c -> In i (listing f) -> wsv f i = Some w -> norm v = norm w.
  Definition Agr (f : fs) (s : sess) : Prop :=
    agrees f (s_cache s) /\ (forall c, cache_file f = Some c -> agrees f c).

  Lemma ws_intact_wsv : forall f i, ws_intact f -> In i (listing f) ->
    exists c v, get f (spf i) = Some (File c) /\ loads_s (c_bytes c) = Some v /\ loads_b (c_bytes c) = DVal v
                /\ cid v = i /\ is_objb v = true /\ wsv f i = Some v.
  Proof.
    intros f i H Hi. destruct (H i Hi) as [c [v [H1 [H2 [H3 [H4 H5]]]]]]. exists c, v. repeat split; auto.
    unfold wsv. rewrite H1. exact H2.
  Qed.

  Lemma Inv_Agr : forall f s, Inv f s -> ws_intact f ->
    coll_free f (map snd (s_cache s) ++ file_vals f) -> Agr f s.
  Proof.
    intros f s [Hs Hf] Hw Hc. split.
    - intros i v w Hin Hi Hv. apply (Hc i w v Hi Hv).
      + apply in_or_app. left. apply (in_map snd) in Hin. exact Hin.
      + rewrite (Hs _ _ Hin). destruct (ws_intact_wsv f i Hw Hi) as [c [v' [_ [_ [_ [Hid [_ Hv']]]]]]].
        assert (Ew : w = v') by congruence. subst v'. symmetry. exact Hid.
    - intros c Ec i v w Hin Hi Hv. apply (Hc i w v Hi Hv).
      + apply in_or_app. right. unfold file_vals. rewrite Ec. apply (in_map snd) in Hin. exact Hin.
      + rewrite (Hf c Ec _ _ Hin). destruct (ws_intact_wsv f i Hw Hi) as [c' [v' [_ [_ [_ [Hid [_ Hv']]]]]]].
        assert (Ew : w = v') by congruence. subst v'. symmetry. exact Hid.
  Qed.

  Lemma agrees_aset : forall f c i v, agrees f c -> wsv f i = Some v -> agrees f (aset i v c).
  Proof.
    intros f c i v Hc Hv k x w Hin Hk Hw. apply In_aset in Hin. destruct Hin as [E|Hin]; [|eauto].
    inversion E; subst. rewrite Hv in Hw. inversion Hw; reflexivity.
  Qed.

  Lemma agrees_dict_upd : forall f c new, agrees f c -> agrees f new -> agrees f (dict_upd c new).
  Proof. intros f c new H1 H2 i v w Hin. apply In_dict_upd in Hin. destruct Hin; eauto. Qed.

  Lemma ensure_read_agrees : forall f s, Agr f s -> agrees f (s_cache (ensure_read f s)).
  Proof.
    intros f s [H1 H2]. unfold Cache.ensure_read, Cache.read_cache. destruct (s_read s); auto.
    destruct (cache_file f) as [c|] eqn:E; simpl; auto. apply agrees_dict_upd; auto.
  Qed.

  Lemma ensure_read_idem_file : forall f s, (forall c, cache_file f = Some c -> agrees f c) ->
    agrees f (s_cache s) -> Agr f s.
  Proof. intros; split; auto. Qed.

  Lemma get_statepoint_ref : forall f s i,
    Agr f s -> ws_intact f -> In i (listing f) ->
    exists s' v w, get_statepoint f s true i = (s', Ok v) /\ wsv f i = Some w /\ norm v = norm w /\ Agr f s'.
  Proof.
    intros f s i HA Hw Hi.
    destruct (ws_intact_wsv f i Hw Hi) as [c [w [G [Ls [Lb [Hid [Ho Hv]]]]]]].
    pose proof (ensure_read_agrees f s HA) as H1.
    unfold Cache.get_statepoint. destruct (alookup i (s_cache (ensure_read f s))) as [sp|] eqn:El.
    - exists (ensure_read f s), sp, w. split; [reflexivity|]. split; [exact Hv|].
      split; [apply alookup_In in El; eapply H1; eauto|]. split; [exact H1|apply (proj2 HA)].
    - assert (Ews : sp_from_ws f true i = Ok w).
      { unfold Cache.sp_from_ws. rewrite G, Ls. simpl. unfold Cache.cid. fold (cid w). rewrite Hid, str_eqb_refl. reflexivity. }
      rewrite Ews. exists (reg (ensure_read f s) i w), w, w. split; [reflexivity|]. split; [exact Hv|].
      split; [reflexivity|]. split; [simpl; apply agrees_aset; auto|apply (proj2 HA)].
  Qed.

  (* the reference answers, computed from the workspace alone *)
  Definition ev_ws (ev : json -> bool) (f : fs) (i : str) : bool :=
    match wsv f i with Some w => ev w | None => false end.

  Lemma index_sps_ref : forall f ids s,
    Agr f s -> ws_intact f -> (forall i, In i ids -> In i (listing f)) ->
    exists s' l, index_sps f s ids = (s', Ok l) /\ Agr f s' /\
      Forall2 (fun p i => fst p = i /\ exists w, wsv f i = Some w /\ norm (snd p) = norm w) l ids.
  Proof.
    induction ids as [|i r IH]; intros s HA Hw Hsub; simpl.
    - exists s, []. split; [reflexivity|]. split; [exact HA|constructor].
    - destruct (get_statepoint_ref f s i HA Hw (Hsub i (or_introl eq_refl))) as [s1 [v [w [E [Hv [Hn HA1]]]]]].
      rewrite E. destruct (IH s1 HA1 Hw (fun j Hj => Hsub j (or_intror Hj))) as [s2 [l [E2 [HA2 F2]]]].
      rewrite E2. exists s2, ((i, v) :: l). split; [reflexivity|]. split; [exact HA2|].
      constructor; auto. simpl. split; eauto.
  Qed.

  Lemma filter_ref : forall ev f l ids,
    (forall a b, norm a = norm b -> ev a = ev b) ->
    Forall2 (fun p i => fst p = i /\ exists w, wsv f i = Some w /\ norm (snd p) = norm w) l ids ->
    map fst (filter (fun p : str * json => ev (snd p)) l) = filter (ev_ws ev f) ids.
  Proof.
    intros ev f l ids Hev F. induction F as [|[k v] i l ids [Hk [w [Hw Hn]]] F IH]; simpl; auto.
    simpl in Hk, Hn. subst k. unfold ev_ws at 1. rewrite Hw. rewrite (Hev v w Hn).
    destruct (ev w); simpl; rewrite IH; reflexivity.
  Qed.

  Lemma open_sp_by_id_ref : forall f s i,
    Agr f s -> ws_intact f -> In i (listing f) ->
    exists s' v w, open_sp_by_id f s i = (s', Ok v) /\ wsv f i = Some w /\ norm v = norm w /\ Agr f s'.
  Proof.
    intros f s i HA Hw Hi.
    destruct (ws_intact_wsv f i Hw Hi) as [c [w [G [Ls [Lb [Hid [Ho Hv]]]]]]].
    pose proof (ensure_read_agrees f s HA) as H1.
    unfold Cache.open_sp_by_id, Cache.open_id.
    destruct (alookup i (s_cache (ensure_read f s))) as [sp|] eqn:El.
    - assert (Hn : norm sp = norm w) by (apply alookup_In in El; eapply H1; eauto).
      unfold Cache.handle_sp. simpl. rewrite (norm_objb _ _ Hn), Ho.
      exists (ensure_read f s), sp, w. split; [reflexivity|]. split; [exact Hv|]. split; [exact Hn|].
      split; [exact H1|apply (proj2 HA)].
    - destruct (listed_exists f i Hi) as [Hex [Hlen Hm]].
      assert (Er : resolve_id f i = Ok i).
      { unfold Cache.resolve_id, Cache.contains_id.
        assert (Hl : Nat.ltb (length i) 32 = false) by (apply Nat.ltb_ge; exact Hlen).
        rewrite Hl, Hm, Hex. reflexivity. }
      rewrite Er, El. unfold Cache.handle_sp. simpl.
      assert (El2 : sp_load_view f i = Ok (w, w)).
      { unfold Cache.sp_load_view, Cache.sp_load. rewrite G, Lb. unfold Cache.cid. fold (cid w).
        destruct w; try discriminate Ho. rewrite Hid, str_eqb_refl. reflexivity. }
      rewrite El2. exists (reg (ensure_read f s) i w), w, w. split; [reflexivity|]. split; [exact Hv|].
      split; [reflexivity|]. split; [simpl; apply agrees_aset; auto|apply (proj2 HA)].
  Qed.

  Lemma open_all_ref : forall f ids s,
    Agr f s -> ws_intact f -> (forall i, In i ids -> In i (listing f)) ->
    exists s' l, open_all f s ids = (s', l) /\ Agr f s' /\
      Forall2 (fun p i => fst p = i /\ exists v w, snd p = Ok v /\ wsv f i = Some w /\ norm v = norm w) l ids.
  Proof.
    induction ids as [|i r IH]; intros s HA Hw Hsub; simpl.
    - exists s, []. split; [reflexivity|]. split; [exact HA|constructor].
    - destruct (open_sp_by_id_ref f s i HA Hw (Hsub i (or_introl eq_refl))) as [s1 [v [w [E [Hv [Hn HA1]]]]]].
      rewrite E. destruct (IH s1 HA1 Hw (fun j Hj => Hsub j (or_intror Hj))) as [s2 [l [E2 [HA2 F2]]]].
      rewrite E2. exists s2, ((i, Ok v) :: l). split; [reflexivity|]. split; [exact HA2|].
      constructor; auto. simpl. split; eauto.
  Qed.

  (* every observation of a session with agreeing caches equals the reference computed from the workspace *)
  Lemma observe_ref : forall f s ev,
    Agr f s -> ws_intact f -> (forall a b, norm a = norm b -> ev a = ev b) ->
    let o := snd (observe f s ev) in
    o_find o = Ok (filter (ev_ws ev f) (listing f)) /\
    o_len o = N.of_nat (length (listing f)) /\ o_ids o = listing f /\
    Forall2 (fun p i => fst p = i /\ exists v w, snd p = Ok v /\ wsv f i = Some w /\ norm v = norm w)
            (o_open o) (listing f).
  Proof.
    intros f s ev HA Hw Hev. unfold Cache.observe, Cache.find_ids.
    destruct (index_sps_ref f (listing f) s HA Hw (fun i H => H)) as [s1 [l [E1 [HA1 F1]]]].
    rewrite E1.
    destruct (open_all_ref f (listing f) s1 HA1 Hw (fun i H => H)) as [s2 [l2 [E2 [HA2 F2]]]].
    rewrite E2. simpl. repeat split; auto. f_equal. apply filter_ref; auto.
  Qed.

  (* ---------------------------------------------------------------- opening by ABBREVIATED id *)
  (* an abbreviated id never hits the cache: every key of a sound cache is a 32 character hash *)
  Lemma short_miss : forall c p, sound c -> (length p < 32)%nat -> alookup p c = None.
  Proof.
    intros c p Hc Hp. destruct (alookup p c) as [x|] eqn:E; auto.
    apply alookup_In in E. apply Hc in E. destruct (calc_id_shape frepr x) as [Hl _].
    unfold Cache.cid in E. rewrite E in Hl. lia.
  Qed.

  (* THE LEMMA: in a session whose caches are sound, open_job(id=p) for an abbreviated p is resolved against
     the directory listing alone — the cache can only supply the state point of the id found there *)
  Theorem prefix_resolution_from_listing : forall f s p,
    Inv f s -> (length p < 32)%nat ->
    open_id f s p =
      (ensure_read f s,
       match filter (str_prefix p) (listing f) with
       | [m] => Ok (m, alookup m (s_cache (ensure_read f s)))
       | [] => Err EKeyError
       | _ => Err ELookupError
       end).
  Proof.
    intros f s p H Hp. unfold Cache.open_id.
    rewrite (short_miss _ p (ensure_read_sound f s H) Hp).
    unfold Cache.resolve_id. assert (E : Nat.ltb (length p) 32 = true) by (apply Nat.ltb_lt; exact Hp).
    rewrite E. destruct (filter (str_prefix p) (listing f)) as [|m [|m' r]]; reflexivity.
  Qed.

  (* statepoint() of the handle of a listed job *)
  Lemma handle_ref : forall f s m,
    Agr f s -> sound (s_cache s) -> ws_intact f -> In m (listing f) ->
    exists s' v w, handle_sp f s (m, alookup m (s_cache s)) = (s', Ok v) /\ wsv f m = Some w /\ norm v = norm w /\
                   agrees f (s_cache s') /\ sound (s_cache s').
  Proof.
    intros f s m HA Hs Hw Hm.
    destruct (ws_intact_wsv f m Hw Hm) as [c [w [G [Ls [Lb [Hid [Ho Hv]]]]]]].
    unfold Cache.handle_sp. simpl. destruct (alookup m (s_cache s)) as [sp|] eqn:El.
    - assert (Hn : norm sp = norm w) by (apply alookup_In in El; eapply (proj1 HA); eauto).
      rewrite (norm_objb _ _ Hn), Ho. exists s, sp, w. repeat split; auto. apply (proj1 HA).
    - assert (El2 : sp_load_view f m = Ok (w, w)).
      { unfold Cache.sp_load_view, Cache.sp_load. rewrite G, Lb. unfold Cache.cid. fold (cid w).
        destruct w; try discriminate Ho. rewrite Hid, str_eqb_refl. reflexivity. }
      rewrite El2. exists (reg s m w), w, w. split; [reflexivity|]. split; [exact Hv|]. split; [reflexivity|].
      split; [simpl; apply agrees_aset; [apply (proj1 HA)|exact Hv]|apply sound_reg; auto].
  Qed.

  (* what open_job(id=p).statepoint() must be, computed from the listing and the workspace files alone *)
  Definition pre_spec (f : fs) (p : str) (r : result (str * result json)) : Prop :=
    match filter (str_prefix p) (listing f) with
    | [m] => exists v w, r = Ok (m, Ok v) /\ wsv f m = Some w /\ norm v = norm w
    | [] => r = Err EKeyError
    | _ => r = Err ELookupError
    end.

  Lemma open_pre_ref : forall f s p,
    Inv f s -> Agr f s -> ws_intact f -> (length p < 32)%nat ->
    exists s' r, open_pre f s p = (s', r) /\ pre_spec f p r /\ Inv f s' /\ Agr f s'.
  Proof.
    intros f s p HI HA Hw Hp. unfold Cache.open_pre. rewrite (prefix_resolution_from_listing f s p HI Hp).
    pose proof (ensure_read_sound f s HI) as Hs1. pose proof (ensure_read_agrees f s HA) as Ha1.
    assert (HA1 : Agr f (ensure_read f s)) by (split; [exact Ha1|exact (proj2 HA)]).
    assert (HI1 : Inv f (ensure_read f s)) by (split; [exact Hs1|exact (proj2 HI)]).
    unfold pre_spec. destruct (filter (str_prefix p) (listing f)) as [|m [|m' r]] eqn:Ef.
    - exists (ensure_read f s), (Err EKeyError). auto.
    - assert (Hm : In m (listing f)).
      { assert (Hin : In m (filter (str_prefix p) (listing f))) by (rewrite Ef; left; reflexivity).
        apply filter_In in Hin. apply Hin. }
      destruct (handle_ref f (ensure_read f s) m HA1 Hs1 Hw Hm) as [s' [v [w [Eh [Hv [Hn [Ha' Hs']]]]]]].
      rewrite Eh. exists s', (Ok (m, Ok v)). split; [reflexivity|]. split; [exists v, w; auto|].
      split; [split; [exact Hs'|exact (proj2 HI)]|split; [exact Ha'|exact (proj2 HA)]].
    - exists (ensure_read f s), (Err ELookupError). auto.
  Qed.

  Lemma open_pres_ref : forall f ps s,
    Inv f s -> Agr f s -> ws_intact f -> (forall p, In p ps -> (length p < 32)%nat) ->
    exists s' l, open_pres f s ps = (s', l) /\ Inv f s' /\
      Forall2 (fun x p => fst x = p /\ pre_spec f p (snd x)) l ps.
  Proof.
    induction ps as [|p r IH]; intros s HI HA Hw Hps; simpl.
    - exists s, []. split; [reflexivity|]. split; [exact HI|constructor].
    - destruct (open_pre_ref f s p HI HA Hw (Hps p (or_introl eq_refl))) as [s1 [x [E [Hx [HI1 HA1]]]]].
      rewrite E. destruct (IH s1 HI1 HA1 Hw (fun q Hq => Hps q (or_intror Hq))) as [s2 [l [E2 [HI2 F2]]]].
      rewrite E2. exists s2, ((p, x) :: l). split; [reflexivity|]. split; [exact HI2|]. constructor; auto.
  Qed.

  (* two observations are the same up to the key order of the state points shown *)
  Definition res_equiv (a b : result json) : Prop :=
    match a, b with
    | Ok x, Ok y => norm x = norm y
    | Err e, Err e' => e = e'
    | _, _ => False
    end.
  Definition obs_equiv (a b : obs) : Prop :=
    o_find a = o_find b /\ o_len a = o_len b /\ o_ids a = o_ids b /\
    Forall2 (fun x y => fst x = fst y /\ res_equiv (snd x) (snd y)) (o_open a) (o_open b).

  Lemma wsv_without : forall f i, wsv (without_cache f) i = wsv f i.
  Proof. intros f i. unfold wsv. rewrite get_without_cache by discriminate. reflexivity. Qed.

  Lemma ws_intact_without : forall f, ws_intact f -> ws_intact (without_cache f).
  Proof.
    intros f H i Hi. unfold Cache.listing in Hi. rewrite listing_without_cache in Hi.
    destruct (H i Hi) as [c [v Hc]]. exists c, v. rewrite get_without_cache by discriminate. exact Hc.
  Qed.

  Lemma Agr_fresh_without : forall f, Agr (without_cache f) fresh.
  Proof.
    intro f. split; [intros i v w []|]. intros c Hc. rewrite cache_file_without in Hc. discriminate.
  Qed.

  Lemma Forall2_common : forall A B (R1 R2 : A -> B -> Prop) (R : A -> A -> Prop) l1 l2 ids,
    (forall x y i, R1 x i -> R2 y i -> R x y) -> Forall2 R1 l1 ids -> Forall2 R2 l2 ids -> Forall2 R l1 l2.
  Proof.
    intros A B R1 R2 R l1 l2 ids H F1. revert l2. induction F1; intros l2 F2; inversion F2; subst; constructor; eauto.
  Qed.

  Theorem transparent_Agr : forall f s ev,
    Agr f s -> ws_intact f -> (forall a b, norm a = norm b -> ev a = ev b) ->
    obs_equiv (snd (observe f s ev)) (snd (observe (without_cache f) fresh ev)).
  Proof.
    intros f s ev HA Hw Hev.
    destruct (observe_ref f s ev HA Hw Hev) as [A1 [A2 [A3 A4]]].
    destruct (observe_ref (without_cache f) fresh ev (Agr_fresh_without f) (ws_intact_without f Hw) Hev)
      as [B1 [B2 [B3 B4]]].
    assert (HL : listing (without_cache f) = listing f) by apply listing_without_cache.
    rewrite HL in *.
    assert (HF : filter (ev_ws ev (without_cache f)) (listing f) = filter (ev_ws ev f) (listing f)).
    { apply filter_ext. intro i. unfold ev_ws. rewrite wsv_without. reflexivity. }
    unfold obs_equiv. rewrite A1, A2, A3, B1, B2, B3, HF. repeat split; auto.
    eapply Forall2_common; [|exact A4|exact B4].
    intros x y i [Hx [v [w [Ex [Ew En]]]]] [Hy [v' [w' [Ey [Ew' En']]]]]. split; [congruence|].
    rewrite Ex, Ey. simpl. rewrite wsv_without in Ew'. rewrite Ew in Ew'. inversion Ew'; subst. congruence.
  Qed.

  Theorem cache_transparent : forall f s ev,
    Inv f s -> ws_intact f -> coll_free f (map snd (s_cache s) ++ file_vals f) ->
    (forall a b, norm a = norm b -> ev a = ev b) ->
    obs_equiv (snd (observe f s ev)) (snd (observe (without_cache f) fresh ev)).
  Proof. intros f s ev HI Hw Hc Hev. apply transparent_Agr; auto. apply Inv_Agr; auto. Qed.


  (* ================================================================ C. update_cache makes the file exact *)
  (* the persistent cache lists exactly the ids of the workspace, each with its true state point *)
  Definition exact (f : fs) : Prop :=
    exists c, cache_file f = Some c /\ NoDup (map fst c) /\
              (forall i, In i (map fst c) <-> In i (listing f)) /\
              (forall i v w, In (i, v) c -> wsv f i = Some w -> norm v = norm w).

  Lemma sp_from_ws_wsv : forall f i v, sp_from_ws f true i = Ok v -> wsv f i = Some v.
  Proof.
    intros f i v H. unfold Cache.sp_from_ws in H. unfold wsv.
    destruct (get f (spf i)) as [[c|]|]; try (destruct (isdir f (jdir i)); discriminate).
    destruct (loads_s (c_bytes c)) as [x|]; [|destruct (isdir f (jdir i)); discriminate].
    simpl in H. destruct (str_eqb (Cache.cid frepr x) i); simpl in H; [|discriminate]. inversion H; reflexivity.
  Qed.

  Lemma add_from_ws_spec : forall f ids c c',
    add_from_ws f c ids = Ok c' ->
    (forall k, In k (map fst c') <-> In k (map fst c) \/ In k ids) /\
    (NoDup (map fst c) -> NoDup (map fst c')) /\
    (agrees f c -> agrees f c').
  Proof.
    induction ids as [|i r IH]; simpl; intros c c' H.
    - inversion H; subst. repeat split; auto; tauto.
    - destruct (sp_from_ws f true i) as [v|] eqn:E; [|discriminate].
      destruct (IH _ _ H) as [K [ND AG]]. split; [|split].
      + intro k. rewrite K, keys_aset. split; [intros [[->|H1]|H1]|intros [H1|[->|H1]]]; auto.
      + intro Hn. apply ND. apply NoDup_keys_aset. exact Hn.
      + intro Ha. apply AG. apply agrees_aset; auto. apply sp_from_ws_wsv. exact E.
  Qed.

  Lemma agrees_aremove_all : forall f ks c, agrees f c -> agrees f (aremove_all ks c).
  Proof. intros f ks c H i v w Hin. apply In_aremove_all in Hin. eauto. Qed.

  Lemma negb_mem_false : forall x l, In x l -> negb (str_mem x l) = false.
  Proof. intros x l H. apply str_mem_In in H. rewrite H. reflexivity. Qed.

  Lemma update_in_memory_spec : forall f s s',
    update_in_memory f s = Ok s' ->
    (forall k, In k (map fst (s_cache s')) <-> In k (listing f)) /\
    (NoDup (map fst (s_cache s)) -> NoDup (map fst (s_cache s'))) /\
    (agrees f (s_cache s) -> agrees f (s_cache s')) /\ s_read s' = s_read s.
  Proof.
    intros f s s' H. unfold Cache.update_in_memory in H.
    match type of H with match ?X with _ => _ end = _ => destruct X as [c|] eqn:E; [|discriminate] end.
    inversion H; subst. simpl. destruct (add_from_ws_spec _ _ _ _ E) as [K [ND AG]].
    split; [|split; [|split]]; auto.
    - intro k. rewrite K, keys_aremove_all, !filter_In.
      destruct (str_mem k (map fst (s_cache s))) eqn:Ec; destruct (str_mem k (listing f)) eqn:El; simpl;
        try (apply str_mem_In in Ec); try (apply str_mem_In in El);
        try (assert (Hnc : ~ In k (map fst (s_cache s))) by (intro X; apply str_mem_In in X; congruence));
        try (assert (Hnl : ~ In k (listing f)) by (intro X; apply str_mem_In in X; congruence));
        intuition discriminate.
    - intro Hn. apply ND. apply NoDup_keys_aremove_all. exact Hn.
    - intro Ha. apply AG. apply agrees_aremove_all. exact Ha.
  Qed.

  (* the cache file write leaves the workspace alone *)
  Lemma written_frame : forall f c f1 f2,
    write_file f CACHETMP (cache_content c) = FOk f1 -> rename f1 CACHETMP CACHEP = FOk f2 ->
    listing f2 = listing f /\ (forall i, wsv f2 i = wsv f i).
  Proof.
    intros f c f1 f2 H1 H2. destruct (cache_file_written _ _ _ _ H1 H2) as [_ G].
    assert (Ht : get f1 CACHETMP = Some (File (cache_content c))).
    { rewrite (get_write_file _ _ _ _ CACHETMP H1). reflexivity. }
    split.
    - unfold Cache.listing. apply listing_eq.
      + apply G; discriminate.
      + rewrite (children_rename_file [WS] f1 CACHETMP CACHEP _ f2 child_cachetmp child_cachep Ht) by (auto; discriminate).
        apply (children_write_file [WS] f CACHETMP _ f1 child_cachetmp H1).
    - intro i. unfold wsv. rewrite G by discriminate. reflexivity.
  Qed.

  Lemma update_cache_again : forall late f s c,
    cache_file f = Some c ->
    (forall k, In k (map fst c) <-> In k (listing f)) ->
    (forall k, In k (map fst (s_cache s)) <-> In k (listing f)) ->
    exists s', update_cache_gen late f s = (f, s', Ok None).
  Proof.
    intros late f s c Ec Kc Ks. unfold Cache.update_cache_gen, Cache.read_cache. rewrite Ec.
    set (m := dict_upd (s_cache s) c).
    assert (Km : forall k, In k (map fst m) <-> In k (listing f)).
    { intro k. unfold m. rewrite keys_dict_upd, Ks, Kc. tauto. }
    assert (Eu : update_in_memory f (mkSess m (s_read s)) = Ok (mkSess m (s_read s))).
    { unfold Cache.update_in_memory. simpl.
      assert (E1 : filter (fun i => negb (str_mem i (map fst m))) (listing f) = []).
      { apply filter_nil_iff. intros x Hx. apply negb_mem_false. apply Km. exact Hx. }
      assert (E2 : filter (fun i => negb (str_mem i (listing f))) (map fst m) = []).
      { apply filter_nil_iff. intros x Hx. apply negb_mem_false. apply Km. exact Hx. }
      rewrite E1, E2. reflexivity. }
    rewrite Eu. simpl.
    assert (Es : seteq_s (map fst c) (map fst m) = true).
    { apply seteq_s_spec. intro x. rewrite Kc, Km. tauto. }
    destruct late; rewrite Es; simpl; eauto.
  Qed.

  Definition file_nodup (f : fs) : Prop := forall c, cache_file f = Some c -> NoDup (map fst c).

  Theorem update_cache_exact_gen : forall late f s f' s' r,
    Inv f s -> NoDup (map fst (s_cache s)) -> file_nodup f -> ws_intact f ->
    coll_free f (map snd (s_cache s) ++ file_vals f) ->
    late = true \/ f9_state f s = false ->
    update_cache_gen late f s = (f', s', Ok r) ->
    exact f' /\ listing f' = listing f /\ (forall i, wsv f' i = wsv f i) /\
    exists s'', update_cache_gen late f' s' = (f', s'', Ok None).
  Proof.
    intros late f s f' s' r HI Hnd Hfn Hw Hcf Hcond E.
    pose proof (Inv_Agr f s HI Hw Hcf) as [HA1 HA2].
    unfold Cache.update_cache_gen in E.
    destruct (read_cache f s) as [s1 cf] eqn:Er.
    assert (Hs1 : agrees f (s_cache s1) /\ NoDup (map fst (s_cache s1)) /\
                  (forall k, In k (map fst (s_cache s)) -> In k (map fst (s_cache s1))) /\ cf = cache_file f /\
                  (forall c, cf = Some c -> forall k, In k (map fst (s_cache s1)) <-> In k (map fst (s_cache s)) \/ In k (map fst c))).
    { unfold Cache.read_cache in Er. destruct (cache_file f) as [c|] eqn:Ec; inversion Er; subst; simpl.
      - split; [apply agrees_dict_upd; auto|]. split; [apply NoDup_keys_dict_upd; auto|].
        split; [intros k Hk; apply keys_dict_upd; auto|]. split; auto.
        intros c' Hc' k. inversion Hc'; subst. apply keys_dict_upd.
      - repeat split; auto; discriminate. }
    destruct Hs1 as [Ag1 [Nd1 [Sub1 [Hcf' Km]]]].
    destruct (update_in_memory f s1) as [s2|e] eqn:Eu; [|discriminate].
    destruct (update_in_memory_spec _ _ _ Eu) as [K2 [ND2 [AG2 _]]].
    specialize (ND2 Nd1). specialize (AG2 Ag1).
    match type of E with (if ?b then _ else _) = _ => destruct b eqn:Eb end.
    - (* the file is rewritten *)
      destruct (write_file f CACHETMP (cache_content (s_cache s2))) as [f1|] eqn:Ew; [|discriminate].
      destruct (rename f1 CACHETMP CACHEP) as [f2|] eqn:En; [|discriminate].
      inversion E; subst f' s' r.
      destruct (cache_file_written _ _ _ _ Ew En) as [Hfile _].
      destruct (written_frame _ _ _ _ Ew En) as [HL HV].
      split; [|split; [exact HL|split; [exact HV|]]].
      + exists (s_cache s2). split; [exact Hfile|]. split; [exact ND2|]. split.
        * intro i. rewrite HL. apply K2.
        * intros i v w Hin Hwv. rewrite HV in Hwv.
          destruct (in_dec str_eq_dec i (listing f)) as [Hi|Hi].
          -- eapply AG2; eauto.
          -- exfalso. apply Hi. apply K2. apply (in_map fst) in Hin. exact Hin.
      + apply (update_cache_again late f2 s2 (s_cache s2) Hfile).
        * intro k. rewrite HL. apply K2.
        * intro k. rewrite HL. apply K2.
    - (* "Cache is up to date" *)
      inversion E; subst f' s' r.
      destruct cf as [c|]; [|discriminate].
      assert (Ec : cache_file f = Some c) by (symmetry; exact Hcf').
      apply negb_false_iff in Eb.
      assert (Kc : forall k, In k (map fst c) <-> In k (listing f)).
      { destruct late.
        - rewrite seteq_s_spec in Eb. intro k. rewrite <- K2. apply Eb.
        - destruct Hcond as [Hd|Hf9]; [discriminate|].
          rewrite seteq_s_spec in Eb.
          unfold Cache.f9_state in Hf9. rewrite Ec in Hf9.
          assert (Hsub : subset_s (map fst (s_cache s)) (map fst c) = true).
          { apply subset_s_spec. intros x Hx. apply Eb. apply Sub1. exact Hx. }
          rewrite Hsub in Hf9. simpl in Hf9. apply negb_false_iff in Hf9. rewrite seteq_s_spec in Hf9. exact Hf9. }
      split; [|split; [reflexivity|split; [reflexivity|]]].
      + exists c. split; [exact Ec|]. split; [apply Hfn; exact Ec|]. split; [exact Kc|].
        intros i v w Hin Hwv.
        destruct (in_dec str_eq_dec i (listing f)) as [Hi|Hi].
        * eapply HA2; eauto.
        * exfalso. apply Hi. apply Kc. apply (in_map fst) in Hin. exact Hin.
      + apply (update_cache_again late f s2 c Ec Kc K2).
  Qed.


  (* ---- the sessions reached by observing stay sound *)
  Lemma index_sps_sound : forall f ids s s' r, Inv f s -> index_sps f s ids = (s', r) -> sound (s_cache s').
  Proof.
    induction ids as [|i ids IH]; simpl; intros s s' r H E.
    - inversion E; subst. exact (proj1 H).
    - destruct (get_statepoint f s true i) as [s1 [v|e]] eqn:E1.
      + pose proof (get_statepoint_sound _ _ _ _ _ H E1) as H1.
        destruct (index_sps f s1 ids) as [s2 [l|e]] eqn:E2; inversion E; subst;
          (eapply IH; [split; [exact H1|exact (proj2 H)]|exact E2]).
      + inversion E; subst. eapply get_statepoint_sound; eauto.
  Qed.

  Lemma open_sp_by_id_sound : forall f s i s' r, Inv f s -> open_sp_by_id f s i = (s', r) -> sound (s_cache s').
  Proof.
    intros f s i s' r H E. unfold Cache.open_sp_by_id, Cache.open_id in E.
    pose proof (ensure_read_sound f s H) as H1.
    destruct (alookup i (s_cache (ensure_read f s))) as [sp|].
    - unfold Cache.handle_sp in E. simpl in E. inversion E; subst. exact H1.
    - destruct (resolve_id f i) as [m|e]; [|inversion E; subst; exact H1].
      unfold Cache.handle_sp in E. simpl in E.
      destruct (alookup m (s_cache (ensure_read f s))) as [x|]; [inversion E; subst; exact H1|].
      destruct (sp_load_view f m) as [[d v]|] eqn:El; inversion E; subst; [|exact H1].
      apply sound_reg; auto. eapply sp_load_view_valid; eauto.
  Qed.

  Lemma open_all_sound : forall f ids s s' l, Inv f s -> open_all f s ids = (s', l) -> sound (s_cache s').
  Proof.
    induction ids as [|i ids IH]; simpl; intros s s' l H E.
    - inversion E; subst. exact (proj1 H).
    - destruct (open_sp_by_id f s i) as [s1 x] eqn:E1.
      pose proof (open_sp_by_id_sound _ _ _ _ _ H E1) as H1.
      destruct (open_all f s1 ids) as [s2 l2] eqn:E2. inversion E; subst.
      eapply IH; [split; [exact H1|exact (proj2 H)]|exact E2].
  Qed.

  Lemma observe_sound : forall f s ev, Inv f s -> sound (s_cache (fst (observe f s ev))).
  Proof.
    intros f s ev H. unfold Cache.observe, Cache.find_ids.
    destruct (index_sps f s (listing f)) as [s1 r] eqn:E1.
    pose proof (index_sps_sound _ _ _ _ _ H E1) as H1.
    assert (E : exists s2 l2, (let '(s1', r') := match r with Ok l => (s1, Ok (map fst (filter (fun p : str * json => ev (snd p)) l)))
                                                     | Err e => (s1, Err e) end in
               let '(s2, opens) := open_all f s1' (listing f) in
               (s2, mkObs r' (N.of_nat (length (listing f))) (listing f) opens)) =
              (s2, mkObs (match r with Ok l => Ok (map fst (filter (fun p : str * json => ev (snd p)) l)) | Err e => Err e end)
                         (N.of_nat (length (listing f))) (listing f) l2) /\ open_all f s1 (listing f) = (s2, l2)).
    { destruct (open_all f s1 (listing f)) as [s2 l2] eqn:E2. exists s2, l2. destruct r; simpl; rewrite E2; auto. }
    destruct E as [s2 [l2 [E Eo]]]. rewrite E. simpl.
    eapply open_all_sound; [split; [exact H1|exact (proj2 H)]|exact Eo].
  Qed.

  Lemma open_pre_sound : forall f s p s' r, Inv f s -> open_pre f s p = (s', r) -> sound (s_cache s').
  Proof.
    intros f s p s' r H E. unfold Cache.open_pre, Cache.open_id in E.
    pose proof (ensure_read_sound f s H) as H1.
    assert (HS : forall h s2 x, handle_sp f (ensure_read f s) h = (s2, x) -> sound (s_cache s2)).
    { intros [m c] s2 x Eh. unfold Cache.handle_sp in Eh. simpl in Eh. destruct c as [sp|]; [inversion Eh; subst; exact H1|].
      destruct (sp_load_view f m) as [[d v]|] eqn:El; inversion Eh; subst; [|exact H1].
      apply sound_reg; auto. eapply sp_load_view_valid; eauto. }
    destruct (alookup p (s_cache (ensure_read f s))) as [sp|].
    - destruct (handle_sp f (ensure_read f s) (p, Some sp)) as [s2 x] eqn:Eh. inversion E; subst. eapply HS; eauto.
    - destruct (resolve_id f p) as [m|e]; [|inversion E; subst; exact H1].
      destruct (handle_sp f (ensure_read f s) (m, alookup m (s_cache (ensure_read f s)))) as [s2 x] eqn:Eh.
      inversion E; subst. eapply HS; eauto.
  Qed.

  Lemma open_pres_sound : forall f ps s s' l, Inv f s -> open_pres f s ps = (s', l) -> sound (s_cache s').
  Proof.
    induction ps as [|p r IH]; simpl; intros s s' l H E.
    - inversion E; subst. exact (proj1 H).
    - destruct (open_pre f s p) as [s1 x] eqn:E1.
      pose proof (open_pre_sound _ _ _ _ _ H E1) as H1.
      destruct (open_pres f s1 r) as [s2 l2] eqn:E2. inversion E; subst.
      eapply IH; [split; [exact H1|exact (proj2 H)]|exact E2].
  Qed.

  Lemma cached_by_id_sound : forall f s i s' r, Inv f s -> cached_by_id f s i = (s', r) -> sound (s_cache s').
  Proof.
    intros f s i s' r H E. unfold Cache.cached_by_id, Cache.open_id in E.
    pose proof (ensure_read_sound f s H) as H1.
    assert (HI1 : Inv f (ensure_read f s)) by (split; [exact H1|exact (proj2 H)]).
    destruct (alookup i (s_cache (ensure_read f s))) as [sp|]; [inversion E; subst; exact H1|].
    destruct (Cache.resolve_id f i) as [m|e]; [|inversion E; subst; exact H1].
    destruct (alookup m (s_cache (ensure_read f s))) as [x|]; [inversion E; subst; exact H1|].
    eapply get_statepoint_sound; [exact HI1|exact E].
  Qed.

  Lemma cached_all_sound : forall f ids s s' l, Inv f s -> cached_all f s ids = (s', l) -> sound (s_cache s').
  Proof.
    induction ids as [|i r IH]; simpl; intros s s' l H E.
    - inversion E; subst. exact (proj1 H).
    - destruct (cached_by_id f s i) as [s1 x] eqn:E1.
      pose proof (cached_by_id_sound _ _ _ _ _ H E1) as H1.
      destruct (cached_all f s1 r) as [s2 l2] eqn:E2. inversion E; subst.
      eapply IH; [split; [exact H1|exact (proj2 H)]|exact E2].
  Qed.

  (* ---- cached_statepoint of a handle reached by id (open_job(id=..) or iteration) *)
  Theorem cached_by_id_never_wrong : forall f s i s' sp,
    Inv f s -> cached_by_id f s i = (s', Ok sp) ->
    exists m, (m = i \/ resolve_id f i = Ok m) /\ cid sp = m.
  Proof.
    intros f s i s' sp H E. unfold Cache.cached_by_id, Cache.open_id in E.
    pose proof (ensure_read_sound f s H) as H1.
    destruct (alookup i (s_cache (ensure_read f s))) as [x|] eqn:El.
    - inversion E; subst. exists i. split; auto. apply alookup_In in El. apply H1 in El. exact El.
    - destruct (Cache.resolve_id f i) as [m|e] eqn:Er; [|inversion E].
      exists m. split; auto.
      destruct (alookup m (s_cache (ensure_read f s))) as [x|] eqn:Em.
      + inversion E; subst. apply alookup_In in Em. apply H1 in Em. exact Em.
      + unfold Cache.get_statepoint in E.
        destruct (alookup m (s_cache (ensure_read f (ensure_read f s)))) as [y|] eqn:Ey.
        * inversion E; subst. apply alookup_In in Ey.
          assert (HI1 : Inv f (ensure_read f s)) by (split; [exact H1|exact (proj2 H)]).
          apply (ensure_read_sound f _ HI1) in Ey. exact Ey.
        * destruct (sp_from_ws f true m) eqn:Ew; cbv iota in E; inversion E; subst. eapply sp_from_ws_valid; eauto.
  Qed.

  Lemma cached_by_id_ref : forall f s i,
    Agr f s -> ws_intact f -> In i (listing f) ->
    exists s' v w, cached_by_id f s i = (s', Ok v) /\ wsv f i = Some w /\ norm v = norm w /\ Agr f s'.
  Proof.
    intros f s i HA Hw Hi.
    destruct (ws_intact_wsv f i Hw Hi) as [c [w [G [Ls [Lb [Hid [Ho Hv]]]]]]].
    pose proof (ensure_read_agrees f s HA) as H1.
    assert (HA1 : Agr f (ensure_read f s)) by (split; [exact H1|exact (proj2 HA)]).
    unfold Cache.cached_by_id, Cache.open_id.
    destruct (alookup i (s_cache (ensure_read f s))) as [sp|] eqn:El.
    - exists (ensure_read f s), sp, w. split; [reflexivity|]. split; [exact Hv|].
      split; [apply alookup_In in El; eapply H1; eauto|exact HA1].
    - destruct (listed_exists f i Hi) as [Hex [Hlen Hm]].
      assert (Er : resolve_id f i = Ok i).
      { unfold Cache.resolve_id, Cache.contains_id.
        assert (Hl : Nat.ltb (length i) 32 = false) by (apply Nat.ltb_ge; exact Hlen).
        rewrite Hl, Hm, Hex. reflexivity. }
      rewrite Er, El.
      destruct (get_statepoint_ref f (ensure_read f s) i HA1 Hw Hi) as [s' [v [w' [E [Hv' [Hn HA']]]]]].
      rewrite E. exists s', v, w'. auto.
  Qed.

  Lemma cached_all_ref : forall f ids s,
    Agr f s -> ws_intact f -> (forall i, In i ids -> In i (listing f)) ->
    exists s' l, cached_all f s ids = (s', l) /\
      Forall2 (fun p i => fst p = i /\ exists v w, snd p = Ok v /\ wsv f i = Some w /\ norm v = norm w) l ids.
  Proof.
    induction ids as [|i r IH]; intros s HA Hw Hsub; simpl.
    - exists s, []. split; [reflexivity|constructor].
    - destruct (cached_by_id_ref f s i HA Hw (Hsub i (or_introl eq_refl))) as [s1 [v [w [E [Hv [Hn HA1]]]]]].
      rewrite E. destruct (IH s1 HA1 Hw (fun j Hj => Hsub j (or_intror Hj))) as [s2 [l [E2 F2]]].
      rewrite E2. exists s2, ((i, Ok v) :: l). split; [reflexivity|]. constructor; auto. simpl. split; eauto.
  Qed.

  (* cached_statepoint of every listed job, through any session with sound caches on the file system WITH the
     cache file, equals (up to key order) what a fresh session WITHOUT it shows *)
  Theorem cached_transparent : forall f s ids,
    Inv f s -> ws_intact f -> coll_free f (map snd (s_cache s) ++ file_vals f) ->
    (forall i, In i ids -> In i (listing f)) ->
    Forall2 (fun x y => fst x = fst y /\ res_equiv (snd x) (snd y))
      (snd (cached_all f s ids)) (snd (cached_all (without_cache f) fresh ids)).
  Proof.
    intros f s ids HI Hw Hc Hsub.
    pose proof (Inv_Agr f s HI Hw Hc) as HA.
    destruct (cached_all_ref f ids s HA Hw Hsub) as [s1 [l1 [E1 F1]]].
    assert (Hsub0 : forall i, In i ids -> In i (listing (without_cache f))).
    { intros i Hi. unfold Cache.listing. rewrite listing_without_cache. apply Hsub. exact Hi. }
    destruct (cached_all_ref (without_cache f) ids fresh (Agr_fresh_without f) (ws_intact_without f Hw) Hsub0)
      as [s2 [l2 [E2 F2]]].
    rewrite E1, E2. simpl. eapply Forall2_common; [|exact F1|exact F2].
    intros x y i [Hx [v [w [Ex [Ew En]]]]] [Hy [v' [w' [Ey [Ew' En']]]]]. split; [congruence|].
    rewrite Ex, Ey. simpl. rewrite wsv_without in Ew'. rewrite Ew in Ew'. inversion Ew'; subst. congruence.
  Qed.

  (* ---- transparency of opening by abbreviated id *)
  Definition pre_equiv (a b : result (str * result json)) : Prop :=
    match a, b with
    | Ok (m, x), Ok (m', y) => m = m' /\ res_equiv x y
    | Err e, Err e' => e = e'
    | _, _ => False
    end.

  Lemma observe_Agr : forall f s ev, Agr f s -> ws_intact f -> Agr f (fst (observe f s ev)).
  Proof.
    intros f s ev HA Hw. unfold Cache.observe, Cache.find_ids.
    destruct (index_sps_ref f (listing f) s HA Hw (fun i H => H)) as [s1 [l [E1 [HA1 F1]]]].
    rewrite E1.
    destruct (open_all_ref f (listing f) s1 HA1 Hw (fun i H => H)) as [s2 [l2 [E2 [HA2 F2]]]].
    rewrite E2. exact HA2.
  Qed.

  Lemma pre_spec_without : forall f p r, pre_spec (without_cache f) p r <-> pre_spec f p r.
  Proof.
    intros f p r. unfold pre_spec. assert (HL : listing (without_cache f) = listing f) by apply listing_without_cache.
    rewrite HL. destruct (filter (str_prefix p) (listing f)) as [|m [|m' q]]; try tauto.
    split; intros [v [w [H1 [H2 H3]]]]; exists v, w; rewrite wsv_without in *; auto.
  Qed.

  Lemma pre_spec_equiv : forall f p x y, pre_spec f p x -> pre_spec f p y -> pre_equiv x y.
  Proof.
    intros f p x y Hx Hy. unfold pre_spec in *. destruct (filter (str_prefix p) (listing f)) as [|m [|m' q]].
    - subst. reflexivity.
    - destruct Hx as [v [w [-> [Hw Hn]]]]. destruct Hy as [v' [w' [-> [Hw' Hn']]]]. simpl. split; auto.
      rewrite Hw in Hw'. inversion Hw'; subst. congruence.
    - subst. reflexivity.
  Qed.

  Lemma Inv_fresh_without : forall f, Inv (without_cache f) fresh.
  Proof. intro f. split; [apply sound_nil|]. intros c Hc. rewrite cache_file_without in Hc. discriminate. Qed.

  (* open_job(id=p).statepoint() for abbreviated ids p, made after the other observations through ANY session
     with sound caches on the file system WITH the cache file, equals what a fresh session WITHOUT it gives:
     same exception class (KeyError / LookupError), or same resolved id and the same state point *)
  Theorem prefix_transparent : forall f s ev ps,
    Inv f s -> ws_intact f -> coll_free f (map snd (s_cache s) ++ file_vals f) ->
    (forall p, In p ps -> (length p < 32)%nat) ->
    Forall2 (fun x y => fst x = fst y /\ pre_equiv (snd x) (snd y))
      (snd (open_pres f (fst (observe f s ev)) ps))
      (snd (open_pres (without_cache f) (fst (observe (without_cache f) fresh ev)) ps)).
  Proof.
    intros f s ev ps HI Hw Hc Hps.
    pose proof (Inv_Agr f s HI Hw Hc) as HA.
    assert (HI1 : Inv f (fst (observe f s ev))) by (split; [apply observe_sound; exact HI|exact (proj2 HI)]).
    pose proof (observe_Agr f s ev HA Hw) as HA1.
    pose proof (Inv_fresh_without f) as HI0. pose proof (Agr_fresh_without f) as HA0.
    pose proof (ws_intact_without f Hw) as Hw0.
    assert (HI2 : Inv (without_cache f) (fst (observe (without_cache f) fresh ev)))
      by (split; [apply observe_sound; exact HI0|exact (proj2 HI0)]).
    pose proof (observe_Agr (without_cache f) fresh ev HA0 Hw0) as HA2.
    destruct (open_pres_ref f ps _ HI1 HA1 Hw Hps) as [s1 [l1 [E1 [_ F1]]]].
    destruct (open_pres_ref (without_cache f) ps _ HI2 HA2 Hw0 Hps) as [s2 [l2 [E2 [_ F2]]]].
    rewrite E1, E2. simpl. eapply Forall2_common; [|exact F1|exact F2].
    intros x y p [Hx Sx] [Hy Sy]. split; [congruence|].
    apply (proj1 (pre_spec_without f p (snd y))) in Sy. eapply pre_spec_equiv; eauto.
  Qed.

End P.

(* ================================================================ D. the code as it is (after fix: d7351f9) *)
Section NOW.
  Variable frepr : fl -> str.
  Variable loads_s : list N -> option json.
  Variable loads_b : list N -> dec.

  (* after update_cache() returns, the cache file lists exactly the ids of the workspace, each with its true
     state point, and an immediate second call reports nothing to do *)
  Theorem update_cache_exact : forall f s f' s' r,
    Inv frepr f s -> NoDup (map fst (s_cache s)) -> file_nodup f -> ws_intact frepr loads_s loads_b f ->
    coll_free frepr loads_s f (map snd (s_cache s) ++ file_vals f) ->
    update_cache frepr loads_s f s = (f', s', Ok r) ->
    exact loads_s f' /\ listing f' = listing f /\
    exists s'', update_cache frepr loads_s f' s' = (f', s'', Ok None).
  Proof.
    intros f s f' s' r HI Hn Hf Hw Hc E. unfold update_cache in *.
    destruct (update_cache_exact_gen frepr loads_s loads_b F9_FIXED f s f' s' r HI Hn Hf Hw Hc (or_introl eq_refl) E)
      as [H1 [H2 [_ H3]]]. auto.
  Qed.

  (* the comparison as it was before the fix is exact only outside the F9 states (kept as a record of the defect) *)
  Theorem update_cache_before_fix_partial : forall f s f' s' r,
    Inv frepr f s -> NoDup (map fst (s_cache s)) -> file_nodup f -> ws_intact frepr loads_s loads_b f ->
    coll_free frepr loads_s f (map snd (s_cache s) ++ file_vals f) ->
    f9_state f s = false ->
    update_cache_gen frepr loads_s false f s = (f', s', Ok r) ->
    exact loads_s f' /\ listing f' = listing f /\
    exists s'', update_cache_gen frepr loads_s false f' s' = (f', s'', Ok None).
  Proof.
    intros f s f' s' r HI Hn Hf Hw Hc H9 E.
    destruct (update_cache_exact_gen frepr loads_s loads_b false f s f' s' r HI Hn Hf Hw Hc (or_intror H9) E)
      as [H1 [H2 [_ H3]]]. auto.
  Qed.
End NOW.

(* ---- the witness: two jobs, update_cache, one job removed, new session, update_cache *)
Definition ex_fr (x : fl) : str := [].
Definition ex_u0 : json := JObj [([97%N], JInt 0)].
Definition ex_u1 : json := JObj [([97%N], JInt 1)].
Definition ex_tab : list (list N * json) := [(dumps ex_fr ex_u0, ex_u0); (dumps ex_fr ex_u1, ex_u1)].
Definition ex_ls (b : list N) : option json := tab_lookup ex_tab b.
Definition ex_lb (b : list N) : dec := match tab_lookup ex_tab b with Some v => DVal v | None => DJsonErr end.
Definition ex_fs0 : fs := [([DOTSIGNAC], Dir); ([WS], Dir)].

Definition ex_f9_fs : fs :=
  let '(f1, s1, _) := op_init ex_fr ex_lb ex_fs0 fresh ex_u0 in
  let '(f2, s2, _) := op_init ex_fr ex_lb f1 s1 ex_u1 in
  let '(f3, s3, _) := update_cache ex_fr ex_ls f2 s2 in
  let '(f4, _, _) := op_remove ex_fr f3 s3 ex_u0 in
  f4.

Local Arguments calc_id : simpl never.

(* The facts about the witness are first proved for an ABSTRACT file system satisfying a few equations
   (no computation), then the equations are discharged for the concrete one by vm_compute. *)
Section WITNESS.
  Variable fr : fl -> str.
  Variable ls : list N -> option json.
  Variable lb : list N -> dec.
  Variable f : fs.
  Variables u0 u1 : json.
  Hypothesis HL : listing f = [calc_id fr u1].
  Hypothesis HC : cache_file f = Some [(calc_id fr u0, u0); (calc_id fr u1, u1)].
  Hypothesis Hne : calc_id fr u0 <> calc_id fr u1.
  Hypothesis HG : get f (spf (calc_id fr u1)) = Some (File (sp_content fr u1)).
  Hypothesis HS : ls (dumps fr u1) = Some u1.
  Hypothesis HB : lb (dumps fr u1) = DVal u1.
  Hypothesis HO : is_objb u1 = true.

  Lemma sound_two : sound fr [(calc_id fr u0, u0); (calc_id fr u1, u1)].
  Proof.
    intros i v [H|[H|[]]]; apply pair_equal_spec in H; destruct H as [<- <-]; reflexivity.
  Qed.

  Lemma w_inv : Inv fr f fresh.
  Proof.
    split; [apply sound_nil|]. intros c Hc. rewrite HC in Hc.
    assert (Ec : c = [(calc_id fr u0, u0); (calc_id fr u1, u1)]) by congruence.
    rewrite Ec. apply sound_two.
  Qed.

  Lemma w_intact : ws_intact fr ls lb f.
  Proof.
    intros i Hi. rewrite HL in Hi. destruct Hi as [<-|[]].
    exists (sp_content fr u1), u1. split; [exact HG|]. split; [exact HS|]. split; [exact HB|]. split; [reflexivity|exact HO].
  Qed.

  Lemma w_nodup : file_nodup f.
  Proof.
    intros c Hc. rewrite HC in Hc.
    assert (Ec : c = [(calc_id fr u0, u0); (calc_id fr u1, u1)]) by congruence.
    rewrite Ec. change (NoDup [calc_id fr u0; calc_id fr u1]).
    constructor; [intros [H|[]]; exact (Hne (eq_sym H))|]. constructor; [intros []|constructor].
  Qed.

  Lemma w_f9 : f9_state f fresh = true.
  Proof.
    unfold f9_state. rewrite HC, HL. simpl s_cache. simpl map.
    assert (E : seteq_s [calc_id fr u0; calc_id fr u1] [calc_id fr u1] = false).
    { destruct (seteq_s [calc_id fr u0; calc_id fr u1] [calc_id fr u1]) eqn:E; auto.
      rewrite seteq_s_spec in E. exfalso. destruct (proj1 (E (calc_id fr u0)) (or_introl eq_refl)) as [H|[]].
      exact (Hne (eq_sym H)). }
    rewrite E. reflexivity.
  Qed.

  Lemma w_not_exact : ~ exact ls f.
  Proof.
    intros [c [Hc [_ [K _]]]]. rewrite HC in Hc.
    assert (Ec : c = [(calc_id fr u0, u0); (calc_id fr u1, u1)]) by congruence.
    assert (Hin : In (calc_id fr u0) (listing f)).
    { apply (proj1 (K (calc_id fr u0))). rewrite Ec. left. reflexivity. }
    rewrite HL in Hin. destruct Hin as [H|[]]. exact (Hne (eq_sym H)).
  Qed.

  Lemma w_coll_free : coll_free fr ls f (map snd (s_cache fresh) ++ file_vals f).
  Proof.
    intros i w v Hi Hw Hv Hc. rewrite HL in Hi. destruct Hi as [<-|[]].
    assert (Ew : wsv ls f (calc_id fr u1) = Some u1).
    { unfold wsv. rewrite HG. exact HS. }
    assert (Ewv : w = u1) by congruence. subst w.
    unfold file_vals in Hv. rewrite HC in Hv. simpl in Hv. destruct Hv as [<-|[<-|[]]]; [|reflexivity].
    exfalso. apply Hne. exact Hc.
  Qed.
End WITNESS.

Lemma ex_HL : listing ex_f9_fs = [calc_id ex_fr ex_u1].
Proof. vm_compute. reflexivity. Qed.
Lemma ex_HC : cache_file ex_f9_fs = Some [(calc_id ex_fr ex_u0, ex_u0); (calc_id ex_fr ex_u1, ex_u1)].
Proof. vm_compute. reflexivity. Qed.
Lemma ex_Hne : calc_id ex_fr ex_u0 <> calc_id ex_fr ex_u1.
Proof. vm_compute. discriminate. Qed.
Lemma ex_HG : get ex_f9_fs (spf (calc_id ex_fr ex_u1)) = Some (File (sp_content ex_fr ex_u1)).
Proof. vm_compute. reflexivity. Qed.
Lemma ex_HS : ex_ls (dumps ex_fr ex_u1) = Some ex_u1.
Proof. vm_compute. reflexivity. Qed.
Lemma ex_HB : ex_lb (dumps ex_fr ex_u1) = DVal ex_u1.
Proof. vm_compute. reflexivity. Qed.
(* on the witness (a stale file listing a removed job) update_cache() of a NEW session rewrites the file *)
Lemma ex_fixed : exists f' s',
  update_cache ex_fr ex_ls ex_f9_fs fresh = (f', s', Ok (Some 1%N)) /\
  cache_file f' = Some [(calc_id ex_fr ex_u1, ex_u1)].
Proof.
  pose (res := update_cache ex_fr ex_ls ex_f9_fs fresh).
  exists (fst (fst res)), (snd (fst res)). split; vm_compute; reflexivity.
Qed.

(* ... whereas the comparison before the fix reported "up to date" and left it stale *)
Lemma ex_before_fix : exists s',
  update_cache_gen ex_fr ex_ls false ex_f9_fs fresh = (ex_f9_fs, s', Ok None).
Proof. vm_compute. eexists. reflexivity. Qed.

(* the witness state satisfies the hypotheses of the theorems above, and is an F9 state *)
Lemma ex_f9_hyps :
  Inv ex_fr ex_f9_fs fresh /\ ws_intact ex_fr ex_ls ex_lb ex_f9_fs /\ file_nodup ex_f9_fs /\
  listing ex_f9_fs = [calc_id ex_fr ex_u1] /\
  cache_file ex_f9_fs = Some [(calc_id ex_fr ex_u0, ex_u0); (calc_id ex_fr ex_u1, ex_u1)] /\
  f9_state ex_f9_fs fresh = true.
Proof.
  split; [exact (w_inv ex_fr ex_f9_fs ex_u0 ex_u1 ex_HC)|].
  split; [exact (w_intact ex_fr ex_ls ex_lb ex_f9_fs ex_u1 ex_HL ex_HG ex_HS ex_HB eq_refl)|].
  split; [exact (w_nodup ex_fr ex_f9_fs ex_u0 ex_u1 ex_HC ex_Hne)|].
  split; [exact ex_HL|]. split; [exact ex_HC|].
  exact (w_f9 ex_fr ex_f9_fs ex_u0 ex_u1 ex_HL ex_HC ex_Hne).
Qed.

(* collision freedom is satisfiable: on the witness every cached value equals the workspace value *)
Lemma ex_coll_free : coll_free ex_fr ex_ls ex_f9_fs (map snd (s_cache fresh) ++ file_vals ex_f9_fs).
Proof. exact (w_coll_free ex_fr ex_ls ex_f9_fs ex_u0 ex_u1 ex_HL ex_HC ex_Hne ex_HG ex_HS). Qed.

(* ================================================================ E. licence for the correspondence *)
Lemma norm_cid : forall fr a b, norm a = norm b -> calc_id fr a = calc_id fr b.
Proof. intros fr a b H. unfold calc_id, canon. rewrite H. reflexivity. Qed.

Section HOLDS.
  Variable c : case_C08.
  Notation fr := (fr8 c).
  Notation ls := (ls8 c).
  Notation lb := (lb8 c).

  Lemma plant1_ws_only : forall f u, ws_only f (plant c f u).
  Proof.
    intros f u q Hq. unfold plant. destruct (exists_ f (jdir (calc_id fr u))); [reflexivity|].
    rewrite !get_cons_entry by discriminate.
    assert (E1 : path_eqb q (spf (calc_id fr u)) = false) by (apply path_eqb_neq, not_under_neq; auto; apply under_WS_cons).
    assert (E2 : path_eqb q (jdir (calc_id fr u)) = false) by (apply path_eqb_neq, not_under_neq; auto; apply under_WS_cons).
    rewrite E1, E2. reflexivity.
  Qed.

  Lemma plant_ws_only : forall us f, ws_only f (fold_left (plant c) us f).
  Proof.
    induction us as [|u us IH]; intro f; simpl; [apply ws_only_refl|].
    eapply ws_only_trans; [apply plant1_ws_only|apply IH].
  Qed.

  Lemma mstep_inv : forall f s o f' s' r, Inv fr f s -> mstep c (f, s) o = ((f', s'), r) -> Inv fr f' s'.
  Proof.
    intros f s o f' s' r H E. destruct o; simpl in E.
    - destruct (op_init fr lb f s sp) as [[f1 s1] r1] eqn:E1. inversion E; subst. eapply inv_init; eauto.
    - destruct (op_remove fr f s sp) as [[f1 s1] r1] eqn:E1. inversion E; subst. eapply inv_remove; eauto.
    - destruct (op_rekey fr lb f s old new) as [[f1 s1] r1] eqn:E1. inversion E; subst. eapply inv_rekey; eauto.
    - destruct (update_cache fr ls f s) as [[f1 s1] r1] eqn:E1.
      pose proof (inv_update_cache_gen fr ls _ _ _ _ _ _ H E1) as H1.
      destruct r1 as [[n|]|e]; inversion E; subst; auto.
      split; [apply sound_nil|exact (proj2 H1)].
    - inversion E; subst. eapply inv_restart; eauto.
    - destruct (unlink f CACHEP) as [f1|e] eqn:E1; inversion E; subst; auto. eapply inv_delcache; eauto.
    - unfold xobserve in E. pose proof (observe_sound fr ls lb f s (ev8 c) H) as H1.
      destruct (observe fr ls lb f s (ev8 c)) as [s1 ob] eqn:E1. simpl in H1.
      destruct (open_pres fr lb f s1 (c8_pres c)) as [s2 pre] eqn:E2.
      assert (H2 : Inv fr f s2).
      { split; [|exact (proj2 H)]. eapply open_pres_sound; [|exact E2]. split; [exact H1|exact (proj2 H)]. }
      destruct (cached_all fr ls f s2 (listing f)) as [s3 cached] eqn:E3.
      assert (H3 : Inv fr f s3) by (split; [eapply cached_all_sound; eauto|exact (proj2 H)]).
      destruct (open_all fr lb f s3 (filter (fun u => negb (str_mem u (listing f))) (c8_uids c))) as [s4 uo] eqn:E4.
      inversion E; subst. split; [eapply open_all_sound; [exact H3|exact E4]|exact (proj2 H)].
    - inversion E; subst. clear E.
      destruct (isdir f (jdir (cid8 c a)) && negb (exists_ f (jdir (cid8 c b)))); auto.
      destruct (rename f (jdir (cid8 c a)) (jdir (cid8 c b))) as [f1|e] eqn:E1; auto.
      eapply Inv_ws_only; [exact (proj2 H)| |exact (proj1 H)]. eapply rename_ws_only; eauto; reflexivity.
    - destruct (op_rekey_id fr lb f s (cid8 c old) new) as [[f1 s1] r1] eqn:E1. inversion E; subst. eapply inv_rekey_id; eauto.
    - inversion E; subst. eapply Inv_ws_only; [exact (proj2 H)|apply plant_ws_only|exact (proj1 H)].
    - inversion E; subst. exact H.
    - destruct (op_upd_id fr lb f s (cid8 c old) upd) as [[f1 s1] r1] eqn:E1. inversion E; subst. eapply inv_upd_id; eauto.
    - destruct (op_init fr lb f fresh sp) as [[f1 s1] r1] eqn:E1.
      pose proof (inv_init fr lb _ _ _ _ _ _ (inv_restart fr f s H) E1) as H1.
      inversion E; subst. split; [exact (proj1 H)|exact (proj2 H1)].
    - destruct (op_remove fr f fresh sp) as [[f1 s1] r1] eqn:E1.
      pose proof (inv_remove fr _ _ _ _ _ _ (inv_restart fr f s H) E1) as H1.
      inversion E; subst. split; [exact (proj1 H)|exact (proj2 H1)].
  Qed.

  Lemma cache_le_sound : forall x y, sound fr x -> cache_le y x = true -> sound_b c y = true.
  Proof.
    intros x y Hx H. unfold sound_b. unfold cache_le in H. rewrite forallb_forall in *. intros [k v] Hin.
    specialize (H _ Hin). simpl in *. destruct (alookup k x) as [w|] eqn:E; [|discriminate].
    apply alookup_In in E. apply Hx in E. apply str_eqb_eq. unfold cid8. unfold json_same8 in H.
    apply json_eqb_eq in H. rewrite (norm_cid fr v w H). exact E.
  Qed.

  (* when model and implementation agree on a history, every cache file the implementation wrote is sound *)
  Lemma run_cmp_sound : forall steps f s, Inv fr f s -> run_cmp c (f, s) steps = true ->
    forallb (fun x => match st_obs x with Some o => clause_sound c o | None => true end) steps = true.
  Proof.
    induction steps as [|x r IH]; intros f s H E; simpl; auto.
    change (run_cmp c (f, s) (x :: r)) with
      (let '(st1, mr) := mstep c (f, s) (st_op x) in
       ret_same mr (st_ret x)
       && match st_obs x with Some o => sobs_same (mobs c (fst st1)) o | None => true end
       && run_cmp c st1 r) in E.
    destruct (mstep c (f, s) (st_op x)) as [[f1 s1] mr] eqn:E1.
    apply andb_true_iff in E. destruct E as [E E3]. apply andb_true_iff in E. destruct E as [_ E2].
    pose proof (mstep_inv _ _ _ _ _ _ H E1) as H1.
    rewrite (IH f1 s1 H1 E3), andb_true_r.
    destruct (st_obs x) as [o|]; auto.
    unfold sobs_same in E2. apply andb_true_iff in E2. destruct E2 as [_ E2].
    unfold clause_sound. simpl in E2. unfold file_same in E2.
    destruct (cache_file f1) as [k|] eqn:Ek; destruct (so_file o) as [k'|]; try discriminate; auto.
    unfold cache_same in E2. apply andb_true_iff in E2. destruct E2 as [_ E2].
    eapply cache_le_sound; [|exact E2]. exact (proj2 H1 k Ek).
  Qed.

  Theorem model_holds_sound : mismatch_C08 c = false ->
    forallb (fun x => match st_obs x with Some o => clause_sound c o | None => true end) (c8_steps c) = true.
  Proof.
    intro H. unfold mismatch_C08, mismatch8 in H. apply negb_false_iff in H.
    eapply run_cmp_sound; [|exact H]. split; [apply sound_nil|]. intros k Hk. discriminate.
  Qed.
End HOLDS.
