(* C20Proofs.v — lemmas behind props/C20.v *)
From SV Require Import Base Json Discover Migrate CorrC19 PathAlg C19Proofs CorrC20.
From Coq Require Import Arith.

Local Opaque FUEL.

(* ------------------------------------------------------------------ the version gate *)
Section Gate.
  Variable root : node.
  Variable cwd : str.

  (* never opened: Project() succeeds only on a configuration declaring the supported version *)
  Lemma opened_only_supported : forall p r root', project_open root cwd p = (Ok r, root') ->
    exists c, read_cfg root cwd (cfgfn cwd p) = RdCfg c /\ declared_version c = SCHEMA.
  Proof. intros p r root' H. apply project_open_Ok in H. tauto. Qed.

  Lemma get_project_only_supported : forall path s r root', get_project root cwd path s = (Ok r, root') ->
    exists d c, nearest_cfg root cwd (abspath cwd path) d /\
                read_cfg root cwd (cfgfn cwd d) = RdCfg c /\ declared_version c = SCHEMA.
  Proof.
    unfold get_project. intros path s r root' H.
    destruct (negb (os_exists root cwd path)); [discriminate|].
    destruct (negb s && negb (os_isfile root cwd (cfgfn cwd path))); [discriminate|].
    destruct (locate_config_dir root cwd path) as [[d|]|x] eqn:L; try discriminate.
    apply locate_Some in L. apply project_open_Ok in H. destruct H as [_ [_ [c [R V]]]].
    exists d, c. auto.
  Qed.

  (* --- v2 layout (.signac/config) declaring any other version: refused, nothing touched *)
  Lemma gate_project : forall p c,
    cfg_at root cwd p = true -> read_cfg root cwd (cfgfn cwd p) = RdCfg c ->
    declared_version c <> SCHEMA ->
    project_open root cwd p = (Err EIncompatibleSchemaVersion, root).
  Proof.
    intros p c C R V. unfold project_open. unfold cfg_at in C. rewrite C, R.
    apply Z.eqb_neq in V. rewrite V. reflexivity.
  Qed.

  Lemma gate_get_project : forall path s d c,
    os_exists root cwd path = true -> (s = true \/ cfg_at root cwd path = true) ->
    nearest_cfg root cwd (abspath cwd path) d ->
    read_cfg root cwd (cfgfn cwd d) = RdCfg c -> declared_version c <> SCHEMA ->
    get_project root cwd path s = (Err EIncompatibleSchemaVersion, root).
  Proof.
    intros path s d c X S N R V. unfold get_project. rewrite X. simpl.
    assert (E : negb s && negb (os_isfile root cwd (cfgfn cwd path)) = false).
    { destruct S as [-> | C]; [reflexivity|]. unfold cfg_at in C. rewrite C. apply andb_false_r. }
    rewrite E. rewrite (locate_of_nearest root cwd _ _ N).
    apply gate_project with (c := c); auto. eapply nearest_cfg_holds. exact N.
  Qed.

  Lemma gate_init_project : forall path d c,
    os_exists root cwd path = true -> cfg_at root cwd path = true ->
    nearest_cfg root cwd (abspath cwd path) d ->
    read_cfg root cwd (cfgfn cwd d) = RdCfg c -> declared_version c <> SCHEMA ->
    init_project root cwd path = (Err EIncompatibleSchemaVersion, root).
  Proof.
    intros path d c X C N R V. unfold init_project.
    rewrite (gate_get_project path false d c X (or_intror C) N R V). reflexivity.
  Qed.

  (* --- legacy layout (signac.rc, no .signac/config): whatever version it declares *)
  Lemma older_raises : forall rdir v, get_version root cwd rdir SCHEMA = Some v -> v <> SCHEMA ->
    raise_if_older root cwd rdir = Some EIncompatibleSchemaVersion.
  Proof.
    intros rdir v G V. unfold raise_if_older. rewrite G. apply Z.eqb_neq in V. rewrite V. reflexivity.
  Qed.

  Lemma gate_project_legacy : forall p v,
    cfg_at root cwd p = false -> get_version root cwd p SCHEMA = Some v -> v <> SCHEMA ->
    project_open root cwd p = (Err EIncompatibleSchemaVersion, root).
  Proof.
    intros p v C G V. unfold project_open. unfold cfg_at in C. rewrite C.
    rewrite (older_raises p v G V). reflexivity.
  Qed.

  Lemma older_up_first : forall fuel sp e, raise_if_older root cwd sp = Some e ->
    older_up (S fuel) root cwd sp = Some e.
  Proof. intros fuel sp e H. simpl. rewrite H. reflexivity. Qed.

  Lemma gate_get_project_legacy : forall path v,
    os_exists root cwd path = true -> no_cfg_above root cwd (abspath cwd path) ->
    get_version root cwd (abspath cwd path) SCHEMA = Some v -> v <> SCHEMA ->
    get_project root cwd path true = (Err EIncompatibleSchemaVersion, root).
  Proof.
    intros path v X N G V. unfold get_project. rewrite X. simpl. unfold locate_config_dir.
    destruct (loc_up (S (length (abspath cwd path))) root cwd (abspath cwd path)) eqn:E.
    - apply loc_up_sound in E. exfalso. eapply nearest_not_none; eauto.
    - rewrite (older_up_first _ _ _ (older_raises _ v G V)). reflexivity.
  Qed.

  Lemma gate_init_project_legacy : forall path v,
    cfg_at root cwd path = false -> get_version root cwd path SCHEMA = Some v -> v <> SCHEMA ->
    init_project root cwd path = (Err EIncompatibleSchemaVersion, root).
  Proof.
    intros path v C G V. unfold init_project.
    rewrite (get_project_nosearch_refuses root cwd path C).
    unfold init_new. rewrite (older_raises path v G V). reflexivity.
  Qed.
End Gate.

(* an IncompatibleSchemaVersion (indeed any error) of Project / get_project leaves the tree unchanged *)
Lemma gate_unchanged_project : forall root cwd p e root', project_open root cwd p = (Err e, root') -> root' = root.
Proof. exact project_open_err_unchanged. Qed.

Lemma gate_unchanged_get_project : forall root cwd path s e root', get_project root cwd path s = (Err e, root') -> root' = root.
Proof. exact get_project_err_unchanged. Qed.


(* ------------------------------------------------------------------ migration: the setting
   The migration theorems quantify over EVERY content [es] of the project directory (any jobs,
   documents, files, sub-directories); the project directory itself is placed, without loss of
   generality for the code path (every access is os.path.join(root_directory, <constant>)), at
   /p with working directory /. *)
Definition P0 : str := [47; 112]%N.          (* "/p" *)
Definition CWD0 : str := [47%N].             (* "/"  *)
Definition s_p : str := [112%N].
Definition world (es : list (str * node)) : node := Dir [(s_p, Dir es)].
Definition migrate0 (es : list (str * node)) : result unit * node := apply_migrations (world es) CWD0 P0.
Definition s_ws : str := [119; 115]%N.       (* "ws" *)

Record legacy_pre (es : list (str * node)) (c : cfgrec) (name : str) : Prop := {
  lp_rc : alookup s_rc es = Some (File (FCfg c));
  lp_name : cproj c = Some name;
  lp_ver : cv c = None \/ cv c = Some 0%Z \/ cv c = Some 1%Z;
  lp_nodot : alookup s_dotsignac es = None;
  lp_nocollide : forall w, cws c = Some w -> w <> s_workspace -> alookup s_workspace es = None
}.

(* F17: the full statement "every legacy project without collision migrates" is FALSE of the model:
   a custom workspace_dir that was never created makes os.replace fail. *)
Definition f17_cfg : cfgrec := {| cv := Some 1%Z; cproj := Some [120%N]; cws := Some s_ws |}.
Definition f17_es : list (str * node) := [(s_rc, File (FCfg f17_cfg))].

Lemma f17_refuted : exists es c name,
  legacy_pre es c name /\
  migrate0 es = (Err ERuntimeError, world es) /\
  fst (get_project (world es) CWD0 P0 true) = Err EIncompatibleSchemaVersion.
Proof.
  exists f17_es, f17_cfg, [120%N]. split; [|split].
  - constructor; try reflexivity.
    + right. right. reflexivity.
  - vm_compute. reflexivity.
  - vm_compute. reflexivity.
Qed.

(* ------------------------------------------------------------------ path walk, one step at a time
   (fuel kept abstract so that simplification never unfolds the walk into unexplored branches) *)
Definition FUEL5 : nat := 594%nat.
Lemma FUEL_unfold : FUEL = S (S (S (S (S (S FUEL5))))).
Proof. reflexivity. Qed.
Global Opaque FUEL5.

Lemma W_nil : forall f root rc, walk (S f) root rc [] = Some (rev rc).
Proof. reflexivity. Qed.

Lemma W_skip : forall f root rc rest, walk (S f) root rc ([] :: rest) = walk f root rc rest.
Proof. reflexivity. Qed.

Lemma W_look : forall f root rc c rest es, cleanb c = true -> get root (rev rc) = Some (Dir es) ->
  walk (S f) root rc (c :: rest) =
  match alookup c es with
  | None => None
  | Some (Dir _) => walk f root (c :: rc) rest
  | Some (File _) => match rest with [] => Some (rev (c :: rc)) | _ => None end
  | Some (Link t) =>
      match t with
      | [] => None
      | _ => walk f root (if starts_sl t then [] else rc) (split_sl t ++ rest)
      end
  end.
Proof.
  intros f root rc c rest es H G. destruct (cleanb_inv c H) as [_ [E1 [E2 E3]]].
  simpl. rewrite E1, E2, E3. simpl. rewrite G. reflexivity.
Qed.

Definition nolink (x : option node) : Prop := match x with Some (Link _) => False | _ => True end.

Section World.
  Variable es : list (str * node).
  Let root := world es.

  Lemma get_root_nil : get root (rev []) = Some (Dir [(s_p, Dir es)]).
  Proof. reflexivity. Qed.

  Lemma get_p : get root (rev [s_p]) = Some (Dir es).
  Proof. reflexivity. Qed.

  Lemma clean_p : cleanb s_p = true.
  Proof. reflexivity. Qed.

  Lemma pj_child : forall n, cleanb n = true -> path_join P0 n = P0 ++ SL :: n.
  Proof.
    intros n H. destruct (first_char_clean n H) as [x [r [-> Hx]]].
    unfold path_join. simpl starts_sl. rewrite Hx. reflexivity.
  Qed.

  Lemma split_child : forall n, cleanb n = true ->
    split_sl (os_full CWD0 (path_join P0 n)) = [[]; s_p; n].
  Proof.
    intros n H. rewrite (pj_child n H). unfold os_full. simpl starts_sl. cbv iota.
    rewrite split_sl_app. destruct (cleanb_inv n H) as [Hs _].
    rewrite (split_sl_slashfree n Hs). reflexivity.
  Qed.

  Lemma pj_nonempty : forall n, cleanb n = true -> path_join P0 n <> [].
  Proof. intros n H. rewrite (pj_child n H). discriminate. Qed.

  (* where a child of the project directory resolves to *)
  Lemma resolve_child : forall n, cleanb n = true -> nolink (alookup n es) ->
    os_resolve root CWD0 (path_join P0 n) =
    match alookup n es with Some _ => Some [s_p; n] | None => None end.
  Proof.
    intros n H NL. unfold os_resolve.
    destruct (path_join P0 n) eqn:E; [exfalso; eapply pj_nonempty; eauto|]. rewrite <- E.
    rewrite (split_child n H), FUEL_unfold, W_skip.
    rewrite (W_look _ root [] s_p [n] _ clean_p get_root_nil).
    change (alookup s_p [(s_p, Dir es)]) with (Some (Dir es)). cbv iota.
    rewrite (W_look _ root [s_p] n [] es H get_p).
    destruct (alookup n es) as [[d|e2|t]|]; try reflexivity. contradiction.
  Qed.

  Lemma stat_child : forall n, cleanb n = true -> nolink (alookup n es) ->
    os_stat root CWD0 (path_join P0 n) = alookup n es.
  Proof.
    intros n H NL. unfold os_stat. rewrite (resolve_child n H NL).
    destruct (alookup n es) eqn:E; [|reflexivity].
    change (get root [s_p; n]) with (match alookup n es with Some n' => get n' [] | None => None end).
    rewrite E. reflexivity.
  Qed.

  Lemma lresolve_child : forall n, cleanb n = true ->
    os_lresolve root CWD0 (path_join P0 n) = Some ([s_p], n).
  Proof.
    intros n H. unfold os_lresolve.
    destruct (path_join P0 n) eqn:E; [exfalso; eapply pj_nonempty; eauto|]. rewrite <- E.
    rewrite (split_child n H).
    destruct (cleanb_inv n H) as [_ [E1 [E2 E3]]].
    simpl filter. unfold Migrate.nonempty. rewrite E1. simpl rev. cbv iota.
    rewrite E2, E3. simpl orb. cbv iota. simpl rev.
    rewrite FUEL_unfold. rewrite (W_look _ root [] s_p [] _ clean_p get_root_nil).
    change (alookup s_p [(s_p, Dir es)]) with (Some (Dir es)). cbv iota.
    rewrite W_nil. reflexivity.
  Qed.

  (* grandchildren: <root>/a/b for a directory a *)
  Lemma pj_child2 : forall a b, cleanb a = true -> cleanb b = true ->
    path_join (path_join P0 a) b = P0 ++ SL :: a ++ SL :: b.
  Proof.
    intros a b Ha Hb. rewrite (pj_child a Ha).
    destruct (first_char_clean b Hb) as [x [r [-> Hx]]].
    unfold path_join. simpl starts_sl. rewrite Hx.
    assert (E : ends_sl (P0 ++ SL :: a) = false).
    { assert (Z : P0 ++ SL :: a = abs_of [s_p; a]) by reflexivity. rewrite Z.
      apply ends_sl_abs_of; [discriminate|]. simpl. rewrite Ha. reflexivity. }
    rewrite E. rewrite <- app_assoc. reflexivity.
  Qed.

  Lemma split_child2 : forall a b, cleanb a = true -> cleanb b = true ->
    split_sl (os_full CWD0 (path_join (path_join P0 a) b)) = [[]; s_p; a; b].
  Proof.
    intros a b Ha Hb. rewrite (pj_child2 a b Ha Hb). unfold os_full. simpl starts_sl. cbv iota.
    rewrite split_sl_app, split_sl_app.
    destruct (cleanb_inv a Ha) as [Hsa _]. destruct (cleanb_inv b Hb) as [Hsb _].
    rewrite (split_sl_slashfree a Hsa), (split_sl_slashfree b Hsb). reflexivity.
  Qed.

  Lemma stat_child2 : forall a b cd, cleanb a = true -> cleanb b = true ->
    alookup a es = Some (Dir cd) -> nolink (alookup b cd) ->
    os_stat root CWD0 (path_join (path_join P0 a) b) = alookup b cd.
  Proof.
    intros a b cd Ha Hb La NL. unfold os_stat, os_resolve.
    destruct (path_join (path_join P0 a) b) eqn:E;
      [rewrite (pj_child2 a b Ha Hb) in E; discriminate|]. rewrite <- E.
    rewrite (split_child2 a b Ha Hb), FUEL_unfold, W_skip.
    rewrite (W_look _ root [] s_p [a; b] _ clean_p get_root_nil).
    change (alookup s_p [(s_p, Dir es)]) with (Some (Dir es)). cbv iota.
    rewrite (W_look _ root [s_p] a [b] es Ha get_p). rewrite La.
    assert (G : get root (rev [a; s_p]) = Some (Dir cd)).
    { simpl rev. simpl app. change (get root [s_p; a]) with (match alookup a es with Some n' => get n' [] | None => None end).
      rewrite La. reflexivity. }
    rewrite (W_look _ root [a; s_p] b [] cd Hb G).
    destruct (alookup b cd) as [[d|e2|t]|] eqn:Lb; try contradiction; try reflexivity.
    - simpl rev. simpl app.
      change (get root [s_p; a; b]) with (match alookup a es with Some n' => get n' [b] | None => None end).
      rewrite La. simpl. rewrite Lb. reflexivity.
    - rewrite W_nil. simpl rev. simpl app.
      change (get root [s_p; a; b]) with (match alookup a es with Some n' => get n' [b] | None => None end).
      rewrite La. simpl. rewrite Lb. reflexivity.
  Qed.

  Lemma lresolve_child2 : forall a b cd, cleanb a = true -> cleanb b = true ->
    alookup a es = Some (Dir cd) ->
    os_lresolve root CWD0 (path_join (path_join P0 a) b) = Some ([s_p; a], b).
  Proof.
    intros a b cd Ha Hb La. unfold os_lresolve.
    destruct (path_join (path_join P0 a) b) eqn:E;
      [rewrite (pj_child2 a b Ha Hb) in E; discriminate|]. rewrite <- E.
    rewrite (split_child2 a b Ha Hb).
    destruct (cleanb_inv a Ha) as [_ [A1 _]]. destruct (cleanb_inv b Hb) as [_ [B1 [B2 B3]]].
    simpl filter. unfold Migrate.nonempty. rewrite A1, B1. simpl rev. cbv iota.
    rewrite B2, B3. simpl orb. cbv iota. simpl rev.
    rewrite FUEL_unfold. rewrite (W_look _ root [] s_p [a] _ clean_p get_root_nil).
    change (alookup s_p [(s_p, Dir es)]) with (Some (Dir es)). cbv iota.
    rewrite (W_look _ root [s_p] a [] es Ha get_p). rewrite La. rewrite W_nil.
    simpl rev. simpl app.
    change (get root [s_p; a]) with (match alookup a es with Some n' => get n' [] | None => None end).
    rewrite La. reflexivity.
  Qed.
End World.

(* ------------------------------------------------------------------ file-system steps inside /p *)
Lemma upd_child : forall es n x,
  upd [s_p; n] x (world es) = world (match x with Some x' => aset n x' es | None => aremove n es end).
Proof. intros es n x. destruct x; reflexivity. Qed.

Lemma upd_child2 : forall es a b cd x, alookup a es = Some (Dir cd) ->
  upd [s_p; a; b] x (world es) =
  world (aset a (Dir (match x with Some x' => aset b x' cd | None => aremove b cd end)) es).
Proof.
  intros es a b cd x La. unfold world. simpl. rewrite La. destruct x; reflexivity.
Qed.

Lemma get_child : forall es n, get (world es) [s_p; n] = alookup n es.
Proof. intros. unfold world. simpl. destruct (alookup n es); reflexivity. Qed.

Lemma get_child2 : forall es a b cd, alookup a es = Some (Dir cd) -> get (world es) [s_p; a; b] = alookup b cd.
Proof. intros es a b cd La. unfold world. simpl. rewrite La. destruct (alookup b cd); reflexivity. Qed.

Lemma neq_eqb : forall a b : str, a <> b -> str_eqb a b = false.
Proof. intros a b H. apply str_eqb_neq. exact H. Qed.

Lemma replace_child : forall es a b x, cleanb a = true -> cleanb b = true ->
  alookup a es = Some x -> a <> b -> alookup b es = None ->
  fs_replace (world es) CWD0 (path_join P0 a) (path_join P0 b) = (Ok tt, world (aset b x (aremove a es))).
Proof.
  intros es a b x Ha Hb La Nab Lb. unfold fs_replace.
  rewrite (lresolve_child es a Ha), (lresolve_child es b Hb). simpl app.
  rewrite get_child, La, get_child, Lb.
  simpl list_eqb. rewrite (neq_eqb a b Nab). simpl andb. cbv iota.
  simpl is_prefix. rewrite (neq_eqb a b Nab). simpl andb. cbv iota.
  rewrite upd_child, upd_child. destruct x; reflexivity.
Qed.

Lemma replace_child_missing : forall es a b, cleanb a = true -> cleanb b = true ->
  alookup a es = None ->
  fs_replace (world es) CWD0 (path_join P0 a) (path_join P0 b) = (Err EOSError, world es).
Proof.
  intros es a b Ha Hb La. unfold fs_replace.
  rewrite (lresolve_child es a Ha), (lresolve_child es b Hb). simpl app.
  rewrite get_child, La. reflexivity.
Qed.

Lemma replace_into : forall es a d b cd fd, cleanb a = true -> cleanb d = true -> cleanb b = true ->
  alookup a es = Some (File fd) -> alookup d es = Some (Dir cd) -> a <> d ->
  (alookup b cd = None \/ exists f0, alookup b cd = Some (File f0)) ->
  fs_replace (world es) CWD0 (path_join P0 a) (path_join (path_join P0 d) b)
  = (Ok tt, world (aset d (Dir (aset b (File fd) cd)) (aremove a es))).
Proof.
  intros es a d b cd fd Ha Hd Hb La Ld Nad Lb. unfold fs_replace.
  rewrite (lresolve_child es a Ha), (lresolve_child2 es d b cd Hd Hb Ld). simpl app.
  rewrite get_child, La. rewrite (get_child2 es d b cd Ld).
  simpl list_eqb. rewrite (neq_eqb a d Nad). simpl andb. cbv iota.
  simpl is_prefix. rewrite (neq_eqb a d Nad). simpl andb. cbv iota.
  rewrite upd_child.
  assert (Ld' : alookup d (aremove a es) = Some (Dir cd)) by (rewrite alookup_aremove_other; auto).
  rewrite (upd_child2 (aremove a es) d b cd (Some (File fd)) Ld').
  destruct Lb as [Lb | [f0 Lb]]; rewrite Lb; reflexivity.
Qed.

Lemma mkdir_child : forall es d, cleanb d = true -> alookup d es = None ->
  fs_mkdir (world es) CWD0 (path_join P0 d) = (Ok tt, world (aset d (Dir []) es)).
Proof.
  intros es d Hd Ld. unfold fs_mkdir. rewrite (lresolve_child es d Hd). simpl app.
  rewrite get_child, Ld, upd_child. reflexivity.
Qed.

Lemma mkdir_child_exists : forall es d x, cleanb d = true -> alookup d es = Some x ->
  fs_mkdir (world es) CWD0 (path_join P0 d) = (Err EOSError, world es).
Proof.
  intros es d x Hd Ld. unfold fs_mkdir. rewrite (lresolve_child es d Hd). simpl app.
  rewrite get_child, Ld. reflexivity.
Qed.

Lemma write_child : forall es n data, cleanb n = true ->
  (alookup n es = None \/ exists d0, alookup n es = Some (File d0)) ->
  fs_write (world es) CWD0 (path_join P0 n) data = (Ok tt, world (aset n (File data) es)).
Proof.
  intros es n data Hn L. unfold fs_write.
  assert (NL : nolink (alookup n es)) by (destruct L as [L|[d0 L]]; rewrite L; exact I).
  rewrite (resolve_child es n Hn NL).
  destruct L as [L|[d0 L]]; rewrite L.
  - rewrite (lresolve_child es n Hn). simpl app. rewrite get_child, L, upd_child. reflexivity.
  - rewrite get_child, L, upd_child. reflexivity.
Qed.

Lemma write_child2 : forall es a b cd d0 data, cleanb a = true -> cleanb b = true ->
  alookup a es = Some (Dir cd) -> alookup b cd = Some (File d0) ->
  fs_write (world es) CWD0 (path_join (path_join P0 a) b) data
  = (Ok tt, world (aset a (Dir (aset b (File data) cd)) es)).
Proof.
  intros es a b cd d0 data Ha Hb La Lb. unfold fs_write.
  assert (R : os_resolve (world es) CWD0 (path_join (path_join P0 a) b) = Some [s_p; a; b]).
  { unfold os_resolve.
    destruct (path_join (path_join P0 a) b) eqn:E;
      [rewrite (pj_child2 a b Ha Hb) in E; discriminate|]. rewrite <- E.
    rewrite (split_child2 a b Ha Hb), FUEL_unfold, W_skip.
    rewrite (W_look _ (world es) [] s_p [a; b] _ clean_p (get_root_nil es)).
    change (alookup s_p [(s_p, Dir es)]) with (Some (Dir es)). cbv iota.
    rewrite (W_look _ (world es) [s_p] a [b] es Ha (get_p es)). rewrite La.
    assert (G : get (world es) (rev [a; s_p]) = Some (Dir cd)).
    { simpl rev. simpl app. rewrite get_child. exact La. }
    rewrite (W_look _ (world es) [a; s_p] b [] cd Hb G). rewrite Lb. reflexivity. }
  rewrite R. rewrite (get_child2 es a b cd La), Lb.
  rewrite (upd_child2 es a b cd (Some (File data)) La). reflexivity.
Qed.

(* ------------------------------------------------------------------ loaders inside /p *)
Lemma clean_rc : cleanb s_rc = true. Proof. reflexivity. Qed.
Lemma clean_dotsignac : cleanb s_dotsignac = true. Proof. reflexivity. Qed.
Lemma clean_config : cleanb s_config = true. Proof. reflexivity. Qed.
Lemma clean_workspace : cleanb s_workspace = true. Proof. reflexivity. Qed.
Lemma clean_doc : cleanb s_doc = true. Proof. reflexivity. Qed.

Lemma isfile_child : forall es n, cleanb n = true -> nolink (alookup n es) ->
  os_isfile (world es) CWD0 (path_join P0 n) = match alookup n es with Some (File _) => true | _ => false end.
Proof. intros es n H NL. unfold os_isfile. rewrite (stat_child es n H NL). reflexivity. Qed.

Lemma exists_child : forall es n, cleanb n = true -> nolink (alookup n es) ->
  os_exists (world es) CWD0 (path_join P0 n) = match alookup n es with Some _ => true | None => false end.
Proof. intros es n H NL. unfold os_exists. rewrite (stat_child es n H NL). reflexivity. Qed.

Lemma load_v1_world : forall es c name, alookup s_rc es = Some (File (FCfg c)) -> cproj c = Some name ->
  load_v1 (world es) CWD0 P0 = Some c.
Proof.
  intros es c name L Pn. unfold load_v1, read_cfg.
  assert (NL : nolink (alookup s_rc es)) by (rewrite L; exact I).
  rewrite (isfile_child es s_rc clean_rc NL), (stat_child es s_rc clean_rc NL), L, Pn. reflexivity.
Qed.

Lemma load_v1_world_none : forall es, alookup s_rc es = None -> load_v1 (world es) CWD0 P0 = None.
Proof.
  intros es L. unfold load_v1.
  assert (NL : nolink (alookup s_rc es)) by (rewrite L; exact I).
  rewrite (isfile_child es s_rc clean_rc NL), L. reflexivity.
Qed.

Lemma stat_child2_none : forall es a b, cleanb a = true -> cleanb b = true -> alookup a es = None ->
  os_stat (world es) CWD0 (path_join (path_join P0 a) b) = None.
Proof.
  intros es a b Ha Hb La. unfold os_stat, os_resolve.
  destruct (path_join (path_join P0 a) b) eqn:E;
    [rewrite (pj_child2 a b Ha Hb) in E; discriminate|]. rewrite <- E.
  rewrite (split_child2 a b Ha Hb), FUEL_unfold, W_skip.
  rewrite (W_look _ (world es) [] s_p [a; b] _ clean_p (get_root_nil es)).
  change (alookup s_p [(s_p, Dir es)]) with (Some (Dir es)). cbv iota.
  rewrite (W_look _ (world es) [s_p] a [b] es Ha (get_p es)). rewrite La. reflexivity.
Qed.

Lemma load_v2_world_none : forall es, alookup s_dotsignac es = None -> load_v2 (world es) CWD0 P0 = None.
Proof.
  intros es L. unfold load_v2, os_isfile.
  rewrite (stat_child2_none es s_dotsignac s_config clean_dotsignac clean_config L). reflexivity.
Qed.

Lemma load_v2_world : forall es cd c, alookup s_dotsignac es = Some (Dir cd) ->
  alookup s_config cd = Some (File (FCfg c)) -> load_v2 (world es) CWD0 P0 = Some c.
Proof.
  intros es cd c L Lc. unfold load_v2, os_isfile, read_cfg.
  assert (NL : nolink (alookup s_config cd)) by (rewrite Lc; exact I).
  rewrite (stat_child2 es s_dotsignac s_config cd clean_dotsignac clean_config L NL), Lc. reflexivity.
Qed.

(* ------------------------------------------------------------------ association-list bookkeeping *)
Lemma alookup_aset_if : forall A q k (v : A) l,
  alookup q (aset k v l) = if str_eqb q k then Some v else alookup q l.
Proof.
  intros A q k v l. destruct (str_eqb q k) eqn:E.
  - apply str_eqb_eq in E. subst q. apply alookup_aset_same.
  - apply str_eqb_neq in E. apply alookup_aset_other. auto.
Qed.

Lemma alookup_aremove_if : forall A q k (l : list (str * A)),
  alookup q (aremove k l) = if str_eqb q k then None else alookup q l.
Proof.
  intros A q k l. destruct (str_eqb q k) eqn:E.
  - apply str_eqb_eq in E. subst q. apply alookup_aremove_same.
  - apply str_eqb_neq in E. apply alookup_aremove_other. auto.
Qed.

Ltac eqb_compute :=
  repeat match goal with
  | |- context [str_eqb ?a ?b] =>
      let v := eval vm_compute in (str_eqb a b) in
      match v with
      | true => change (str_eqb a b) with true
      | false => change (str_eqb a b) with false
      end
  end.

Ltac lk := repeat (rewrite alookup_aset_if || rewrite alookup_aremove_if); eqb_compute; cbv iota.

(* ------------------------------------------------------------------ the migration on directory entries
   [mig_entries] is the v1 -> v2 step written as a pure function on the entries of the project
   directory, mirroring _migrate_v1_to_v2 statement by statement; [mig_refines] shows that the
   path-level model of Migrate.v computes exactly this on /p. *)
Definition fileish (x : option node) : Prop :=
  match x with None => True | Some (File _) => True | _ => False end.

Definition dot_of (es : list (str * node)) : list (str * node) :=
  match alookup s_dotsignac es with Some (Dir cd) => cd | _ => [] end.

Definition move_entry (old new : str) (es : list (str * node)) : list (str * node) :=
  match alookup old es with
  | Some (File d) => aset s_dotsignac (Dir (aset new (File d) (dot_of es))) (aremove old es)
  | _ => es
  end.

Definition ws_entries (c : cfgrec) (es : list (str * node)) : list (str * node) :=
  match cws c with
  | Some w =>
      if str_eqb w s_workspace then es
      else match alookup w es with
           | Some x => aset s_workspace x (aremove w es)
           | None => es
           end
  | None => es
  end.

Definition doc_entries (name : str) (es : list (str * node)) : list (str * node) :=
  if str_eqb name s_None then es
  else aset s_doc (File (FJson (JObj
         match alookup s_doc es with
         | Some (File (FJson (JObj kvs))) => aset s_name_key (JStr name) kvs
         | _ => [(s_name_key, JStr name)]
         end))) es.

Definition stripped (c : cfgrec) : cfgrec := {| cv := cv c; cproj := None; cws := None |}.

Definition mig_entries (c : cfgrec) (name : str) (es : list (str * node)) : list (str * node) :=
  let esB := doc_entries name (ws_entries c es) in
  let esC := aset s_rc (File (FCfg (stripped c))) esB in
  let esD := aset s_dotsignac (Dir []) esC in
  let esE := aset s_dotsignac (Dir (aset s_config (File (FCfg (stripped c))) [])) (aremove s_rc esD) in
  move_entry s_cache_old s_cache_new (move_entry s_hist_old s_hist_new esE).

Definition bump2_entries (es : list (str * node)) : list (str * node) :=
  aset s_dotsignac (Dir (aset s_config (File (FCfg {| cv := Some 2%Z; cproj := None; cws := None |})) (dot_of es))) es.

(* the hypotheses of the preservation theorem on the directory content *)
Record mig_pre (es : list (str * node)) (c : cfgrec) (name : str) : Prop := {
  mp_rc : alookup s_rc es = Some (File (FCfg c));
  mp_name : cproj c = Some name;
  mp_nodot : alookup s_dotsignac es = None;
  mp_doc : alookup s_doc es = None \/ exists kvs, alookup s_doc es = Some (File (FJson (JObj kvs)));
  mp_hist : fileish (alookup s_hist_old es);
  mp_cache : fileish (alookup s_cache_old es);
  (* the workspace: default name, or a custom single-component name whose directory EXISTS
     (this is the side condition F17 violates) and no 'workspace' entry in the way *)
  mp_ws : cws c = None \/ cws c = Some s_workspace \/
          exists w ws, cws c = Some w /\ cleanb w = true /\ w <> s_workspace /\
                       alookup w es = Some (Dir ws) /\ alookup s_workspace es = None
}.
