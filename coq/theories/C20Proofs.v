(* C20Proofs.v — lemmas behind props/C20.v *)
From SV Require Import Base Json Discover Migrate CorrC19 PathAlg C19Proofs CorrC20.
From Coq Require Import Arith Lia.

Local Opaque FUEL.

(* ------------------------------------------------------------------ the version gate *)
Section Gate.
  Variable root : node.
  Variable cwd : str.

  (* never opened: Project() succeeds only on a configuration declaring the supported version *)
  Lemma opened_only_supported : forall p r root', project_open root cwd p = (Ok r, root') ->
    exists c, read_cfg root cwd (cfgfn cwd p) = RdCfg c /\ declared_version c = SCHEMA.
  Proof. intros p r root' H. apply project_open_Ok in H. tauto. Qed.

  Lemma get_project_only_supported : forall path s r root', get_project root cwd path s = (Ok r, root') ->
    exists d c, nearest_cfg root cwd (abspath cwd path) d /\
                read_cfg root cwd (cfgfn cwd d) = RdCfg c /\ declared_version c = SCHEMA.
  Proof.
    unfold get_project. intros path s r root' H.
    destruct (negb (os_exists root cwd path)); [discriminate|].
    destruct (negb s && negb (os_isfile root cwd (cfgfn cwd path)));
      [destruct (raise_if_older root cwd path); discriminate|].
    destruct (locate_config_dir root cwd path) as [[d|]|x] eqn:L; try discriminate.
    apply locate_Some in L. apply project_open_Ok in H. destruct H as [_ [_ [c [R V]]]].
    exists d, c. auto.
  Qed.

  (* --- v2 layout (.signac/config) declaring any other version: refused, nothing touched *)
  Lemma gate_project : forall p c,
    cfg_at root cwd p = true -> read_cfg root cwd (cfgfn cwd p) = RdCfg c ->
    declared_version c <> SCHEMA ->
    project_open root cwd p = (Err EIncompatibleSchemaVersion, root).
  Proof.
    intros p c C R V. unfold project_open. unfold cfg_at in C. rewrite C, R.
    apply Z.eqb_neq in V. rewrite V. reflexivity.
  Qed.

  Lemma gate_get_project : forall path s d c,
    os_exists root cwd path = true -> (s = true \/ cfg_at root cwd path = true) ->
    nearest_cfg root cwd (abspath cwd path) d ->
    read_cfg root cwd (cfgfn cwd d) = RdCfg c -> declared_version c <> SCHEMA ->
    get_project root cwd path s = (Err EIncompatibleSchemaVersion, root).
  Proof.
    intros path s d c X S N R V. unfold get_project. rewrite X. simpl.
    assert (E : negb s && negb (os_isfile root cwd (cfgfn cwd path)) = false).
    { destruct S as [-> | C]; [reflexivity|]. unfold cfg_at in C. rewrite C. apply andb_false_r. }
    rewrite E. rewrite (locate_of_nearest root cwd _ _ N).
    apply gate_project with (c := c); auto. eapply nearest_cfg_holds. exact N.
  Qed.

  Lemma gate_init_project : forall path d c,
    os_exists root cwd path = true -> cfg_at root cwd path = true ->
    nearest_cfg root cwd (abspath cwd path) d ->
    read_cfg root cwd (cfgfn cwd d) = RdCfg c -> declared_version c <> SCHEMA ->
    init_project root cwd path = (Err EIncompatibleSchemaVersion, root).
  Proof.
    intros path d c X C N R V. unfold init_project.
    rewrite (gate_get_project path false d c X (or_intror C) N R V). reflexivity.
  Qed.

  (* --- legacy layout (signac.rc, no .signac/config): whatever version it declares *)
  Lemma older_raises : forall rdir v, get_version root cwd rdir SCHEMA = Some v -> v <> SCHEMA ->
    raise_if_older root cwd rdir = Some EIncompatibleSchemaVersion.
  Proof.
    intros rdir v G V. unfold raise_if_older. rewrite G. apply Z.eqb_neq in V. rewrite V. reflexivity.
  Qed.

  Lemma gate_project_legacy : forall p v,
    cfg_at root cwd p = false -> get_version root cwd p SCHEMA = Some v -> v <> SCHEMA ->
    project_open root cwd p = (Err EIncompatibleSchemaVersion, root).
  Proof.
    intros p v C G V. unfold project_open. unfold cfg_at in C. rewrite C.
    rewrite (older_raises p v G V). reflexivity.
  Qed.

  Lemma older_up_first : forall fuel sp e, raise_if_older root cwd sp = Some e ->
    older_up (S fuel) root cwd sp = Some e.
  Proof. intros fuel sp e H. simpl. rewrite H. reflexivity. Qed.

  Lemma gate_get_project_legacy : forall path v,
    os_exists root cwd path = true -> no_cfg_above root cwd (abspath cwd path) ->
    get_version root cwd (abspath cwd path) SCHEMA = Some v -> v <> SCHEMA ->
    get_project root cwd path true = (Err EIncompatibleSchemaVersion, root).
  Proof.
    intros path v X N G V. unfold get_project. rewrite X. simpl. unfold locate_config_dir.
    destruct (loc_up (S (length (abspath cwd path))) root cwd (abspath cwd path)) eqn:E.
    - apply loc_up_sound in E. exfalso. eapply nearest_not_none; eauto.
    - rewrite (older_up_first _ _ _ (older_raises _ v G V)). reflexivity.
  Qed.

  (* the same from BELOW the legacy project (a sub-directory, the workspace, a job directory; any spelling
     of the path, relative ones included, since the search runs on abspath): [nearest_legacy sp d] - d is
     reached from sp by iterating dirname, and no directory passed on the way holds a legacy
     configuration the loaders can read *)
  Inductive nearest_legacy : str -> str -> Prop :=
  | NL_here : forall sp e, raise_if_older root cwd sp = Some e -> nearest_legacy sp sp
  | NL_up : forall sp d, raise_if_older root cwd sp = None -> dirname sp <> sp ->
      nearest_legacy (dirname sp) d -> nearest_legacy sp d.

  Lemma older_up_nearest : forall fuel sp d e, (length sp < fuel)%nat -> nearest_legacy sp d ->
    raise_if_older root cwd d = Some e -> older_up fuel root cwd sp = Some e.
  Proof.
    induction fuel as [|f IH]; intros sp d e L N R; [lia|]. simpl.
    inversion N as [sp' e' R' | sp' d' R' D' N']; subst.
    - rewrite R. reflexivity.
    - rewrite R'. pose proof D' as D2. apply str_eqb_neq in D2. rewrite D2. apply IH with (d := d); auto.
      destruct (dirname_shorter sp); [contradiction|lia].
  Qed.

  Lemma gate_get_project_legacy_below : forall path d v,
    os_exists root cwd path = true -> no_cfg_above root cwd (abspath cwd path) ->
    nearest_legacy (abspath cwd path) d ->
    get_version root cwd d SCHEMA = Some v -> v <> SCHEMA ->
    get_project root cwd path true = (Err EIncompatibleSchemaVersion, root).
  Proof.
    intros path d v X N NL G V. unfold get_project. rewrite X. simpl. unfold locate_config_dir.
    destruct (loc_up (S (length (abspath cwd path))) root cwd (abspath cwd path)) eqn:E.
    - apply loc_up_sound in E. exfalso. eapply nearest_not_none; eauto.
    - rewrite (older_up_nearest _ _ d _ (Nat.lt_succ_diag_r _) NL (older_raises _ v G V)). reflexivity.
  Qed.

  (* search=False on a legacy project (since fix 7826961): refused AS SUCH, nothing touched *)
  Lemma gate_get_project_nosearch_legacy : forall path v,
    os_exists root cwd path = true -> cfg_at root cwd path = false ->
    get_version root cwd path SCHEMA = Some v -> v <> SCHEMA ->
    get_project root cwd path false = (Err EIncompatibleSchemaVersion, root).
  Proof.
    intros path v X C G V. unfold get_project. rewrite X. unfold cfg_at in C. rewrite C. simpl.
    rewrite (older_raises path v G V). reflexivity.
  Qed.

  Lemma gate_init_project_legacy : forall path v,
    cfg_at root cwd path = false -> get_version root cwd path SCHEMA = Some v -> v <> SCHEMA ->
    init_project root cwd path = (Err EIncompatibleSchemaVersion, root).
  Proof.
    intros path v C G V. unfold init_project, get_project.
    destruct (os_exists root cwd path); simpl.
    - unfold cfg_at in C. rewrite C. simpl. rewrite (older_raises path v G V). reflexivity.
    - unfold init_new. rewrite (older_raises path v G V). reflexivity.
  Qed.
End Gate.

(* an IncompatibleSchemaVersion (indeed any error) of Project / get_project leaves the tree unchanged *)
Lemma gate_unchanged_project : forall root cwd p e root', project_open root cwd p = (Err e, root') -> root' = root.
Proof. exact project_open_err_unchanged. Qed.

Lemma gate_unchanged_get_project : forall root cwd path s e root', get_project root cwd path s = (Err e, root') -> root' = root.
Proof. exact get_project_err_unchanged. Qed.


(* ------------------------------------------------------------------ migration: the setting
   The migration theorems quantify over EVERY content [es] of the project directory (any jobs,
   documents, files, sub-directories); the project directory itself is placed, without loss of
   generality for the code path (every access is os.path.join(root_directory, <constant>)), at
   /p with working directory /. *)
Definition P0 : str := [47; 112]%N.          (* "/p" *)
Definition CWD0 : str := [47%N].             (* "/"  *)
Definition s_p : str := [112%N].
Definition world (es : list (str * node)) : node := Dir [(s_p, Dir es)].
Definition migrate0 (es : list (str * node)) : result unit * node := apply_migrations (world es) CWD0 P0.
Definition s_ws : str := [119; 115]%N.       (* "ws" *)

(* ------------------------------------------------------------------ path walk, one step at a time
   (fuel kept abstract so that simplification never unfolds the walk into unexplored branches) *)
Definition FUEL5 : nat := 594%nat.
Lemma FUEL_unfold : FUEL = S (S (S (S (S (S FUEL5))))).
Proof. reflexivity. Qed.
Global Opaque FUEL5.

Lemma W_nil : forall f root rc, walk (S f) root rc [] = Some (rev rc).
Proof. reflexivity. Qed.

Lemma W_skip : forall f root rc rest, walk (S f) root rc ([] :: rest) = walk f root rc rest.
Proof. reflexivity. Qed.

Lemma W_look : forall f root rc c rest es, cleanb c = true -> get root (rev rc) = Some (Dir es) ->
  walk (S f) root rc (c :: rest) =
  match alookup c es with
  | None => None
  | Some (Dir _) => walk f root (c :: rc) rest
  | Some (File _) => match rest with [] => Some (rev (c :: rc)) | _ => None end
  | Some (Link t) =>
      match t with
      | [] => None
      | _ => walk f root (if starts_sl t then [] else rc) (split_sl t ++ rest)
      end
  end.
Proof.
  intros f root rc c rest es H G. destruct (cleanb_inv c H) as [_ [E1 [E2 E3]]].
  simpl. rewrite E1, E2, E3. simpl. rewrite G. reflexivity.
Qed.

Definition nolink (x : option node) : Prop := match x with Some (Link _) => False | _ => True end.

Section World.
  Variable es : list (str * node).
  Let root := world es.

  Lemma get_root_nil : get root (rev []) = Some (Dir [(s_p, Dir es)]).
  Proof. reflexivity. Qed.

  Lemma get_p : get root (rev [s_p]) = Some (Dir es).
  Proof. reflexivity. Qed.

  Lemma clean_p : cleanb s_p = true.
  Proof. reflexivity. Qed.

  Lemma pj_child : forall n, cleanb n = true -> path_join P0 n = P0 ++ SL :: n.
  Proof.
    intros n H. destruct (first_char_clean n H) as [x [r [-> Hx]]].
    unfold path_join. simpl starts_sl. rewrite Hx. reflexivity.
  Qed.

  Lemma split_child : forall n, cleanb n = true ->
    split_sl (os_full CWD0 (path_join P0 n)) = [[]; s_p; n].
  Proof.
    intros n H. rewrite (pj_child n H). unfold os_full. simpl starts_sl. cbv iota.
    rewrite split_sl_app. destruct (cleanb_inv n H) as [Hs _].
    rewrite (split_sl_slashfree n Hs). reflexivity.
  Qed.

  Lemma pj_nonempty : forall n, cleanb n = true -> path_join P0 n <> [].
  Proof. intros n H. rewrite (pj_child n H). discriminate. Qed.

  (* where a child of the project directory resolves to *)
  Lemma resolve_child : forall n, cleanb n = true -> nolink (alookup n es) ->
    os_resolve root CWD0 (path_join P0 n) =
    match alookup n es with Some _ => Some [s_p; n] | None => None end.
  Proof.
    intros n H NL. unfold os_resolve.
    destruct (path_join P0 n) eqn:E; [exfalso; eapply pj_nonempty; eauto|]. rewrite <- E.
    rewrite (split_child n H), FUEL_unfold, W_skip.
    rewrite (W_look _ root [] s_p [n] _ clean_p get_root_nil).
    change (alookup s_p [(s_p, Dir es)]) with (Some (Dir es)). cbv iota.
    rewrite (W_look _ root [s_p] n [] es H get_p).
    destruct (alookup n es) as [[d|e2|t]|]; try reflexivity. contradiction.
  Qed.

  Lemma stat_child : forall n, cleanb n = true -> nolink (alookup n es) ->
    os_stat root CWD0 (path_join P0 n) = alookup n es.
  Proof.
    intros n H NL. unfold os_stat. rewrite (resolve_child n H NL).
    destruct (alookup n es) eqn:E; [|reflexivity].
    change (get root [s_p; n]) with (match alookup n es with Some n' => get n' [] | None => None end).
    rewrite E. reflexivity.
  Qed.

  Lemma lresolve_child : forall n, cleanb n = true ->
    os_lresolve root CWD0 (path_join P0 n) = Some ([s_p], n).
  Proof.
    intros n H. unfold os_lresolve.
    destruct (path_join P0 n) eqn:E; [exfalso; eapply pj_nonempty; eauto|]. rewrite <- E.
    rewrite (split_child n H).
    destruct (cleanb_inv n H) as [_ [E1 [E2 E3]]].
    simpl filter. unfold Migrate.nonempty. rewrite E1. simpl rev. cbv iota.
    rewrite E2, E3. simpl orb. cbv iota. simpl rev.
    rewrite FUEL_unfold. rewrite (W_look _ root [] s_p [] _ clean_p get_root_nil).
    change (alookup s_p [(s_p, Dir es)]) with (Some (Dir es)). cbv iota.
    rewrite W_nil. reflexivity.
  Qed.

  (* grandchildren: <root>/a/b for a directory a *)
  Lemma pj_child2 : forall a b, cleanb a = true -> cleanb b = true ->
    path_join (path_join P0 a) b = P0 ++ SL :: a ++ SL :: b.
  Proof.
    intros a b Ha Hb. rewrite (pj_child a Ha).
    destruct (first_char_clean b Hb) as [x [r [-> Hx]]].
    unfold path_join. simpl starts_sl. rewrite Hx.
    assert (E : ends_sl (P0 ++ SL :: a) = false).
    { assert (Z : P0 ++ SL :: a = abs_of [s_p; a]) by reflexivity. rewrite Z.
      apply ends_sl_abs_of; [discriminate|]. simpl. rewrite Ha. reflexivity. }
    rewrite E. rewrite <- app_assoc. reflexivity.
  Qed.

  Lemma split_child2 : forall a b, cleanb a = true -> cleanb b = true ->
    split_sl (os_full CWD0 (path_join (path_join P0 a) b)) = [[]; s_p; a; b].
  Proof.
    intros a b Ha Hb. rewrite (pj_child2 a b Ha Hb). unfold os_full. simpl starts_sl. cbv iota.
    rewrite split_sl_app, split_sl_app.
    destruct (cleanb_inv a Ha) as [Hsa _]. destruct (cleanb_inv b Hb) as [Hsb _].
    rewrite (split_sl_slashfree a Hsa), (split_sl_slashfree b Hsb). reflexivity.
  Qed.

  Lemma stat_child2 : forall a b cd, cleanb a = true -> cleanb b = true ->
    alookup a es = Some (Dir cd) -> nolink (alookup b cd) ->
    os_stat root CWD0 (path_join (path_join P0 a) b) = alookup b cd.
  Proof.
    intros a b cd Ha Hb La NL. unfold os_stat, os_resolve.
    destruct (path_join (path_join P0 a) b) eqn:E;
      [rewrite (pj_child2 a b Ha Hb) in E; discriminate|]. rewrite <- E.
    rewrite (split_child2 a b Ha Hb), FUEL_unfold, W_skip.
    rewrite (W_look _ root [] s_p [a; b] _ clean_p get_root_nil).
    change (alookup s_p [(s_p, Dir es)]) with (Some (Dir es)). cbv iota.
    rewrite (W_look _ root [s_p] a [b] es Ha get_p). rewrite La.
    assert (G : get root (rev [a; s_p]) = Some (Dir cd)).
    { simpl rev. simpl app. change (get root [s_p; a]) with (match alookup a es with Some n' => get n' [] | None => None end).
      rewrite La. reflexivity. }
    rewrite (W_look _ root [a; s_p] b [] cd Hb G).
    destruct (alookup b cd) as [[d|e2|t]|] eqn:Lb; try contradiction; try reflexivity.
    - simpl rev. simpl app.
      change (get root [s_p; a; b]) with (match alookup a es with Some n' => get n' [b] | None => None end).
      rewrite La. simpl. rewrite Lb. reflexivity.
    - rewrite W_nil. simpl rev. simpl app.
      change (get root [s_p; a; b]) with (match alookup a es with Some n' => get n' [b] | None => None end).
      rewrite La. simpl. rewrite Lb. reflexivity.
  Qed.

  Lemma lresolve_child2 : forall a b cd, cleanb a = true -> cleanb b = true ->
    alookup a es = Some (Dir cd) ->
    os_lresolve root CWD0 (path_join (path_join P0 a) b) = Some ([s_p; a], b).
  Proof.
    intros a b cd Ha Hb La. unfold os_lresolve.
    destruct (path_join (path_join P0 a) b) eqn:E;
      [rewrite (pj_child2 a b Ha Hb) in E; discriminate|]. rewrite <- E.
    rewrite (split_child2 a b Ha Hb).
    destruct (cleanb_inv a Ha) as [_ [A1 _]]. destruct (cleanb_inv b Hb) as [_ [B1 [B2 B3]]].
    simpl filter. unfold Migrate.nonempty. rewrite A1, B1. simpl rev. cbv iota.
    rewrite B2, B3. simpl orb. cbv iota. simpl rev.
    rewrite FUEL_unfold. rewrite (W_look _ root [] s_p [a] _ clean_p get_root_nil).
    change (alookup s_p [(s_p, Dir es)]) with (Some (Dir es)). cbv iota.
    rewrite (W_look _ root [s_p] a [] es Ha get_p). rewrite La. rewrite W_nil.
    simpl rev. simpl app.
    change (get root [s_p; a]) with (match alookup a es with Some n' => get n' [] | None => None end).
    rewrite La. reflexivity.
  Qed.
End World.

(* ------------------------------------------------------------------ file-system steps inside /p *)
Lemma upd_child : forall es n x,
  upd [s_p; n] x (world es) = world (match x with Some x' => aset n x' es | None => aremove n es end).
Proof. intros es n x. destruct x; reflexivity. Qed.

Lemma upd_child2 : forall es a b cd x, alookup a es = Some (Dir cd) ->
  upd [s_p; a; b] x (world es) =
  world (aset a (Dir (match x with Some x' => aset b x' cd | None => aremove b cd end)) es).
Proof.
  intros es a b cd x La. unfold world. simpl. rewrite La. destruct x; reflexivity.
Qed.

Lemma get_child : forall es n, get (world es) [s_p; n] = alookup n es.
Proof. intros. unfold world. simpl. destruct (alookup n es); reflexivity. Qed.

Lemma get_child2 : forall es a b cd, alookup a es = Some (Dir cd) -> get (world es) [s_p; a; b] = alookup b cd.
Proof. intros es a b cd La. unfold world. simpl. rewrite La. destruct (alookup b cd); reflexivity. Qed.

Lemma neq_eqb : forall a b : str, a <> b -> str_eqb a b = false.
Proof. intros a b H. apply str_eqb_neq. exact H. Qed.

Lemma replace_child : forall es a b x, cleanb a = true -> cleanb b = true ->
  alookup a es = Some x -> a <> b -> alookup b es = None ->
  fs_replace (world es) CWD0 (path_join P0 a) (path_join P0 b) = (Ok tt, world (aset b x (aremove a es))).
Proof.
  intros es a b x Ha Hb La Nab Lb. unfold fs_replace.
  rewrite (lresolve_child es a Ha), (lresolve_child es b Hb). simpl app.
  rewrite get_child, La, get_child, Lb.
  simpl list_eqb. rewrite (neq_eqb a b Nab). simpl andb. cbv iota.
  simpl is_prefix. rewrite (neq_eqb a b Nab). simpl andb. cbv iota.
  rewrite upd_child, upd_child. destruct x; reflexivity.
Qed.

Lemma replace_child_missing : forall es a b, cleanb a = true -> cleanb b = true ->
  alookup a es = None ->
  fs_replace (world es) CWD0 (path_join P0 a) (path_join P0 b) = (Err EOSError, world es).
Proof.
  intros es a b Ha Hb La. unfold fs_replace.
  rewrite (lresolve_child es a Ha), (lresolve_child es b Hb). simpl app.
  rewrite get_child, La. reflexivity.
Qed.

Lemma replace_into : forall es a d b cd fd, cleanb a = true -> cleanb d = true -> cleanb b = true ->
  alookup a es = Some (File fd) -> alookup d es = Some (Dir cd) -> a <> d ->
  (alookup b cd = None \/ exists f0, alookup b cd = Some (File f0)) ->
  fs_replace (world es) CWD0 (path_join P0 a) (path_join (path_join P0 d) b)
  = (Ok tt, world (aset d (Dir (aset b (File fd) cd)) (aremove a es))).
Proof.
  intros es a d b cd fd Ha Hd Hb La Ld Nad Lb. unfold fs_replace.
  rewrite (lresolve_child es a Ha), (lresolve_child2 es d b cd Hd Hb Ld). simpl app.
  rewrite get_child, La. rewrite (get_child2 es d b cd Ld).
  simpl list_eqb. rewrite (neq_eqb a d Nad). simpl andb. cbv iota.
  simpl is_prefix. rewrite (neq_eqb a d Nad). simpl andb. cbv iota.
  rewrite upd_child.
  assert (Ld' : alookup d (aremove a es) = Some (Dir cd)) by (rewrite alookup_aremove_other; auto).
  rewrite (upd_child2 (aremove a es) d b cd (Some (File fd)) Ld').
  destruct Lb as [Lb | [f0 Lb]]; rewrite Lb; reflexivity.
Qed.

Lemma mkdir_child : forall es d, cleanb d = true -> alookup d es = None ->
  fs_mkdir (world es) CWD0 (path_join P0 d) = (Ok tt, world (aset d (Dir []) es)).
Proof.
  intros es d Hd Ld. unfold fs_mkdir. rewrite (lresolve_child es d Hd). simpl app.
  rewrite get_child, Ld, upd_child. reflexivity.
Qed.

Lemma mkdir_child_exists : forall es d x, cleanb d = true -> alookup d es = Some x ->
  fs_mkdir (world es) CWD0 (path_join P0 d) = (Err EOSError, world es).
Proof.
  intros es d x Hd Ld. unfold fs_mkdir. rewrite (lresolve_child es d Hd). simpl app.
  rewrite get_child, Ld. reflexivity.
Qed.

Lemma write_child : forall es n data, cleanb n = true ->
  (alookup n es = None \/ exists d0, alookup n es = Some (File d0)) ->
  fs_write (world es) CWD0 (path_join P0 n) data = (Ok tt, world (aset n (File data) es)).
Proof.
  intros es n data Hn L. unfold fs_write.
  assert (NL : nolink (alookup n es)) by (destruct L as [L|[d0 L]]; rewrite L; exact I).
  rewrite (resolve_child es n Hn NL).
  destruct L as [L|[d0 L]]; rewrite L.
  - rewrite (lresolve_child es n Hn). simpl app. rewrite get_child, L, upd_child. reflexivity.
  - rewrite get_child, L, upd_child. reflexivity.
Qed.

Lemma write_child2 : forall es a b cd d0 data, cleanb a = true -> cleanb b = true ->
  alookup a es = Some (Dir cd) -> alookup b cd = Some (File d0) ->
  fs_write (world es) CWD0 (path_join (path_join P0 a) b) data
  = (Ok tt, world (aset a (Dir (aset b (File data) cd)) es)).
Proof.
  intros es a b cd d0 data Ha Hb La Lb. unfold fs_write.
  assert (R : os_resolve (world es) CWD0 (path_join (path_join P0 a) b) = Some [s_p; a; b]).
  { unfold os_resolve.
    destruct (path_join (path_join P0 a) b) eqn:E;
      [rewrite (pj_child2 a b Ha Hb) in E; discriminate|]. rewrite <- E.
    rewrite (split_child2 a b Ha Hb), FUEL_unfold, W_skip.
    rewrite (W_look _ (world es) [] s_p [a; b] _ clean_p (get_root_nil es)).
    change (alookup s_p [(s_p, Dir es)]) with (Some (Dir es)). cbv iota.
    rewrite (W_look _ (world es) [s_p] a [b] es Ha (get_p es)). rewrite La.
    assert (G : get (world es) (rev [a; s_p]) = Some (Dir cd)).
    { simpl rev. simpl app. rewrite get_child. exact La. }
    rewrite (W_look _ (world es) [a; s_p] b [] cd Hb G). rewrite Lb. reflexivity. }
  rewrite R. rewrite (get_child2 es a b cd La), Lb.
  rewrite (upd_child2 es a b cd (Some (File data)) La). reflexivity.
Qed.

(* ------------------------------------------------------------------ loaders inside /p *)
Lemma clean_rc : cleanb s_rc = true. Proof. reflexivity. Qed.
Lemma clean_dotsignac : cleanb s_dotsignac = true. Proof. reflexivity. Qed.
Lemma clean_config : cleanb s_config = true. Proof. reflexivity. Qed.
Lemma clean_workspace : cleanb s_workspace = true. Proof. reflexivity. Qed.
Lemma clean_doc : cleanb s_doc = true. Proof. reflexivity. Qed.

Lemma isfile_child : forall es n, cleanb n = true -> nolink (alookup n es) ->
  os_isfile (world es) CWD0 (path_join P0 n) = match alookup n es with Some (File _) => true | _ => false end.
Proof. intros es n H NL. unfold os_isfile. rewrite (stat_child es n H NL). reflexivity. Qed.

Lemma exists_child : forall es n, cleanb n = true -> nolink (alookup n es) ->
  os_exists (world es) CWD0 (path_join P0 n) = match alookup n es with Some _ => true | None => false end.
Proof. intros es n H NL. unfold os_exists. rewrite (stat_child es n H NL). reflexivity. Qed.

Lemma load_v1_world : forall es c name, alookup s_rc es = Some (File (FCfg c)) -> cproj c = Some name ->
  load_v1 (world es) CWD0 P0 = Some c.
Proof.
  intros es c name L Pn. unfold load_v1, read_cfg.
  assert (NL : nolink (alookup s_rc es)) by (rewrite L; exact I).
  rewrite (isfile_child es s_rc clean_rc NL), (stat_child es s_rc clean_rc NL), L, Pn. reflexivity.
Qed.

Lemma load_v1_world_none : forall es, alookup s_rc es = None -> load_v1 (world es) CWD0 P0 = None.
Proof.
  intros es L. unfold load_v1.
  assert (NL : nolink (alookup s_rc es)) by (rewrite L; exact I).
  rewrite (isfile_child es s_rc clean_rc NL), L. reflexivity.
Qed.

Lemma stat_child2_none : forall es a b, cleanb a = true -> cleanb b = true -> alookup a es = None ->
  os_stat (world es) CWD0 (path_join (path_join P0 a) b) = None.
Proof.
  intros es a b Ha Hb La. unfold os_stat, os_resolve.
  destruct (path_join (path_join P0 a) b) eqn:E;
    [rewrite (pj_child2 a b Ha Hb) in E; discriminate|]. rewrite <- E.
  rewrite (split_child2 a b Ha Hb), FUEL_unfold, W_skip.
  rewrite (W_look _ (world es) [] s_p [a; b] _ clean_p (get_root_nil es)).
  change (alookup s_p [(s_p, Dir es)]) with (Some (Dir es)). cbv iota.
  rewrite (W_look _ (world es) [s_p] a [b] es Ha (get_p es)). rewrite La. reflexivity.
Qed.

Lemma load_v2_world_none : forall es, alookup s_dotsignac es = None -> load_v2 (world es) CWD0 P0 = None.
Proof.
  intros es L. unfold load_v2, os_isfile.
  rewrite (stat_child2_none es s_dotsignac s_config clean_dotsignac clean_config L). reflexivity.
Qed.

Lemma load_v2_world : forall es cd c, alookup s_dotsignac es = Some (Dir cd) ->
  alookup s_config cd = Some (File (FCfg c)) -> load_v2 (world es) CWD0 P0 = Some c.
Proof.
  intros es cd c L Lc. unfold load_v2, os_isfile, read_cfg.
  assert (NL : nolink (alookup s_config cd)) by (rewrite Lc; exact I).
  rewrite (stat_child2 es s_dotsignac s_config cd clean_dotsignac clean_config L NL), Lc. reflexivity.
Qed.

(* ------------------------------------------------------------------ association-list bookkeeping *)
Lemma alookup_aset_if : forall A q k (v : A) l,
  alookup q (aset k v l) = if str_eqb q k then Some v else alookup q l.
Proof.
  intros A q k v l. destruct (str_eqb q k) eqn:E.
  - apply str_eqb_eq in E. subst q. apply alookup_aset_same.
  - apply str_eqb_neq in E. apply alookup_aset_other. auto.
Qed.

Lemma alookup_aremove_if : forall A q k (l : list (str * A)),
  alookup q (aremove k l) = if str_eqb q k then None else alookup q l.
Proof.
  intros A q k l. destruct (str_eqb q k) eqn:E.
  - apply str_eqb_eq in E. subst q. apply alookup_aremove_same.
  - apply str_eqb_neq in E. apply alookup_aremove_other. auto.
Qed.

Ltac eqb_compute :=
  repeat match goal with
  | |- context [str_eqb ?a ?b] =>
      let v := eval vm_compute in (str_eqb a b) in
      match v with
      | true => change (str_eqb a b) with true
      | false => change (str_eqb a b) with false
      end
  end.

Ltac lk := repeat (rewrite alookup_aset_if || rewrite alookup_aremove_if); eqb_compute; cbv iota.

(* ------------------------------------------------------------------ the migration on directory entries
   [mig_entries] is the v1 -> v2 step written as a pure function on the entries of the project
   directory, mirroring _migrate_v1_to_v2 statement by statement; [mig_refines] shows that the
   path-level model of Migrate.v computes exactly this on /p. *)
Definition fileish (x : option node) : Prop :=
  match x with None => True | Some (File _) => True | _ => False end.

Definition dot_of (es : list (str * node)) : list (str * node) :=
  match alookup s_dotsignac es with Some (Dir cd) => cd | _ => [] end.

Definition move_entry (old new : str) (es : list (str * node)) : list (str * node) :=
  match alookup old es with
  | Some (File d) => aset s_dotsignac (Dir (aset new (File d) (dot_of es))) (aremove old es)
  | _ => es
  end.

Definition ws_entries (c : cfgrec) (es : list (str * node)) : list (str * node) :=
  match cws c with
  | Some w =>
      if str_eqb w s_workspace then es
      else match alookup w es with
           | Some x => aset s_workspace x (aremove w es)
           | None => es
           end
  | None => es
  end.

Definition doc_entries (name : str) (es : list (str * node)) : list (str * node) :=
  if str_eqb name s_None then es
  else aset s_doc (File (FJson (JObj
         match alookup s_doc es with
         | Some (File (FJson (JObj kvs))) => aset s_name_key (JStr name) kvs
         | _ => [(s_name_key, JStr name)]
         end))) es.

Definition stripped (c : cfgrec) : cfgrec := {| cv := cv c; cproj := None; cws := None |}.

Definition mig_entries (c : cfgrec) (name : str) (es : list (str * node)) : list (str * node) :=
  let esB := doc_entries name (ws_entries c es) in
  let esC := aset s_rc (File (FCfg (stripped c))) esB in
  let esD := aset s_dotsignac (Dir []) esC in
  let esE := aset s_dotsignac (Dir (aset s_config (File (FCfg (stripped c))) [])) (aremove s_rc esD) in
  move_entry s_cache_old s_cache_new (move_entry s_hist_old s_hist_new esE).

Definition bump2_entries (es : list (str * node)) : list (str * node) :=
  aset s_dotsignac (Dir (aset s_config (File (FCfg {| cv := Some 2%Z; cproj := None; cws := None |})) (dot_of es))) es.

(* the hypotheses of the preservation theorem on the directory content *)
Record mig_pre (es : list (str * node)) (c : cfgrec) (name : str) : Prop := {
  mp_rc : alookup s_rc es = Some (File (FCfg c));
  mp_name : cproj c = Some name;
  mp_nodot : alookup s_dotsignac es = None;
  mp_doc : alookup s_doc es = None \/ exists kvs, alookup s_doc es = Some (File (FJson (JObj kvs)));
  mp_hist : fileish (alookup s_hist_old es);
  mp_cache : fileish (alookup s_cache_old es);
  (* the workspace: default name, or a custom single-component name with no 'workspace' entry in
     the way; its directory exists, or was never created (then the name must not be one of the
     entries the migration itself creates) *)
  mp_ws : cws c = None \/ cws c = Some s_workspace \/
          exists w, cws c = Some w /\ cleanb w = true /\ w <> s_workspace /\
                    alookup s_workspace es = None /\
                    ((exists ws, alookup w es = Some (Dir ws)) \/
                     (alookup w es = None /\ ~ In w [s_dotsignac; s_doc; s_hist_old; s_cache_old]))
}.

Lemma clean_hist_old : cleanb s_hist_old = true. Proof. reflexivity. Qed.
Lemma clean_hist_new : cleanb s_hist_new = true. Proof. reflexivity. Qed.
Lemma clean_cache_old : cleanb s_cache_old = true. Proof. reflexivity. Qed.
Lemma clean_cache_new : cleanb s_cache_new = true. Proof. reflexivity. Qed.

Lemma v2fn_eq : cfgfn CWD0 P0 = path_join (path_join P0 s_dotsignac) s_config.
Proof. reflexivity. Qed.
Lemma v2dir_eq : dirname (cfgfn CWD0 P0) = path_join P0 s_dotsignac.
Proof. reflexivity. Qed.
Lemma hist_dst_eq : path_join P0 (path_join s_dotsignac s_hist_new) = path_join (path_join P0 s_dotsignac) s_hist_new.
Proof. reflexivity. Qed.
Lemma cache_dst_eq : path_join P0 (path_join s_dotsignac s_cache_new) = path_join (path_join P0 s_dotsignac) s_cache_new.
Proof. reflexivity. Qed.

(* os.path.normpath leaves a single clean component as it is (the comparison of move_workspace) *)
Lemma normpath_clean : forall w, cleanb w = true -> normpath w = w.
Proof.
  intros w H. destruct (cleanb_inv w H) as [Hs [E1 [E2 E3]]].
  destruct (first_char_clean w H) as [x [r [Ew Hx]]].
  unfold normpath. rewrite Ew. rewrite <- Ew.
  assert (I0 : initial_slashes w = 0%nat) by (rewrite Ew; simpl; rewrite Hx; reflexivity).
  rewrite I0. simpl Nat.eqb. simpl negb. simpl repeat. simpl app.
  rewrite (split_sl_slashfree w Hs). unfold norm_comps. simpl fold_left.
  unfold norm_step. rewrite E1, E2, E3. simpl. rewrite Ew. reflexivity.
Qed.

(* a name the pre-state maps to something of a different kind than w's directory is not w *)
Lemma neq_by_lookup : forall (es : list (str * node)) w k ws,
  alookup w es = Some (Dir ws) -> (alookup k es = None \/ exists d, alookup k es = Some (File d)) -> w <> k.
Proof.
  intros es w k ws Lw Lk E. subst k. rewrite Lw in Lk. destruct Lk as [Lk|[d Lk]]; discriminate.
Qed.

Lemma neq_rc_of : forall (es : list (str * node)) w x,
  alookup s_rc es = Some x ->
  ((exists ws, alookup w es = Some (Dir ws)) \/ alookup w es = None) ->
  (forall ws, x <> Dir ws) -> w <> s_rc.
Proof.
  intros es w x Lrc [[ws Lw]|Lw] Nx E; subst w; rewrite Lrc in Lw; [inversion Lw; eapply Nx; eauto | discriminate].
Qed.

Lemma fileish_cases : forall x, fileish x -> x = None \/ exists d, x = Some (File d).
Proof. intros [[d|e|t]|] H; simpl in H; try contradiction; eauto. Qed.

Section Refine.
  Variable es : list (str * node).
  Variable c : cfgrec.
  Variable name : str.
  Hypothesis PRE : mig_pre es c name.

  Let esA := ws_entries c es.

  (* the special names keep their entries through the workspace move *)
  Lemma wsA_frame : forall k, k <> s_workspace ->
    (alookup k es = None \/ exists d, alookup k es = Some (File d)) ->
    alookup k esA = alookup k es.
  Proof.
    intros k Nk Lk. unfold esA, ws_entries.
    destruct (mp_ws es c name PRE) as [W|[W|[w [W [Hw [Nw [Lws [[ws Lw]|[Lw Nsp]]]]]]]]]; rewrite W; try reflexivity.
    - rewrite (neq_eqb w s_workspace Nw), Lw.
      pose proof (neq_by_lookup es w k ws Lw Lk) as Nwk.
      rewrite alookup_aset_if, (neq_eqb k s_workspace Nk), alookup_aremove_if.
      rewrite (neq_eqb k w (not_eq_sym Nwk)). reflexivity.
    - rewrite (neq_eqb w s_workspace Nw), Lw. reflexivity.
  Qed.

  Lemma step_ws : move_workspace CWD0 P0 c (world es) = (Ok tt, world esA).
  Proof.
    unfold move_workspace, esA, ws_entries.
    destruct (mp_ws es c name PRE) as [W|[W|[w [W [Hw [Nw [Lws [[ws Lw]|[Lw Nsp]]]]]]]]]; rewrite W.
    - reflexivity.
    - reflexivity.
    - rewrite (normpath_clean w Hw), (neq_eqb w s_workspace Nw), Lw.
      assert (NL : nolink (alookup s_workspace es)) by (rewrite Lws; exact I).
      rewrite (exists_child es s_workspace clean_workspace NL), Lws.
      assert (NLw : nolink (alookup w es)) by (rewrite Lw; exact I).
      rewrite (exists_child es w Hw NLw), Lw.
      apply replace_child; auto; exact clean_workspace.
    - (* the configured directory was never created: nothing to move (repaired F17) *)
      rewrite (normpath_clean w Hw), (neq_eqb w s_workspace Nw), Lw.
      assert (NL : nolink (alookup s_workspace es)) by (rewrite Lws; exact I).
      rewrite (exists_child es s_workspace clean_workspace NL), Lws.
      assert (NLw : nolink (alookup w es)) by (rewrite Lw; exact I).
      rewrite (exists_child es w Hw NLw), Lw. reflexivity.
  Qed.

  Lemma rcA : alookup s_rc esA = Some (File (FCfg c)).
  Proof.
    rewrite wsA_frame; [exact (mp_rc es c name PRE) | discriminate | right; eexists; exact (mp_rc es c name PRE)].
  Qed.
  Lemma dotA : alookup s_dotsignac esA = None.
  Proof. rewrite wsA_frame; [exact (mp_nodot es c name PRE) | discriminate | left; exact (mp_nodot es c name PRE)]. Qed.
  Lemma docA : alookup s_doc esA = alookup s_doc es.
  Proof.
    apply wsA_frame; [discriminate|]. destruct (mp_doc es c name PRE) as [D|[kvs D]]; [left|right; eexists]; exact D.
  Qed.
  Lemma histA : alookup s_hist_old esA = alookup s_hist_old es.
  Proof. apply wsA_frame; [discriminate|]. apply fileish_cases. exact (mp_hist es c name PRE). Qed.
  Lemma cacheA : alookup s_cache_old esA = alookup s_cache_old es.
  Proof. apply wsA_frame; [discriminate|]. apply fileish_cases. exact (mp_cache es c name PRE). Qed.

  Let esB := doc_entries name esA.

  Lemma step_doc :
    (if str_eqb name s_None then (Ok tt, world esA)
     else doc_set (world esA) CWD0 (path_join P0 s_doc) s_name_key (JStr name)) = (Ok tt, world esB).
  Proof.
    unfold esB, doc_entries. destruct (str_eqb name s_None); [reflexivity|].
    unfold doc_set.
    assert (NL : nolink (alookup s_doc esA)).
    { rewrite docA. destruct (mp_doc es c name PRE) as [D|[kvs D]]; rewrite D; exact I. }
    rewrite (stat_child esA s_doc clean_doc NL).
    destruct (mp_doc es c name PRE) as [D|[kvs D]]; rewrite docA, D.
    - apply write_child; [exact clean_doc | left; rewrite docA; exact D].
    - apply write_child; [exact clean_doc | right; eexists; rewrite docA; exact D].
  Qed.

  Lemma frameB : forall k, k <> s_doc -> alookup k esB = alookup k esA.
  Proof.
    intros k Nk. unfold esB, doc_entries. destruct (str_eqb name s_None); [reflexivity|].
    rewrite alookup_aset_if, (neq_eqb k s_doc Nk). reflexivity.
  Qed.

  Let esC := aset s_rc (File (FCfg (stripped c))) esB.
  Let esD := aset s_dotsignac (Dir []) esC.
  Let esE := aset s_dotsignac (Dir (aset s_config (File (FCfg (stripped c))) [])) (aremove s_rc esD).
  Let esF := move_entry s_hist_old s_hist_new esE.
  Let esG := move_entry s_cache_old s_cache_new esF.

  Lemma step_rc : fs_write (world esB) CWD0 (path_join P0 s_rc) (FCfg (stripped c)) = (Ok tt, world esC).
  Proof.
    apply write_child; [exact clean_rc|]. right. exists (FCfg c).
    rewrite frameB by discriminate. exact rcA.
  Qed.

  Lemma step_mkdir : fs_mkdir (world esC) CWD0 (dirname (cfgfn CWD0 P0)) = (Ok tt, world esD).
  Proof.
    rewrite v2dir_eq. apply mkdir_child; [exact clean_dotsignac|].
    unfold esC. lk. rewrite frameB by discriminate. exact dotA.
  Qed.

  Lemma step_cfg : fs_replace (world esD) CWD0 (path_join P0 s_rc) (cfgfn CWD0 P0) = (Ok tt, world esE).
  Proof.
    rewrite v2fn_eq. unfold esE.
    apply replace_into; try reflexivity.
    - unfold esD, esC. lk. reflexivity.
    - unfold esD. lk. reflexivity.
    - discriminate.
    - left. reflexivity.
  Qed.

  Lemma histE : alookup s_hist_old esE = alookup s_hist_old es.
  Proof. unfold esE, esD, esC. lk. rewrite frameB by discriminate. exact histA. Qed.
  Lemma cacheE : alookup s_cache_old esE = alookup s_cache_old es.
  Proof. unfold esE, esD, esC. lk. rewrite frameB by discriminate. exact cacheA. Qed.
  Lemma dotE : alookup s_dotsignac esE = Some (Dir (dot_of esE)).
  Proof. unfold dot_of, esE. lk. reflexivity. Qed.

  (* moving one optional file into .signac *)
  Lemma move_if_file_world : forall es0 old new,
    cleanb old = true -> cleanb new = true -> old <> s_dotsignac ->
    fileish (alookup old es0) -> alookup s_dotsignac es0 = Some (Dir (dot_of es0)) ->
    alookup new (dot_of es0) = None ->
    path_join P0 (path_join s_dotsignac new) = path_join (path_join P0 s_dotsignac) new ->
    move_if_file CWD0 P0 old new (world es0) = (Ok tt, world (move_entry old new es0)).
  Proof.
    intros es0 old new Ho Hn Nod F Ld Ln Ep. unfold move_if_file, move_entry.
    assert (NL : nolink (alookup old es0)) by (destruct (alookup old es0) as [[d|e|t]|]; simpl in *; auto).
    rewrite (isfile_child es0 old Ho NL).
    destruct (alookup old es0) as [[d|e|t]|] eqn:Lo; try reflexivity; try (simpl in F; contradiction).
    rewrite Ep. apply replace_into; auto; exact clean_dotsignac.
  Qed.

  Lemma step_hist : move_if_file CWD0 P0 s_hist_old s_hist_new (world esE) = (Ok tt, world esF).
  Proof.
    apply move_if_file_world; try reflexivity.
    - discriminate.
    - rewrite histE. exact (mp_hist es c name PRE).
    - exact dotE.
    - unfold dot_of, esE. lk. reflexivity.
  Qed.

  Lemma dotF : alookup s_dotsignac esF = Some (Dir (dot_of esF)).
  Proof.
    unfold dot_of, esF, move_entry. destruct (alookup s_hist_old esE) as [[d|e|t]|]; try (rewrite dotE; reflexivity).
    lk. reflexivity.
  Qed.

  Lemma cacheF : alookup s_cache_old esF = alookup s_cache_old es.
  Proof.
    unfold esF, move_entry. destruct (alookup s_hist_old esE) as [[d|e|t]|]; try exact cacheE.
    lk. exact cacheE.
  Qed.

  Lemma dot_of_F_cache : alookup s_cache_new (dot_of esF) = None.
  Proof.
    unfold dot_of, esF, move_entry. destruct (alookup s_hist_old esE) as [[d|e|t]|]; try (rewrite dotE; unfold dot_of, esE; lk; reflexivity).
    lk. unfold dot_of, esE. lk. reflexivity.
  Qed.

  Lemma step_cache : move_if_file CWD0 P0 s_cache_old s_cache_new (world esF) = (Ok tt, world esG).
  Proof.
    apply move_if_file_world; try reflexivity.
    - discriminate.
    - rewrite cacheF. exact (mp_cache es c name PRE).
    - exact dotF.
    - exact dot_of_F_cache.
  Qed.

  (* the v1 -> v2 step on /p is mig_entries *)
  Lemma mig_refines : migrate_v1_to_v2 (world es) CWD0 P0 = (Ok tt, world (mig_entries c name es)).
  Proof.
    unfold migrate_v1_to_v2.
    rewrite (load_v1_world es c name (mp_rc es c name PRE) (mp_name es c name PRE)).
    rewrite step_ws. unfold seq at 1. rewrite (mp_name es c name PRE).
    rewrite step_doc. unfold seq at 1.
    change {| cv := cv c; cproj := None; cws := None |} with (stripped c).
    rewrite step_rc. unfold seq at 1.
    rewrite step_mkdir. unfold seq at 1.
    rewrite step_cfg. unfold seq at 1.
    rewrite step_hist. unfold seq at 1.
    rewrite step_cache. reflexivity.
  Qed.
End Refine.

(* ------------------------------------------------------------------ move_entry keeps .signac tidy *)
Lemma move_entry_dot : forall old new es0, old <> s_dotsignac ->
  alookup s_dotsignac es0 = Some (Dir (dot_of es0)) ->
  alookup s_dotsignac (move_entry old new es0) = Some (Dir (dot_of (move_entry old new es0))).
Proof.
  intros old new es0 N L. unfold move_entry.
  destruct (alookup old es0) as [[d|e|t]|]; try exact L.
  unfold dot_of at 2. lk. reflexivity.
Qed.

Lemma move_entry_in_dot : forall old new k es0, k <> new ->
  alookup s_dotsignac es0 = Some (Dir (dot_of es0)) ->
  alookup k (dot_of (move_entry old new es0)) = alookup k (dot_of es0).
Proof.
  intros old new k es0 N L. unfold move_entry.
  destruct (alookup old es0) as [[d|e|t]|]; try reflexivity.
  unfold dot_of at 1. rewrite (alookup_aset_if _ s_dotsignac). eqb_compute. cbv iota.
  rewrite alookup_aset_if, (neq_eqb k new N). reflexivity.
Qed.

Lemma move_entry_other : forall old new k es0, k <> old -> k <> s_dotsignac ->
  alookup k (move_entry old new es0) = alookup k es0.
Proof.
  intros old new k es0 N1 N2. unfold move_entry.
  destruct (alookup old es0) as [[d|e|t]|]; try reflexivity.
  rewrite alookup_aset_if, (neq_eqb k s_dotsignac N2), alookup_aremove_if, (neq_eqb k old N1). reflexivity.
Qed.

Lemma move_entry_old_gone : forall old new es0, old <> s_dotsignac -> fileish (alookup old es0) ->
  alookup old (move_entry old new es0) = None.
Proof.
  intros old new es0 N F. unfold move_entry.
  destruct (alookup old es0) as [[d|e|t]|] eqn:L; simpl in F; try contradiction.
  - rewrite alookup_aset_if, (neq_eqb old s_dotsignac N), alookup_aremove_if, str_eqb_refl. reflexivity.
  - exact L.
Qed.

Lemma move_entry_new : forall old new es0,
  alookup s_dotsignac es0 = Some (Dir (dot_of es0)) -> alookup new (dot_of es0) = None ->
  alookup new (dot_of (move_entry old new es0)) =
  match alookup old es0 with Some (File d) => Some (File d) | _ => None end.
Proof.
  intros old new es0 L Ln. unfold move_entry.
  destruct (alookup old es0) as [[d|e|t]|]; try exact Ln.
  unfold dot_of at 1. rewrite (alookup_aset_if _ s_dotsignac). eqb_compute. cbv iota.
  rewrite alookup_aset_if, str_eqb_refl. reflexivity.
Qed.

(* ------------------------------------------------------------------ the .signac directory after the step *)
Section After.
  Variable es : list (str * node).
  Variable c : cfgrec.
  Variable name : str.
  Hypothesis PRE : mig_pre es c name.

  Let esG := mig_entries c name es.
  Let esE := aset s_dotsignac (Dir (aset s_config (File (FCfg (stripped c))) []))
               (aremove s_rc (aset s_dotsignac (Dir []) (aset s_rc (File (FCfg (stripped c))) (doc_entries name (ws_entries c es))))).

  Lemma dotE' : alookup s_dotsignac esE = Some (Dir (dot_of esE)).
  Proof. unfold dot_of, esE. lk. reflexivity. Qed.

  Lemma dotG : alookup s_dotsignac esG = Some (Dir (dot_of esG)).
  Proof.
    unfold esG, mig_entries. fold esE.
    apply move_entry_dot; [discriminate|]. apply move_entry_dot; [discriminate|]. exact dotE'.
  Qed.

  Lemma cfgG : alookup s_config (dot_of esG) = Some (File (FCfg (stripped c))).
  Proof.
    unfold esG, mig_entries. fold esE.
    rewrite move_entry_in_dot; [|discriminate|apply move_entry_dot; [discriminate|exact dotE']].
    rewrite move_entry_in_dot; [|discriminate|exact dotE'].
    unfold dot_of, esE. lk. reflexivity.
  Qed.

  Lemma rcG : alookup s_rc esG = None.
  Proof.
    unfold esG, mig_entries. fold esE.
    rewrite move_entry_other by discriminate. rewrite move_entry_other by discriminate.
    unfold esE. lk. reflexivity.
  Qed.

  Lemma step_bump2 : bump 2 CWD0 P0 (world esG) = (Ok tt, world (bump2_entries esG)).
  Proof.
    unfold bump. change (loader 2) with load_v2.
    rewrite (load_v2_world esG (dot_of esG) (stripped c) dotG cfgG).
    change (loader_fn 2 P0) with (path_join (path_join P0 s_dotsignac) s_config).
    rewrite (write_child2 esG s_dotsignac s_config (dot_of esG) (FCfg (stripped c)) _ clean_dotsignac clean_config dotG cfgG).
    reflexivity.
  Qed.

  Lemma version_after : get_version (world (bump2_entries esG)) CWD0 P0 2 = Some 2%Z.
  Proof.
    unfold get_version. change (loader_order 2) with [2%Z; 2%Z; 1%Z]. unfold first_load.
    change (loader 2) with load_v2.
    assert (L : load_v2 (world (bump2_entries esG)) CWD0 P0 = Some {| cv := Some 2%Z; cproj := None; cws := None |}).
    { apply load_v2_world with (cd := aset s_config (File (FCfg {| cv := Some 2%Z; cproj := None; cws := None |})) (dot_of esG)).
      - unfold bump2_entries. lk. reflexivity.
      - lk. reflexivity. }
    rewrite L. reflexivity.
  Qed.

  (* one full pass of the loop from version 1 *)
  Lemma loop_from_1 : forall fuel, cv c = Some 1%Z ->
    mig_loop (S (S fuel)) (world es) CWD0 P0 1 = (Ok tt, world (bump2_entries esG)).
  Proof.
    intros fuel V.
    assert (G1 : get_version (world es) CWD0 P0 1 = Some 1%Z).
    { unfold get_version. change (loader_order 1) with [1%Z; 2%Z; 1%Z]. unfold first_load.
      change (loader 1) with load_v1.
      rewrite (load_v1_world es c name (mp_rc es c name PRE) (mp_name es c name PRE)), V. reflexivity. }
    change (mig_loop (S (S fuel)) (world es) CWD0 P0 1) with
      (match get_version (world es) CWD0 P0 1 with
       | None => (Err ERuntimeError, world es)
       | Some v =>
           if Z.ltb v SCHEMA then
             if Z.eqb v 0 then seq (bump 1 CWD0 P0 (world es)) (fun r1 => mig_loop (S fuel) r1 CWD0 P0 1)
             else if Z.eqb v 1 then
               seq (wrap (migrate_v1_to_v2 (world es) CWD0 P0)) (fun r1 =>
               seq (bump 2 CWD0 P0 r1) (fun r2 => mig_loop (S fuel) r2 CWD0 P0 2))
             else (Err ERuntimeError, world es)
           else (Ok tt, world es)
       end).
    rewrite G1. simpl Z.ltb. cbv iota. simpl Z.eqb. cbv iota.
    rewrite (mig_refines es c name PRE). unfold wrap, seq at 1. fold esG.
    rewrite step_bump2. unfold seq.
    change (mig_loop (S fuel) (world (bump2_entries esG)) CWD0 P0 2) with
      (match get_version (world (bump2_entries esG)) CWD0 P0 2 with
       | None => (Err ERuntimeError, world (bump2_entries esG))
       | Some v =>
           if Z.ltb v SCHEMA then
             if Z.eqb v 0 then seq (bump 1 CWD0 P0 (world (bump2_entries esG))) (fun r1 => mig_loop fuel r1 CWD0 P0 1)
             else if Z.eqb v 1 then
               seq (wrap (migrate_v1_to_v2 (world (bump2_entries esG)) CWD0 P0)) (fun r1 =>
               seq (bump 2 CWD0 P0 r1) (fun r2 => mig_loop fuel r2 CWD0 P0 2))
             else (Err ERuntimeError, world (bump2_entries esG))
           else (Ok tt, world (bump2_entries esG))
       end).
    rewrite version_after. reflexivity.
  Qed.
End After.

(* ------------------------------------------------------------------ apply_migrations on a legacy project *)
Definition with_v1 (c : cfgrec) : cfgrec := {| cv := Some 1%Z; cproj := cproj c; cws := cws c |}.

Definition final_entries (c : cfgrec) (name : str) (es : list (str * node)) : list (str * node) :=
  match cv c with
  | Some 1%Z => bump2_entries (mig_entries c name es)
  | _ => bump2_entries (mig_entries (with_v1 c) name (aset s_rc (File (FCfg (with_v1 c))) es))
  end.

Lemma mig_pre_bumped : forall es c name, mig_pre es c name ->
  mig_pre (aset s_rc (File (FCfg (with_v1 c))) es) (with_v1 c) name.
Proof.
  intros es c name PRE. destruct PRE as [Hrc Hn Hd Hdoc Hh Hc Hws]. constructor.
  - lk. reflexivity.
  - exact Hn.
  - lk. exact Hd.
  - lk. exact Hdoc.
  - lk. exact Hh.
  - lk. exact Hc.
  - simpl cws. destruct Hws as [W|[W|[w [W [Hw [Nw [Lws Lw]]]]]]]; auto.
    right. right. exists w. repeat split; auto.
    + lk. exact Lws.
    + assert (N : w <> s_rc).
      { apply (neq_rc_of es w _ Hrc); [destruct Lw as [L|[L _]]; auto | discriminate]. }
      rewrite alookup_aset_if, (neq_eqb w s_rc N). exact Lw.
Qed.

Lemma version_at_start : forall es c name, mig_pre es c name -> forall g, g <> 1%Z ->
  get_version (world es) CWD0 P0 g = Some (match cv c with Some v => v | None => 0%Z end).
Proof.
  intros es c name PRE g Ng. unfold get_version.
  assert (L2 : load_v2 (world es) CWD0 P0 = None) by (apply load_v2_world_none; exact (mp_nodot es c name PRE)).
  assert (L1 : load_v1 (world es) CWD0 P0 = Some c) by (eapply load_v1_world; [exact (mp_rc es c name PRE)|exact (mp_name es c name PRE)]).
  unfold loader_order. apply Z.eqb_neq in Ng. rewrite Ng. simpl orb.
  destruct (Z.eqb g 2); simpl; unfold loader; rewrite ?Ng; simpl; rewrite ?L2, L1; reflexivity.
Qed.

Lemma step_bump1 : forall es c name, mig_pre es c name ->
  bump 1 CWD0 P0 (world es) = (Ok tt, world (aset s_rc (File (FCfg (with_v1 c))) es)).
Proof.
  intros es c name PRE. unfold bump. change (loader 1) with load_v1.
  rewrite (load_v1_world es c name (mp_rc es c name PRE) (mp_name es c name PRE)).
  change (loader_fn 1 P0) with (path_join P0 s_rc).
  apply write_child; [exact clean_rc|]. right. eexists. exact (mp_rc es c name PRE).
Qed.

(* migrate_preserves_jobs, first half: a legacy project satisfying mig_pre migrates, and the
   resulting directory content is final_entries *)
Lemma migrate_ok : forall es c name, mig_pre es c name ->
  (cv c = None \/ cv c = Some 0%Z \/ cv c = Some 1%Z) ->
  migrate0 es = (Ok tt, world (final_entries c name es)).
Proof.
  intros es c name PRE V. unfold migrate0, apply_migrations.
  rewrite (version_at_start es c name PRE SCHEMA) by discriminate.
  destruct V as [V|[V|V]].
  - (* absent = 0 *)
    rewrite V. simpl Z.ltb. cbv iota.
    change (mig_loop 4 (world es) CWD0 P0 0) with
      (match get_version (world es) CWD0 P0 0 with
       | None => (Err ERuntimeError, world es)
       | Some v =>
           if Z.ltb v SCHEMA then
             if Z.eqb v 0 then seq (bump 1 CWD0 P0 (world es)) (fun r1 => mig_loop 3 r1 CWD0 P0 1)
             else if Z.eqb v 1 then
               seq (wrap (migrate_v1_to_v2 (world es) CWD0 P0)) (fun r1 =>
               seq (bump 2 CWD0 P0 r1) (fun r2 => mig_loop 3 r2 CWD0 P0 2))
             else (Err ERuntimeError, world es)
           else (Ok tt, world es)
       end).
    rewrite (version_at_start es c name PRE 0) by discriminate. rewrite V.
    simpl Z.ltb. cbv iota. simpl Z.eqb. cbv iota.
    rewrite (step_bump1 es c name PRE). unfold seq.
    rewrite (loop_from_1 _ (with_v1 c) name (mig_pre_bumped es c name PRE) 1 eq_refl).
    unfold final_entries. rewrite V. reflexivity.
  - rewrite V. simpl Z.ltb. cbv iota.
    change (mig_loop 4 (world es) CWD0 P0 0) with
      (match get_version (world es) CWD0 P0 0 with
       | None => (Err ERuntimeError, world es)
       | Some v =>
           if Z.ltb v SCHEMA then
             if Z.eqb v 0 then seq (bump 1 CWD0 P0 (world es)) (fun r1 => mig_loop 3 r1 CWD0 P0 1)
             else if Z.eqb v 1 then
               seq (wrap (migrate_v1_to_v2 (world es) CWD0 P0)) (fun r1 =>
               seq (bump 2 CWD0 P0 r1) (fun r2 => mig_loop 3 r2 CWD0 P0 2))
             else (Err ERuntimeError, world es)
           else (Ok tt, world es)
       end).
    rewrite (version_at_start es c name PRE 0) by discriminate. rewrite V.
    simpl Z.ltb. cbv iota. simpl Z.eqb. cbv iota.
    rewrite (step_bump1 es c name PRE). unfold seq.
    rewrite (loop_from_1 _ (with_v1 c) name (mig_pre_bumped es c name PRE) 1 eq_refl).
    unfold final_entries. rewrite V. reflexivity.
  - rewrite V. simpl Z.ltb. cbv iota.
    rewrite (loop_from_1 es c name PRE 2 V).
    unfold final_entries. rewrite V. reflexivity.
Qed.

(* ------------------------------------------------------------------ what the migrated directory holds *)
Definition kvs_of_doc (es : list (str * node)) : list (str * json) :=
  match alookup s_doc es with Some (File (FJson (JObj kvs))) => kvs | _ => [] end.

Record mig_post (es : list (str * node)) (c : cfgrec) (name : str) (fin : list (str * node)) : Prop := {
  (* every job: the whole workspace node is now <root>/workspace, untouched *)
  po_ws_default : (cws c = None \/ cws c = Some s_workspace) -> alookup s_workspace fin = alookup s_workspace es;
  po_ws_custom : forall w, cws c = Some w -> w <> s_workspace ->
                   alookup s_workspace fin = alookup w es /\ alookup w fin = None;
  (* the v1 artefacts are gone *)
  po_rc : alookup s_rc fin = None;
  po_hist_old : alookup s_hist_old fin = None;
  po_cache_old : alookup s_cache_old fin = None;
  (* the v2 configuration, cache and history *)
  po_dot : exists cd, alookup s_dotsignac fin = Some (Dir cd) /\
             alookup s_config cd = Some (File (FCfg {| cv := Some 2%Z; cproj := None; cws := None |})) /\
             alookup s_hist_new cd = match alookup s_hist_old es with Some (File d) => Some (File d) | _ => None end /\
             alookup s_cache_new cd = match alookup s_cache_old es with Some (File d) => Some (File d) | _ => None end;
  (* the project name went into the project document iff it is not the default *)
  po_doc_default : name = s_None -> alookup s_doc fin = alookup s_doc es;
  po_doc_named : name <> s_None -> exists kvs,
                   alookup s_doc fin = Some (File (FJson (JObj kvs))) /\
                   alookup s_name_key kvs = Some (JStr name) /\
                   forall k, k <> s_name_key -> alookup k kvs = alookup k (kvs_of_doc es);
  (* nothing else is touched *)
  po_frame : forall k, ~ In k [s_rc; s_dotsignac; s_doc; s_hist_old; s_cache_old; s_workspace] ->
               (forall w, cws c = Some w -> k <> w) -> alookup k fin = alookup k es
}.

Lemma not_in_cons : forall (k a : str) l, ~ In k (a :: l) -> k <> a /\ ~ In k l.
Proof. intros k a l H. split; [intro E; apply H; left; auto | intro I; apply H; right; exact I]. Qed.

Section Post.
  Variable es : list (str * node).
  Variable c : cfgrec.
  Variable name : str.
  Hypothesis PRE : mig_pre es c name.

  Let esA := ws_entries c es.
  Let fin := bump2_entries (mig_entries c name es).

  (* lookups of names other than the five special ones pass through everything after the workspace move *)
  Lemma through : forall k, k <> s_rc -> k <> s_dotsignac -> k <> s_doc -> k <> s_hist_old -> k <> s_cache_old ->
    alookup k fin = alookup k esA.
  Proof.
    intros k N1 N2 N3 N4 N5. unfold fin, bump2_entries, mig_entries.
    rewrite alookup_aset_if, (neq_eqb k s_dotsignac N2).
    rewrite move_entry_other by assumption. rewrite move_entry_other by assumption.
    rewrite alookup_aset_if, (neq_eqb k s_dotsignac N2), alookup_aremove_if, (neq_eqb k s_rc N1).
    rewrite alookup_aset_if, (neq_eqb k s_dotsignac N2), alookup_aset_if, (neq_eqb k s_rc N1).
    fold esA. apply frameB. exact N3.
  Qed.

  Lemma post_step : mig_post es c name fin.
  Proof.
    pose proof (dotG es c name) as DG. pose proof (cfgG es c name) as CG. cbv zeta in DG, CG.
    constructor.
    - intros W. rewrite through by discriminate. unfold esA, ws_entries.
      destruct W as [W|W]; rewrite W; reflexivity.
    - intros w W Nw. rewrite through by discriminate.
      destruct (mp_ws es c name PRE) as [W'|[W'|[w' [W' [Hw [Nw' [Lws [[ws Lw]|[Lw Nsp]]]]]]]]]; rewrite W in W'; try discriminate.
      + inversion W'. contradiction.
      + inversion W'. subst w'.
        assert (Nrc : w <> s_rc) by (eapply neq_by_lookup; [exact Lw|right; eexists; exact (mp_rc es c name PRE)]).
        assert (Ndot : w <> s_dotsignac) by (eapply neq_by_lookup; [exact Lw|left; exact (mp_nodot es c name PRE)]).
        assert (Ndoc : w <> s_doc).
        { eapply neq_by_lookup; [exact Lw|]. destruct (mp_doc es c name PRE) as [D|[kvs D]]; [left|right; eexists]; exact D. }
        assert (Nh : w <> s_hist_old) by (eapply neq_by_lookup; [exact Lw|apply fileish_cases; exact (mp_hist es c name PRE)]).
        assert (Nc : w <> s_cache_old) by (eapply neq_by_lookup; [exact Lw|apply fileish_cases; exact (mp_cache es c name PRE)]).
        rewrite (through w Nrc Ndot Ndoc Nh Nc).
        unfold esA, ws_entries. rewrite W, (neq_eqb w s_workspace Nw), Lw.
        rewrite !alookup_aset_if, !alookup_aremove_if, !str_eqb_refl, (neq_eqb w s_workspace Nw). auto.
      + (* never created: 'workspace' stays absent (Project() creates it on first open), w stays absent *)
        inversion W'. subst w'.
        assert (Nrc : w <> s_rc).
        { intro E. subst w. rewrite (mp_rc es c name PRE) in Lw. discriminate. }
        apply not_in_cons in Nsp. destruct Nsp as [Ndot Nsp]. apply not_in_cons in Nsp. destruct Nsp as [Ndoc Nsp].
        apply not_in_cons in Nsp. destruct Nsp as [Nh Nsp]. apply not_in_cons in Nsp. destruct Nsp as [Nc _].
        rewrite (through w Nrc Ndot Ndoc Nh Nc).
        unfold esA, ws_entries. rewrite W, (neq_eqb w s_workspace Nw), Lw. rewrite Lws. auto.
    - unfold fin, bump2_entries. lk. apply rcG; exact PRE.
    - unfold fin, bump2_entries, mig_entries. lk.
      rewrite move_entry_other by discriminate.
      apply move_entry_old_gone; [discriminate|].
      lk. rewrite frameB by discriminate. rewrite (histA es c name PRE). exact (mp_hist es c name PRE).
    - unfold fin, bump2_entries, mig_entries. lk.
      apply move_entry_old_gone; [discriminate|].
      rewrite move_entry_other by discriminate.
      lk. rewrite frameB by discriminate. rewrite (cacheA es c name PRE). exact (mp_cache es c name PRE).
    - exists (aset s_config (File (FCfg {| cv := Some 2%Z; cproj := None; cws := None |})) (dot_of (mig_entries c name es))).
      split; [unfold fin, bump2_entries; lk; reflexivity|]. split; [lk; reflexivity|].
      unfold mig_entries.
      set (esE := aset s_dotsignac (Dir (aset s_config (File (FCfg (stripped c))) []))
               (aremove s_rc (aset s_dotsignac (Dir []) (aset s_rc (File (FCfg (stripped c))) (doc_entries name (ws_entries c es)))))).
      assert (DE : alookup s_dotsignac esE = Some (Dir (dot_of esE))) by (unfold dot_of, esE; lk; reflexivity).
      assert (DF : alookup s_dotsignac (move_entry s_hist_old s_hist_new esE)
                   = Some (Dir (dot_of (move_entry s_hist_old s_hist_new esE)))) by (apply move_entry_dot; [discriminate|exact DE]).
      split.
      + lk. rewrite move_entry_in_dot; [|discriminate|exact DF].
        rewrite move_entry_new; [|exact DE|unfold dot_of, esE; lk; reflexivity].
        unfold esE. lk. rewrite frameB by discriminate. rewrite (histA es c name PRE). reflexivity.
      + lk. rewrite move_entry_new; [|exact DF|].
        * rewrite move_entry_other by discriminate.
          unfold esE. lk. rewrite frameB by discriminate. rewrite (cacheA es c name PRE). reflexivity.
        * rewrite move_entry_in_dot; [|discriminate|exact DE]. unfold dot_of, esE. lk. reflexivity.
    - intro E. unfold fin, bump2_entries, mig_entries. lk.
      rewrite move_entry_other by discriminate. rewrite move_entry_other by discriminate. lk.
      unfold doc_entries. rewrite E. eqb_compute. cbv iota. apply (docA es c name PRE).
    - intro NE. unfold fin, bump2_entries, mig_entries. lk.
      rewrite move_entry_other by discriminate. rewrite move_entry_other by discriminate. lk.
      unfold doc_entries. rewrite (neq_eqb name s_None NE). lk.
      rewrite (docA es c name PRE). unfold kvs_of_doc.
      destruct (mp_doc es c name PRE) as [D|[kvs D]]; rewrite D.
      + eexists. split; [reflexivity|]. split; [lk; reflexivity|].
        intros k Nk. simpl. rewrite (neq_eqb k s_name_key Nk). reflexivity.
      + eexists. split; [reflexivity|]. split; [apply alookup_aset_same|].
        intros k Nk. apply alookup_aset_other. auto.
    - intros k NI Hw.
      apply not_in_cons in NI. destruct NI as [N1 NI]. apply not_in_cons in NI. destruct NI as [N2 NI].
      apply not_in_cons in NI. destruct NI as [N3 NI]. apply not_in_cons in NI. destruct NI as [N4 NI].
      apply not_in_cons in NI. destruct NI as [N5 NI]. apply not_in_cons in NI. destruct NI as [N6 _].
      rewrite (through k N1 N2 N3 N4 N5). unfold esA, ws_entries.
      destruct (cws c) as [w|] eqn:W; [|reflexivity].
      destruct (str_eqb w s_workspace); [reflexivity|].
      destruct (alookup w es); [|reflexivity].
      rewrite alookup_aset_if, (neq_eqb k s_workspace N6), alookup_aremove_if, (neq_eqb k w (Hw w eq_refl)). reflexivity.
  Qed.
End Post.

Lemma post_final : forall es c name, mig_pre es c name ->
  mig_post es c name (final_entries c name es).
Proof.
  intros es c name PRE. unfold final_entries.
  assert (GEN : mig_post es c name
            (bump2_entries (mig_entries (with_v1 c) name (aset s_rc (File (FCfg (with_v1 c))) es)))).
  { pose proof (post_step _ _ _ (mig_pre_bumped es c name PRE)) as Q. cbv zeta in Q.
    destruct Q as [Q1 Q2 Q3 Q4 Q5 Q6 Q7 Q8 Q9]. simpl cws in *.
    set (es1 := aset s_rc (File (FCfg (with_v1 c))) es) in *.
    assert (T : forall k, k <> s_rc -> alookup k es1 = alookup k es).
    { intros k N. unfold es1. rewrite alookup_aset_if, (neq_eqb k s_rc N). reflexivity. }
    constructor.
    - intro W. rewrite (Q1 W). apply T. discriminate.
    - intros w W Nw. destruct (Q2 w W Nw) as [A B]. split; auto. rewrite A. apply T.
      destruct (mp_ws es c name PRE) as [W'|[W'|[w' [W' [Hw [Nw' [Lws Lw]]]]]]]; rewrite W in W'; try discriminate.
      + inversion W'. contradiction.
      + inversion W'. subst w'.
        apply (neq_rc_of es w _ (mp_rc es c name PRE)); [destruct Lw as [L|[L _]]; auto | discriminate].
    - exact Q3.
    - exact Q4.
    - exact Q5.
    - destruct Q6 as [cd [A [B [C D]]]]. exists cd. repeat split; auto.
      + rewrite C. rewrite T by discriminate. reflexivity.
      + rewrite D. rewrite T by discriminate. reflexivity.
    - intro E. rewrite (Q7 E). apply T. discriminate.
    - intro NE. destruct (Q8 NE) as [kvs [A [B C]]]. exists kvs. repeat split; auto.
      intros k Nk. rewrite (C k Nk). unfold kvs_of_doc. rewrite T by discriminate. reflexivity.
    - intros k NI Hw. rewrite (Q9 k NI Hw). apply T. intro E. apply NI. left. auto. }
  destruct (cv c) as [v|]; [|exact GEN].
  destruct v as [|p|p]; try exact GEN.
  destruct p; try exact GEN.
  apply post_step. exact PRE.
Qed.

(* migrate_preserves_jobs: every legacy project without collision migrates, also when the configured
   custom workspace directory was never created (F17 repaired) *)
Lemma migrate_preserves_jobs : forall es c name, mig_pre es c name ->
  (cv c = None \/ cv c = Some 0%Z \/ cv c = Some 1%Z) ->
  exists fin, migrate0 es = (Ok tt, world fin) /\ mig_post es c name fin.
Proof.
  intros es c name PRE V. exists (final_entries c name es). split.
  - apply migrate_ok; assumption.
  - apply post_final. exact PRE.
Qed.

(* ------------------------------------------------------------------ the migrated project opens *)
Lemma stat_P0 : forall es, os_stat (world es) CWD0 P0 = Some (Dir es).
Proof.
  intro es. unfold os_stat, os_resolve. simpl split_sl.
  change (split_sl (os_full CWD0 P0)) with [[]; s_p].
  rewrite FUEL_unfold, W_skip.
  rewrite (W_look _ (world es) [] s_p [] _ clean_p (get_root_nil es)).
  change (alookup s_p [(s_p, Dir es)]) with (Some (Dir es)). cbv iota.
  rewrite W_nil. reflexivity.
Qed.

Lemma abspath_P0 : abspath CWD0 P0 = P0. Proof. reflexivity. Qed.

Lemma opens_after : forall fin cd ws,
  alookup s_dotsignac fin = Some (Dir cd) ->
  alookup s_config cd = Some (File (FCfg {| cv := Some 2%Z; cproj := None; cws := None |})) ->
  alookup s_workspace fin = Some (Dir ws) ->
  get_project (world fin) CWD0 P0 true = (Ok P0, world fin).
Proof.
  intros fin cd ws Ld Lc Lw.
  assert (NLc : nolink (alookup s_config cd)) by (rewrite Lc; exact I).
  assert (ISF : os_isfile (world fin) CWD0 (cfgfn CWD0 P0) = true).
  { unfold os_isfile. rewrite v2fn_eq.
    rewrite (stat_child2 fin s_dotsignac s_config cd clean_dotsignac clean_config Ld NLc), Lc. reflexivity. }
  unfold get_project. unfold os_exists. rewrite stat_P0. simpl negb. simpl andb. cbv iota.
  unfold locate_config_dir. rewrite abspath_P0.
  change (loc_up (S (length P0)) (world fin) CWD0 P0) with
    (if os_isfile (world fin) CWD0 (cfgfn CWD0 P0) then Some P0
     else let up := dirname P0 in if str_eqb up P0 then None else loc_up (length P0) (world fin) CWD0 up).
  rewrite ISF. unfold project_open. rewrite ISF.
  unfold read_cfg. rewrite v2fn_eq.
  rewrite (stat_child2 fin s_dotsignac s_config cd clean_dotsignac clean_config Ld NLc), Lc.
  simpl declared_version. simpl Z.eqb. cbv iota. rewrite abspath_P0.
  assert (NLw : nolink (alookup s_workspace fin)) by (rewrite Lw; exact I).
  unfold os_isdir. rewrite (stat_child fin s_workspace clean_workspace NLw), Lw. reflexivity.
Qed.

(* ------------------------------------------------------------------ no-op / refusal *)
Lemma version_v2_layout : forall es cd c g, alookup s_dotsignac es = Some (Dir cd) ->
  alookup s_config cd = Some (File (FCfg c)) -> g <> 1%Z ->
  get_version (world es) CWD0 P0 g = Some (match cv c with Some v => v | None => 0%Z end).
Proof.
  intros es cd c g Ld Lc Ng. unfold get_version.
  assert (L2 : load_v2 (world es) CWD0 P0 = Some c) by (eapply load_v2_world; eauto).
  unfold loader_order. apply Z.eqb_neq in Ng. rewrite Ng. simpl orb.
  destruct (Z.eqb g 2); simpl; unfold loader; rewrite ?Ng; simpl; rewrite L2; reflexivity.
Qed.

Lemma migrate_noop_on_v2 : forall es cd c, alookup s_dotsignac es = Some (Dir cd) ->
  alookup s_config cd = Some (File (FCfg c)) -> cv c = Some 2%Z ->
  migrate0 es = (Ok tt, world es).
Proof.
  intros es cd c Ld Lc V. unfold migrate0, apply_migrations.
  rewrite (version_v2_layout es cd c SCHEMA Ld Lc) by discriminate. rewrite V.
  simpl Z.ltb. cbv iota.
  change (mig_loop 4 (world es) CWD0 P0 2) with
    (match get_version (world es) CWD0 P0 2 with
     | None => (Err ERuntimeError, world es)
     | Some v =>
         if Z.ltb v SCHEMA then
           if Z.eqb v 0 then seq (bump 1 CWD0 P0 (world es)) (fun r1 => mig_loop 3 r1 CWD0 P0 1)
           else if Z.eqb v 1 then
             seq (wrap (migrate_v1_to_v2 (world es) CWD0 P0)) (fun r1 =>
             seq (bump 2 CWD0 P0 r1) (fun r2 => mig_loop 3 r2 CWD0 P0 2))
           else (Err ERuntimeError, world es)
         else (Ok tt, world es)
     end).
  rewrite (version_v2_layout es cd c 2 Ld Lc) by discriminate. rewrite V. reflexivity.
Qed.

Lemma migrate_newer_refused_v2 : forall es cd c v, alookup s_dotsignac es = Some (Dir cd) ->
  alookup s_config cd = Some (File (FCfg c)) -> cv c = Some v -> (2 < v)%Z ->
  migrate0 es = (Err ERuntimeError, world es).
Proof.
  intros es cd c v Ld Lc V G. unfold migrate0, apply_migrations.
  rewrite (version_v2_layout es cd c SCHEMA Ld Lc) by discriminate. rewrite V.
  apply Z.ltb_lt in G. unfold SCHEMA. rewrite G. reflexivity.
Qed.

Lemma migrate_newer_refused_v1 : forall es c name v, alookup s_rc es = Some (File (FCfg c)) ->
  cproj c = Some name -> alookup s_dotsignac es = None -> cv c = Some v -> (2 < v)%Z ->
  migrate0 es = (Err ERuntimeError, world es).
Proof.
  intros es c name v Lrc Pn Ld V G. unfold migrate0, apply_migrations.
  assert (GV : get_version (world es) CWD0 P0 SCHEMA = Some v).
  { unfold get_version. change (loader_order SCHEMA) with [2%Z; 2%Z; 1%Z]. unfold first_load.
    change (loader 2) with load_v2. change (loader 1) with load_v1.
    rewrite (load_v2_world_none es Ld), (load_v1_world es c name Lrc Pn), V. reflexivity. }
  rewrite GV. apply Z.ltb_lt in G. unfold SCHEMA. rewrite G. reflexivity.
Qed.

(* ------------------------------------------------------------------ refused migration: collision *)
Record fail_pre (es : list (str * node)) (c : cfgrec) (name w : str) : Prop := {
  fp_rc : alookup s_rc es = Some (File (FCfg c));
  fp_name : cproj c = Some name;
  fp_nodot : alookup s_dotsignac es = None;
  fp_w : cws c = Some w;
  fp_clean : cleanb w = true;
  fp_custom : w <> s_workspace;
  fp_why : exists x, alookup s_workspace es = Some x /\ nolink (Some x)         (* collision *)
}.

Lemma step_ws_fail : forall es c name w, fail_pre es c name w ->
  exists e, move_workspace CWD0 P0 c (world es) = (Err e, world es).
Proof.
  intros es c name w F. unfold move_workspace. rewrite (fp_w es c name w F).
  rewrite (normpath_clean w (fp_clean es c name w F)), (neq_eqb w s_workspace (fp_custom es c name w F)).
  destruct (fp_why es c name w F) as [x [Lx NL]].
  rewrite (exists_child es s_workspace clean_workspace) by (rewrite Lx; exact NL). rewrite Lx. eauto.
Qed.

Lemma loop_fail_from_1 : forall es c name w fuel, fail_pre es c name w -> cv c = Some 1%Z ->
  mig_loop (S fuel) (world es) CWD0 P0 1 = (Err ERuntimeError, world es).
Proof.
  intros es c name w fuel F V.
  assert (G1 : get_version (world es) CWD0 P0 1 = Some 1%Z).
  { unfold get_version. change (loader_order 1) with [1%Z; 2%Z; 1%Z]. unfold first_load.
    change (loader 1) with load_v1.
    rewrite (load_v1_world es c name (fp_rc es c name w F) (fp_name es c name w F)), V. reflexivity. }
  change (mig_loop (S fuel) (world es) CWD0 P0 1) with
    (match get_version (world es) CWD0 P0 1 with
     | None => (Err ERuntimeError, world es)
     | Some v =>
         if Z.ltb v SCHEMA then
           if Z.eqb v 0 then seq (bump 1 CWD0 P0 (world es)) (fun r1 => mig_loop fuel r1 CWD0 P0 1)
           else if Z.eqb v 1 then
             seq (wrap (migrate_v1_to_v2 (world es) CWD0 P0)) (fun r1 =>
             seq (bump 2 CWD0 P0 r1) (fun r2 => mig_loop fuel r2 CWD0 P0 2))
           else (Err ERuntimeError, world es)
         else (Ok tt, world es)
     end).
  rewrite G1. simpl Z.ltb. cbv iota. simpl Z.eqb. cbv iota.
  unfold migrate_v1_to_v2.
  rewrite (load_v1_world es c name (fp_rc es c name w F) (fp_name es c name w F)).
  destruct (step_ws_fail es c name w F) as [e E]. rewrite E. reflexivity.
Qed.

Lemma fail_pre_bumped : forall es c name w, fail_pre es c name w ->
  fail_pre (aset s_rc (File (FCfg (with_v1 c))) es) (with_v1 c) name w.
Proof.
  intros es c name w F. destruct F as [Hrc Hn Hd Hw Hc Hcu Hy]. constructor; auto.
  - lk. reflexivity.
  - lk. exact Hd.
  - destruct Hy as [x [Lx NL]]. exists x. split; auto. lk. exact Lx.
Qed.

(* a refused migration leaves every entry except (possibly) the version number in signac.rc *)
Lemma migrate_refused : forall es c name w, fail_pre es c name w ->
  (cv c = None \/ cv c = Some 0%Z \/ cv c = Some 1%Z) ->
  migrate0 es = (Err ERuntimeError,
                 world (match cv c with Some 1%Z => es | _ => aset s_rc (File (FCfg (with_v1 c))) es end)).
Proof.
  intros es c name w F V. unfold migrate0, apply_migrations.
  assert (GV : forall g, g <> 1%Z -> get_version (world es) CWD0 P0 g = Some (match cv c with Some v => v | None => 0%Z end)).
  { intros g Ng. unfold get_version.
    assert (L2 : load_v2 (world es) CWD0 P0 = None) by (apply load_v2_world_none; exact (fp_nodot es c name w F)).
    assert (L1 : load_v1 (world es) CWD0 P0 = Some c) by (eapply load_v1_world; [exact (fp_rc es c name w F)|exact (fp_name es c name w F)]).
    unfold loader_order. apply Z.eqb_neq in Ng. rewrite Ng. simpl orb.
    destruct (Z.eqb g 2); simpl; unfold loader; rewrite ?Ng; simpl; rewrite ?L2, L1; reflexivity. }
  assert (B1 : bump 1 CWD0 P0 (world es) = (Ok tt, world (aset s_rc (File (FCfg (with_v1 c))) es))).
  { unfold bump. change (loader 1) with load_v1.
    rewrite (load_v1_world es c name (fp_rc es c name w F) (fp_name es c name w F)).
    change (loader_fn 1 P0) with (path_join P0 s_rc).
    apply write_child; [exact clean_rc|]. right. eexists. exact (fp_rc es c name w F). }
  rewrite (GV SCHEMA) by discriminate.
  assert (ZERO : (match cv c with Some v => v | None => 0%Z end) = 0%Z ->
    mig_loop 4 (world es) CWD0 P0 0 = (Err ERuntimeError, world (aset s_rc (File (FCfg (with_v1 c))) es))).
  { intro Z0.
    change (mig_loop 4 (world es) CWD0 P0 0) with
      (match get_version (world es) CWD0 P0 0 with
       | None => (Err ERuntimeError, world es)
       | Some v =>
           if Z.ltb v SCHEMA then
             if Z.eqb v 0 then seq (bump 1 CWD0 P0 (world es)) (fun r1 => mig_loop 3 r1 CWD0 P0 1)
             else if Z.eqb v 1 then
               seq (wrap (migrate_v1_to_v2 (world es) CWD0 P0)) (fun r1 =>
               seq (bump 2 CWD0 P0 r1) (fun r2 => mig_loop 3 r2 CWD0 P0 2))
             else (Err ERuntimeError, world es)
           else (Ok tt, world es)
       end).
    rewrite (GV 0%Z) by discriminate. rewrite Z0. simpl Z.ltb. cbv iota. simpl Z.eqb. cbv iota.
    rewrite B1. unfold seq.
    apply (loop_fail_from_1 _ (with_v1 c) name w 2 (fail_pre_bumped es c name w F) eq_refl). }
  destruct V as [V|[V|V]]; rewrite V in *; simpl Z.ltb; cbv iota.
  - apply ZERO. reflexivity.
  - apply ZERO. reflexivity.
  - apply (loop_fail_from_1 es c name w 3 F V).
Qed.

(* ------------------------------------------------------------------ model_holds (gate) *)
Section NodeInd.
  Variable Pn : node -> Prop.
  Hypothesis Hfile : forall d, Pn (File d).
  Hypothesis Hlink : forall t, Pn (Link t).
  Hypothesis Hdir : forall es, Forall (fun kv => Pn (snd kv)) es -> Pn (Dir es).
  Fixpoint node_ind' (n : node) : Pn n :=
    match n with
    | File d => Hfile d
    | Link t => Hlink t
    | Dir es =>
        Hdir es ((fix go (l : list (str * node)) : Forall (fun kv => Pn (snd kv)) l :=
                    match l with
                    | [] => Forall_nil _
                    | kv :: l' => Forall_cons kv (node_ind' (snd kv)) (go l')
                    end) es)
    end.
End NodeInd.

(* directory entries have distinct names, at every level *)
Fixpoint wf_node (n : node) : bool :=
  match n with
  | Dir es =>
      keys_distinct (map fst es) &&
      (fix go (l : list (str * node)) : bool :=
         match l with [] => true | (_, v) :: l' => wf_node v && go l' end) es
  | _ => true
  end.

Lemma fdata_eqb_refl : forall d, fdata_eqb d d = true.
Proof.
  destruct d as [c|j|b]; simpl.
  - unfold cfg_eqb. destruct c as [v p w]; simpl.
    destruct v; simpl; rewrite ?Z.eqb_refl; destruct p; simpl; rewrite ?str_eqb_refl; destruct w; simpl; rewrite ?str_eqb_refl; reflexivity.
  - apply json_eqb_eq. reflexivity.
  - apply str_eqb_refl.
Qed.

Lemma node_eqb_refl : forall n, wf_node n = true -> node_eqb n n = true.
Proof.
  induction n as [d|t|es IH] using node_ind'; intro W; simpl.
  - apply fdata_eqb_refl.
  - apply str_eqb_refl.
  - rewrite Nat.eqb_refl. simpl. simpl in W. apply andb_true_iff in W. destruct W as [KD W].
    apply keys_distinct_NoDup in KD.
    assert (G : forall l, (forall k v, In (k, v) l -> alookup k es = Some v /\ node_eqb v v = true) ->
              (fix go (l : list (str * node)) : bool :=
                 match l with
                 | [] => true
                 | (k, v) :: l' => match alookup k es with Some v' => node_eqb v v' | None => false end && go l'
                 end) l = true).
    { induction l as [|[k v] l IHl]; intro H; [reflexivity|].
      destruct (H k v (or_introl eq_refl)) as [A B]. rewrite A, B. simpl. apply IHl.
      intros k' v' I. apply H. right. exact I. }
    apply G. intros k v I. split.
    + apply NoDup_alookup; assumption.
    + rewrite Forall_forall in IH. apply (IH (k, v) I).
      clear - W I. induction es as [|[k0 v0] es IHes]; [contradiction|].
      apply andb_true_iff in W. destruct W as [W0 W1]. destruct I as [E|I]; [inversion E; subst; exact W0 | auto].
Qed.

Lemma get_mkroot : forall base tree, get (CorrC20.mkroot base tree) (CorrC20.base_comps base) = Some tree.
Proof.
  intros base tree. unfold CorrC20.mkroot. induction (CorrC20.base_comps base) as [|c l IH]; simpl; [reflexivity|].
  rewrite str_eqb_refl. exact IH.
Qed.

Lemma sub_eqb_self : forall base tree, wf_node tree = true ->
  CorrC20.sub_eqb (CorrC20.mkroot base tree) (CorrC20.base_comps base) tree = true.
Proof.
  intros base tree W. unfold CorrC20.sub_eqb. rewrite get_mkroot, (node_eqb_refl tree W). reflexivity.
Qed.

Lemma res_str_eqb_eq : forall a b, res_str_eqb a b = true -> a = b.
Proof.
  destruct a, b; simpl; intro H; try discriminate.
  - apply str_eqb_eq in H. congruence.
  - apply exn_eqb_eq in H. congruence.
Qed.

(* Whenever the model refuses Project() / get_project() on a case and the implementation agrees with
   the model, the implementation raised the same exception class and its byte snapshot is unchanged. *)
Lemma model_holds_gate : forall c g e,
  wf_node (c20_tree c) = true -> agree_g c g = true ->
  (g_kind g = GProject \/ exists s, g_kind g = GGet s) ->
  fst (run_g (CorrC20.mkroot (c20_base c) (c20_tree c)) (c20_cwd c) (c20_root c) (g_kind g)) = Err e ->
  g_res g = Err e /\ g_changed g = false /\ g_post g = None.
Proof.
  intros c g e W A K R. unfold agree_g in A.
  destruct (run_g (CorrC20.mkroot (c20_base c) (c20_tree c)) (c20_cwd c) (c20_root c) (g_kind g)) as [r root'] eqn:RG.
  simpl in R. subst r.
  assert (U : root' = CorrC20.mkroot (c20_base c) (c20_tree c)).
  { destruct K as [K|[s K]]; rewrite K in RG; simpl in RG.
    - eapply project_open_err_unchanged. exact RG.
    - eapply get_project_err_unchanged. exact RG. }
  subst root'.
  repeat (apply andb_true_iff in A; destruct A as [A ?]).
  apply res_str_eqb_eq in A. rewrite (sub_eqb_self _ _ W) in *. simpl in *.
  destruct (g_changed g); [discriminate|]. repeat split; auto.
  destruct (g_post g); [discriminate|reflexivity].
Qed.

(* the correspondence obligation on the migration, unpacked: what was observed IS the model's output *)
Lemma model_holds_migration : forall c, agree_mig c = true ->
  let root := CorrC20.mkroot (c20_base c) (c20_tree c) in
  res_unit_eqb (fst (apply_migrations root (c20_cwd c) (c20_root c))) (c20_mig c) = true /\
  CorrC20.sub_eqb (snd (apply_migrations root (c20_cwd c) (c20_root c))) (CorrC20.base_comps (c20_base c)) (c20_mig_post c) = true.
Proof.
  intros c A root. unfold agree_mig in A. fold root in A.
  destruct (apply_migrations root (c20_cwd c) (c20_root c)) as [r1 root1].
  destruct (apply_migrations root1 (c20_cwd c) (c20_root c)) as [r2 root2].
  repeat (apply andb_true_iff in A; destruct A as [A ?]). simpl. auto.
Qed.

(* non-vacuity: a concrete legacy project (custom workspace with two jobs, cache, history, a
   project document, a named project, schema version absent) satisfies mig_pre, and the model
   migrates it to the expected v2 layout *)
Definition ex_job (n : N) : node :=
  Dir [([115; 112]%N, File (FBytes [123; n; 125]%N)); ([100]%N, File (FBytes [n]))].
Definition ex_ws : list (str * node) := [(repeat 97%N 32, ex_job 49); (repeat 98%N 32, ex_job 50)].
Definition ex_cfg0 : cfgrec := {| cv := None; cproj := Some [109; 121; 32; 112]%N; cws := Some s_ws |}.
Definition ex_es : list (str * node) :=
  [(s_rc, File (FCfg ex_cfg0)); (s_ws, Dir ex_ws); (s_cache_old, File (FBytes [1; 2; 3]%N));
   (s_hist_old, File (FBytes [4; 5]%N)); (s_doc, File (FJson (JObj [([102]%N, JInt 1)])));
   ([110; 111; 116; 101; 115]%N, File (FBytes [107]%N))].

Lemma example_mig_pre : mig_pre ex_es ex_cfg0 [109; 121; 32; 112]%N.
Proof.
  constructor; try reflexivity; try exact I.
  - right. eexists. reflexivity.
  - right. right. exists s_ws. repeat split; try reflexivity; [discriminate|]. left. eexists. reflexivity.
Qed.

Lemma example_result :
  match migrate0 ex_es with
  | (Ok _, Dir [(_, Dir fin)]) =>
      opt_node_eqb (alookup s_workspace fin) (Some (Dir ex_ws)) &&
      opt_node_eqb (alookup s_ws fin) None && opt_node_eqb (alookup s_rc fin) None &&
      opt_node_eqb (get (Dir fin) [s_dotsignac; s_config]) (Some (File (FCfg {| cv := Some 2%Z; cproj := None; cws := None |}))) &&
      opt_node_eqb (get (Dir fin) [s_dotsignac; s_cache_new]) (Some (File (FBytes [1; 2; 3]%N))) &&
      opt_node_eqb (get (Dir fin) [s_dotsignac; s_hist_new]) (Some (File (FBytes [4; 5]%N))) &&
      opt_node_eqb (alookup s_doc fin) (Some (File (FJson (JObj [([102]%N, JInt 1); (s_name_key, JStr [109; 121; 32; 112]%N)]))))
  | _ => false
  end = true.
Proof. vm_compute. reflexivity. Qed.

(* a migrated project whose workspace directory was never created opens too: Project() creates it *)
Lemma opens_after_creating : forall fin cd,
  alookup s_dotsignac fin = Some (Dir cd) ->
  alookup s_config cd = Some (File (FCfg {| cv := Some 2%Z; cproj := None; cws := None |})) ->
  alookup s_workspace fin = None ->
  get_project (world fin) CWD0 P0 true = (Ok P0, world (aset s_workspace (Dir []) fin)).
Proof.
  intros fin cd Ld Lc Lw.
  assert (NLc : nolink (alookup s_config cd)) by (rewrite Lc; exact I).
  assert (ISF : os_isfile (world fin) CWD0 (cfgfn CWD0 P0) = true).
  { unfold os_isfile. rewrite v2fn_eq.
    rewrite (stat_child2 fin s_dotsignac s_config cd clean_dotsignac clean_config Ld NLc), Lc. reflexivity. }
  unfold get_project. unfold os_exists. rewrite stat_P0. simpl negb. simpl andb. cbv iota.
  unfold locate_config_dir. rewrite abspath_P0.
  change (loc_up (S (length P0)) (world fin) CWD0 P0) with
    (if os_isfile (world fin) CWD0 (cfgfn CWD0 P0) then Some P0
     else let up := dirname P0 in if str_eqb up P0 then None else loc_up (length P0) (world fin) CWD0 up).
  rewrite ISF. unfold project_open. rewrite ISF.
  unfold read_cfg. rewrite v2fn_eq.
  rewrite (stat_child2 fin s_dotsignac s_config cd clean_dotsignac clean_config Ld NLc), Lc.
  simpl declared_version. simpl Z.eqb. cbv iota. rewrite abspath_P0.
  assert (NLw : nolink (alookup s_workspace fin)) by (rewrite Lw; exact I).
  unfold os_isdir. rewrite (stat_child fin s_workspace clean_workspace NLw), Lw.
  change (split_sl (path_join P0 s_workspace)) with [[]; s_p; s_workspace].
  unfold world. simpl. rewrite Lw. simpl. destruct (alookup s_workspace fin); reflexivity.
Qed.

(* the former F17 witness now migrates, and the result opens *)
Definition f17_cfg : cfgrec := {| cv := Some 1%Z; cproj := Some [120%N]; cws := Some s_ws |}.
Definition f17_es : list (str * node) := [(s_rc, File (FCfg f17_cfg))].

Lemma f17_repaired :
  mig_pre f17_es f17_cfg [120%N] /\
  migrate0 f17_es = (Ok tt, world (final_entries f17_cfg [120%N] f17_es)) /\
  fst (get_project (world (final_entries f17_cfg [120%N] f17_es)) CWD0 P0 true) = Ok P0.
Proof.
  split; [|split].
  - constructor; try reflexivity; try exact I.
    + left. reflexivity.
    + right. right. exists s_ws. repeat split; try reflexivity; [discriminate|].
      right. split; [reflexivity|]. simpl. intros [E|[E|[E|[E|E]]]]; try discriminate. exact E.
  - vm_compute. reflexivity.
  - vm_compute. reflexivity.
Qed.
