(* C20Proofs.v — lemmas behind props/C20.v *)
From SV Require Import Base Json Discover Migrate CorrC19 CorrC20 C19Proofs.
From Coq Require Import Arith.

Local Opaque FUEL.

(* ------------------------------------------------------------------ the version gate *)
Section Gate.
  Variable root : node.
  Variable cwd : str.

  (* never opened: Project() succeeds only on a configuration declaring the supported version *)
  Lemma opened_only_supported : forall p r root', project_open root cwd p = (Ok r, root') ->
    exists c, read_cfg root cwd (cfgfn cwd p) = RdCfg c /\ declared_version c = SCHEMA.
  Proof. intros p r root' H. apply project_open_Ok in H. tauto. Qed.

  Lemma get_project_only_supported : forall path s r root', get_project root cwd path s = (Ok r, root') ->
    exists d c, nearest_cfg root cwd (abspath cwd path) d /\
                read_cfg root cwd (cfgfn cwd d) = RdCfg c /\ declared_version c = SCHEMA.
  Proof.
    unfold get_project. intros path s r root' H.
    destruct (negb (os_exists root cwd path)); [discriminate|].
    destruct (negb s && negb (os_isfile root cwd (cfgfn cwd path))); [discriminate|].
    destruct (locate_config_dir root cwd path) as [[d|]|x] eqn:L; try discriminate.
    apply locate_Some in L. apply project_open_Ok in H. destruct H as [_ [_ [c [R V]]]].
    exists d, c. auto.
  Qed.

  (* --- v2 layout (.signac/config) declaring any other version: refused, nothing touched *)
  Lemma gate_project : forall p c,
    cfg_at root cwd p = true -> read_cfg root cwd (cfgfn cwd p) = RdCfg c ->
    declared_version c <> SCHEMA ->
    project_open root cwd p = (Err EIncompatibleSchemaVersion, root).
  Proof.
    intros p c C R V. unfold project_open. unfold cfg_at in C. rewrite C, R.
    apply Z.eqb_neq in V. rewrite V. reflexivity.
  Qed.

  Lemma gate_get_project : forall path s d c,
    os_exists root cwd path = true -> (s = true \/ cfg_at root cwd path = true) ->
    nearest_cfg root cwd (abspath cwd path) d ->
    read_cfg root cwd (cfgfn cwd d) = RdCfg c -> declared_version c <> SCHEMA ->
    get_project root cwd path s = (Err EIncompatibleSchemaVersion, root).
  Proof.
    intros path s d c X S N R V. unfold get_project. rewrite X. simpl.
    assert (E : negb s && negb (os_isfile root cwd (cfgfn cwd path)) = false).
    { destruct S as [-> | C]; [reflexivity|]. unfold cfg_at in C. rewrite C. apply andb_false_r. }
    rewrite E. rewrite (locate_of_nearest root cwd _ _ N).
    apply gate_project with (c := c); auto. eapply nearest_cfg_holds. exact N.
  Qed.

  Lemma gate_init_project : forall path d c,
    os_exists root cwd path = true -> cfg_at root cwd path = true ->
    nearest_cfg root cwd (abspath cwd path) d ->
    read_cfg root cwd (cfgfn cwd d) = RdCfg c -> declared_version c <> SCHEMA ->
    init_project root cwd path = (Err EIncompatibleSchemaVersion, root).
  Proof.
    intros path d c X C N R V. unfold init_project.
    rewrite (gate_get_project path false d c X (or_intror C) N R V). reflexivity.
  Qed.

  (* --- legacy layout (signac.rc, no .signac/config): whatever version it declares *)
  Lemma older_raises : forall rdir v, get_version root cwd rdir SCHEMA = Some v -> v <> SCHEMA ->
    raise_if_older root cwd rdir = Some EIncompatibleSchemaVersion.
  Proof.
    intros rdir v G V. unfold raise_if_older. rewrite G. apply Z.eqb_neq in V. rewrite V. reflexivity.
  Qed.

  Lemma gate_project_legacy : forall p v,
    cfg_at root cwd p = false -> get_version root cwd p SCHEMA = Some v -> v <> SCHEMA ->
    project_open root cwd p = (Err EIncompatibleSchemaVersion, root).
  Proof.
    intros p v C G V. unfold project_open. unfold cfg_at in C. rewrite C.
    rewrite (older_raises p v G V). reflexivity.
  Qed.

  Lemma older_up_first : forall fuel sp e, raise_if_older root cwd sp = Some e ->
    older_up (S fuel) root cwd sp = Some e.
  Proof. intros fuel sp e H. simpl. rewrite H. reflexivity. Qed.

  Lemma gate_get_project_legacy : forall path v,
    os_exists root cwd path = true -> no_cfg_above root cwd (abspath cwd path) ->
    get_version root cwd (abspath cwd path) SCHEMA = Some v -> v <> SCHEMA ->
    get_project root cwd path true = (Err EIncompatibleSchemaVersion, root).
  Proof.
    intros path v X N G V. unfold get_project. rewrite X. simpl. unfold locate_config_dir.
    destruct (loc_up (S (length (abspath cwd path))) root cwd (abspath cwd path)) eqn:E.
    - apply loc_up_sound in E. exfalso. eapply nearest_not_none; eauto.
    - rewrite (older_up_first _ _ _ (older_raises _ v G V)). reflexivity.
  Qed.

  Lemma gate_init_project_legacy : forall path v,
    cfg_at root cwd path = false -> get_version root cwd path SCHEMA = Some v -> v <> SCHEMA ->
    init_project root cwd path = (Err EIncompatibleSchemaVersion, root).
  Proof.
    intros path v C G V. unfold init_project.
    rewrite (get_project_nosearch_refuses root cwd path C).
    unfold init_new. rewrite (older_raises path v G V). reflexivity.
  Qed.
End Gate.

(* an IncompatibleSchemaVersion (indeed any error) of Project / get_project leaves the tree unchanged *)
Lemma gate_unchanged_project : forall root cwd p e root', project_open root cwd p = (Err e, root') -> root' = root.
Proof. exact project_open_err_unchanged. Qed.

Lemma gate_unchanged_get_project : forall root cwd path s e root', get_project root cwd path s = (Err e, root') -> root' = root.
Proof. exact get_project_err_unchanged. Qed.


(* ------------------------------------------------------------------ migration: the setting
   The migration theorems quantify over EVERY content [es] of the project directory (any jobs,
   documents, files, sub-directories); the project directory itself is placed, without loss of
   generality for the code path (every access is os.path.join(root_directory, <constant>)), at
   /p with working directory /. *)
Definition P0 : str := [47; 112]%N.          (* "/p" *)
Definition CWD0 : str := [47%N].             (* "/"  *)
Definition s_p : str := [112%N].
Definition world (es : list (str * node)) : node := Dir [(s_p, Dir es)].
Definition migrate0 (es : list (str * node)) : result unit * node := apply_migrations (world es) CWD0 P0.
Definition s_ws : str := [119; 115]%N.       (* "ws" *)

Record legacy_pre (es : list (str * node)) (c : cfgrec) (name : str) : Prop := {
  lp_rc : alookup s_rc es = Some (File (FCfg c));
  lp_name : cproj c = Some name;
  lp_ver : cv c = None \/ cv c = Some 0%Z \/ cv c = Some 1%Z;
  lp_nodot : alookup s_dotsignac es = None;
  lp_nocollide : forall w, cws c = Some w -> w <> s_workspace -> alookup s_workspace es = None
}.

(* F17: the full statement "every legacy project without collision migrates" is FALSE of the model:
   a custom workspace_dir that was never created makes os.replace fail. *)
Definition f17_cfg : cfgrec := {| cv := Some 1%Z; cproj := Some [120%N]; cws := Some s_ws |}.
Definition f17_es : list (str * node) := [(s_rc, File (FCfg f17_cfg))].

Lemma f17_refuted : exists es c name,
  legacy_pre es c name /\
  migrate0 es = (Err ERuntimeError, world es) /\
  fst (get_project (world es) CWD0 P0 true) = Err EIncompatibleSchemaVersion.
Proof.
  exists f17_es, f17_cfg, [120%N]. split; [|split].
  - constructor; try reflexivity.
    + right. right. reflexivity.
  - vm_compute. reflexivity.
  - vm_compute. reflexivity.
Qed.
