(* C11Clone.v — crash safety of Project.clone (shutil.copytree into a fresh directory of another project):
   an invariant that every continuation preserves, proved combinator by combinator (copy_file, makedirs_p,
   copytree_p over a tree of any shape and any listing order). *)
From SV Require Import Base Json MD5 Canon FS Proc Crash WsNames CorrC11 C11Proofs.
Import ListNotations.

(* crash states AND fault outcomes at once: stop anywhere (the pending write possibly torn), and any call may
   fail with any errno without taking effect *)
Inductive gcrashed {A} : prog A -> fs -> fs -> Prop :=
| gc_here : forall p f, gcrashed p f f
| gc_torn : forall q d k f n f',
    (0 < n < length (c_bytes d))%nat -> write_open f q (torn_content d n) = FOk f' ->
    gcrashed (Do (CWrite q d) k) f f'
| gc_step : forall c k f f' r g, exec_res f c = (f', r) -> gcrashed (k r) f' g -> gcrashed (Do c k) f g
| gc_fault : forall c k f e g, gcrashed (k (FErr e)) f g -> gcrashed (Do c k) f g.

Lemma crashed_gcrashed : forall A (p : prog A) f g, crashed p f g -> gcrashed p f g.
Proof. intros A p f g H. induction H; [apply gc_here|eapply gc_torn; eauto|eapply gc_step; eauto]. Qed.

Lemma run_fault_gcrashed : forall A plan (p : prog A) n f, gcrashed p f (fst (run_fault plan n p f)).
Proof.
  intros A plan p. induction p as [a|e|c k IH]; intros n f; simpl; try apply gc_here.
  destruct (plan n) as [e|].
  - apply gc_fault with (e := e). apply IH.
  - destruct (exec_res f c) as [f' r] eqn:E. eapply gc_step; eauto.
Qed.

(* every crash state / fault outcome of p started in a state satisfying Inv satisfies Inv *)
Definition safeK {A} (Inv : fs -> Prop) (p : prog A) : Prop := forall f g, Inv f -> gcrashed p f g -> Inv g.

Lemma safe_ret : forall A (Inv : fs -> Prop) (a : A), safeK Inv (Ret a).
Proof. intros A Inv a f g Hi H. inversion H; subst. exact Hi. Qed.

Lemma safe_raise : forall A (Inv : fs -> Prop) e, safeK Inv (@Raise A e).
Proof. intros A Inv e f g Hi H. inversion H; subst. exact Hi. Qed.

Lemma safe_do : forall A (Inv : fs -> Prop) c (k : fres val -> prog A), is_write c = false ->
  (forall f, Inv f -> Inv (fst (exec_res f c)) /\ safeK Inv (k (snd (exec_res f c)))) ->
  (forall e, safeK Inv (k (FErr e))) ->
  safeK Inv (Do c k).
Proof.
  intros A Inv c k Hw H Hf f g Hi Hc. inversion Hc as [| |c0 k0 f1 f' r g0 He Hr|c0 k0 f1 e g0 Hr]; subst; auto.
  - discriminate.
  - destruct (H f Hi) as [Hi' Hs]. rewrite He in *. apply (Hs _ g Hi' Hr).
  - apply (Hf e f g Hi Hr).
Qed.

Lemma safe_write : forall A (Inv : fs -> Prop) q d (k : fres val -> prog A),
  (forall f, Inv f ->
     (forall n f', (0 < n < length (c_bytes d))%nat -> write_open f q (torn_content d n) = FOk f' -> Inv f') /\
     Inv (fst (exec_res f (CWrite q d))) /\ safeK Inv (k (snd (exec_res f (CWrite q d))))) ->
  (forall e, safeK Inv (k (FErr e))) ->
  safeK Inv (Do (CWrite q d) k).
Proof.
  intros A Inv q d k H Hf f g Hi Hc. destruct (H f Hi) as [Ht [Hi' Hs]].
  inversion Hc as [|q0 d0 k0 f1 n f' Hn Hw|c0 k0 f1 f' r g0 He Hr|c0 k0 f1 e g0 Hr]; subst; auto.
  - eapply Ht; eauto.
  - rewrite He in *. apply (Hs _ g Hi' Hr).
  - apply (Hf e f g Hi Hr).
Qed.

(* a call that does not change the state *)
Definition pure_call (c : call) : bool :=
  match c with CStat _ | CRead _ | CListdir _ | CClose _ | CMeta _ => true | _ => false end.

Lemma pure_fst : forall f c, pure_call c = true -> fst (exec_res f c) = f.
Proof.
  intros f c H. unfold exec_res. destruct c; simpl in H; try discriminate; simpl.
  - reflexivity.
  - destruct (get f p) as [[d|]|]; reflexivity.
  - destruct (listdir f p); reflexivity.
  - reflexivity.
  - destruct (get f p); reflexivity.
Qed.

Lemma pure_not_write : forall c, pure_call c = true -> is_write c = false.
Proof. intros c H. destruct c; simpl in *; auto; discriminate. Qed.

Lemma safe_pure : forall A (Inv : fs -> Prop) c (k : fres val -> prog A), pure_call c = true ->
  (forall f, Inv f -> safeK Inv (k (snd (exec_res f c)))) -> (forall e, safeK Inv (k (FErr e))) -> safeK Inv (Do c k).
Proof.
  intros A Inv c k Hp H Hf. apply safe_do; [apply pure_not_write; auto| |exact Hf].
  intros f Hi. rewrite (pure_fst f c Hp). split; auto.
Qed.

Lemma safe_pure_all : forall A (Inv : fs -> Prop) c (k : fres val -> prog A), pure_call c = true ->
  (forall r, safeK Inv (k r)) -> safeK Inv (Do c k).
Proof. intros. apply safe_pure; auto. Qed.

Section CLONE.
  Variable frepr : fl -> str.
  Variable f0 : fs.
  Variables ws dws : path.
  Variable i : str.
  Let src := ws ++ [i].
  Let dst := dws ++ [i].
  Variable c0 : content.
  Hypothesis Hlen : length ws = length dws.
  Hypothesis Hdiff : ws <> dws.
  Hypothesis Hdws : get f0 dws = Some Dir.
  Hypothesis Hsp : get f0 (src ++ [SPF]) = Some (File c0).
  Hypothesis Hcl : forall p, get f0 p <> None -> get f0 (parent p) = Some Dir.

  (* nothing outside the destination changes; the destination is absent or a directory; its state point file
     is absent, not parseable (empty / torn), or the complete copy of the source's *)
  Definition CI (g : fs) : Prop :=
    (forall q, under dst q = false -> get g q = get f0 q) /\
    (get g dst = None \/ get g dst = Some Dir) /\
    (get g (dst ++ [SPF]) = None \/
     exists c, get g (dst ++ [SPF]) = Some (File c) /\ (c_json c = None \/ c = c0)).

  Lemma src_not_under_dst : forall r, under dst (src ++ r) = false.
  Proof.
    intro r. destruct (under dst (src ++ r)) eqn:E; auto. apply under_spec in E. destruct E as [x E].
    unfold src, dst in E. rewrite <- !app_assoc in E.
    assert (H : firstn (length ws) (ws ++ [i] ++ r) = firstn (length ws) (dws ++ [i] ++ x)) by (rewrite E; reflexivity).
    rewrite firstn_app, firstn_all, Nat.sub_diag in H. simpl in H. rewrite app_nil_r in H.
    rewrite Hlen in H. rewrite firstn_app, firstn_all, Nat.sub_diag in H. simpl in H. rewrite app_nil_r in H.
    contradiction.
  Qed.

  Lemma dws_not_under_dst : under dst dws = false.
  Proof. unfold dst. apply under_snoc_self'. Qed.

  (* the first component of a relative path inside the job is not the state point file name (we never
     descend into it: in the source it is a regular file) *)
  Definition relok (rel : path) : Prop := match rel with [] => True | x :: _ => x <> SPF end.

  Lemma relok_snoc : forall rel n, relok rel -> rel <> [] -> relok (rel ++ [n]).
  Proof. intros [|x rel] n H Hn; [contradiction|]. simpl. exact H. Qed.

  Lemma dst_rel_ne_sp : forall rel, relok rel -> rel <> [] -> rel <> [SPF] /\ dst ++ rel <> dst ++ [SPF] /\ dst ++ rel <> dst.
  Proof.
    intros rel H Hn. assert (H1 : rel <> [SPF]) by (intro E; subst; simpl in H; contradiction).
    split; auto. split.
    - intro E. apply app_inv_head in E. contradiction.
    - intro E. rewrite <- (app_nil_r dst) in E at 2. apply app_inv_head in E. contradiction.
  Qed.

  (* effect of single calls on CI *)
  Lemma CI_mkdir : forall g rel, CI g -> relok rel -> CI (fst (exec_res g (CMkdir (dst ++ rel)))).
  Proof.
    intros g rel [H1 [H2 H3]] Hr. unfold exec_res. cbn [exec].
    destruct (mkdir g (dst ++ rel)) as [g'|e] eqn:E; cbn [lift fst]; [|repeat split; auto].
    assert (Hg : forall q, get g' q = if path_eqb q (dst ++ rel) then Some Dir else get g q) by (intro q; apply (get_mkdir _ _ _ q E)).
    repeat split.
    - intros q Hq. rewrite Hg. destruct (path_eqb q (dst ++ rel)) eqn:Eq; [|apply H1; auto].
      apply path_eqb_eq in Eq. subst q. rewrite under_app in Hq. discriminate.
    - rewrite Hg. destruct (path_eqb dst (dst ++ rel)); auto.
    - rewrite Hg. destruct (path_eqb (dst ++ [SPF]) (dst ++ rel)) eqn:Eq; auto.
      apply path_eqb_eq in Eq. apply app_inv_head in Eq. subst rel. simpl in Hr. contradiction.
  Qed.

  Lemma CI_set_file : forall g g' p c,
    (forall q, get g' q = if path_eqb q p then Some (File c) else get g q) ->
    CI g -> under dst p = true -> p <> dst ->
    (p = dst ++ [SPF] -> c_json c = None \/ c = c0) -> CI g'.
  Proof.
    intros g g' p c Hg [H1 [H2 H3]] Hu Hne Hc. repeat split.
    - intros q Hq. rewrite Hg. destruct (path_eqb q p) eqn:Eq; [|apply H1; auto].
      apply path_eqb_eq in Eq. subst q. congruence.
    - rewrite Hg. destruct (path_eqb dst p) eqn:Eq; auto. apply path_eqb_eq in Eq. congruence.
    - rewrite Hg. destruct (path_eqb (dst ++ [SPF]) p) eqn:Eq; auto.
      apply path_eqb_eq in Eq. right. exists c. split; auto.
  Qed.

  Lemma CI_openw : forall g p, CI g -> under dst p = true -> p <> dst -> CI (fst (exec_res g (COpenW p))).
  Proof.
    intros g p Hi Hu Hne. unfold exec_res. cbn [exec].
    destruct (write_file g p empty_content) as [g'|e] eqn:E; cbn [lift fst]; auto.
    apply (CI_set_file g g' p empty_content); auto.
    intro q. apply (get_write_file _ _ _ _ q E).
  Qed.

  Lemma CI_write_open : forall g g' p c, CI g -> under dst p = true -> p <> dst ->
    (p = dst ++ [SPF] -> c_json c = None \/ c = c0) -> write_open g p c = FOk g' -> CI g'.
  Proof.
    intros g g' p c Hi Hu Hne Hc Hw. unfold write_open in Hw.
    destruct (get g p) as [[cc|]|]; try (injection Hw as <-; exact Hi).
    apply (CI_set_file g g' p c); auto. intro q. apply (get_write_file _ _ _ _ q Hw).
  Qed.

  Lemma CI_write : forall g p c, CI g -> under dst p = true -> p <> dst ->
    (p = dst ++ [SPF] -> c_json c = None \/ c = c0) -> CI (fst (exec_res g (CWrite p c))).
  Proof.
    intros g p c Hi Hu Hne Hc. unfold exec_res. cbn [exec].
    destruct (write_open g p c) as [g'|e] eqn:E; cbn [lift fst]; auto.
    eapply CI_write_open; eauto.
  Qed.

  Context {A : Type}.

  Lemma rel_path_facts : forall rel n, under dst (dst ++ rel ++ [n]) = true /\ dst ++ rel ++ [n] <> dst.
  Proof.
    intros rel n. split; [apply under_app|]. intro E. rewrite <- (app_nil_r dst) in E at 2.
    apply app_inv_head in E. destruct rel; discriminate.
  Qed.

  Lemma safe_copy_file : forall rel n (k : fres unit -> prog A),
    (forall r, safeK CI (k r)) ->
    safeK CI (copy_file (src ++ rel ++ [n]) (dst ++ rel ++ [n]) k).
  Proof.
    intros rel n k Hk. unfold copy_file. destruct (rel_path_facts rel n) as [Hu Hne].
    (* the three stat calls of the destination: pure, results ignored *)
    apply safe_pure_all; [reflexivity|]. intros _. apply safe_pure_all; [reflexivity|]. intros _.
    apply safe_pure_all; [reflexivity|]. intros _.
    apply safe_pure; [reflexivity| |intro e0; apply Hk]. intros f Hi.
    unfold exec_res. cbn [exec].
    destruct (get f (src ++ rel ++ [n])) as [[c|]|] eqn:G; cbn [snd]; try apply Hk.
    (* the content that was read: if this is the state point file, it is the source's *)
    assert (Hc : dst ++ rel ++ [n] = dst ++ [SPF] -> c = c0).
    { intro E. apply app_inv_head in E. rewrite E in G. destruct Hi as [H1 _].
      rewrite (H1 _ (src_not_under_dst [SPF])), Hsp in G. congruence. }
    set (d := dst ++ rel ++ [n]) in *.
    assert (Hafter : forall rw : fres val, safeK CI
      (Do (CClose d) (fun rc : fres val =>
         match rw, rc with
         | _, FErr e => k (FErr e)
         | FErr e, FOk _ => k (FErr e)
         | FOk _, FOk _ =>
             Do (CMeta d) (fun m1 : fres val =>
               match m1 with
               | FErr e => k (FErr e)
               | FOk _ => Do (CMeta d) (fun m2 : fres val => match m2 with FErr e => k (FErr e) | FOk _ => k (FOk tt) end)
               end)
         end))).
    { intro rw. apply safe_pure_all; [reflexivity|]. intro rc. destruct rw, rc; try apply Hk.
      apply safe_pure_all; [reflexivity|]. intros [v1|e1]; [|apply Hk].
      apply safe_pure_all; [reflexivity|]. intros [v2|e2]; apply Hk. }
    apply safe_do; [reflexivity| |intro e0; apply Hk]. intros g Hg. split; [apply CI_openw; auto|].
    destruct (snd (exec_res g (COpenW d))) as [v|e]; [|apply Hk]. cbv beta zeta.
    destruct (c_bytes c) eqn:Eb; [apply (Hafter (FOk RUnit))|].
    apply safe_write; [|intro e0; apply (Hafter (FErr e0))]. intros h Hh. split; [|split].
    - intros m h' Hm Hw. apply (CI_write_open h h' d (torn_content c m)); auto.
    - apply CI_write; auto.
    - apply Hafter.
  Qed.

  Lemma relok_prefix : forall rel x, relok (rel ++ [x]) -> relok rel.
  Proof. intros [|y rel] x H; simpl in *; auto. Qed.

  (* mkdir of something that exists outside the destination changes nothing *)
  Lemma CI_mkdir_exists : forall g p, CI g -> under dst p = false -> get f0 p <> None ->
    fst (exec_res g (CMkdir p)) = g.
  Proof.
    intros g p [H1 _] Hu Hex. unfold exec_res. cbn [exec]. unfold mkdir. rewrite (H1 p Hu).
    destruct (get f0 p); [reflexivity|contradiction].
  Qed.

  Lemma parent_not_under : forall p, under dst p = false -> under dst (parent p) = false.
  Proof.
    intros p H. destruct (under dst (parent p)) eqn:E; auto.
    rewrite (under_trans dst (parent p) p E (under_parent_self p)) in H. discriminate.
  Qed.

  (* os.makedirs on a path that exists (an ancestor of the destination): no mutation at all *)
  Lemma safe_makedirs_exist : forall fuel ok p (k : fres unit -> prog A),
    get f0 p <> None -> under dst p = false -> (forall r, safeK CI (k r)) -> safeK CI (makedirs_p fuel ok p k).
  Proof.
    induction fuel as [|fuel IH]; intros ok p k Hex Hu Hk.
    - simpl. apply safe_do; [reflexivity| |].
      + intros f Hi. rewrite (CI_mkdir_exists f p Hi Hu Hex). split; auto.
        destruct (snd (exec_res f (CMkdir p))) as [v|e]; [apply Hk|].
        destruct ok; [|apply Hk]. apply safe_pure_all; [reflexivity|]. intro r2. destruct (is_dir_r r2); apply Hk.
      + intro e. destruct ok; [|apply Hk]. apply safe_pure_all; [reflexivity|]. intro r2. destruct (is_dir_r r2); apply Hk.
    - rewrite makedirs_p_unfold. cbv zeta.
      assert (Hleaf : safeK CI (Do (CMkdir p) (fun r =>
                match r with
                | FOk _ => k (FOk tt)
                | FErr e => if ok then Do (CStat p) (fun r2 => if is_dir_r r2 then k (FOk tt) else k (FErr e))
                            else k (FErr e)
                end))).
      { apply safe_do; [reflexivity| |].
        - intros f Hi. rewrite (CI_mkdir_exists f p Hi Hu Hex). split; auto.
          destruct (snd (exec_res f (CMkdir p))) as [v|e]; [apply Hk|].
          destruct ok; [|apply Hk]. apply safe_pure_all; [reflexivity|]. intro r2. destruct (is_dir_r r2); apply Hk.
        - intro e. destruct ok; [|apply Hk]. apply safe_pure_all; [reflexivity|]. intro r2. destruct (is_dir_r r2); apply Hk. }
      destruct (parent p) as [|a [|b l]] eqn:Ep; auto.
      apply safe_pure_all; [reflexivity|]. intro rh. destruct (exists_r rh); auto.
      rewrite <- Ep. apply IH.
      + rewrite (Hcl p Hex). discriminate.
      + apply parent_not_under. exact Hu.
      + intros [u|e]; auto. destruct e; auto.
  Qed.

  Lemma safe_makedirs : forall fuel ok rel (k : fres unit -> prog A),
    relok rel -> (forall r, safeK CI (k r)) -> safeK CI (makedirs_p fuel ok (dst ++ rel) k).
  Proof.
    induction fuel as [|fuel IH]; intros ok rel k Hr Hk.
    - simpl. apply safe_do; [reflexivity| |].
      + intros f Hi. split; [apply CI_mkdir; auto|].
        destruct (snd (exec_res f (CMkdir (dst ++ rel)))) as [v|e]; [apply Hk|].
        destruct ok; [|apply Hk]. apply safe_pure_all; [reflexivity|]. intro r2. destruct (is_dir_r r2); apply Hk.
      + intro e. destruct ok; [|apply Hk]. apply safe_pure_all; [reflexivity|]. intro r2. destruct (is_dir_r r2); apply Hk.
    - rewrite makedirs_p_unfold. cbv zeta.
      assert (Hleaf : safeK CI (Do (CMkdir (dst ++ rel)) (fun r =>
                match r with
                | FOk _ => k (FOk tt)
                | FErr e => if ok then Do (CStat (dst ++ rel)) (fun r2 => if is_dir_r r2 then k (FOk tt) else k (FErr e))
                            else k (FErr e)
                end))).
      { apply safe_do; [reflexivity| |].
        - intros f Hi. split; [apply CI_mkdir; auto|].
          destruct (snd (exec_res f (CMkdir (dst ++ rel)))) as [v|e]; [apply Hk|].
          destruct ok; [|apply Hk]. apply safe_pure_all; [reflexivity|]. intro r2. destruct (is_dir_r r2); apply Hk.
        - intro e. destruct ok; [|apply Hk]. apply safe_pure_all; [reflexivity|]. intro r2. destruct (is_dir_r r2); apply Hk. }
      destruct (parent (dst ++ rel)) as [|a [|b l]] eqn:Ep; auto.
      apply safe_pure_all; [reflexivity|]. intro rh. destruct (exists_r rh); auto.
      (* os.makedirs recurses into the parent: below the destination, or the (existing) workspace *)
      destruct rel as [|x rel'] using rev_ind.
      + rewrite app_nil_r in Ep. unfold dst in Ep. rewrite parent_snoc in Ep. rewrite <- Ep.
        apply safe_makedirs_exist; [rewrite Hdws; discriminate|apply dws_not_under_dst|].
        intros [u|e]; auto. destruct e; auto.
      + rewrite app_assoc, parent_snoc in Ep. rewrite <- Ep.
        apply IH; [eapply relok_prefix; eauto|]. intros [u|e]; auto. destruct e; auto.
  Qed.

  Lemma safe_copytree : forall fuel top rel (k : fres bool -> prog A),
    relok rel -> (forall r, safeK CI (k r)) -> safeK CI (copytree_p fuel top (src ++ rel) (dst ++ rel) k).
  Proof.
    induction fuel as [|fuel IH]; intros top rel k Hr Hk.
    - cbn [copytree_p]. apply safe_pure_all; [reflexivity|]. intros [v|e]; [|apply Hk]. destruct v; try apply Hk.
      apply safe_makedirs; auto. intros [u|e]; [|apply Hk].
      generalize false as errs. induction l as [|n ns IHn]; intro errs.
      + assert (Hcs : safeK CI (Do (CMeta (dst ++ rel)) (fun m1 => match m1 with
                          | FErr _ => k (FOk true)
                          | FOk _ => Do (CMeta (dst ++ rel)) (fun m2 => match m2 with FErr _ => k (FOk true) | FOk _ => k (FOk errs) end)
                          end))).
        { apply safe_pure_all; [reflexivity|]. intros [v1|e1]; [|apply Hk].
          apply safe_pure_all; [reflexivity|]. intros [v2|e2]; apply Hk. }
        destruct top; [|exact Hcs].
        apply safe_pure_all; [reflexivity|]. intros [v0|e0]; [exact Hcs|apply Hk].
      + apply safe_pure_all; [reflexivity|]. intro rk. destruct (is_dir_r rk); [apply IHn|].
        rewrite <- !app_assoc. apply safe_copy_file. intros [u1|e1]; apply IHn.
    - cbn [copytree_p]. apply safe_pure_all; [reflexivity|]. intros [v|e]; [|apply Hk]. destruct v; try apply Hk.
      apply safe_makedirs; auto. intros [u|e]; [|apply Hk].
      generalize false as errs. induction l as [|n ns IHn]; intro errs.
      + assert (Hcs : safeK CI (Do (CMeta (dst ++ rel)) (fun m1 => match m1 with
                          | FErr _ => k (FOk true)
                          | FOk _ => Do (CMeta (dst ++ rel)) (fun m2 => match m2 with FErr _ => k (FOk true) | FOk _ => k (FOk errs) end)
                          end))).
        { apply safe_pure_all; [reflexivity|]. intros [v1|e1]; [|apply Hk].
          apply safe_pure_all; [reflexivity|]. intros [v2|e2]; apply Hk. }
        destruct top; [|exact Hcs].
        apply safe_pure_all; [reflexivity|]. intros [v0|e0]; [exact Hcs|apply Hk].
      + apply safe_pure; [reflexivity| |intro e0; cbn [is_dir_r]; rewrite <- !app_assoc; apply safe_copy_file; intros [u1|e1]; apply IHn].
        intros f Hi. rewrite exec_res_stat. cbn [snd].
        destruct (is_dir_r (FOk (RKind (kind_of (get f ((src ++ rel) ++ [n])))))) eqn:Ed.
        * assert (Hr' : relok (rel ++ [n])).
          { destruct rel as [|y rel']; [|exact Hr]. simpl. intro En. subst n.
            rewrite app_nil_r in Ed. destruct Hi as [H1 _].
            rewrite (H1 _ (src_not_under_dst [SPF])), Hsp in Ed. discriminate. }
          rewrite <- !app_assoc. apply IH; auto. intros [e1|e1]; apply IHn.
        * rewrite <- !app_assoc. apply safe_copy_file. intros [u1|e1]; apply IHn.
  Qed.
  (* deletions below the destination keep the invariant *)
  Lemma CI_unlink : forall g p, CI g -> under dst p = true -> CI (fst (exec_res g (CUnlink p))).
  Proof.
    intros g p [H1 [H2 H3]] Hu. unfold exec_res. cbn [exec].
    destruct (unlink g p) as [g'|e] eqn:E; cbn [lift fst]; [|repeat split; auto].
    assert (Hg : forall q, get g' q = if path_eqb q p then None else get g q) by (intro q; apply (get_unlink _ _ _ q E)).
    repeat split.
    - intros q Hq. rewrite Hg. destruct (path_eqb q p) eqn:Eq; [|apply H1; auto].
      apply path_eqb_eq in Eq. subst q. congruence.
    - rewrite Hg. destruct (path_eqb dst p); auto.
    - rewrite Hg. destruct (path_eqb (dst ++ [SPF]) p); auto.
  Qed.

  Lemma CI_rmdir : forall g p, CI g -> under dst p = true -> CI (fst (exec_res g (CRmdir p))).
  Proof.
    intros g p [H1 [H2 H3]] Hu. unfold exec_res. cbn [exec].
    destruct (rmdir g p) as [g'|e] eqn:E; cbn [lift fst]; [|repeat split; auto].
    assert (Hg : forall q, get g' q = if path_eqb q p then None else get g q) by (intro q; apply (get_rmdir _ _ _ q E)).
    repeat split.
    - intros q Hq. rewrite Hg. destruct (path_eqb q p) eqn:Eq; [|apply H1; auto].
      apply path_eqb_eq in Eq. subst q. congruence.
    - rewrite Hg. destruct (path_eqb dst p); auto.
    - rewrite Hg. destruct (path_eqb (dst ++ [SPF]) p); auto.
  Qed.

  Lemma safe_rmtree_ign : forall fuel p (k : prog A),
    under dst p = true -> safeK CI k -> safeK CI (rmtree_ign fuel p k).
  Proof.
    induction fuel as [|fuel IH]; intros p k Hu Hk.
    - cbn [rmtree_ign]. apply safe_pure_all; [reflexivity|]. intro rs. destruct (is_dir_r rs); auto.
      apply safe_pure_all; [reflexivity|]. intros [v|e]; auto. destruct v; auto.
      induction l as [|n ns IHn].
      + apply safe_do; [reflexivity| |auto]. intros f Hi. split; [apply CI_rmdir; auto|auto].
      + apply safe_pure_all; [reflexivity|]. intro rk. destruct (is_dir_r rk); auto.
        apply safe_do; [reflexivity| |auto]. intros f Hi.
        split; [apply CI_unlink; auto; eapply under_trans; [exact Hu|apply under_app]|auto].
    - cbn [rmtree_ign]. apply safe_pure_all; [reflexivity|]. intro rs. destruct (is_dir_r rs); auto.
      apply safe_pure_all; [reflexivity|]. intros [v|e]; auto. destruct v; auto.
      induction l as [|n ns IHn].
      + apply safe_do; [reflexivity| |auto]. intros f Hi. split; [apply CI_rmdir; auto|auto].
      + apply safe_pure_all; [reflexivity|]. intro rk. destruct (is_dir_r rk).
        * apply IH; auto. eapply under_trans; [exact Hu|apply under_app].
        * apply safe_do; [reflexivity| |auto]. intros f Hi.
          split; [apply CI_unlink; auto; eapply under_trans; [exact Hu|apply under_app]|auto].
  Qed.
End CLONE.

(* ------------------------------------------------------------------ the theorems *)
Section CLONE_THM.
  Variable frepr : fl -> str.
  Variable wss : list path.
  Variable f0 : fs.
  Variables ws dws : path.
  Variable i : str.
  Hypothesis HW : WInv frepr wss f0.
  Hypothesis Hws : In ws wss.
  Hypothesis Hdwsin : In dws wss.
  Hypothesis Hi : In i (job_dirs f0 ws).
  Let o := KClone ws i dws.
  Let src := ws ++ [i].
  Let dst := dws ++ [i].

  Lemma cl_facts : get f0 dws = Some Dir /\ length ws = length dws /\
    (forall p, get f0 p <> None -> get f0 (parent p) = Some Dir) /\
    exists c0 v0, get f0 (src ++ [SPF]) = Some (File c0) /\ c_json c0 = Some v0 /\ calc_id frepr v0 = i /\
                  is_jnull v0 = false /\ sp_value f0 ws i = Some v0.
  Proof.
    destruct (winv_job frepr wss f0 ws i HW Hws Hi) as [Hsd [c0 [v0 [G [J E]]]]].
    pose proof (winv_job_nn frepr wss f0 ws i HW Hws Hi c0 v0 G J) as Hnn.
    pose proof HW as [Hnd [Hnil [Hcl [Hlen Hv]]]].
    split; [apply (Hv dws Hdwsin)|]. split; [apply Hlen; auto|]. split; [exact Hcl|].
    exists c0, v0. repeat split; auto. rewrite sp_value_dir, G. exact J.
  Qed.

  Lemma cl_dst_dir : dst_dir frepr o f0 = dst.
  Proof.
    destruct cl_facts as [_ [_ [_ [c0 [v0 [_ [_ [E [_ Hs]]]]]]]]]. unfold dst_dir, o. rewrite Hs, E. reflexivity.
  Qed.

  Lemma cl_aff : affected frepr o f0 = if exists_ f0 dst then [] else [dst].
  Proof. unfold affected. fold o. rewrite cl_dst_dir. reflexivity. Qed.

  Lemma cl_hist : exists v0, history frepr o f0 = [v0] /\ sp_value f0 ws i = Some v0.
  Proof.
    destruct cl_facts as [_ [_ [_ [c0 [v0 [_ [_ [_ [_ Hs]]]]]]]]]. exists v0. unfold history, o. rewrite Hs. auto.
  Qed.

  Lemma cinv_clone_pre : CInv frepr o wss f0 f0.
  Proof.
    destruct cl_facts as [Hdws [Hlen [Hcl _]]].
    apply cinv_intro; auto.
    - rewrite cl_aff. intros x Hx. destruct (exists_ f0 dst); [contradiction|]. destruct Hx as [<-|[]]. exists dws, i. auto.
    - right. intros r c Hp Hg. cbn [o src_dir] in Hg. cbn. rewrite (holds_file_get _ _ _ _ Hg). reflexivity.
    - rewrite cl_aff. intros x Hx. destruct (exists_ f0 dst) eqn:Ex; [contradiction|]. destruct Hx as [<-|[]].
      left. unfold exists_ in Ex. destruct (get f0 dst); [discriminate|reflexivity].
    - rewrite cl_aff. intros w j Hw Hin Hval. destruct (exists_ f0 dst) eqn:Ex; [contradiction|]. destruct Hin as [Ed|[]].
      rewrite validates_dir, <- Ed in Hval. unfold exists_ in Ex.
      destruct (get f0 dst) eqn:Gd; [discriminate|]. rewrite (closed_absent f0 dst Hcl Gd [SPF]) in Hval. discriminate.
  Qed.

  Section FRESH.
    Hypothesis Hdiff : ws <> dws.
    Hypothesis Hfresh : get f0 dst = None.
    Variable c0 : content.
    Variable v0 : json.
    Hypothesis G : get f0 (src ++ [SPF]) = Some (File c0).
    Hypothesis J : c_json c0 = Some v0.
    Hypothesis E : calc_id frepr v0 = i.
    Hypothesis Hnn : is_jnull v0 = false.

    Lemma ci_start : CI f0 dws i c0 f0.
    Proof.
      destruct cl_facts as [_ [_ [Hcl _]]]. unfold CI. fold dst. repeat split; auto.
      left. apply (closed_absent f0 dst Hcl Hfresh [SPF]).
    Qed.

    Lemma clone_safe : forall atomic, safeK (CI f0 dws i c0) (op_prog frepr atomic o).
    Proof.
      intro atomic. destruct cl_facts as [Hdws [Hlen [Hcl _]]].
      unfold op_prog, o, job_clone, with_sp, sp_load.
      replace (ws ++ [i; SPF]) with (src ++ [SPF]) by (unfold src; rewrite <- app_assoc; reflexivity).
      assert (Hclean : forall (rs : fres val) e, safeK (CI f0 dws i c0)
                (if exists_r rs then ret_res (inr e) else rmtree_ign 6 dst (ret_res (inr e)))).
      { intros rs e. destruct (exists_r rs); [apply safe_raise|].
        apply (safe_rmtree_ign f0 dws i c0); [apply under_refl|apply safe_raise]. }
      assert (HK : forall (rs : fres val) (r : fres bool), safeK (CI f0 dws i c0)
                (match r with
                 | FOk false => ret_res (inl tt)
                 | FOk true => if exists_r rs then ret_res (inr (POs EIO)) else rmtree_ign 6 dst (ret_res (inr (POs EIO)))
                 | FErr EEXIST => ret_res (inr (PExn EDestinationExists))
                 | FErr ENOENT => ret_res (inr (PExn EValueError))
                 | FErr e => if exists_r rs then ret_res (inr (POs e)) else rmtree_ign 6 dst (ret_res (inr (POs e)))
                 end)).
      { intros rs [[|]|e]; [apply Hclean|apply safe_ret|]. destruct e; try apply safe_raise; apply Hclean. }
      apply safe_pure; [reflexivity| |].
      - intros f Hf. assert (Gf : get f (src ++ [SPF]) = Some (File c0)).
        { destruct Hf as [H1 _]. unfold src. rewrite (H1 _ (src_not_under_dst ws dws i Hlen Hdiff [SPF])). exact G. }
        unfold exec_res. cbn [exec]. rewrite Gf. cbn [snd]. rewrite J, Hnn, E, str_eqb_refl.
        fold src dst. apply safe_pure_all; [reflexivity|]. intro rs. cbv zeta.
        (* the lstat of the destination: an error other than ENOENT propagates, nothing done *)
        assert (Hcopy : safeK (CI f0 dws i c0) (copytree_p 6 true (src ++ []) (dst ++ []) (fun r =>
                 match r with
                 | FOk false => ret_res (inl tt)
                 | FOk true => if exists_r rs then ret_res (inr (POs EIO)) else rmtree_ign 6 dst (ret_res (inr (POs EIO)))
                 | FErr EEXIST => ret_res (inr (PExn EDestinationExists))
                 | FErr ENOENT => ret_res (inr (PExn EValueError))
                 | FErr e => if exists_r rs then ret_res (inr (POs e)) else rmtree_ign 6 dst (ret_res (inr (POs e)))
                 end))).
        { apply (safe_copytree f0 ws dws i c0 Hlen Hdiff Hdws G Hcl); [exact I|]. apply (HK rs). }
        rewrite !app_nil_r in Hcopy.
        destruct rs as [v|e]; [exact Hcopy|]. destruct e; try apply safe_raise; exact Hcopy.
      - intro e. destruct e; apply safe_raise.
    Qed.

    Lemma cinv_of_CI : forall g, CI f0 dws i c0 g -> CInv frepr o wss f0 g.
    Proof.
      intros g [H1 [H2 H3]]. fold dst in H1, H2, H3. destruct cl_facts as [Hdws [Hlen [Hcl _]]].
      assert (Hex : exists_ f0 dst = false) by (unfold exists_; rewrite Hfresh; reflexivity).
      apply cinv_intro; auto.
      - rewrite cl_aff, Hex. intros x [<-|[]]. exists dws, i. auto.
      - rewrite cl_aff, Hex. intros p Hp. apply under_any_false_cons in Hp. destruct Hp as [Hp _]. apply H1. exact Hp.
      - right. intros r c Hp Hg. cbn [o src_dir] in Hg. fold src in Hg. cbn. fold src.
        rewrite (holds_file_get g src r c); [reflexivity|].
        rewrite H1; [exact Hg|]. apply (src_not_under_dst ws dws i Hlen Hdiff).
      - rewrite cl_aff, Hex. intros x [<-|[]]. exact H2.
      - rewrite cl_aff, Hex. intros w j Hw [Ed|[]] Hval. destruct cl_hist as [v1 [Hh Hv1]]. rewrite Hh.
        rewrite validates_dir, <- Ed in Hval. rewrite sp_value_dir, <- Ed.
        destruct H3 as [Hn|[c [Hc Hj]]]; [rewrite Hn in Hval; discriminate|].
        rewrite Hc in *. destruct Hj as [Hj|Hj]; [rewrite Hj in Hval; discriminate|]. subst c.
        rewrite sp_value_dir in Hv1. change (ws ++ [i]) with src in Hv1. rewrite G, J in Hv1. injection Hv1 as <-.
        exists v0. split; auto. simpl. rewrite json_same_refl. reflexivity.
    Qed.
  End FRESH.

  (* fresh destination: every crash state AND every outcome under every fault plan satisfies CInv *)
  Theorem clone_fresh_all : forall atomic g, ws <> dws -> get f0 dst = None ->
    gcrashed (op_prog frepr atomic o) f0 g -> CInv frepr o wss f0 g.
  Proof.
    intros atomic g Hdiff Hfresh Hg.
    destruct cl_facts as [_ [_ [_ [c0 [v0 [G [J [E [Hnn _]]]]]]]]].
    eapply cinv_of_CI; eauto.
    eapply (clone_safe); eauto. eapply ci_start; eauto.
  Qed.
End CLONE_THM.

(* ------------------------------------------------------------------ the destination exists: nothing is touched *)
Section EXISTS.
  Variable f0 : fs.
  Hypothesis Hcl : forall p, get f0 p <> None -> get f0 (parent p) = Some Dir.
  Context {A : Type}.

  Definition Inv0 (g : fs) : Prop := g = f0.

  Lemma mk0 : forall g p, Inv0 g -> get f0 p <> None -> exec_res g (CMkdir p) = (g, FErr EEXIST).
  Proof.
    intros g p Hi Hex. unfold Inv0 in Hi. subst g. unfold exec_res. cbn [exec]. unfold mkdir.
    destruct (get f0 p); [reflexivity|contradiction].
  Qed.

  Lemma safe_mk_all0 : forall fuel ok p (k : fres unit -> prog A),
    get f0 p <> None -> (forall r, safeK Inv0 (k r)) -> safeK Inv0 (makedirs_p fuel ok p k).
  Proof.
    induction fuel as [|fuel IH]; intros ok p k Hex Hk.
    - simpl. apply safe_do; [reflexivity| |].
      + intros f Hi. rewrite (mk0 f p Hi Hex). cbn [fst snd]. split; auto.
        destruct ok; [|apply Hk]. apply safe_pure_all; [reflexivity|]. intro r2. destruct (is_dir_r r2); apply Hk.
      + intro e. destruct ok; [|apply Hk]. apply safe_pure_all; [reflexivity|]. intro r2. destruct (is_dir_r r2); apply Hk.
    - rewrite makedirs_p_unfold. cbv zeta.
      assert (Hleaf : safeK Inv0 (Do (CMkdir p) (fun r =>
                match r with
                | FOk _ => k (FOk tt)
                | FErr e => if ok then Do (CStat p) (fun r2 => if is_dir_r r2 then k (FOk tt) else k (FErr e))
                            else k (FErr e)
                end))).
      { apply safe_do; [reflexivity| |].
        - intros f Hi. rewrite (mk0 f p Hi Hex). cbn [fst snd]. split; auto.
          destruct ok; [|apply Hk]. apply safe_pure_all; [reflexivity|]. intro r2. destruct (is_dir_r r2); apply Hk.
        - intro e. destruct ok; [|apply Hk]. apply safe_pure_all; [reflexivity|]. intro r2. destruct (is_dir_r r2); apply Hk. }
      destruct (parent p) as [|a [|b l]] eqn:Ep; auto.
      apply safe_pure_all; [reflexivity|]. intro rh. destruct (exists_r rh); auto.
      rewrite <- Ep. apply IH; [rewrite (Hcl p Hex); discriminate|].
      intros [u|e]; auto. destruct e; auto.
  Qed.

  (* makedirs(exist_ok=False) on an existing path only ever reports an error *)
  Lemma safe_mk_err0 : forall fuel p (k : fres unit -> prog A),
    get f0 p <> None -> (forall e, safeK Inv0 (k (FErr e))) -> safeK Inv0 (makedirs_p fuel false p k).
  Proof.
    intros fuel p k Hex Hk.
    assert (Hleaf : safeK Inv0 (Do (CMkdir p) (fun r =>
              match r with
              | FOk _ => k (FOk tt)
              | FErr e => if false then Do (CStat p) (fun r2 => if is_dir_r r2 then k (FOk tt) else k (FErr e))
                          else k (FErr e)
              end))).
    { apply safe_do; [reflexivity| |].
      - intros f Hi. rewrite (mk0 f p Hi Hex). cbn [fst snd]. split; auto.
      - intro e. apply Hk. }
    destruct fuel as [|fuel]; [exact Hleaf|].
    rewrite makedirs_p_unfold. cbv zeta.
    destruct (parent p) as [|a [|b l]] eqn:Ep; auto.
    apply safe_pure_all; [reflexivity|]. intro rh. destruct (exists_r rh); auto.
    rewrite <- Ep. apply safe_mk_all0; [rewrite (Hcl p Hex); discriminate|].
    intros [u|e]; auto. destruct e; auto.
  Qed.

  Lemma safe_copytree_exists : forall fuel top src dst (k : fres bool -> prog A),
    get f0 dst <> None -> (forall e, safeK Inv0 (k (FErr e))) -> safeK Inv0 (copytree_p fuel top src dst k).
  Proof.
    intros fuel top src dst k Hex Hk. destruct fuel; cbn [copytree_p];
      (apply safe_pure_all; [reflexivity|]; intros [v|e]; [|apply Hk]; destruct v; try apply Hk;
       apply safe_mk_err0; auto).
  Qed.
End EXISTS.


(* ------------------------------------------------------------------ statements used in props/C11.v *)
Lemma crashed_pure_inv : forall A c (k : fres val -> prog A) f g, pure_call c = true ->
  crashed (Do c k) f g -> g = f \/ crashed (k (snd (exec_res f c))) f g.
Proof.
  intros A c k f g Hp H. apply crashed_do_inv in H; [|apply pure_not_write; auto].
  rewrite (pure_fst f c Hp) in H. exact H.
Qed.

Lemma clone_exists_tail : forall (frepr : fl -> str) f0 (ws dws : path) (i : str) (rs : fres val),
  (forall p, get f0 p <> None -> get f0 (parent p) = Some Dir) ->
  get f0 (dws ++ [i]) <> None -> exists_r rs = true ->
  safeK (Inv0 f0)
    (copytree_p 6 true (ws ++ [i]) (dws ++ [i]) (fun r =>
       match r with
       | FOk false => ret_res (inl tt)
       | FOk true => if exists_r rs then ret_res (inr (POs EIO)) else rmtree_ign 6 (dws ++ [i]) (ret_res (inr (POs EIO)))
       | FErr EEXIST => ret_res (inr (PExn EDestinationExists))
       | FErr ENOENT => ret_res (inr (PExn EValueError))
       | FErr e => if exists_r rs then ret_res (inr (POs e)) else rmtree_ign 6 (dws ++ [i]) (ret_res (inr (POs e)))
       end)).
Proof.
  intros frepr f0 ws dws i rs Hcl Hex Hrs. apply safe_copytree_exists; auto.
  intro e. rewrite Hrs. destruct e; apply safe_raise.
Qed.

Theorem crash_safe_clone_thm : forall frepr wss f0 ws dws i atomic g,
  WInv frepr wss f0 -> In ws wss -> In dws wss -> In i (job_dirs f0 ws) ->
  crash_states (op_prog frepr atomic (KClone ws i dws)) f0 g ->
  CInv frepr (KClone ws i dws) wss f0 g.
Proof.
  intros frepr wss f0 ws dws i atomic g HW Hws Hdwsin Hi H.
  destruct (cl_facts frepr wss f0 ws dws i HW Hws Hdwsin Hi) as [Hdws [Hlen [Hcl [c0 [v0 [G [J [E [Hnn Hs]]]]]]]]].
  destruct (get f0 (dws ++ [i])) as [nd|] eqn:Gd.
  - (* the destination exists: DestinationExistsError, nothing is touched *)
    assert (Hg : g = f0).
    { unfold crash_states, op_prog, job_clone, with_sp, sp_load in H.
      replace (ws ++ [i; SPF]) with ((ws ++ [i]) ++ [SPF]) in H by (rewrite <- app_assoc; reflexivity).
      apply crashed_pure_inv in H; [|reflexivity]. destruct H as [->|H]; auto.
      assert (E0 : exec_res f0 (CRead ((ws ++ [i]) ++ [SPF])) = (f0, FOk (RData c0))) by (unfold exec_res; cbn [exec]; rewrite G; reflexivity).
      rewrite E0 in H. cbn [snd] in H. rewrite J, Hnn, E, str_eqb_refl in H.
      apply crashed_pure_inv in H; [|reflexivity]. destruct H as [->|H]; auto.
      rewrite exec_res_stat, Gd in H. cbn [snd] in H. cbv zeta in H.
      apply crashed_gcrashed in H.
      refine (clone_exists_tail frepr f0 ws dws i _ Hcl _ _ f0 g eq_refl H); [congruence|destruct nd; reflexivity]. }
    subst g. apply (cinv_clone_pre frepr wss f0 ws dws i HW Hws Hdwsin Hi).
  - assert (Hdiff : ws <> dws).
    { intro Eq. subst dws. destruct (winv_job frepr wss f0 ws i HW Hws Hi) as [Hsd _]. congruence. }
    apply (clone_fresh_all frepr wss f0 ws dws i HW Hws Hdwsin Hi atomic g Hdiff Gd).
    apply crashed_gcrashed. exact H.
Qed.

(* an EXISTING destination (other or same project) is never touched, whatever fails — copy steps, stats,
   the lstat of the destination itself (ed42bbc: its error propagates before anything is copied).  Only an
   injected ENOENT at that lstat is excluded: signac reads ENOENT as "not there", by design. *)
Theorem clone_existing_untouched_thm : forall frepr wss f0 ws dws i atomic plan,
  WInv frepr wss f0 -> In ws wss -> In dws wss -> In i (job_dirs f0 ws) ->
  get f0 (dws ++ [i]) <> None -> plan 1%nat <> Some ENOENT ->
  fst (run_fault plan 0 (op_prog frepr atomic (KClone ws i dws)) f0) = f0.
Proof.
  intros frepr wss f0 ws dws i atomic plan HW Hws Hdwsin Hi Hex Hp1.
  destruct (cl_facts frepr wss f0 ws dws i HW Hws Hdwsin Hi) as [Hdws [Hlen [Hcl [c0 [v0 [G [J [E [Hnn Hs]]]]]]]]].
  destruct (get f0 (dws ++ [i])) as [nd|] eqn:Gd; [|congruence].
  unfold op_prog, job_clone, with_sp, sp_load.
  replace (ws ++ [i; SPF]) with ((ws ++ [i]) ++ [SPF]) by (rewrite <- app_assoc; reflexivity).
  rewrite run_fault_do. destruct (plan 0%nat) as [e0|].
  - destruct e0; reflexivity.
  - assert (E0 : exec_res f0 (CRead ((ws ++ [i]) ++ [SPF])) = (f0, FOk (RData c0))) by (unfold exec_res; cbn [exec]; rewrite G; reflexivity).
    rewrite E0, J, Hnn, E, str_eqb_refl. rewrite run_fault_do.
    destruct (plan 1%nat) as [e1|] eqn:P1.
    + destruct e1; try reflexivity. congruence.
    + rewrite exec_res_stat, Gd. cbv zeta.
      refine (clone_exists_tail frepr f0 ws dws i _ Hcl _ _ f0 _ eq_refl (run_fault_gcrashed _ plan _ 2 f0));
        [congruence|destruct nd; reflexivity].
Qed.

(* every fault plan: CInv holds whatever fails (copy steps, clean-up steps, stats) *)
Theorem fault_safe_clone_thm : forall frepr wss f0 ws dws i atomic plan,
  WInv frepr wss f0 -> In ws wss -> In dws wss -> In i (job_dirs f0 ws) ->
  get f0 (dws ++ [i]) = None \/ plan 1%nat <> Some ENOENT ->
  CInv frepr (KClone ws i dws) wss f0 (fst (run_fault plan 0 (op_prog frepr atomic (KClone ws i dws)) f0)).
Proof.
  intros frepr wss f0 ws dws i atomic plan HW Hws Hdwsin Hi Hcase.
  destruct (get f0 (dws ++ [i])) as [nd|] eqn:Gd.
  - destruct Hcase as [Hc|Hp1]; [discriminate|].
    rewrite (clone_existing_untouched_thm frepr wss f0 ws dws i atomic plan HW Hws Hdwsin Hi); auto; [|congruence].
    apply (cinv_clone_pre frepr wss f0 ws dws i HW Hws Hdwsin Hi).
  - assert (Hdiff : ws <> dws).
    { intro Eq. subst dws. destruct (winv_job frepr wss f0 ws i HW Hws Hi) as [Hsd _]. congruence. }
    apply (clone_fresh_all frepr wss f0 ws dws i HW Hws Hdwsin Hi atomic _ Hdiff Gd).
    apply run_fault_gcrashed.
Qed.
