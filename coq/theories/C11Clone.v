(* C11Clone.v — crash safety of Project.clone (shutil.copytree into a fresh directory of another project):
   an invariant that every continuation preserves, proved combinator by combinator (copy_file, makedirs_p,
   copytree_p over a tree of any shape and any listing order). *)
From SV Require Import Base Json MD5 Canon FS Proc Crash WsNames CorrC11 C11Proofs.
Import ListNotations.

(* every crash state of p started in a state satisfying Inv satisfies Inv *)
Definition safeK {A} (Inv : fs -> Prop) (p : prog A) : Prop := forall f g, Inv f -> crashed p f g -> Inv g.

Lemma safe_ret : forall A (Inv : fs -> Prop) (a : A), safeK Inv (Ret a).
Proof. intros A Inv a f g Hi H. apply crashed_ret_inv in H. subst. exact Hi. Qed.

Lemma safe_raise : forall A (Inv : fs -> Prop) e, safeK Inv (@Raise A e).
Proof. intros A Inv e f g Hi H. apply crashed_raise_inv in H. subst. exact Hi. Qed.

Lemma safe_do : forall A (Inv : fs -> Prop) c (k : fres val -> prog A), is_write c = false ->
  (forall f, Inv f -> Inv (fst (exec_res f c)) /\ safeK Inv (k (snd (exec_res f c)))) ->
  safeK Inv (Do c k).
Proof.
  intros A Inv c k Hw H f g Hi Hc. apply crashed_do_inv in Hc; auto. destruct Hc as [->|Hc]; auto.
  destruct (H f Hi) as [Hi' Hs]. apply (Hs _ g Hi' Hc).
Qed.

Lemma safe_write : forall A (Inv : fs -> Prop) q d (k : fres val -> prog A),
  (forall f, Inv f ->
     (forall n f', (0 < n < length (c_bytes d))%nat -> write_open f q (torn_content d n) = FOk f' -> Inv f') /\
     Inv (fst (exec_res f (CWrite q d))) /\ safeK Inv (k (snd (exec_res f (CWrite q d))))) ->
  safeK Inv (Do (CWrite q d) k).
Proof.
  intros A Inv q d k H f g Hi Hc. destruct (H f Hi) as [Ht [Hi' Hs]].
  apply crashed_write_inv in Hc. destruct Hc as [->|[[n [f' [Hn [Hw ->]]]]|Hc]]; auto.
  - eapply Ht; eauto.
  - apply (Hs _ g Hi' Hc).
Qed.

(* a call that does not change the state *)
Definition pure_call (c : call) : bool :=
  match c with CStat _ | CRead _ | CListdir _ | CClose _ | CMeta _ => true | _ => false end.

Lemma pure_fst : forall f c, pure_call c = true -> fst (exec_res f c) = f.
Proof.
  intros f c H. unfold exec_res. destruct c; simpl in H; try discriminate; simpl.
  - reflexivity.
  - destruct (get f p) as [[d|]|]; reflexivity.
  - destruct (listdir f p); reflexivity.
  - reflexivity.
  - destruct (get f p); reflexivity.
Qed.

Lemma pure_not_write : forall c, pure_call c = true -> is_write c = false.
Proof. intros c H. destruct c; simpl in *; auto; discriminate. Qed.

Lemma safe_pure : forall A (Inv : fs -> Prop) c (k : fres val -> prog A), pure_call c = true ->
  (forall f, Inv f -> safeK Inv (k (snd (exec_res f c)))) -> safeK Inv (Do c k).
Proof.
  intros A Inv c k Hp H. apply safe_do; [apply pure_not_write; auto|].
  intros f Hi. rewrite (pure_fst f c Hp). split; auto.
Qed.

Lemma safe_pure_all : forall A (Inv : fs -> Prop) c (k : fres val -> prog A), pure_call c = true ->
  (forall r, safeK Inv (k r)) -> safeK Inv (Do c k).
Proof. intros. apply safe_pure; auto. Qed.

Section CLONE.
  Variable frepr : fl -> str.
  Variable f0 : fs.
  Variables ws dws : path.
  Variable i : str.
  Let src := ws ++ [i].
  Let dst := dws ++ [i].
  Variable c0 : content.
  Hypothesis Hlen : length ws = length dws.
  Hypothesis Hdiff : ws <> dws.
  Hypothesis Hdws : get f0 dws = Some Dir.
  Hypothesis Hsp : get f0 (src ++ [SPF]) = Some (File c0).

  (* nothing outside the destination changes; the destination is absent or a directory; its state point file
     is absent, not parseable (empty / torn), or the complete copy of the source's *)
  Definition CI (g : fs) : Prop :=
    (forall q, under dst q = false -> get g q = get f0 q) /\
    (get g dst = None \/ get g dst = Some Dir) /\
    (get g (dst ++ [SPF]) = None \/
     exists c, get g (dst ++ [SPF]) = Some (File c) /\ (c_json c = None \/ c = c0)).

  Lemma src_not_under_dst : forall r, under dst (src ++ r) = false.
  Proof.
    intro r. destruct (under dst (src ++ r)) eqn:E; auto. apply under_spec in E. destruct E as [x E].
    unfold src, dst in E. rewrite <- !app_assoc in E.
    assert (H : firstn (length ws) (ws ++ [i] ++ r) = firstn (length ws) (dws ++ [i] ++ x)) by (rewrite E; reflexivity).
    rewrite firstn_app, firstn_all, Nat.sub_diag in H. simpl in H. rewrite app_nil_r in H.
    rewrite Hlen in H. rewrite firstn_app, firstn_all, Nat.sub_diag in H. simpl in H. rewrite app_nil_r in H.
    contradiction.
  Qed.

  Lemma dws_not_under_dst : under dst dws = false.
  Proof. unfold dst. apply under_snoc_self'. Qed.

  (* the first component of a relative path inside the job is not the state point file name (we never
     descend into it: in the source it is a regular file) *)
  Definition relok (rel : path) : Prop := match rel with [] => True | x :: _ => x <> SPF end.

  Lemma relok_snoc : forall rel n, relok rel -> rel <> [] -> relok (rel ++ [n]).
  Proof. intros [|x rel] n H Hn; [contradiction|]. simpl. exact H. Qed.

  Lemma dst_rel_ne_sp : forall rel, relok rel -> rel <> [] -> rel <> [SPF] /\ dst ++ rel <> dst ++ [SPF] /\ dst ++ rel <> dst.
  Proof.
    intros rel H Hn. assert (H1 : rel <> [SPF]) by (intro E; subst; simpl in H; contradiction).
    split; auto. split.
    - intro E. apply app_inv_head in E. contradiction.
    - intro E. rewrite <- (app_nil_r dst) in E at 2. apply app_inv_head in E. contradiction.
  Qed.

  (* effect of single calls on CI *)
  Lemma CI_mkdir : forall g rel, CI g -> relok rel -> CI (fst (exec_res g (CMkdir (dst ++ rel)))).
  Proof.
    intros g rel [H1 [H2 H3]] Hr. unfold exec_res. cbn [exec].
    destruct (mkdir g (dst ++ rel)) as [g'|e] eqn:E; cbn [lift fst]; [|repeat split; auto].
    assert (Hg : forall q, get g' q = if path_eqb q (dst ++ rel) then Some Dir else get g q) by (intro q; apply (get_mkdir _ _ _ q E)).
    repeat split.
    - intros q Hq. rewrite Hg. destruct (path_eqb q (dst ++ rel)) eqn:Eq; [|apply H1; auto].
      apply path_eqb_eq in Eq. subst q. rewrite under_app in Hq. discriminate.
    - rewrite Hg. destruct (path_eqb dst (dst ++ rel)); auto.
    - rewrite Hg. destruct (path_eqb (dst ++ [SPF]) (dst ++ rel)) eqn:Eq; auto.
      apply path_eqb_eq in Eq. apply app_inv_head in Eq. subst rel. simpl in Hr. contradiction.
  Qed.

  Lemma CI_set_file : forall g g' p c,
    (forall q, get g' q = if path_eqb q p then Some (File c) else get g q) ->
    CI g -> under dst p = true -> p <> dst ->
    (p = dst ++ [SPF] -> c_json c = None \/ c = c0) -> CI g'.
  Proof.
    intros g g' p c Hg [H1 [H2 H3]] Hu Hne Hc. repeat split.
    - intros q Hq. rewrite Hg. destruct (path_eqb q p) eqn:Eq; [|apply H1; auto].
      apply path_eqb_eq in Eq. subst q. congruence.
    - rewrite Hg. destruct (path_eqb dst p) eqn:Eq; auto. apply path_eqb_eq in Eq. congruence.
    - rewrite Hg. destruct (path_eqb (dst ++ [SPF]) p) eqn:Eq; auto.
      apply path_eqb_eq in Eq. right. exists c. split; auto.
  Qed.

  Lemma CI_openw : forall g p, CI g -> under dst p = true -> p <> dst -> CI (fst (exec_res g (COpenW p))).
  Proof.
    intros g p Hi Hu Hne. unfold exec_res. cbn [exec].
    destruct (write_file g p empty_content) as [g'|e] eqn:E; cbn [lift fst]; auto.
    apply (CI_set_file g g' p empty_content); auto.
    intro q. apply (get_write_file _ _ _ _ q E).
  Qed.

  Lemma CI_write_open : forall g g' p c, CI g -> under dst p = true -> p <> dst ->
    (p = dst ++ [SPF] -> c_json c = None \/ c = c0) -> write_open g p c = FOk g' -> CI g'.
  Proof.
    intros g g' p c Hi Hu Hne Hc Hw. unfold write_open in Hw.
    destruct (get g p) as [[cc|]|]; try (injection Hw as <-; exact Hi).
    apply (CI_set_file g g' p c); auto. intro q. apply (get_write_file _ _ _ _ q Hw).
  Qed.

  Lemma CI_write : forall g p c, CI g -> under dst p = true -> p <> dst ->
    (p = dst ++ [SPF] -> c_json c = None \/ c = c0) -> CI (fst (exec_res g (CWrite p c))).
  Proof.
    intros g p c Hi Hu Hne Hc. unfold exec_res. cbn [exec].
    destruct (write_open g p c) as [g'|e] eqn:E; cbn [lift fst]; auto.
    eapply CI_write_open; eauto.
  Qed.

  Context {A : Type}.

  Lemma rel_path_facts : forall rel n, under dst (dst ++ rel ++ [n]) = true /\ dst ++ rel ++ [n] <> dst.
  Proof.
    intros rel n. split; [apply under_app|]. intro E. rewrite <- (app_nil_r dst) in E at 2.
    apply app_inv_head in E. destruct rel; discriminate.
  Qed.

  Lemma safe_copy_file : forall rel n (k : fres unit -> prog A),
    (forall r, safeK CI (k r)) ->
    safeK CI (copy_file (src ++ rel ++ [n]) (dst ++ rel ++ [n]) k).
  Proof.
    intros rel n k Hk. unfold copy_file. destruct (rel_path_facts rel n) as [Hu Hne].
    apply safe_pure; [reflexivity|]. intros f Hi.
    unfold exec_res. cbn [exec].
    destruct (get f (src ++ rel ++ [n])) as [[c|]|] eqn:G; cbn [snd]; try apply Hk.
    (* the content that was read: if this is the state point file, it is the source's *)
    assert (Hc : dst ++ rel ++ [n] = dst ++ [SPF] -> c = c0).
    { intro E. apply app_inv_head in E. rewrite E in G. destruct Hi as [H1 _].
      rewrite (H1 _ (src_not_under_dst [SPF])), Hsp in G. congruence. }
    set (d := dst ++ rel ++ [n]) in *.
    assert (Hafter : forall rw : fres val, safeK CI
      (Do (CClose d) (fun rc : fres val =>
         match rw, rc with
         | _, FErr e => k (FErr e)
         | FErr e, FOk _ => k (FErr e)
         | FOk _, FOk _ =>
             Do (CMeta d) (fun m1 : fres val =>
               match m1 with
               | FErr e => k (FErr e)
               | FOk _ => Do (CMeta d) (fun m2 : fres val => match m2 with FErr e => k (FErr e) | FOk _ => k (FOk tt) end)
               end)
         end))).
    { intro rw. apply safe_pure_all; [reflexivity|]. intro rc. destruct rw, rc; try apply Hk.
      apply safe_pure_all; [reflexivity|]. intros [v1|e1]; [|apply Hk].
      apply safe_pure_all; [reflexivity|]. intros [v2|e2]; apply Hk. }
    apply safe_do; [reflexivity|]. intros g Hg. split; [apply CI_openw; auto|].
    destruct (snd (exec_res g (COpenW d))) as [v|e]; [|apply Hk]. cbv beta zeta.
    destruct (c_bytes c) eqn:Eb; [apply (Hafter (FOk RUnit))|].
    apply safe_write. intros h Hh. split; [|split].
    - intros m h' Hm Hw. apply (CI_write_open h h' d (torn_content c m)); auto.
    - apply CI_write; auto.
    - apply Hafter.
  Qed.

  Lemma relok_prefix : forall rel x, relok (rel ++ [x]) -> relok rel.
  Proof. intros [|y rel] x H; simpl in *; auto. Qed.

  Lemma safe_makedirs : forall fuel ok rel (k : fres unit -> prog A),
    relok rel -> (forall r, safeK CI (k r)) -> safeK CI (makedirs_p fuel ok (dst ++ rel) k).
  Proof.
    induction fuel as [|fuel IH]; intros ok rel k Hr Hk.
    - simpl. apply safe_do; [reflexivity|]. intros f Hi. split; [apply CI_mkdir; auto|].
      destruct (snd (exec_res f (CMkdir (dst ++ rel)))) as [v|e]; [apply Hk|].
      destruct ok; [|apply Hk]. apply safe_pure_all; [reflexivity|]. intro r2. destruct (is_dir_r r2); apply Hk.
    - rewrite makedirs_p_unfold. cbv zeta.
      assert (Hleaf : safeK CI (Do (CMkdir (dst ++ rel)) (fun r =>
                match r with
                | FOk _ => k (FOk tt)
                | FErr e => if ok then Do (CStat (dst ++ rel)) (fun r2 => if is_dir_r r2 then k (FOk tt) else k (FErr e))
                            else k (FErr e)
                end))).
      { apply safe_do; [reflexivity|]. intros f Hi. split; [apply CI_mkdir; auto|].
        destruct (snd (exec_res f (CMkdir (dst ++ rel)))) as [v|e]; [apply Hk|].
        destruct ok; [|apply Hk]. apply safe_pure_all; [reflexivity|]. intro r2. destruct (is_dir_r r2); apply Hk. }
      destruct (parent (dst ++ rel)) as [|a [|b l]] eqn:Ep; auto.
      apply safe_pure; [reflexivity|]. intros f Hi. rewrite exec_res_stat. cbn [snd].
      destruct (exists_r (FOk (RKind (kind_of (get f (a :: b :: l)))))) eqn:Ex; auto.
      (* the parent does not exist: it lies below the destination (the workspace itself exists) *)
      destruct rel as [|x rel'] using rev_ind.
      + exfalso. rewrite app_nil_r in Ep. unfold dst in Ep. rewrite parent_snoc in Ep. rewrite <- Ep in Ex.
        destruct Hi as [H1 _]. rewrite (H1 _ dws_not_under_dst), Hdws in Ex. discriminate.
      + rewrite app_assoc, parent_snoc in Ep. rewrite <- Ep.
        apply IH; [eapply relok_prefix; eauto|]. intros [u|e]; auto. destruct e; auto.
  Qed.

  Lemma safe_copytree : forall fuel rel (k : fres bool -> prog A),
    relok rel -> (forall r, safeK CI (k r)) -> safeK CI (copytree_p fuel (src ++ rel) (dst ++ rel) k).
  Proof.
    induction fuel as [|fuel IH]; intros rel k Hr Hk.
    - cbn [copytree_p]. apply safe_pure_all; [reflexivity|]. intros [v|e]; [|apply Hk]. destruct v; try apply Hk.
      apply safe_makedirs; auto. intros [u|e]; [|apply Hk].
      generalize false as errs. induction l as [|n ns IHn]; intro errs.
      + apply safe_pure_all; [reflexivity|]. intros [v1|e1]; [|apply Hk].
        apply safe_pure_all; [reflexivity|]. intros [v2|e2]; apply Hk.
      + apply safe_pure_all; [reflexivity|]. intro rk. destruct (is_dir_r rk); [apply IHn|].
        rewrite <- !app_assoc. apply safe_copy_file. intros [u1|e1]; apply IHn.
    - cbn [copytree_p]. apply safe_pure_all; [reflexivity|]. intros [v|e]; [|apply Hk]. destruct v; try apply Hk.
      apply safe_makedirs; auto. intros [u|e]; [|apply Hk].
      generalize false as errs. induction l as [|n ns IHn]; intro errs.
      + apply safe_pure_all; [reflexivity|]. intros [v1|e1]; [|apply Hk].
        apply safe_pure_all; [reflexivity|]. intros [v2|e2]; apply Hk.
      + apply safe_pure; [reflexivity|]. intros f Hi. rewrite exec_res_stat. cbn [snd].
        destruct (is_dir_r (FOk (RKind (kind_of (get f ((src ++ rel) ++ [n])))))) eqn:Ed.
        * assert (Hr' : relok (rel ++ [n])).
          { destruct rel as [|y rel']; [|exact Hr]. simpl. intro En. subst n.
            rewrite app_nil_r in Ed. destruct Hi as [H1 _].
            rewrite (H1 _ (src_not_under_dst [SPF])), Hsp in Ed. discriminate. }
          rewrite <- !app_assoc. apply IH; auto. intros [e1|e1]; apply IHn.
        * rewrite <- !app_assoc. apply safe_copy_file. intros [u1|e1]; apply IHn.
  Qed.
End CLONE.

(* ------------------------------------------------------------------ the theorem *)
Lemma crashed_pure_inv : forall A c (k : fres val -> prog A) f g, pure_call c = true ->
  crashed (Do c k) f g -> g = f \/ crashed (k (snd (exec_res f c))) f g.
Proof.
  intros A c k f g Hp H. apply crashed_do_inv in H; [|apply pure_not_write; auto].
  rewrite (pure_fst f c Hp) in H. exact H.
Qed.

Lemma clone_exists_states : forall A f0 (src dws : path) (i : str) (k : fres bool -> prog A) g,
  get f0 (dws ++ [i]) <> None -> get f0 dws = Some Dir ->
  (forall r, crashed (k r) f0 g -> g = f0) ->
  crashed (copytree_p 6 src (dws ++ [i]) k) f0 g -> g = f0.
Proof.
  intros A f0 src dws i k g Hex Hdws Hk H. cbn [copytree_p] in H.
  apply crashed_pure_inv in H; [|reflexivity]. destruct H as [->|H]; auto.
  destruct (snd (exec_res f0 (CListdir src))) as [v|e]; [|apply (Hk _ H)].
  destruct v; try apply (Hk _ H).
  assert (Hleaf : forall kont : fres val -> prog A,
            crashed (Do (CMkdir (dws ++ [i])) kont) f0 g ->
            (forall e, crashed (kont (FErr e)) f0 g -> g = f0) -> g = f0).
  { intros kont Hc Hkk. apply crashed_do_inv in Hc; [|reflexivity]. destruct Hc as [->|Hc]; auto.
    assert (E : exec_res f0 (CMkdir (dws ++ [i])) = (f0, FErr EEXIST)).
    { unfold exec_res. cbn [exec]. unfold mkdir. destruct (get f0 (dws ++ [i])); [reflexivity|contradiction]. }
    rewrite E in Hc. cbn [fst snd] in Hc. apply (Hkk _ Hc). }
  rewrite makedirs_p_unfold in H. cbv zeta in H. rewrite parent_snoc in H.
  destruct dws as [|a [|b l0]].
  - apply (Hleaf _ H). intros e Hc. cbn beta iota in Hc. apply (Hk _ Hc).
  - apply (Hleaf _ H). intros e Hc. cbn beta iota in Hc. apply (Hk _ Hc).
  - apply crashed_pure_inv in H; [|reflexivity]. destruct H as [->|H]; auto.
    rewrite exec_res_stat, Hdws in H. cbn [snd kind_of exists_r] in H.
    apply (Hleaf _ H). intros e Hc. cbn beta iota in Hc. apply (Hk _ Hc).
Qed.

Theorem crash_safe_clone_thm : forall frepr wss f0 ws dws i atomic g,
  WInv frepr wss f0 -> In ws wss -> In dws wss -> ws <> dws -> In i (job_dirs f0 ws) ->
  crash_states (op_prog frepr atomic (KClone ws i dws)) f0 g ->
  CInv frepr (KClone ws i dws) wss f0 g.
Proof.
  intros frepr wss f0 ws dws i atomic g HW Hws Hdwsin Hdiff Hi H.
  destruct (winv_job frepr wss f0 ws i HW Hws Hi) as [Hsd [c0 [v0 [G [J E]]]]].
  pose proof HW as [Hnd [Hnil [Hcl [Hlen Hv]]]].
  assert (Hdws : get f0 dws = Some Dir) by (apply (Hv dws Hdwsin)).
  assert (Hspv : sp_value f0 ws i = Some v0) by (rewrite sp_value_dir, G; exact J).
  set (o := KClone ws i dws). set (src := ws ++ [i]) in *. set (dst := dws ++ [i]).
  assert (Hdd : dst_dir frepr o f0 = dst) by (unfold dst_dir, o; rewrite Hspv, E; reflexivity).
  assert (Haff : affected frepr o f0 = if exists_ f0 dst then [] else [dst]).
  { unfold affected. fold o. rewrite Hdd. reflexivity. }
  assert (Hhist : history frepr o f0 = [v0]) by (unfold history, o; rewrite Hspv; reflexivity).
  (* the program after the state point has been read *)
  unfold op_prog, o, job_clone, with_sp, sp_load in H.
  replace (ws ++ [i; SPF]) with (src ++ [SPF]) in H by (unfold src; rewrite <- app_assoc; reflexivity).
  apply crashed_pure_inv in H; [|reflexivity].
  assert (Hpre : CInv frepr o wss f0 f0).
  { apply cinv_intro; auto.
    - rewrite Haff. intros x Hx. destruct (exists_ f0 dst); [contradiction|]. destruct Hx as [<-|[]]. exists dws, i. auto.
    - right. intros r c Hp Hg. cbn [o src_dir] in Hg. cbn. rewrite (holds_file_get _ _ _ _ Hg). reflexivity.
    - rewrite Haff. intros x Hx. destruct (exists_ f0 dst) eqn:Ex; [contradiction|]. destruct Hx as [<-|[]].
      left. unfold exists_ in Ex. destruct (get f0 dst); [discriminate|reflexivity].
    - rewrite Haff. intros w j Hw Hin Hval. destruct (exists_ f0 dst) eqn:Ex; [contradiction|]. destruct Hin as [Ed|[]].
      rewrite validates_dir, <- Ed in Hval. unfold exists_ in Ex.
      destruct (get f0 dst) eqn:Gd; [discriminate|]. rewrite (closed_absent f0 dst Hcl Gd [SPF]) in Hval. discriminate. }
  destruct H as [->|H]; [exact Hpre|].
  assert (E0 : exec_res f0 (CRead (src ++ [SPF])) = (f0, FOk (RData c0))) by (unfold exec_res; cbn [exec]; rewrite G; reflexivity).
  rewrite E0 in H. cbn [snd] in H. rewrite J, E, str_eqb_refl in H. fold src dst in H.
  destruct (get f0 dst) as [nd|] eqn:Gd.
  - (* the destination exists: DestinationExistsError, nothing happens *)
    assert (Hg : g = f0).
    { eapply (clone_exists_states _ f0 src dws i); [fold dst; congruence|exact Hdws| |exact H].
      intros r Hc. destruct r as [[|]|e]; cbn in Hc;
        try (apply crashed_ret_inv in Hc; exact Hc); try (apply crashed_raise_inv in Hc; exact Hc).
      destruct e; cbn in Hc; apply crashed_raise_inv in Hc; exact Hc. }
    subst g. exact Hpre.
  - (* fresh destination *)
    assert (Hci0 : CI f0 dws i c0 f0).
    { unfold CI. fold src dst. repeat split; auto. left. apply (closed_absent f0 dst Hcl Gd [SPF]). }
    assert (Hsafe : CI f0 dws i c0 g).
    { rewrite <- (app_nil_r src), <- (app_nil_r dst) in H.
      eapply (@safe_copytree f0 ws dws i c0 (Hlen ws dws Hws Hdwsin) Hdiff Hdws G unit 6 []);
        [exact I| |exact Hci0|exact H].
      intros [[|]|e0]; [apply safe_raise|apply safe_ret|destruct e0; apply safe_raise]. }
    destruct Hsafe as [H1 [H2 H3]]. fold src dst in H1, H2, H3.
    assert (Hex : exists_ f0 dst = false) by (unfold exists_; rewrite Gd; reflexivity).
    apply cinv_intro; auto.
    + rewrite Haff, Hex. intros x [<-|[]]. exists dws, i. auto.
    + rewrite Haff, Hex. intros p Hp. apply under_any_false_cons in Hp. destruct Hp as [Hp _]. apply H1. exact Hp.
    + right. intros r c Hp Hg. cbn [o src_dir] in Hg. fold src in Hg. cbn.
      fold src. rewrite (holds_file_get g src r c); [reflexivity|].
      rewrite H1; [exact Hg|]. apply (src_not_under_dst ws dws i (Hlen ws dws Hws Hdwsin) Hdiff).
    + rewrite Haff, Hex. intros x [<-|[]]. exact H2.
    + rewrite Haff, Hex. intros w j Hw [Ed|[]] Hval. rewrite Hhist.
      rewrite validates_dir, <- Ed in Hval. rewrite sp_value_dir, <- Ed.
      destruct H3 as [Hn|[c [Hc Hj]]]; [rewrite Hn in Hval; discriminate|].
      rewrite Hc in *. destruct Hj as [Hj|Hj]; [rewrite Hj in Hval; discriminate|]. subst c.
      exists v0. split; auto. simpl. rewrite json_same_refl. reflexivity.
Qed.
