(* C06Proofs.v — assembly of the exactness theorem and the refutation witnesses. *)
From SV Require Import Base Json PyVal PyValProofs Query QueryProofs.

Section Final.
  Variable regex_search : str -> str -> bool.
  Variable isclose : (Z * Z) -> (Z * Z) -> (Z * Z) -> (Z * Z) -> bool.

  (* under every key, two jobs' values share an index slot only if they are identical *)
  Definition NoSlotMerge (c : corpus) : Prop := forall key, SlotInj (map snd (kvals c key)).
  Definition SlotRefl (c : corpus) : Prop := forall key v, In v (map snd (kvals c key)) -> slot_eq v v = true.

  (* a leaf expression is an operator expression, or an implicit equality whose probes
     (int(value) and _float(value) for integer-valued numbers, else the value) do not share a slot
     with a different value of the corpus *)
  Definition GoodLeaf (c : corpus) (key : str) (value : json) : Prop :=
    contains_char dollar key = true \/
    (probe_normal value = true /\
     forall v p, In v (map snd (kvals c key)) -> In p (probes value) -> slot_eq v p = true -> v = p).

  Lemma ExprOK_GoodLeaf : forall c, NoDup (map fst c) -> NoSlotMerge c -> SlotRefl c ->
    ExprOK regex_search isclose (GoodLeaf c) c.
  Proof.
    intros c Hnd Hs Hr key value R HP H i d Hin.
    destruct (contains_char dollar key) eqn:Ed.
    - eapply find_expression_exact_ops; eauto.
    - destruct HP as [HP|[Hpn Hpi]]; [congruence|].
      eapply find_expression_exact_eq; eauto.
  Qed.

  Theorem find_exact_partial : forall c fuel expr R,
    NoDup (map fst c) -> NoSlotMerge c -> SlotRefl c ->
    AllLeaves (GoodLeaf c) fuel expr ->
    find_result regex_search isclose fuel c expr = Ok R ->
    forall i d, In (i, d) c -> matches regex_search isclose true fuel d expr = Ok (mem i R).
  Proof.
    intros c fuel expr R Hnd Hs Hr HA H i d Hin.
    eapply find_result_exact; eauto. apply ExprOK_GoodLeaf; auto.
  Qed.

  (* a job's membership depends only on its own data: two corpora containing the same job agree on it *)
  Theorem find_local : forall c c' fuel expr R R' i d,
    NoDup (map fst c) -> NoSlotMerge c -> SlotRefl c -> AllLeaves (GoodLeaf c) fuel expr ->
    NoDup (map fst c') -> NoSlotMerge c' -> SlotRefl c' -> AllLeaves (GoodLeaf c') fuel expr ->
    find_result regex_search isclose fuel c expr = Ok R ->
    find_result regex_search isclose fuel c' expr = Ok R' ->
    In (i, d) c -> In (i, d) c' -> mem i R = mem i R'.
  Proof.
    intros c c' fuel expr R R' i d H1 H2 H3 H4 H1' H2' H3' H4' HR HR' Hin Hin'.
    pose proof (find_exact_partial c fuel expr R H1 H2 H3 H4 HR i d Hin) as E1.
    pose proof (find_exact_partial c' fuel expr R' H1' H2' H3' H4' HR' i d Hin') as E2.
    rewrite E1 in E2. inversion E2. reflexivity.
  Qed.
End Final.

(* SlotRefl follows from well-formedness (distinct keys at every level) of the indexed documents *)
Lemma wf_lookup_path : forall nodes v x, wf v = true -> lookup_path v nodes = Some x -> wf x = true.
Proof.
  induction nodes as [|n nodes IH]; intros v x Hw H; simpl in H.
  - inversion H; subst. exact Hw.
  - destruct v; try discriminate. destruct (alookup n kvs) as [y|] eqn:E; [|discriminate].
    apply (IH y x); auto. destruct (wf_obj_inv _ Hw) as [_ Hall]. rewrite Forall_forall in Hall.
    apply (Hall (n, y)). apply alookup_In. exact E.
Qed.

Lemma wf_as_key : forall v, wf v = true -> wf (as_key v) = true.
Proof. destruct v; simpl; auto. Qed.

Lemma SlotRefl_wf : forall c, Forall (fun jd => wf (snd jd) = true) c -> SlotRefl c.
Proof.
  intros c Hall key v Hv. apply slot_eq_refl.
  apply in_map_iff in Hv. destruct Hv as [[i k] [Hk Hin]]. simpl in Hk. subst k.
  unfold kvals in Hin. apply in_flat_map in Hin. destruct Hin as [[i' d] [Hd Hx]]. simpl in Hx.
  destruct (lookup_path d (split_on dot key)) as [x|] eqn:El; simpl in Hx; [|tauto].
  destruct Hx as [Hx|[]]. inversion Hx; subst. apply wf_as_key.
  rewrite Forall_forall in Hall. apply (wf_lookup_path (split_on dot key) d x); auto. apply (Hall (i, d) Hd).
Qed.

(* ---------- refutation witnesses: NoSlotMerge cannot be dropped for the current code ---------- *)
Definition no_regex (_ _ : str) : bool := false.
Definition no_isclose (_ _ _ _ : Z * Z) : bool := false.

Definition key_a : str := [97%N].
Definition job_of (i : N) (v : json) : job := {| j_id := [i]; j_sp := JObj [(key_a, v)]; j_doc := None |}.
Definition type_filter (t : str) : json := JObj [(key_a, JObj [(s_type, JStr t)])].

(* True and 1 under one key: {'a': {'$type': 'bool'}} also returns the int job *)
Lemma refuted_bool_int :
  let jobs := [job_of 1 (JBool true); job_of 2 (JInt 1)] in
  let f := type_filter t_bool in
  exists R, find_job_ids no_regex no_isclose 8 jobs f = Ok R /\ mem [2%N] R = true /\
            job_matches no_regex no_isclose true 8 f (job_of 2 (JInt 1)) = Ok false.
Proof. eexists. vm_compute. repeat split; reflexivity. Qed.

(* -1 and -1.0 under one key: {'a': {'$type': 'float'}} misses the float job *)
Lemma refuted_m1_float :
  let jobs := [job_of 1 (JInt (-1)); job_of 2 (JFloat ((-1)%Z, 0%Z))] in
  let f := type_filter t_float in
  exists R, find_job_ids no_regex no_isclose 8 jobs f = Ok R /\ mem [2%N] R = false /\
            job_matches no_regex no_isclose true 8 f (job_of 2 (JFloat ((-1)%Z, 0%Z))) = Ok true.
Proof. eexists. vm_compute. repeat split; reflexivity. Qed.

(* the result for job 2 depends on whether job 1 exists: locality fails without NoSlotMerge *)
Lemma refuted_locality :
  let f := type_filter t_float in
  let j2 := job_of 2 (JFloat ((-1)%Z, 0%Z)) in
  exists R R', find_job_ids no_regex no_isclose 8 [job_of 1 (JInt (-1)); j2] f = Ok R /\
               find_job_ids no_regex no_isclose 8 [j2] f = Ok R' /\
               mem [2%N] R = false /\ mem [2%N] R' = true.
Proof. eexists. eexists. vm_compute. repeat split; reflexivity. Qed.

(* non-vacuity: a two-job corpus with an int and a string satisfies all hypotheses *)
Example hypotheses_satisfiable :
  let c : corpus := [([1%N], JObj [(s_sp, JObj [(key_a, JInt 5)])]); ([2%N], JObj [(s_sp, JObj [(key_a, JStr [120%N])])])] in
  NoDup (map fst c) /\ Forall (fun jd => wf (snd jd) = true) c.
Proof.
  simpl. split.
  - constructor; [simpl; intros [H|[]]; discriminate|constructor; [intros []|constructor]].
  - repeat constructor.
Qed.

(* ---------- $not / $and / $or are complement / intersection / union of operand results ---------- *)
Section Logical.
  Variable rs : str -> str -> bool.
  Variable ic : (Z * Z) -> (Z * Z) -> (Z * Z) -> (Z * Z) -> bool.

  Lemma find_not : forall fuel c e nm, e <> JNull ->
    find_result rs ic fuel c e = Ok nm ->
    exists R, find_result rs ic (Datatypes.S fuel) c (JObj [(s_not, e)]) = Ok R /\
              forall i, mem i R = mem i (all_ids c) && negb (mem i nm).
  Proof.
    intros fuel c e nm Hne H.
    assert (Hnn : not_null (Some e) = Some e) by (destruct e; try reflexivity; contradiction).
    cbn [find_result]. 
    change (alookup s_not [(s_not, e)]) with (Some e).
    change (alookup s_and [(s_not, e)]) with (@None json).
    change (alookup s_or [(s_not, e)]) with (@None json).
    change (strip_logical [(s_not, e)]) with (@nil (str * json)).
    rewrite Hnn. cbn [flatten exprs_loop then_stage bind fst snd not_null is_nil is_none andb].
    unfold not_stage_idx. rewrite H. cbn [bind then_stage fst snd reduce].
    destruct (is_empty (Some (diff (all_ids c) nm))) eqn:Ee.
    - exists []. split; [reflexivity|]. intro i.
      destruct (diff (all_ids c) nm) eqn:Ed; [|discriminate]. rewrite <- mem_diff, Ed. reflexivity.
    - cbn [and_stage_idx bind then_stage fst snd or_final_idx].
      exists (diff (all_ids c) nm). split; [reflexivity|]. intro i. apply mem_diff.
  Qed.

  Lemma find_and2 : forall fuel c a b Ra Rb,
    find_result rs ic fuel c a = Ok Ra -> find_result rs ic fuel c b = Ok Rb ->
    exists R, find_result rs ic (Datatypes.S fuel) c (JObj [(s_and, JArr [a; b])]) = Ok R /\
              forall i, mem i R = mem i Ra && mem i Rb.
  Proof.
    intros fuel c a b Ra Rb Ha Hb.
    cbn [find_result].
    change (alookup s_not [(s_and, JArr [a; b])]) with (@None json).
    change (alookup s_and [(s_and, JArr [a; b])]) with (Some (JArr [a; b])).
    change (alookup s_or [(s_and, JArr [a; b])]) with (@None json).
    change (strip_logical [(s_and, JArr [a; b])]) with (@nil (str * json)).
    cbn [flatten exprs_loop then_stage bind fst snd not_null is_nil is_none andb not_stage_idx
         and_stage_idx check_logical_arg and_loop_idx].
    rewrite Ha. cbn [bind reduce].
    destruct Ra as [|x Ra'].
    - cbn [is_empty then_stage bind snd fst]. exists []. split; [reflexivity|]. intro i. reflexivity.
    - cbn [is_empty and_loop_idx]. rewrite Hb. cbn [bind reduce].
      assert (Hmi : forall i, mem i (inter (x :: Ra') Rb) = mem i (x :: Ra') && mem i Rb) by (intro; apply mem_inter).
      destruct (inter (x :: Ra') Rb) as [|y R'].
      + cbn [is_empty then_stage bind snd fst]. exists []. split; [reflexivity|]. exact Hmi.
      + cbn [is_empty and_loop_idx then_stage bind snd fst or_final_idx].
        exists (y :: R'). split; [reflexivity|]. exact Hmi.
  Qed.

  Lemma find_or2 : forall fuel c a b Ra Rb,
    find_result rs ic fuel c a = Ok Ra -> find_result rs ic fuel c b = Ok Rb ->
    exists R, find_result rs ic (Datatypes.S fuel) c (JObj [(s_or, JArr [a; b])]) = Ok R /\
              forall i, mem i R = mem i Ra || mem i Rb.
  Proof.
    intros fuel c a b Ra Rb Ha Hb.
    cbn [find_result].
    change (alookup s_not [(s_or, JArr [a; b])]) with (@None json).
    change (alookup s_and [(s_or, JArr [a; b])]) with (@None json).
    change (alookup s_or [(s_or, JArr [a; b])]) with (Some (JArr [a; b])).
    change (strip_logical [(s_or, JArr [a; b])]) with (@nil (str * json)).
    cbn [flatten exprs_loop then_stage bind fst snd not_null is_nil is_none andb not_stage_idx
         and_stage_idx or_final_idx check_logical_arg or_loop_idx].
    unfold or_final_idx. cbn [check_logical_arg bind or_loop_idx].
    rewrite Ha. cbn [bind or_loop_idx]. rewrite Hb. cbn [bind or_loop_idx reduce].
    eexists. split; [reflexivity|]. intro i. rewrite !mem_union. reflexivity.
  Qed.
End Logical.

(* ---------- top level: Project._find_job_ids against per-job evaluation ---------- *)
Section Top.
  Variable rs : str -> str -> bool.
  Variable ic : (Z * Z) -> (Z * Z) -> (Z * Z) -> (Z * Z) -> bool.

  Lemma job_doc_same : forall inc j, (inc = true \/ j_doc j = None) -> job_doc inc j = job_doc true j.
  Proof.
    intros inc j [->|H]; [reflexivity|]. unfold job_doc. rewrite H. reflexivity.
  Qed.

  (* Partial: proved when documents are indexed or absent; the remaining case (documents present but
     not indexed because no leaf key lies in the doc namespace) needs the lemma that such filters
     never read the "doc" entry, which is not proved yet. *)
  Theorem find_job_ids_exact_partial : forall fuel jobs f pf R,
    is_empty_filter f = false ->
    add_prefix fuel f = Ok pf ->
    let inc := str_mem s_doc (root_keys fuel pf) in
    let c := map (job_doc inc) jobs in
    (inc = true \/ forall j, In j jobs -> j_doc j = None) ->
    NoDup (map fst c) -> NoSlotMerge c -> SlotRefl c -> AllLeaves (GoodLeaf c) fuel pf ->
    find_job_ids rs ic fuel jobs f = Ok R ->
    forall j, In j jobs -> job_matches rs ic true fuel f j = Ok (mem (j_id j) R).
  Proof.
    intros fuel jobs f pf R Hne Hpf inc c Hdoc Hnd Hs Hr HA H j Hj.
    unfold find_job_ids in H. unfold job_matches. rewrite Hne, Hpf in *. simpl in H. simpl.
    fold inc in H. fold c in H.
    assert (Hsame : job_doc inc j = job_doc true j).
    { apply job_doc_same. destruct Hdoc as [Hd|Hd]; [left; exact Hd|right; apply Hd; exact Hj]. }
    change (JObj ((s_sp, j_sp j) :: match j_doc j with Some d => [(s_doc, d)] | None => [] end))
      with (snd (job_doc true j)).
    rewrite <- Hsame.
    assert (Hin : In (j_id j, snd (job_doc inc j)) c).
    { unfold c. change (j_id j, snd (job_doc inc j)) with (job_doc inc j). apply in_map. exact Hj. }
    apply (find_exact_partial rs ic c fuel pf R Hnd Hs Hr HA H _ _ Hin).
  Qed.
End Top.

(* ================= the exactness theorem with purely syntactic side conditions ================= *)
From SV Require Import PyEqEquiv.

(* a leaf is an operator expression, or an implicit equality on a mapping-free value with normalised floats *)
Definition PlainLeaf (key : str) (value : json) : Prop :=
  contains_char dollar key = true \/ (flatv value = true /\ probe_normal value = true).

Definition ValuesOk (c : corpus) : Prop := forall key v, In v (map snd (kvals c key)) -> okv v = true.

(* well-formed data: lists hold no mappings, floats are normalised *)
Fixpoint deep_ok (v : json) : bool :=
  match v with
  | JObj kvs => forallb (fun kv => deep_ok (snd kv)) kvs
  | JArr l => forallb flatv l
  | JFloat (m, e) => (0 <=? e)%Z || Z.odd m
  | _ => true
  end.

Lemma deep_ok_lookup : forall nodes v x, deep_ok v = true -> lookup_path v nodes = Some x -> deep_ok x = true.
Proof.
  induction nodes as [|n nodes IH]; intros v x Hv H; simpl in H.
  - inversion H; subst. exact Hv.
  - destruct v; try discriminate. destruct (alookup n kvs) as [y|] eqn:E; [|discriminate].
    apply (IH y x); auto. simpl in Hv. rewrite forallb_forall in Hv. apply (Hv (n, y)). apply alookup_In. exact E.
Qed.

Lemma deep_ok_okv : forall x, deep_ok x = true -> okv (as_key x) = true.
Proof.
  intros x H. destruct x as [| | |[m e]| |l|kvs]; try reflexivity.
  - unfold okv. simpl in *. rewrite H. reflexivity.
  - unfold okv. simpl in *. rewrite H. reflexivity.
Qed.

Lemma ValuesOk_deep : forall c, Forall (fun jd => deep_ok (snd jd) = true) c -> ValuesOk c.
Proof.
  intros c Hall key v Hv.
  apply in_map_iff in Hv. destruct Hv as [[i k] [Hk Hin]]. simpl in Hk. subst k.
  unfold kvals in Hin. apply in_flat_map in Hin. destruct Hin as [[i' d] [Hd Hx]]. simpl in Hx.
  destruct (lookup_path d (split_on dot key)) as [x|] eqn:El; simpl in Hx; [|tauto].
  destruct Hx as [Hx|[]]. inversion Hx; subst. apply deep_ok_okv.
  rewrite Forall_forall in Hall. apply (deep_ok_lookup (split_on dot key) d x); auto. apply (Hall (i, d) Hd).
Qed.

Section Final2.
  Variable regex_search : str -> str -> bool.
  Variable isclose : (Z * Z) -> (Z * Z) -> (Z * Z) -> (Z * Z) -> bool.

  Lemma ExprOK_PlainLeaf : forall c, NoDup (map fst c) -> NoSlotMerge c -> SlotRefl c -> ValuesOk c ->
    ExprOK regex_search isclose PlainLeaf c.
  Proof.
    intros c Hnd Hs Hr Hok key value R HP H i d Hin.
    destruct (contains_char dollar key) eqn:Ed.
    - eapply find_expression_exact_ops; eauto.
    - destruct HP as [HP|[Hf Hpn]]; [congruence|].
      eapply find_expression_exact_eq_full; eauto.
  Qed.

  (* find_result = per-job evaluation whenever no two different values share an index slot;
     the remaining hypotheses are well-formedness of data and filter *)
  Theorem find_exact : forall c fuel expr R,
    NoDup (map fst c) -> NoSlotMerge c ->
    Forall (fun jd => wf (snd jd) = true) c -> Forall (fun jd => deep_ok (snd jd) = true) c ->
    AllLeaves PlainLeaf fuel expr ->
    find_result regex_search isclose fuel c expr = Ok R ->
    forall i d, In (i, d) c -> matches regex_search isclose true fuel d expr = Ok (mem i R).
  Proof.
    intros c fuel expr R Hnd Hs Hwf Hdeep HA H i d Hin.
    eapply find_result_exact; eauto. apply ExprOK_PlainLeaf; auto.
    - apply SlotRefl_wf. exact Hwf.
    - apply ValuesOk_deep. exact Hdeep.
  Qed.
End Final2.
