(* SyncIdemProofs.v — repeating a successful file walk changes nothing (C13, sync_idempotent). *)
From SV Require Import Base Json Canon Sync SyncObs SyncProofs.

Lemma run_steps_fix : forall A (f : A -> dir -> wstate) l d,
  (forall x, In x l -> f x d = (d, None)) -> run_steps f l d = (d, None).
Proof.
  induction l as [|x l IH]; intros d H; [reflexivity|].
  simpl. rewrite (H x (or_introl eq_refl)). apply IH. intros; apply H; right; assumption.
Qed.

Lemma bytes_eqb_refl : forall b, bytes_eqb b b = true.
Proof. intro. unfold bytes_eqb. apply list_eqb_eq; [intros; apply N.eqb_eq|reflexivity]. Qed.

Lemma depth_entry : forall n es x, alookup n es = Some x -> (depth x < depth (Dir es))%nat.
Proof.
  intros n es x H. simpl. apply alookup_In in H.
  induction es as [|[k y] es IH]; [destruct H|].
  destruct H as [Heq|Hin].
  - inversion Heq; subst. lia.
  - specialize (IH Hin). lia.
Qed.

Section Idem.
  Variable frepr : fl -> str.
  Variable cf : cfg.
  Notation excluded := (excluded cf).
  Notation sync_ws := (sync_ws frepr cf).
  Notation classify := (classify frepr).

  Lemma file_same_copy : forall deep c m m', file_same frepr deep c m c m' = true.
  Proof. intros. unfold file_same. rewrite bytes_eqb_refl. apply orb_true_r. Qed.

  (* every loop body is the identity on d and no kind clash stops the walk: the walk returns d *)
  Lemma sync_ws_fix : forall fuel o deep sdir d subdir,
    (forall n, In n (names cf sdir) -> classify deep n sdir d = LeftOnly -> step1 cf o sdir n d = (d, None)) ->
    (forall n, In n (names cf sdir) -> classify deep n sdir d = Diff -> step2 cf o sdir subdir n d = (d, None)) ->
    (fix_funny cf = true -> forall n, In n (names cf sdir) -> classify deep n sdir d = Funny -> excluded o n = true) ->
    (forall n, In n (names cf sdir) -> classify deep n sdir d = SubDir ->
               step3 (sync_ws fuel (set_top o false) deep) o sdir subdir n d = (d, None)) ->
    sync_ws (S fuel) o deep sdir d subdir = (d, None).
  Proof.
    intros fuel o deep sdir d subdir H1 H2 H4 H3. rewrite sync_ws_S.
    rewrite run_steps_fix by (intros n Hin; apply of_cls_In in Hin; destruct Hin; apply H1; assumption).
    rewrite run_steps_fix by (intros n Hin; apply of_cls_In in Hin; destruct Hin; apply H2; assumption).
    assert (Hf : funny_err frepr cf o deep sdir d = false).
    { unfold funny_err. destruct (fix_funny cf) eqn:Eff; [|reflexivity]. simpl. specialize (H4 eq_refl).
      destruct (existsb (fun n => negb (excluded o n)) (of_cls frepr cf deep sdir d Funny)) eqn:E; [|reflexivity].
      apply existsb_exists in E. destruct E as (n & Hin & Hn). apply of_cls_In in Hin. destruct Hin as [Hin Hc].
      rewrite (H4 n Hin Hc) in Hn. discriminate. }
    rewrite Hf.
    apply run_steps_fix. intros n Hin. apply of_cls_In in Hin. destruct Hin. apply H3; assumption.
  Qed.

  (* below the top level (and before 2602a0e everywhere) the walk skips what copytree's ignore function skips *)
  Lemma excluded_nontop : forall o n, o_top o = false -> excluded o n = tree_excl cf o n.
  Proof.
    intros o n H. unfold Sync.excluded, tree_excl. destruct (fix_own cf); [|reflexivity].
    rewrite H. simpl. apply orb_false_r.
  Qed.

  (* the directory copytree produced, [ex] being its ignore predicate *)
  Definition copied (ex : str -> bool) (es : dir) : dir :=
    touch_list (if fix_excl cf then prune_list ex es else es).

  Lemma copied_node : forall ex es,
    touch (if fix_excl cf then prune ex (Dir es) else Dir es) = Dir (copied ex es).
  Proof. intros. unfold copied. destruct (fix_excl cf); reflexivity. Qed.

  Lemma alookup_copied : forall ex es n,
    alookup n (copied ex es) =
    if fix_excl cf && ex n then None
    else match alookup n es with
         | Some x => Some (touch (if fix_excl cf then prune ex x else x))
         | None => None
         end.
  Proof.
    intros. unfold copied. rewrite alookup_touch_list. destruct (fix_excl cf); simpl.
    - rewrite alookup_prune_list. destruct (ex n); [reflexivity|]. destruct (alookup n es); reflexivity.
    - destruct (alookup n es); reflexivity.
  Qed.

  (* walking a source directory (below the top level) against its own fresh copy does nothing *)
  Lemma ws_copied_stable : forall fuel o deep es subdir,
    o_top o = false ->
    wf_node (Dir es) = true -> (depth (Dir es) < fuel)%nat ->
    sync_ws fuel o deep es (copied (tree_excl cf o) es) subdir = (copied (tree_excl cf o) es, None).
  Proof.
    induction fuel as [|fuel IH]; intros o deep es subdir Htop Hwf Hd; [lia|].
    destruct (wf_dir_inv _ Hwf) as [Hnd Hsub].
    apply sync_ws_fix.
    - intros n Hin Hc. apply classify_LeftOnly in Hc. rewrite alookup_copied in Hc.
      apply names_In in Hin. destruct Hin as [Hin _].
      unfold step1. destruct (excluded o n) eqn:Ex; [reflexivity|].
      rewrite (excluded_nontop o n Htop) in Ex. rewrite Ex, andb_false_r in Hc.
      destruct (alookup n es) eqn:E; [discriminate|].
      apply alookup_None_notin in E. contradiction.
    - intros n Hin Hc. apply classify_Diff in Hc. destruct Hc as (c1 & m1 & c2 & m2 & E1 & E2 & Hd2).
      rewrite alookup_copied, E1 in E2. destruct (fix_excl cf && tree_excl cf o n); [discriminate|].
      destruct (fix_excl cf); simpl in E2; inversion E2; subst; rewrite file_same_copy in Hd2; discriminate.
    - intros _ n Hin Hc. exfalso. unfold Sync.classify in Hc. rewrite alookup_copied in Hc.
      destruct (fix_excl cf && tree_excl cf o n); [destruct (alookup n es) as [[? ?|?]|]; discriminate|].
      destruct (alookup n es) as [[c m|ses]|]; try discriminate.
      + destruct (fix_excl cf); simpl in Hc; destruct (file_same frepr deep c m c NOW); discriminate.
      + rewrite copied_node in Hc. discriminate.
    - intros n Hin Hc. apply classify_SubDir in Hc. destruct Hc as (ses & des & E1 & E2).
      rewrite (step3_SubDir _ _ _ _ _ _ ses des E1 E2).
      destruct (o_recursive o); [|reflexivity].
      rewrite alookup_copied, E1 in E2. destruct (fix_excl cf && tree_excl cf o n) eqn:Ee; [discriminate|].
      rewrite copied_node in E2. inversion E2; subst des.
      change (tree_excl cf o) with (tree_excl cf (set_top o false)).
      rewrite IH; [|reflexivity|eapply Hsub; eauto|pose proof (depth_entry _ _ _ E1); lia].
      cbn [fst snd]. f_equal. apply aset_same.
      change (tree_excl cf (set_top o false)) with (tree_excl cf o).
      rewrite alookup_copied, E1, Ee, copied_node. reflexivity.
  Qed.

  (* C13: sync_idempotent for the file walk *)
  Theorem ws_idempotent : forall fuel o deep sdir ddir subdir d',
    wf_node (Dir sdir) = true -> o_dry_run o = false -> (depth (Dir sdir) < fuel)%nat ->
    sync_ws fuel o deep sdir ddir subdir = (d', None) ->
    sync_ws fuel o deep sdir d' subdir = (d', None).
  Proof.
    induction fuel as [|fuel IH]; intros o deep sdir ddir subdir d' Hwf Hdry Hdep Hrun; [lia|].
    destruct (wf_dir_inv _ Hwf) as [Hnd Hsub].
    (* what the first run left at a name of the source *)
    assert (At : forall n, In n (names cf sdir) ->
                   alookup n d' = alookup n (fst (class_step frepr cf fuel o deep sdir ddir subdir n))
                   /\ snd (class_step frepr cf fuel o deep sdir ddir subdir n) = None)
      by (intros n Hin; apply (sync_ws_at frepr cf fuel o deep sdir ddir subdir d' n Hnd Hin Hrun)).
    apply sync_ws_fix.
    - (* names still missing in the destination *)
      intros n Hin Hc. apply classify_LeftOnly in Hc. destruct (At n Hin) as [A1 A2]. unfold class_step in A1, A2.
      rewrite Hc in A1.
      destruct (classify deep n sdir ddir) eqn:Ec1.
      + unfold step1 in *. destruct (excluded o n); [reflexivity|].
        destruct (alookup n sdir) as [[c m|es]|]; try reflexivity.
        * unfold copy_file in A1. rewrite Hdry in A1. cbn [fst] in A1. rewrite alookup_aset_same in A1. discriminate.
        * destruct (o_recursive o); [|reflexivity].
          unfold copy_tree, copy_tree_gen in A1. rewrite Hdry in A1. cbn [fst] in A1.
          apply classify_LeftOnly in Ec1. rewrite alookup_app, Ec1 in A1. cbn [alookup] in A1.
          rewrite str_eqb_refl in A1. discriminate.
      + unfold Sync.classify in Ec1. cbn [fst] in A1. rewrite <- A1 in Ec1.
        destruct (alookup n sdir) as [[? ?|?]|] eqn:E; discriminate.
      + apply classify_Diff in Ec1. destruct Ec1 as (c1 & m1 & c2 & m2 & E1 & E2 & _).
        unfold step2 in A1. rewrite E1, E2 in A1.
        destruct (excluded o n); [cbn [fst] in A1; congruence|].
        destruct (o_strategy o) as [s|]; [|cbn [fst] in A1; congruence].
        destruct (verdict s (join subdir n) m1 m2); [|cbn [fst] in A1; congruence].
        unfold copy_file in A1. rewrite Hdry in A1. cbn [fst] in A1. rewrite alookup_aset_same in A1. discriminate.
      + apply classify_SubDir in Ec1. destruct Ec1 as (ses & des & E1 & E2).
        rewrite (step3_SubDir _ _ _ _ _ _ ses des E1 E2) in A1.
        destruct (o_recursive o); cbn [fst] in A1; [rewrite alookup_aset_same in A1; discriminate|congruence].
      + cbn [fst] in A1. unfold Sync.classify in Ec1. rewrite <- A1 in Ec1.
        destruct (alookup n sdir) as [[? ?|?]|]; discriminate.
    - (* files that still differ *)
      intros n Hin Hc. apply classify_Diff in Hc. destruct Hc as (c1 & m1 & c2 & m2 & E1 & E2 & Hdf).
      destruct (At n Hin) as [A1 A2]. unfold class_step in A1, A2. rewrite E2 in A1.
      unfold step2. destruct (excluded o n) eqn:Ex; [reflexivity|]. rewrite E1, E2.
      destruct (classify deep n sdir ddir) eqn:Ec1.
      + unfold step1 in A1. rewrite Ex, E1 in A1. unfold copy_file in A1. rewrite Hdry in A1. cbn [fst] in A1.
        rewrite alookup_aset_same in A1. inversion A1; subst. rewrite file_same_copy in Hdf. discriminate.
      + cbn [fst] in A1. unfold Sync.classify in Ec1. rewrite E1, <- A1 in Ec1. rewrite Hdf in Ec1. discriminate.
      + apply classify_Diff in Ec1. destruct Ec1 as (c1' & m1' & c2' & m2' & E1' & E2' & _).
        rewrite E1 in E1'. inversion E1'; subst c1' m1'.
        unfold step2 in A1, A2. rewrite Ex, E1, E2' in A1, A2.
        destruct (o_strategy o) as [s|]; [|discriminate].
        destruct (verdict s (join subdir n) m1 m2') eqn:Ev.
        * unfold copy_file in A1. rewrite Hdry in A1. cbn [fst] in A1. rewrite alookup_aset_same in A1.
          inversion A1; subst. rewrite file_same_copy in Hdf. discriminate.
        * cbn [fst] in A1. rewrite E2' in A1. inversion A1; subst. rewrite Ev. reflexivity.
      + apply classify_SubDir in Ec1. destruct Ec1 as (ses & des & E1' & _). congruence.
      + cbn [fst] in A1. unfold Sync.classify in Ec1. rewrite E1, <- A1 in Ec1. rewrite Hdf in Ec1. discriminate.
    - (* kind clashes: the first run left kinds as they were, and it succeeded *)
      intros Hff n Hin Hc. destruct (At n Hin) as [A1 A2]. unfold class_step in A1, A2.
      assert (Congr : alookup n d' = alookup n ddir -> classify deep n sdir d' = classify deep n sdir ddir)
        by (intro E; unfold Sync.classify; rewrite E; reflexivity).
      destruct (classify deep n sdir ddir) eqn:Ec1.
      + unfold step1 in A1. destruct (excluded o n) eqn:Ex; [reflexivity|]. exfalso.
        apply classify_LeftOnly in Ec1. unfold Sync.classify in Hc.
        destruct (alookup n sdir) as [[c m|es]|] eqn:E1.
        * unfold copy_file in A1. rewrite Hdry in A1. cbn [fst] in A1. rewrite alookup_aset_same in A1.
          rewrite A1 in Hc. destruct (file_same frepr deep c m c NOW); discriminate.
        * destruct (o_recursive o).
          -- unfold copy_tree, copy_tree_gen in A1. rewrite Hdry in A1. cbn [fst] in A1.
             rewrite alookup_app, Ec1 in A1. cbn [alookup] in A1. rewrite str_eqb_refl in A1.
             rewrite copied_node in A1. rewrite A1 in Hc. discriminate.
          -- cbn [fst] in A1. rewrite A1, Ec1 in Hc. discriminate.
        * cbn [fst] in A1. rewrite A1, Ec1 in Hc. discriminate.
      + cbn [fst] in A1. rewrite (Congr A1) in Hc. discriminate.
      + exfalso. apply classify_Diff in Ec1. destruct Ec1 as (c1 & m1 & c2 & m2 & E1 & E2 & _).
        unfold step2 in A1. rewrite E1, E2 in A1. unfold Sync.classify in Hc. rewrite E1 in Hc.
        destruct (excluded o n); [cbn [fst] in A1; rewrite A1, E2 in Hc; destruct (file_same frepr deep c1 m1 c2 m2); discriminate|].
        destruct (o_strategy o) as [s|]; [|cbn [fst] in A1; rewrite A1, E2 in Hc; destruct (file_same frepr deep c1 m1 c2 m2); discriminate].
        destruct (verdict s (join subdir n) m1 m2);
          [|cbn [fst] in A1; rewrite A1, E2 in Hc; destruct (file_same frepr deep c1 m1 c2 m2); discriminate].
        unfold copy_file in A1. rewrite Hdry in A1. cbn [fst] in A1. rewrite alookup_aset_same in A1.
        rewrite A1 in Hc. destruct (file_same frepr deep c1 m1 c1 NOW); discriminate.
      + exfalso. apply classify_SubDir in Ec1. destruct Ec1 as (ses & des & E1 & E2).
        rewrite (step3_SubDir _ _ _ _ _ _ ses des E1 E2) in A1. unfold Sync.classify in Hc. rewrite E1 in Hc.
        destruct (o_recursive o); cbn [fst] in A1; [rewrite alookup_aset_same in A1|rewrite E2 in A1]; rewrite A1 in Hc; discriminate.
      + eapply (ok_funny_excluded frepr cf); eauto.
    - (* directories on both sides *)
      intros n Hin Hc. apply classify_SubDir in Hc. destruct Hc as (ses & des' & E1 & E2).
      rewrite (step3_SubDir _ _ _ _ _ _ ses des' E1 E2).
      destruct (o_recursive o) eqn:Er; [|reflexivity].
      destruct (At n Hin) as [A1 A2]. unfold class_step in A1, A2. rewrite E2 in A1.
      assert (Hwfs : wf_node (Dir ses) = true) by (eapply Hsub; eauto).
      assert (Hds : (depth (Dir ses) < fuel)%nat) by (pose proof (depth_entry _ _ _ E1); lia).
      assert (Fin : sync_ws fuel (set_top o false) deep ses des' (join subdir n) = (des', None) ->
                    (let '(d0, e0) := sync_ws fuel (set_top o false) deep ses des' (join subdir n) in (aset n (Dir d0) d', e0)) = (d', None)).
      { intro R. rewrite R. f_equal. apply aset_same. assumption. }
      assert (Goal' : sync_ws fuel (set_top o false) deep ses des' (join subdir n) = (des', None)).
      { destruct (classify deep n sdir ddir) eqn:Ec1.
        - (* copied by the first run *)
          unfold step1 in A1. destruct (excluded o n) eqn:Ex.
          + apply classify_LeftOnly in Ec1. cbn [fst] in A1. congruence.
          + rewrite E1, Er in A1. unfold copy_tree, copy_tree_gen in A1. rewrite Hdry in A1. cbn [fst] in A1.
            apply classify_LeftOnly in Ec1. rewrite alookup_app, Ec1 in A1. cbn [alookup] in A1.
            rewrite str_eqb_refl in A1. rewrite copied_node in A1. inversion A1; subst des'.
            change (tree_excl cf o) with (tree_excl cf (set_top o false)).
            apply ws_copied_stable; [reflexivity|assumption|assumption].
        - cbn [fst] in A1. unfold Sync.classify in Ec1. rewrite E1, <- A1 in Ec1. discriminate.
        - apply classify_Diff in Ec1. destruct Ec1 as (c1 & m1 & c2 & m2 & E1' & _). congruence.
        - apply classify_SubDir in Ec1. destruct Ec1 as (ses0 & des & E1' & E2').
          rewrite E1 in E1'. inversion E1'; subst ses0.
          rewrite (step3_SubDir _ _ _ _ _ _ ses des E1 E2') in A1, A2. rewrite Er in A1, A2.
          cbn [fst snd] in A1, A2. rewrite alookup_aset_same in A1. inversion A1; subst des'.
          apply (IH (set_top o false) deep ses des (join subdir n)); try assumption.
          destruct (sync_ws fuel (set_top o false) deep ses des (join subdir n)) as [x e]. cbn [fst snd] in *. subst e. reflexivity.
        - cbn [fst] in A1. unfold Sync.classify in Ec1. rewrite E1, <- A1 in Ec1. discriminate. }
      rewrite Goal'. cbn [fst snd]. f_equal. apply aset_same. assumption.
  Qed.
End Idem.

(* ------------------------------------------------------------------ C14, safety half, any outcome *)
Section OnlyIf.
  Variable frepr : fl -> str.
  Variable cf : cfg.
  Notation excluded := (excluded cf).
  Notation sync_ws := (sync_ws frepr cf).

  (* a file of the destination is either left as it is, or it differs from the source file of the same path
     (in the sense of the comparison in force), is not excluded, a strategy is given and answers true — and
     then it is replaced by the source file.  Holds for every outcome: success, exception half-way, dry run *)
  Theorem ws_overwrite_only_if : forall p fuel o deep sdir ddir subdir c2 m2,
    wf_node (Dir sdir) = true ->
    lookup_path p (Dir ddir) = Some (File c2 m2) ->
    let after := lookup_path p (Dir (fst (sync_ws fuel o deep sdir ddir subdir))) in
    after = Some (File c2 m2)
    \/ exists c1 m1 s,
         lookup_path p (Dir sdir) = Some (File c1 m1) /\ o_strategy o = Some s
         /\ verdict s (rel subdir p) m1 m2 = true /\ excluded (at_path o p) (last p []) = false
         /\ file_same frepr deep c1 m1 c2 m2 = false /\ o_dry_run o = false
         /\ after = Some (File c1 NOW).
  Proof.
    induction p as [|n p IH]; intros fuel o deep sdir ddir subdir c2 m2 Hwf Hd; [simpl in Hd; discriminate|].
    destruct (wf_dir_inv _ Hwf) as [Hnd Hsub].
    destruct fuel as [|fuel]; [left; assumption|].
    cbv zeta. rewrite !lookup_path_cons in *.
    destruct (sync_ws_at_any frepr cf fuel o deep sdir ddir subdir n Hnd) as [H|[Hin H]]; rewrite H; [left; assumption|].
    unfold class_step.
    destruct (classify frepr deep n sdir ddir) eqn:Ec; try (left; assumption).
    - apply classify_LeftOnly in Ec. rewrite Ec in Hd. discriminate.
    - apply classify_Diff in Ec. destruct Ec as (c1 & m1 & c2' & m2' & E1 & E2 & Hdf).
      rewrite E2 in Hd. destruct p as [|k p]; [|simpl in Hd; discriminate]. simpl in Hd. inversion Hd; subst c2' m2'.
      unfold step2. rewrite E1, E2.
      destruct (excluded o n) eqn:Ex; [left; cbn [fst]; rewrite E2; reflexivity|].
      destruct (o_strategy o) as [s|] eqn:Es; [|left; cbn [fst]; rewrite E2; reflexivity].
      destruct (verdict s (join subdir n) m1 m2) eqn:Ev; [|left; cbn [fst]; rewrite E2; reflexivity].
      unfold copy_file. destruct (o_dry_run o) eqn:Edry.
      + left. destruct (fix_F3 cf); cbn [fst]; rewrite E2; reflexivity.
      + right. exists c1, m1, s. cbn [fst]. rewrite alookup_aset_same. simpl. auto 10.
    - apply classify_SubDir in Ec. destruct Ec as (ses & des & E1 & E2).
      rewrite (step3_SubDir _ _ _ _ _ _ ses des E1 E2). rewrite E2 in Hd. rewrite E1.
      destruct (o_recursive o); cbn [fst]; [|left; rewrite E2; assumption].
      rewrite alookup_aset_same.
      destruct p as [|k p]; [simpl in Hd; discriminate|].
      assert (Hw : wf_node (Dir ses) = true) by (eapply Hsub; eauto).
      destruct (IH fuel (set_top o false) deep ses des (join subdir n) c2 m2 Hw Hd) as [Hl|(c1 & m1 & s & R1 & R2 & R3 & R4 & R5)];
        [left; exact Hl|right].
      exists c1, m1, s. rewrite at_path_cons in R4. cbn [at_path]. auto 10.
  Qed.
End OnlyIf.

(* the name the strategy is called with is the '/'-joined path *)
Fixpoint path_str' (p : path) : str :=
  match p with
  | [] => []
  | [k] => k
  | k :: p' => k ++ [SLASH] ++ path_str' p'
  end.

Lemma rel_nonempty : forall p s, s <> [] -> rel s p = s ++ flat_map (fun k => SLASH :: k) p.
Proof.
  induction p as [|k p IH]; intros s Hs; simpl; [rewrite app_nil_r; reflexivity|].
  unfold join. destruct s as [|c s]; [congruence|].
  rewrite IH by (destruct s; discriminate). simpl. rewrite <- app_assoc. reflexivity.
Qed.

Lemma path_str'_flat : forall k p, path_str' (k :: p) = k ++ flat_map (fun k => SLASH :: k) p.
Proof.
  intros k p. revert k. induction p as [|k2 p IH]; intros k; [simpl; rewrite app_nil_r; reflexivity|].
  change (path_str' (k :: k2 :: p)) with (k ++ [SLASH] ++ path_str' (k2 :: p)).
  rewrite IH. reflexivity.
Qed.

Lemma rel_path_str : forall k p, k <> [] -> rel [] (k :: p) = path_str' (k :: p).
Proof.
  intros k p Hk. simpl rel. unfold join. rewrite rel_nonempty by assumption. symmetry. apply path_str'_flat.
Qed.
