(* CanonChars.v — character-level unique readability of the canonical JSON text. *)
From SV Require Import Base Json MD5 Canon.
From Coq Require Import ZifyN ZifyBool.
Local Open Scope N_scope.
Ltac Zify.zify_post_hook ::= Z.div_mod_to_equations.

(* ---------- maximal runs ---------- *)
Lemma span_unique : forall (P : N -> bool) l1 l2 r r',
  forallb P l1 = true -> forallb P l2 = true ->
  (match r with [] => True | c :: _ => P c = false end) ->
  (match r' with [] => True | c :: _ => P c = false end) ->
  l1 ++ r = l2 ++ r' -> l1 = l2 /\ r = r'.
Proof.
  intros P. induction l1 as [|a l1 IH]; intros l2 r r' H1 H2 Hr Hr' E.
  - destruct l2 as [|b l2]; [auto|]. simpl in E. subst r. simpl in H2.
    apply andb_true_iff in H2. destruct H2 as [Hb _]. rewrite Hb in Hr. discriminate.
  - destruct l2 as [|b l2].
    + simpl in E. subst r'. simpl in H1. apply andb_true_iff in H1. destruct H1 as [Ha _].
      rewrite Ha in Hr'. discriminate.
    + simpl in *. inversion E; subst. apply andb_true_iff in H1, H2. destruct H1, H2.
      destruct (IH l2 r r') as [-> ->]; auto.
Qed.

(* ---------- hex digits ---------- *)
Lemma hexdigit_inj : forall a b, a < 16 -> b < 16 -> hexdigit a = hexdigit b -> a = b.
Proof.
  intros a b Ha Hb H. unfold hexdigit in H.
  destruct (a <? 10) eqn:E1; destruct (b <? 10) eqn:E2; lia.
Qed.

Lemma hexdigit_range : forall a, a < 16 -> (48 <= hexdigit a <= 57) \/ (97 <= hexdigit a <= 102).
Proof. intros a Ha. unfold hexdigit. destruct (a <? 10) eqn:E; lia. Qed.

Definition hex4' (n : N) : str :=
  [hexdigit ((n / 4096) mod 16); hexdigit ((n / 256) mod 16); hexdigit ((n / 16) mod 16); hexdigit (n mod 16)].

Lemma hex4_arith : forall n, hex4 n = hex4' n.
Proof.
  intro n. unfold hex4, hex4'. change 15 with (N.ones 4). rewrite !N.land_ones, !N.shiftr_div_pow2.
  reflexivity.
Qed.

Lemma hex4_inj : forall n m, n < 65536 -> m < 65536 -> hex4 n = hex4 m -> n = m.
Proof.
  intros n m Hn Hm H. rewrite !hex4_arith in H. unfold hex4' in H. inversion H as [[H1 H2 H3 H4]].
  apply hexdigit_inj in H1, H2, H3, H4; try (apply N.mod_lt; discriminate). lia.
Qed.

Lemma uesc_inj : forall n m r r', n < 65536 -> m < 65536 -> uesc n ++ r = uesc m ++ r' -> n = m /\ r = r'.
Proof.
  intros n m r r' Hn Hm H. unfold uesc in H. rewrite !hex4_arith in H. unfold hex4' in H. simpl in H.
  inversion H as [[H1 H2 H3 H4 Hr]].
  apply hexdigit_inj in H1, H2, H3, H4; try (apply N.mod_lt; discriminate). split; [lia|auto].
Qed.

(* ---------- strings: the escape is a prefix code on valid code points ---------- *)
Definition valid_cp (c : N) : bool := (c <? 1114112) && negb ((55296 <=? c) && (c <? 57344)).
Definition valid_str (s : str) : bool := forallb valid_cp s.

(* a one-character decoder: reading back what escape_char printed *)
Definition unhexdigit (h : N) : N := if h <? 58 then h - 48 else h - 87.
Definition unhex4 (a b c d : N) : N :=
  4096 * unhexdigit a + 256 * unhexdigit b + 16 * unhexdigit c + unhexdigit d.

Definition unescape_short (c2 : N) : option N :=
  if c2 =? 34 then Some 34 else if c2 =? 92 then Some 92 else if c2 =? 110 then Some 10
  else if c2 =? 114 then Some 13 else if c2 =? 116 then Some 9 else if c2 =? 98 then Some 8
  else if c2 =? 102 then Some 12 else None.

Definition unescape_one (s : str) : option (N * str) :=
  match s with
  | [] => None
  | c :: rest =>
      if c =? 92 then
        match rest with
        | [] => None
        | c2 :: rest2 =>
            if c2 =? 117 then
              match rest2 with
              | a :: b :: cc :: d :: rest3 =>
                  let n := unhex4 a b cc d in
                  if (55296 <=? n) && (n <? 56320) then
                    match rest3 with
                    | 92 :: 117 :: a' :: b' :: c' :: d' :: rest4 =>
                        Some (65536 + (n - 55296) * 1024 + (unhex4 a' b' c' d' - 56320), rest4)
                    | _ => None
                    end
                  else Some (n, rest3)
              | _ => None
              end
            else match unescape_short c2 with Some x => Some (x, rest2) | None => None end
        end
      else Some (c, rest)
  end.

Lemma unhexdigit_hexdigit : forall d, d < 16 -> unhexdigit (hexdigit d) = d.
Proof. intros d H. unfold unhexdigit, hexdigit. destruct (d <? 10) eqn:E; [destruct (48 + d <? 58) eqn:E2|destruct (87 + d <? 58) eqn:E2]; lia. Qed.

Lemma unhex4_hex4' : forall n, n < 65536 ->
  unhex4 (hexdigit ((n / 4096) mod 16)) (hexdigit ((n / 256) mod 16)) (hexdigit ((n / 16) mod 16)) (hexdigit (n mod 16)) = n.
Proof.
  intros n Hn. unfold unhex4. rewrite !unhexdigit_hexdigit by (apply N.mod_lt; discriminate). lia.
Qed.

Lemma unescape_uesc_single : forall n r, n < 65536 -> negb ((55296 <=? n) && (n <? 56320)) = true ->
  unescape_one (uesc n ++ r) = Some (n, r).
Proof.
  intros n r Hn Hs. unfold uesc. rewrite hex4_arith. unfold hex4'. cbn [app unescape_one N.eqb Pos.eqb].
  rewrite unhex4_hex4' by exact Hn. apply negb_true_iff in Hs. rewrite Hs. reflexivity.
Qed.

Lemma surrogate_parts : forall c, 65536 <= c -> c < 1114112 ->
  let v := c - 65536 in
  N.land (N.shiftr v 10) 1023 = v / 1024 /\ N.land v 1023 = v mod 1024 /\ v / 1024 < 1024.
Proof.
  intros c H1 H2 v. change 1023 with (N.ones 10). rewrite !N.land_ones, N.shiftr_div_pow2.
  change (2 ^ 10) with 1024. subst v. split; [|split]; try reflexivity.
  - apply N.mod_small. lia.
  - lia.
Qed.

Lemma unescape_escape : forall c r, valid_cp c = true -> unescape_one (escape_char c ++ r) = Some (c, r).
Proof.
  intros c r Hc. unfold valid_cp in Hc. apply andb_true_iff in Hc. destruct Hc as [Hc1 Hc2].
  apply N.ltb_lt in Hc1. apply negb_true_iff in Hc2.
  unfold escape_char.
  destruct (c =? 34) eqn:E34; [apply N.eqb_eq in E34; subst; reflexivity|].
  destruct (c =? 92) eqn:E92; [apply N.eqb_eq in E92; subst; reflexivity|].
  destruct (c =? 10) eqn:E10; [apply N.eqb_eq in E10; subst; reflexivity|].
  destruct (c =? 13) eqn:E13; [apply N.eqb_eq in E13; subst; reflexivity|].
  destruct (c =? 9) eqn:E9; [apply N.eqb_eq in E9; subst; reflexivity|].
  destruct (c =? 8) eqn:E8; [apply N.eqb_eq in E8; subst; reflexivity|].
  destruct (c =? 12) eqn:E12; [apply N.eqb_eq in E12; subst; reflexivity|].
  destruct ((32 <=? c) && (c <=? 126)) eqn:Ep.
  - cbn [app unescape_one]. rewrite E92. reflexivity.
  - destruct (c <? 65536) eqn:E16.
    + apply N.ltb_lt in E16. apply unescape_uesc_single; auto.
      apply negb_true_iff. destruct ((55296 <=? c) && (c <? 56320)) eqn:Es; auto.
      apply andb_true_iff in Es. destruct Es as [Es1 Es2]. apply N.leb_le in Es1. apply N.ltb_lt in Es2.
      assert (Hx : (55296 <=? c) && (c <? 57344) = true) by (apply andb_true_iff; split; [apply N.leb_le|apply N.ltb_lt]; lia).
      congruence.
    + apply N.ltb_ge in E16.
      destruct (surrogate_parts c E16 Hc1) as [Hhi [Hlo Hb]]. cbv zeta in Hhi, Hlo, Hb.
      rewrite Hhi, Hlo.
      set (v := c - 65536) in *.
      assert (Hv : v < 1048576) by (subst v; lia).
      assert (Hhin : 55296 + v / 1024 < 65536) by lia.
      assert (Hlon : 56320 + v mod 1024 < 65536) by (pose proof (N.mod_lt v 1024); lia).
      unfold uesc at 1. rewrite hex4_arith. unfold hex4'. rewrite <- List.app_assoc.
      cbn [app unescape_one N.eqb Pos.eqb].
      rewrite unhex4_hex4' by exact Hhin.
      assert (Hsur : (55296 <=? 55296 + v / 1024) && (55296 + v / 1024 <? 56320) = true).
      { apply andb_true_iff. split; [apply N.leb_le|apply N.ltb_lt]; lia. }
      rewrite Hsur.
      unfold uesc. rewrite hex4_arith. unfold hex4'. cbn [app].
      rewrite unhex4_hex4' by exact Hlon.
      f_equal. f_equal. subst v. pose proof (N.mod_lt (c - 65536) 1024). lia.
Qed.

Lemma escape_prefix_code : forall c c' r r',
  valid_cp c = true -> valid_cp c' = true ->
  escape_char c ++ r = escape_char c' ++ r' -> c = c' /\ r = r'.
Proof.
  intros c c' r r' Hc Hc' H.
  pose proof (unescape_escape c r Hc) as E1. pose proof (unescape_escape c' r' Hc') as E2.
  rewrite H in E1. rewrite E1 in E2. inversion E2. auto.
Qed.

(* the escaped text never starts with a raw double quote *)
Lemma escape_not_quote : forall c r, exists h t, escape_char c ++ r = h :: t /\ h <> 34.
Proof.
  intros c r. unfold escape_char.
  repeat match goal with
         | |- context[if ?b then _ else _] => let E := fresh "E" in destruct b eqn:E
         end; try (eexists; eexists; split; [reflexivity|discriminate]).
  eexists. eexists. split; [reflexivity|]. intro Hc. subst c. discriminate.
Qed.

Lemma escaped_prefix_free : forall s s' r r',
  valid_str s = true -> valid_str s' = true ->
  flat_map escape_char s ++ 34 :: r = flat_map escape_char s' ++ 34 :: r' -> s = s' /\ r = r'.
Proof.
  induction s as [|c s IH]; intros s' r r' Hv Hv' H.
  - destruct s' as [|c' s']; [simpl in H; inversion H; auto|].
    simpl in H. rewrite <- List.app_assoc in H.
    destruct (escape_not_quote c' (flat_map escape_char s' ++ 34 :: r')) as [h [t [E Hh]]].
    rewrite E in H. inversion H. congruence.
  - destruct s' as [|c' s'].
    + simpl in H. rewrite <- List.app_assoc in H.
      destruct (escape_not_quote c (flat_map escape_char s ++ 34 :: r)) as [h [t [E Hh]]].
      rewrite E in H. inversion H. congruence.
    + simpl in Hv, Hv'. apply andb_true_iff in Hv, Hv'. destruct Hv as [Hc Hs], Hv' as [Hc' Hs'].
      simpl in H. rewrite <- !List.app_assoc in H.
      apply escape_prefix_code in H; auto. destruct H as [-> H].
      destruct (IH _ _ _ Hs Hs' H) as [-> ->]. auto.
Qed.

Lemma quote_prefix_free : forall s s' r r', valid_str s = true -> valid_str s' = true ->
  quote s ++ r = quote s' ++ r' -> s = s' /\ r = r'.
Proof.
  intros s s' r r' Hv Hv' H. unfold quote in H. simpl in H. inversion H as [H'].
  rewrite <- !List.app_assoc in H'. simpl in H'. apply escaped_prefix_free in H'; auto.
Qed.

(* ================= values ================= *)
Definition numchar (c : N) : bool :=
  ((48 <=? c) && (c <=? 57)) || (c =? 45) || (c =? 46) || (c =? 101) || (c =? 43).

Definition delim (r : str) : Prop :=
  match r with [] => True | c :: _ => c = 44 \/ c = 93 \/ c = 125 end.

Lemma delim_not_numchar : forall r, delim r -> match r with [] => True | c :: _ => numchar c = false end.
Proof. intros [|c r] H; auto. simpl in H. destruct H as [->|[->| ->]]; reflexivity. Qed.

Lemma dec_N_numchars : forall n, forallb numchar (dec_N n) = true.
Proof.
  intro n. pose proof (uint_chars_digits (N.to_uint n)) as H. unfold dec_N.
  induction H as [|c l Hc Hl IH]; simpl; auto. rewrite IH. rewrite andb_true_r.
  unfold numchar. assert (E : (48 <=? c) && (c <=? 57) = true) by (apply andb_true_iff; split; apply N.leb_le; lia).
  rewrite E. reflexivity.
Qed.

Lemma dec_Z_numchars : forall z, forallb numchar (dec_Z z) = true.
Proof. intros [|p|p]; simpl; auto; apply dec_N_numchars. Qed.

Lemma dec_N_head : forall n, exists c t, dec_N n = c :: t /\ 48 <= c <= 57.
Proof.
  intro n. pose proof (uint_chars_digits (N.to_uint n)) as Hd. unfold dec_N in *.
  destruct (uint_chars (N.to_uint n)) as [|c t] eqn:E.
  - exfalso. destruct n as [|p]; [discriminate|]. simpl in E.
    pose proof (DecimalPos.Unsigned.to_uint_nonnil p) as Hn. destruct (Pos.to_uint p); simpl in E; try discriminate. contradiction.
  - inversion Hd; subst. eauto.
Qed.

Lemma dec_Z_head : forall z, exists c t, dec_Z z = c :: t /\ (c = 45 \/ 48 <= c <= 57).
Proof.
  intros [|p|p]; simpl.
  - exists 48, []. split; auto. right. lia.
  - destruct (dec_N_head (Npos p)) as [c [t [E H]]]. exists c, t. auto.
  - eexists. eexists. split; [reflexivity|]. left. reflexivity.
Qed.

Fixpoint valid_json (v : json) : bool :=
  match v with
  | JStr s => valid_str s
  | JArr l => forallb valid_json l
  | JObj kvs => forallb (fun kv => valid_str (fst kv) && valid_json (snd kv)) kvs
  | _ => true
  end.

Section Values.
  Variable frepr : fl -> str.
  (* what is assumed of Python's float.__repr__ on finite floats (validated per table entry by the harness) *)
  Hypothesis frepr_chars : forall f, forallb numchar (frepr f) = true.
  Hypothesis frepr_head : forall f, exists c t, frepr f = c :: t /\ (c = 45 \/ 48 <= c <= 57).
  Hypothesis frepr_inj : forall f g, frepr f = frepr g -> f = g.
  Hypothesis frepr_not_int : forall f z, frepr f <> dec_Z z.

  Definition print (v : json) : str := render frepr (tokens v).

  Lemma render_app : forall a b, render frepr (a ++ b) = render frepr a ++ render frepr b.
  Proof. intros. unfold render. apply flat_map_app. Qed.

  Definition hclass (v : json) (c : N) : Prop :=
    match v with
    | JNull => c = 110 | JBool true => c = 116 | JBool false => c = 102
    | JInt _ | JFloat _ => c = 45 \/ 48 <= c <= 57
    | JStr _ => c = 34 | JArr _ => c = 91 | JObj _ => c = 123
    end.

  Lemma print_head : forall v, exists c t, print v = c :: t /\ hclass v c.
  Proof.
    intro v. unfold print. destruct v as [|b|z|f|s|l|kvs]; simpl.
    - eexists. eexists. split; reflexivity.
    - destruct b; eexists; eexists; split; reflexivity.
    - rewrite List.app_nil_r. apply dec_Z_head.
    - rewrite List.app_nil_r. apply frepr_head.
    - eexists. eexists. split; reflexivity.
    - eexists. eexists. split; reflexivity.
    - eexists. eexists. split; reflexivity.
  Qed.

  Lemma print_head_not_close : forall v r, exists c t, print v ++ r = c :: t /\ c <> 93 /\ c <> 125 /\ c <> 44.
  Proof.
    intros v r. destruct (print_head v) as [c [t [E H]]]. rewrite E. exists c, (t ++ r). split; [reflexivity|].
    destruct v as [|[]| | | | |]; simpl in H; lia.
  Qed.

  (* array body and object body at character level *)
  Definition arr_body (l : list json) : str := render frepr (sepby [TComma] (map tokens l)).
  Definition entry_toks (kv : str * json) : list tok := match kv with (k, x) => TStr k :: TColon :: tokens x end.
  Definition obj_body (kvs : list (str * json)) : str := render frepr (sepby [TComma] (map entry_toks kvs)).

  Lemma print_arr : forall l, print (JArr l) = 91 :: arr_body l ++ [93].
  Proof. intro l. unfold print, arr_body. simpl. rewrite render_app. reflexivity. Qed.

  Lemma print_obj : forall kvs, print (JObj kvs) = 123 :: obj_body kvs ++ [125].
  Proof. intro kvs. unfold print, obj_body. simpl. fold entry_toks. rewrite render_app. reflexivity. Qed.

  Lemma arr_body_cons2 : forall x y l, arr_body (x :: y :: l) = print x ++ 44 :: 32 :: arr_body (y :: l).
  Proof. intros. unfold arr_body, print. simpl map. rewrite sepby_cons2, !render_app. reflexivity. Qed.

  Lemma arr_body_one : forall x, arr_body [x] = print x.
  Proof. reflexivity. Qed.

  Lemma entry_chars : forall k x, render frepr (entry_toks (k, x)) = quote k ++ 58 :: 32 :: print x.
  Proof. intros. unfold print. simpl. reflexivity. Qed.

  Lemma obj_body_cons2 : forall kv kv2 l,
    obj_body (kv :: kv2 :: l) = render frepr (entry_toks kv) ++ 44 :: 32 :: obj_body (kv2 :: l).
  Proof. intros. unfold obj_body. simpl map. rewrite sepby_cons2, !render_app. reflexivity. Qed.

  Lemma obj_body_one : forall kv, obj_body [kv] = render frepr (entry_toks kv).
  Proof. reflexivity. Qed.

  Definition PF (v : json) : Prop :=
    forall v' r r', valid_json v = true -> valid_json v' = true -> delim r -> delim r' ->
      print v ++ r = print v' ++ r' -> v = v' /\ r = r'.

  Lemma number_span : forall l1 l2 r r', forallb numchar l1 = true -> forallb numchar l2 = true ->
    delim r -> delim r' -> l1 ++ r = l2 ++ r' -> l1 = l2 /\ r = r'.
  Proof.
    intros l1 l2 r r' H1 H2 Hr Hr' E. apply (span_unique numchar); auto; apply delim_not_numchar; auto.
  Qed.

  Lemma arr_body_pf : forall l, Forall PF l -> forall l0 r r',
    forallb valid_json l = true -> forallb valid_json l0 = true ->
    arr_body l ++ 93 :: r = arr_body l0 ++ 93 :: r' -> l = l0 /\ r = r'.
  Proof.
    intros l H. induction H as [|x l Hx Hl IH]; intros l0 r r' Hv Hv0 E.
    - destruct l0 as [|y l0]; [simpl in E; inversion E; auto|].
      exfalso. simpl in E. destruct l0 as [|y2 l0].
      + rewrite arr_body_one in E. destruct (print_head_not_close y (93 :: r')) as [c [t [Ec [H1 _]]]].
        rewrite Ec in E. inversion E. congruence.
      + rewrite arr_body_cons2 in E. rewrite <- List.app_assoc in E.
        destruct (print_head_not_close y ((44 :: 32 :: arr_body (y2 :: l0)) ++ 93 :: r')) as [c [t [Ec [H1 _]]]].
        rewrite Ec in E. inversion E. congruence.
    - simpl in Hv. apply andb_true_iff in Hv. destruct Hv as [Hvx Hvl].
      destruct l0 as [|y l0].
      + exfalso. simpl in E. destruct l as [|x2 l].
        * rewrite arr_body_one in E. destruct (print_head_not_close x (93 :: r)) as [c [t [Ec [H1 _]]]].
          rewrite Ec in E. inversion E. congruence.
        * rewrite arr_body_cons2 in E. rewrite <- List.app_assoc in E.
          destruct (print_head_not_close x ((44 :: 32 :: arr_body (x2 :: l)) ++ 93 :: r)) as [c [t [Ec [H1 _]]]].
          rewrite Ec in E. inversion E. congruence.
      + simpl in Hv0. apply andb_true_iff in Hv0. destruct Hv0 as [Hvy Hvl0].
        destruct l as [|x2 l]; destruct l0 as [|y2 l0].
        * rewrite !arr_body_one in E. apply Hx in E; auto; simpl; auto.
          destruct E as [-> E]. inversion E. auto.
        * rewrite arr_body_one, arr_body_cons2 in E. rewrite <- List.app_assoc in E.
          apply Hx in E; auto; simpl; auto. destruct E as [_ E]. discriminate.
        * rewrite arr_body_one, arr_body_cons2 in E. rewrite <- List.app_assoc in E.
          apply Hx in E; auto; simpl; auto. destruct E as [_ E]. discriminate.
        * rewrite !arr_body_cons2 in E. rewrite <- !List.app_assoc in E.
          apply Hx in E; auto; simpl; auto. destruct E as [-> E].
          simpl in E. inversion E as [E'].
          destruct (IH (y2 :: l0) r r' Hvl Hvl0 E') as [E1 E2]. inversion E1; subst. auto.
  Qed.

  Lemma entry_pf : forall k x, PF x -> forall k' x' r r',
    valid_str k = true -> valid_str k' = true -> valid_json x = true -> valid_json x' = true ->
    delim r -> delim r' ->
    render frepr (entry_toks (k, x)) ++ r = render frepr (entry_toks (k', x')) ++ r' ->
    k = k' /\ x = x' /\ r = r'.
  Proof.
    intros k x Hx k' x' r r' Hk Hk' Hvx Hvx' Hr Hr' E. rewrite !entry_chars in E.
    rewrite <- !List.app_assoc in E. apply quote_prefix_free in E; auto. destruct E as [-> E].
    simpl in E. inversion E as [E']. destruct (Hx x' r r' Hvx Hvx' Hr Hr' E') as [-> ->]. auto.
  Qed.

  Lemma entry_head_quote : forall kv r, exists t, render frepr (entry_toks kv) ++ r = 34 :: t.
  Proof. intros [k x] r. rewrite entry_chars. unfold quote. simpl. eexists. reflexivity. Qed.

  Lemma obj_body_pf : forall kvs, Forall (fun kv => PF (snd kv)) kvs -> forall kvs0 r r',
    forallb (fun kv => valid_str (fst kv) && valid_json (snd kv)) kvs = true ->
    forallb (fun kv => valid_str (fst kv) && valid_json (snd kv)) kvs0 = true ->
    obj_body kvs ++ 125 :: r = obj_body kvs0 ++ 125 :: r' -> kvs = kvs0 /\ r = r'.
  Proof.
    intros kvs H. induction H as [|[k x] l Hx Hl IH]; intros l0 r r' Hv Hv0 E.
    - destruct l0 as [|kv0 l0]; [simpl in E; inversion E; auto|].
      exfalso. simpl in E. destruct l0 as [|kv2 l0].
      + rewrite obj_body_one in E. destruct (entry_head_quote kv0 (125 :: r')) as [t Et]. rewrite Et in E. discriminate.
      + rewrite obj_body_cons2 in E. rewrite <- List.app_assoc in E.
        destruct (entry_head_quote kv0 ((44 :: 32 :: obj_body (kv2 :: l0)) ++ 125 :: r')) as [t Et]. rewrite Et in E. discriminate.
    - simpl in Hx. simpl in Hv. apply andb_true_iff in Hv. destruct Hv as [Hvkx Hvl].
      apply andb_true_iff in Hvkx. destruct Hvkx as [Hvk Hvx].
      destruct l0 as [|[k' x'] l0].
      + exfalso. simpl in E. destruct l as [|kv2 l].
        * rewrite obj_body_one in E. destruct (entry_head_quote (k, x) (125 :: r)) as [t Et]. rewrite Et in E. discriminate.
        * rewrite obj_body_cons2 in E. rewrite <- List.app_assoc in E.
          destruct (entry_head_quote (k, x) ((44 :: 32 :: obj_body (kv2 :: l)) ++ 125 :: r)) as [t Et]. rewrite Et in E. discriminate.
      + simpl in Hv0. apply andb_true_iff in Hv0. destruct Hv0 as [Hvkx' Hvl0].
        apply andb_true_iff in Hvkx'. destruct Hvkx' as [Hvk' Hvx'].
        destruct l as [|kv2 l]; destruct l0 as [|kv2' l0].
        * rewrite !obj_body_one in E. apply entry_pf in E; auto; simpl; auto.
          destruct E as [-> [-> E]]. inversion E. auto.
        * rewrite obj_body_one, obj_body_cons2 in E. rewrite <- List.app_assoc in E.
          apply entry_pf in E; auto; simpl; auto. destruct E as [_ [_ E]]. discriminate.
        * rewrite obj_body_one, obj_body_cons2 in E. rewrite <- List.app_assoc in E.
          apply entry_pf in E; auto; simpl; auto. destruct E as [_ [_ E]]. discriminate.
        * rewrite !obj_body_cons2 in E. rewrite <- !List.app_assoc in E.
          apply entry_pf in E; auto; simpl; auto. destruct E as [-> [-> E]].
          simpl in E. inversion E as [E'].
          destruct (IH (kv2' :: l0) r r' Hvl Hvl0 E') as [E1 E2]. inversion E1; subst. auto.
  Qed.

  Ltac cross v v' E :=
    let c := fresh "c" in let t := fresh "t" in let Hp := fresh "Hp" in let Hc := fresh "Hc" in
    let c' := fresh "c'" in let t' := fresh "t'" in let Hp' := fresh "Hp'" in let Hc' := fresh "Hc'" in
    exfalso;
    destruct (print_head v) as [c [t [Hp Hc]]]; destruct (print_head v') as [c' [t' [Hp' Hc']]];
    rewrite Hp, Hp' in E; simpl in E; inversion E; subst; simpl in Hc, Hc'; lia.

  Theorem print_prefix_free : forall v, PF v.
  Proof.
    intro v. induction v using json_ind'; intros v' r r' Hv Hv' Hr Hr' E.
    - (* null *)
      destruct v' as [|b'|z'|f'|s'|l'|kvs']; try destruct b';
        try (cross JNull (JBool true) E); try (cross JNull (JBool false) E); try (cross JNull (JInt z') E);
        try (cross JNull (JFloat f') E); try (cross JNull (JStr s') E); try (cross JNull (JArr l') E);
        try (cross JNull (JObj kvs') E).
      unfold print in E. simpl in E. inversion E. auto.
    - (* bool *)
      destruct b; destruct v' as [|b'|z'|f'|s'|l'|kvs']; try destruct b';
        try (cross (JBool true) JNull E); try (cross (JBool false) JNull E);
        try (cross (JBool true) (JBool false) E); try (cross (JBool false) (JBool true) E);
        try (cross (JBool true) (JInt z') E); try (cross (JBool false) (JInt z') E);
        try (cross (JBool true) (JFloat f') E); try (cross (JBool false) (JFloat f') E);
        try (cross (JBool true) (JStr s') E); try (cross (JBool false) (JStr s') E);
        try (cross (JBool true) (JArr l') E); try (cross (JBool false) (JArr l') E);
        try (cross (JBool true) (JObj kvs') E); try (cross (JBool false) (JObj kvs') E);
        unfold print in E; simpl in E; inversion E; auto.
    - (* int *)
      destruct v' as [|b'|z'|f'|s'|l'|kvs']; try destruct b';
        try (cross (JInt z) JNull E); try (cross (JInt z) (JBool true) E); try (cross (JInt z) (JBool false) E);
        try (cross (JInt z) (JStr s') E); try (cross (JInt z) (JArr l') E); try (cross (JInt z) (JObj kvs') E).
      + unfold print in E. simpl in E. rewrite !List.app_nil_r in E.
        apply number_span in E; auto using dec_Z_numchars. destruct E as [E ->].
        apply dec_Z_inj in E. subst. auto.
      + exfalso. unfold print in E. simpl in E. rewrite !List.app_nil_r in E.
        apply number_span in E; auto using dec_Z_numchars. destruct E as [E _].
        symmetry in E. apply frepr_not_int in E. exact E.
    - (* float *)
      destruct v' as [|b'|z'|f'|s'|l'|kvs']; try destruct b';
        try (cross (JFloat f) JNull E); try (cross (JFloat f) (JBool true) E); try (cross (JFloat f) (JBool false) E);
        try (cross (JFloat f) (JStr s') E); try (cross (JFloat f) (JArr l') E); try (cross (JFloat f) (JObj kvs') E).
      + exfalso. unfold print in E. simpl in E. rewrite !List.app_nil_r in E.
        apply number_span in E; auto using dec_Z_numchars. destruct E as [E _].
        apply frepr_not_int in E. exact E.
      + unfold print in E. simpl in E. rewrite !List.app_nil_r in E.
        apply number_span in E; auto. destruct E as [E ->]. apply frepr_inj in E. subst. auto.
    - (* string *)
      destruct v' as [|b'|z'|f'|s'|l'|kvs']; try destruct b';
        try (cross (JStr s) JNull E); try (cross (JStr s) (JBool true) E); try (cross (JStr s) (JBool false) E);
        try (cross (JStr s) (JInt z') E); try (cross (JStr s) (JFloat f') E);
        try (cross (JStr s) (JArr l') E); try (cross (JStr s) (JObj kvs') E).
      unfold print in E. simpl in E. rewrite !List.app_nil_r in E.
      simpl in Hv, Hv'. apply quote_prefix_free in E; auto. destruct E as [-> ->]. auto.
    - (* array *)
      destruct v' as [|b'|z'|f'|s'|l'|kvs']; try destruct b';
        try (cross (JArr l) JNull E); try (cross (JArr l) (JBool true) E); try (cross (JArr l) (JBool false) E);
        try (cross (JArr l) (JInt z') E); try (cross (JArr l) (JFloat f') E);
        try (cross (JArr l) (JStr s') E); try (cross (JArr l) (JObj kvs') E).
      rewrite !print_arr in E. simpl in E. inversion E as [E']. rewrite <- !List.app_assoc in E'. simpl in E'.
      simpl in Hv, Hv'. destruct (arr_body_pf l H l' r r' Hv Hv' E') as [-> ->]. auto.
    - (* object *)
      destruct v' as [|b'|z'|f'|s'|l'|kvs']; try destruct b';
        try (cross (JObj kvs) JNull E); try (cross (JObj kvs) (JBool true) E); try (cross (JObj kvs) (JBool false) E);
        try (cross (JObj kvs) (JInt z') E); try (cross (JObj kvs) (JFloat f') E);
        try (cross (JObj kvs) (JStr s') E); try (cross (JObj kvs) (JArr l') E).
      rewrite !print_obj in E. simpl in E. inversion E as [E']. rewrite <- !List.app_assoc in E'. simpl in E'.
      simpl in Hv, Hv'. destruct (obj_body_pf kvs H kvs' r r' Hv Hv' E') as [-> ->]. auto.
  Qed.

  (* the canonical JSON text determines the JSON value *)
  Theorem canon_injective : forall v v', valid_json (norm v) = true -> valid_json (norm v') = true ->
    canon frepr v = canon frepr v' -> same_json v v'.
  Proof.
    intros v v' Hv Hv' E. unfold canon in E. fold (print (norm v)) in E. fold (print (norm v')) in E.
    destruct (print_prefix_free (norm v) (norm v') [] [] Hv Hv' I I) as [H _]; auto.
    rewrite !List.app_nil_r. exact E.
  Qed.
End Values.
