(* Discover.v — project / job discovery (signac/_config.py, signac/project.py) over path STRINGS
   and a small directory tree with symbolic links.  Used by C19 and (through the version gate of
   Project.__init__) by C20.

   What is modelled, path by path:
     posixpath.join / normpath / abspath / dirname            (string functions, no file system)
     os.path.exists / isfile / isdir                           (physical resolution, follows links)
     _get_project_config_fn, _locate_config_dir (both loops), _raise_if_older_schema,
     migration._get_config_schema_version (loader order, guess),
     Project.__init__ (config test, version gate BEFORE the workspace mkdir, _mkdir_p(workspace)),
     Project.get_project (search / no search), Project.get_job (innermost path component that is
     exactly a job id), Project.init_project (existing project returned before anything is written).
   ConfigObj parsing is outside the model: a configuration file is a node [File (FCfg c)] holding
   the parsed record. *)
From SV Require Import Base Json.

(* ------------------------------------------------------------------ string literals *)
Definition SL : N := 47%N.                         (* '/' *)
Definition is_sl (c : N) : bool := N.eqb c 47%N.
Definition s_dot : str := [46%N].                  (* "."  *)
Definition s_dotdot : str := [46%N; 46%N].         (* ".." *)
Definition s_cfg_rel : str := [46; 115; 105; 103; 110; 97; 99; 47; 99; 111; 110; 102; 105; 103]%N.   (* ".signac/config" *)
Definition s_dotsignac : str := [46; 115; 105; 103; 110; 97; 99]%N.   (* ".signac" *)
Definition s_config : str := [99; 111; 110; 102; 105; 103]%N.   (* "config" *)
Definition s_rc : str := [115; 105; 103; 110; 97; 99; 46; 114; 99]%N.   (* "signac.rc" *)
Definition s_workspace : str := [119; 111; 114; 107; 115; 112; 97; 99; 101]%N.   (* "workspace" *)

(* ------------------------------------------------------------------ posixpath on strings *)
Definition starts_sl (p : str) : bool := match p with c :: _ => is_sl c | [] => false end.
Definition ends_sl (p : str) : bool := match rev p with c :: _ => is_sl c | [] => false end.

(* str.split('/') *)
Fixpoint split_sl (s : str) : list str :=
  match s with
  | [] => [[]]
  | c :: s' =>
      if is_sl c then [] :: split_sl s'
      else match split_sl s' with
           | [] => [[c]]
           | w :: ws => (c :: w) :: ws
           end
  end.

(* '/'.join *)
Fixpoint join_sl (l : list str) : str :=
  match l with
  | [] => []
  | w :: l' => match l' with [] => w | _ => w ++ SL :: join_sl l' end
  end.

(* os.path.join(a, b) *)
Definition path_join (a b : str) : str :=
  if starts_sl b then b
  else match a with
       | [] => b
       | _ => if ends_sl a then a ++ b else a ++ SL :: b
       end.

(* number of leading slashes kept by normpath: 0, 1, or 2 (exactly two) *)
Definition initial_slashes (p : str) : nat :=
  match p with
  | a :: q =>
      if is_sl a then
        match q with
        | b :: r =>
            if is_sl b then
              match r with
              | c :: _ => if is_sl c then 1 else 2
              | [] => 2
              end
            else 1
        | [] => 1
        end
      else 0
  | [] => 0
  end%nat.

(* one iteration of normpath's loop; [acc] is new_comps reversed *)
Definition norm_step (isabs : bool) (acc : list str) (c : str) : list str :=
  if str_eqb c [] || str_eqb c s_dot then acc
  else if str_eqb c s_dotdot then
    match acc with
    | [] => if isabs then [] else [c]
    | top :: rest => if str_eqb top s_dotdot then c :: acc else rest
    end
  else c :: acc.

Definition norm_comps (isabs : bool) (comps : list str) : list str :=
  rev (fold_left (norm_step isabs) comps []).

Definition normpath (p : str) : str :=
  match p with
  | [] => s_dot
  | _ =>
      let n := initial_slashes p in
      let r := repeat SL n ++ join_sl (norm_comps (negb (Nat.eqb n 0)) (split_sl p)) in
      match r with [] => s_dot | _ => r end
  end.

(* os.path.abspath with os.getcwd() = cwd *)
Definition abspath (cwd p : str) : str :=
  normpath (if starts_sl p then p else path_join cwd p).

(* p[: p.rfind('/') + 1] *)
Fixpoint upto_last_sl (s : str) : str :=
  match s with
  | [] => []
  | c :: s' =>
      let r := upto_last_sl s' in
      if is_sl c then c :: r else match r with [] => [] | _ => c :: r end
  end.

Fixpoint drop_sl (s : str) : str :=
  match s with c :: s' => if is_sl c then drop_sl s' else s | [] => [] end.
Definition rstrip_sl (s : str) : str := rev (drop_sl (rev s)).

(* os.path.dirname *)
Definition dirname (p : str) : str :=
  let head := upto_last_sl p in
  if forallb is_sl head then head else rstrip_sl head.

(* ------------------------------------------------------------------ the tree *)
Record cfgrec := { cv : option Z; cproj : option str; cws : option str }.
   (* schema_version, project, workspace_dir as ConfigObj parsed them; None = key absent *)

Inductive fdata :=
| FCfg (c : cfgrec)        (* a configuration file ConfigObj can parse *)
| FJson (j : json)         (* a JSON document (signac_project_document.json) *)
| FBytes (b : str).        (* anything else, as bytes *)

Inductive node :=
| File (d : fdata)
| Dir (es : list (str * node))
| Link (target : str).

Definition optZ_eqb (a b : option Z) : bool :=
  match a, b with Some x, Some y => Z.eqb x y | None, None => true | _, _ => false end.
Definition optstr_eqb (a b : option str) : bool :=
  match a, b with Some x, Some y => str_eqb x y | None, None => true | _, _ => false end.
Definition cfg_eqb (a b : cfgrec) : bool :=
  optZ_eqb (cv a) (cv b) && optstr_eqb (cproj a) (cproj b) && optstr_eqb (cws a) (cws b).
Definition fdata_eqb (a b : fdata) : bool :=
  match a, b with
  | FCfg x, FCfg y => cfg_eqb x y
  | FJson x, FJson y => json_eqb (norm x) (norm y)
  | FBytes x, FBytes y => str_eqb x y
  | _, _ => false
  end.

(* equality of trees up to the order of directory entries (entries have distinct names) *)
Fixpoint node_eqb (a b : node) : bool :=
  match a, b with
  | File d1, File d2 => fdata_eqb d1 d2
  | Link t1, Link t2 => str_eqb t1 t2
  | Dir e1, Dir e2 =>
      Nat.eqb (length e1) (length e2) &&
      (fix go (l : list (str * node)) : bool :=
         match l with
         | [] => true
         | (k, v) :: l' =>
             match alookup k e2 with Some v' => node_eqb v v' | None => false end && go l'
         end) e1
  | _, _ => false
  end.

(* physical access: a path is a list of entry names from the root, no links followed *)
Fixpoint get (n : node) (p : list str) : option node :=
  match p with
  | [] => Some n
  | c :: p' =>
      match n with
      | Dir es => match alookup c es with Some n' => get n' p' | None => None end
      | _ => None
      end
  end.

(* replace / insert / remove the entry at physical path p (parent must be a directory) *)
Fixpoint upd (p : list str) (x : option node) (n : node) : node :=
  match p with
  | [] => match x with Some x' => x' | None => n end
  | c :: p' =>
      match n with
      | Dir es =>
          match p' with
          | [] => Dir (match x with Some x' => aset c x' es | None => aremove c es end)
          | _ => match alookup c es with
                 | Some n' => Dir (aset c (upd p' x n') es)
                 | None => n
                 end
          end
      | _ => n
      end
  end.

(* ------------------------------------------------------------------ physical resolution *)
Definition FUEL : nat := 600%nat.

(* resolve [comps] starting in the directory whose physical path is [rev rcur]; links are followed,
   also in the last component (stat semantics).  None = ENOENT / ENOTDIR / ELOOP. *)
Fixpoint walk (fuel : nat) (root : node) (rcur : list str) (comps : list str) : option (list str) :=
  match fuel with
  | O => None
  | S f =>
      match comps with
      | [] => Some (rev rcur)
      | c :: rest =>
          if str_eqb c [] || str_eqb c s_dot then walk f root rcur rest
          else if str_eqb c s_dotdot then walk f root (tl rcur) rest
          else
            match get root (rev rcur) with
            | Some (Dir es) =>
                match alookup c es with
                | None => None
                | Some (Dir _) => walk f root (c :: rcur) rest
                | Some (File _) => match rest with [] => Some (rev (c :: rcur)) | _ => None end
                | Some (Link t) =>
                    match t with
                    | [] => None
                    | _ => walk f root (if starts_sl t then [] else rcur) (split_sl t ++ rest)
                    end
                end
            | _ => None
            end
      end
  end.

(* how the kernel reads a path string of a process whose working directory is cwd (physical) *)
Definition os_full (cwd p : str) : str := if starts_sl p then p else cwd ++ SL :: p.

Definition os_resolve (root : node) (cwd p : str) : option (list str) :=
  match p with
  | [] => None
  | _ => walk FUEL root [] (split_sl (os_full cwd p))
  end.

Definition os_stat (root : node) (cwd p : str) : option node :=
  match os_resolve root cwd p with Some ph => get root ph | None => None end.

Definition os_exists root cwd p : bool := match os_stat root cwd p with Some _ => true | None => false end.
Definition os_isfile root cwd p : bool := match os_stat root cwd p with Some (File _) => true | _ => false end.
Definition os_isdir root cwd p : bool := match os_stat root cwd p with Some (Dir _) => true | _ => false end.

(* os.makedirs(path, exist_ok=True) for a normalised absolute path given by its components *)
Fixpoint mkdirs (root : node) (rcur : list str) (comps : list str) : result unit * node :=
  match comps with
  | [] => (Ok tt, root)
  | c :: rest =>
      if str_eqb c [] then mkdirs root rcur rest
      else
        match get root (rev rcur) with
        | Some (Dir es) =>
            match alookup c es with
            | None => mkdirs (upd (rev (c :: rcur)) (Some (Dir [])) root) (c :: rcur) rest
            | Some (Dir _) => mkdirs root (c :: rcur) rest
            | Some (File _) => (Err EOSError, root)
            | Some (Link _) =>
                match walk FUEL root rcur [c] with
                | Some ph => match get root ph with
                             | Some (Dir _) => mkdirs root (rev ph) rest
                             | _ => (Err EOSError, root)
                             end
                | None => (Err EOSError, root)
                end
            end
        | _ => (Err EOSError, root)
        end
  end.

(* ------------------------------------------------------------------ configuration files *)
Inductive rd := RdNone | RdBad | RdCfg (c : cfgrec).

Definition read_cfg (root : node) (cwd p : str) : rd :=
  match os_stat root cwd p with
  | Some (File (FCfg c)) => RdCfg c
  | Some (File _) => RdBad
  | _ => RdNone
  end.

(* _get_project_config_fn *)
Definition cfgfn (cwd path : str) : str := abspath cwd (path_join path s_cfg_rel).

(* migration/v1_to_v2.py _load_config_v2: os.path.join(root, ".signac", "config"), no abspath *)
Definition load_v2 (root : node) (cwd rdir : str) : option cfgrec :=
  let fn := path_join (path_join rdir s_dotsignac) s_config in
  if os_isfile root cwd fn then
    match read_cfg root cwd fn with RdCfg c => Some c | _ => None end
  else None.

(* migration/v0_to_v1.py _load_config_v1: validation needs the key 'project' *)
Definition load_v1 (root : node) (cwd rdir : str) : option cfgrec :=
  let fn := path_join rdir s_rc in
  if os_isfile root cwd fn then
    match read_cfg root cwd fn with
    | RdCfg c => match cproj c with Some _ => Some c | None => None end
    | _ => None
    end
  else None.

Definition loader (v : Z) : node -> str -> str -> option cfgrec :=
  if Z.eqb v 1 then load_v1 else load_v2.

(* _VERSION_LIST = [2; 1]; the guess is tried first when it has a loader *)
Definition loader_order (guess : Z) : list Z :=
  (if Z.eqb guess 1 || Z.eqb guess 2 then [guess] else []) ++ [2%Z; 1%Z].

Fixpoint first_load (root : node) (cwd rdir : str) (vs : list Z) : option cfgrec :=
  match vs with
  | [] => None
  | v :: vs' => match loader v root cwd rdir with Some c => Some c | None => first_load root cwd rdir vs' end
  end.

(* migration._get_config_schema_version; None = RuntimeError("Unable to load config file.") *)
Definition get_version (root : node) (cwd rdir : str) (guess : Z) : option Z :=
  match first_load root cwd rdir (loader_order guess) with
  | Some c => Some (match cv c with Some v => v | None => 0%Z end)
  | None => None
  end.

Definition SCHEMA : Z := 2%Z.

(* _raise_if_older_schema: Some e = the exception raised, None = returns *)
Definition raise_if_older (root : node) (cwd rdir : str) : option exn :=
  match get_version root cwd rdir SCHEMA with
  | Some v => if Z.eqb v SCHEMA then Some EOther (* AssertionError *) else Some EIncompatibleSchemaVersion
  | None => None
  end.

(* ------------------------------------------------------------------ Project.__init__ *)
(* the version Project._check_schema_compatibility reads: configspec default '1' *)
Definition declared_version (c : cfgrec) : Z := match cv c with Some v => v | None => 1%Z end.

Definition project_open (root : node) (cwd path : str) : result str * node :=
  if os_isfile root cwd (cfgfn cwd path) then
    match read_cfg root cwd (cfgfn cwd path) with
    | RdCfg c =>
        if Z.eqb (declared_version c) SCHEMA then
          let ap := abspath cwd path in
          let ws := path_join ap s_workspace in
          if os_isdir root cwd ws then (Ok ap, root)
          else match mkdirs root [] (split_sl ws) with
               | (Ok _, root') => (Ok ap, root')
               | (Err e, root') => (Err e, root')
               end
        else (Err EIncompatibleSchemaVersion, root)
    | _ => (Err EOther, root)
    end
  else
    match raise_if_older root cwd path with
    | Some e => (Err e, root)
    | None => (Err ELookupError, root)
    end.

(* ------------------------------------------------------------------ _locate_config_dir *)
Fixpoint loc_up (fuel : nat) (root : node) (cwd sp : str) : option str :=
  match fuel with
  | O => None
  | S f =>
      if os_isfile root cwd (cfgfn cwd sp) then Some sp
      else let up := dirname sp in
           if str_eqb up sp then None else loc_up f root cwd up
  end.

Fixpoint older_up (fuel : nat) (root : node) (cwd sp : str) : option exn :=
  match fuel with
  | O => None
  | S f =>
      match raise_if_older root cwd sp with
      | Some e => Some e
      | None => let up := dirname sp in
                if str_eqb up sp then None else older_up f root cwd up
      end
  end.

Definition locate_config_dir (root : node) (cwd path : str) : result (option str) :=
  let sp := abspath cwd path in
  match loc_up (S (length sp)) root cwd sp with
  | Some r => Ok (Some r)
  | None =>
      match older_up (S (length sp)) root cwd sp with
      | Some e => Err e
      | None => Ok None
      end
  end.

(* ------------------------------------------------------------------ get_project *)
Definition get_project (root : node) (cwd path : str) (search : bool) : result str * node :=
  if negb (os_exists root cwd path) then (Err ELookupError, root)
  else if negb search && negb (os_isfile root cwd (cfgfn cwd path)) then
    (* since fix 7826961 the legacy detection runs here too (on the raw path) *)
    match raise_if_older root cwd path with
    | Some e => (Err e, root)
    | None => (Err ELookupError, root)
    end
  else
    match locate_config_dir root cwd path with
    | Err e => (Err e, root)
    | Ok None => (Err ELookupError, root)
    | Ok (Some p) => project_open root cwd p
    end.

(* ------------------------------------------------------------------ get_job *)
Definition is_hex (c : N) : bool :=
  (N.leb 48 c && N.leb c 57) || (N.leb 97 c && N.leb c 102).   (* [a-f0-9] *)

(* JOB_ID_REGEX.fullmatch(component) *)
Definition id_fullmatch (c : str) : bool := Nat.eqb (List.length c) 32 && forallb is_hex c.

(* scanning path.split(os.sep) from the END for the first component that is exactly a job id
   (fix 6e2adfe; before it the code took the last 32-hex RUN of the whole path string).
   The argument is the component list reversed; the result is the id and the reversed list of the
   components up to and including it. *)
Fixpoint innermost_idcomp (rcomps : list str) : option (str * list str) :=
  match rcomps with
  | [] => None
  | c :: r => if id_fullmatch c then Some (c, rcomps) else innermost_idcomp r
  end.

Definition s_pardir : str := s_dotdot.

Definition get_job (root : node) (cwd path : str) : result (str * str) * node :=
  let ap := abspath cwd path in
  if negb (os_exists root cwd ap) then (Err ELookupError, root)
  else
    match innermost_idcomp (rev (split_sl ap)) with
    | None => (Err ELookupError, root)
    | Some (job_id, rupto) =>
        let job_path := join_sl (rev rupto) in
        match get_project root cwd (path_join job_path s_pardir) true with
        | (Ok pr, root') => (Ok (pr, job_id), root')
        | (Err x, root') => (Err x, root')
        end
    end.

(* ------------------------------------------------------------------ init_project *)
Definition new_cfg : cfgrec := {| cv := Some SCHEMA; cproj := None; cws := None |}.

(* the except-branch of init_project: nothing found at [path] *)
Definition init_new (root : node) (cwd path : str) : result str * node :=
  match raise_if_older root cwd path with
  | Some e => (Err e, root)
  | None =>
      let fn := cfgfn cwd path in
      let d := dirname fn in
      let mk := if os_isdir root cwd d then (Ok tt, root) else mkdirs root [] (split_sl d) in
      match mk with
      | (Err e, root1) => (Err e, root1)
      | (Ok _, root1) =>
          match os_resolve root1 cwd d with
          | None => (Err EOSError, root1)
          | Some ph =>
              (* _read_config_file: a missing file is an empty config; then set the version, write *)
              match get root1 (ph ++ [s_config]) with
              | Some (File (FCfg c)) =>
                  get_project (upd (ph ++ [s_config]) (Some (File (FCfg {| cv := Some SCHEMA; cproj := cproj c; cws := cws c |}))) root1) cwd path true
              | Some _ => (Err EOther, root1)
              | None =>
                  get_project (upd (ph ++ [s_config]) (Some (File (FCfg new_cfg))) root1) cwd path true
              end
          end
      end
  end.

Definition init_project (root : node) (cwd path : str) : result str * node :=
  match get_project root cwd path false with
  | (Err ELookupError, _) => init_new root cwd path
  | r => r
  end.
