(* C16Analyse.v — which archive directories become which job: the analysis loop shared by the zip
   and the tar analyser maps exactly the job roots, provided no root lies below another one in the
   sense the respective skipping test uses (is_below for zip, dirname-membership for tar). *)
From Coq Require Import String Ascii.
From SV Require Import Base Json MD5 Canon Export CorrC16 C16Frame.
Local Open Scope N_scope.
Local Opaque S.

Section Analyse.
  Variable o : oracle.
  Variable sf : str -> res (option json).
  Variable skipped : str -> list str -> bool.
  Variable adds : bool.
  Variable dst0 : fs.
  Variable roots : list (str * json).                 (* archive directory of a job -> its state point *)
  Variable Inv : list str -> list str -> Prop.        (* processed names, skip list *)

  Hypothesis Inv_nil : Inv [] [].
  Hypothesis root_not_skipped : forall done skip r,
    Inv done skip -> In r (List.map fst roots) -> ~ In r done -> skipped r skip = false.
  Hypothesis Inv_root : forall done skip r, Inv done skip -> In r (List.map fst roots) -> Inv (r :: done) (r :: skip).
  Hypothesis Inv_skipped : forall done skip x, Inv done skip -> skipped x skip = true ->
    Inv (x :: done) (if adds then x :: skip else skip).
  Hypothesis Inv_other : forall done skip x, Inv done skip -> Inv (x :: done) skip.
  Hypothesis roots_nodup : NoDup (List.map fst roots).
  Hypothesis sf_root : forall r sp, In (r, sp) roots -> sf r = ROk (Some sp).
  Hypothesis sf_other : forall x, ~ In x (List.map fst roots) -> sf x = ROk None.
  Hypothesis fresh : forall r sp, In (r, sp) roots -> fs_exists (job_dir (job_id_of o sp)) dst0 = false.

  Definition expected_maps (names : list str) : list (str * json * str) :=
    flat_map (fun x => match alookup x roots with Some sp => [(x, sp, job_id_of o sp)] | None => [] end) names.

  Definition astep (acc : res (list (str * json * str) * list str)) (name : str) :=
    do st <- acc;
    let '(maps, skip) := st in
    if skipped name skip then ROk (maps, if adds then name :: skip else skip)
    else do sp <- sf name;
         match sp with
         | None => ROk (maps, skip)
         | Some v =>
             let id := job_id_of o v in
             if fs_exists (job_dir id) dst0 then RExn EDestinationExists
             else ROk (filter (fun m : str * json * str => negb (str_eqb (fst (fst m)) name)) maps ++ [(name, v, id)], name :: skip)
         end.

  Lemma alookup_root : forall r, In r (List.map fst roots) -> exists sp, alookup r roots = Some sp /\ In (r, sp) roots.
  Proof.
    intros r H. destruct (alookup r roots) as [sp|] eqn:E.
    - exists sp. split; auto. apply alookup_In. exact E.
    - apply alookup_None_notin in E. contradiction.
  Qed.

  Lemma filter_none : forall (maps : list (str * json * str)) name,
    ~ In name (List.map (fun m => fst (fst m)) maps) ->
    filter (fun m : str * json * str => negb (str_eqb (fst (fst m)) name)) maps = maps.
  Proof.
    induction maps as [|m maps IH]; simpl; intros name H; auto.
    destruct (str_eqb (fst (fst m)) name) eqn:E.
    - apply str_eqb_eq in E. exfalso. apply H. left. exact E.
    - simpl. f_equal. apply IH. tauto.
  Qed.

  Lemma expected_maps_names : forall names x, In x (List.map (fun m => fst (fst m)) (expected_maps names)) -> In x names.
  Proof.
    induction names as [|n names IH]; simpl; intros x H; auto.
    rewrite map_app in H. apply in_app_or in H. destruct H as [H|H]; auto.
    destruct (alookup n roots); simpl in H; [|tauto]. destruct H as [<-|[]]. auto.
  Qed.

  Lemma expected_maps_app : forall a b, expected_maps (a ++ b) = expected_maps a ++ expected_maps b.
  Proof. intros. unfold expected_maps. apply flat_map_app. Qed.

  (* the loop, from any reachable state *)
  Lemma analyse_loop : forall names done skip,
    NoDup (done ++ names) -> Inv (rev done) skip ->
    exists skip', fold_left astep names (ROk (expected_maps done, skip)) = ROk (expected_maps (done ++ names), skip').
  Proof.
    induction names as [|x names IH]; intros done skip Hnd Hinv; cbn [fold_left].
    - rewrite app_nil_r. eexists. reflexivity.
    - assert (Hx : ~ In x done).
      { apply NoDup_remove_2 in Hnd. intro H. apply Hnd. apply in_or_app. left. exact H. }
      assert (Hnd' : NoDup ((done ++ [x]) ++ names)) by (rewrite <- app_assoc; exact Hnd).
      assert (Hx' : ~ In x (rev done)) by (rewrite <- in_rev; exact Hx).
      replace (done ++ x :: names) with ((done ++ [x]) ++ names) by (rewrite <- app_assoc; reflexivity).
      destruct (in_dec str_eq_dec x (List.map fst roots)) as [Hr|Hr].
      + (* a job root *)
        unfold astep at 2. cbn [rbind]. rewrite (root_not_skipped _ _ _ Hinv Hr Hx').
        destruct (alookup_root x Hr) as [sp [Ea Hin]].
        rewrite (sf_root _ _ Hin). cbn [rbind]. rewrite (fresh _ _ Hin).
        rewrite filter_none by (intro H; apply Hx; eapply expected_maps_names; eauto).
        assert (Ee : expected_maps done ++ [(x, sp, job_id_of o sp)] = expected_maps (done ++ [x])).
        { rewrite expected_maps_app. simpl. rewrite Ea. reflexivity. }
        rewrite Ee. apply IH; auto. rewrite rev_app_distr. simpl. apply Inv_root; auto.
      + (* not a root: skipped, or the schema function says None *)
        assert (Ee : expected_maps done = expected_maps (done ++ [x])).
        { rewrite expected_maps_app. simpl. destruct (alookup x roots) eqn:Ea; [|rewrite app_nil_r; reflexivity].
          apply alookup_In in Ea. exfalso. apply Hr. apply (in_map fst) in Ea. exact Ea. }
        unfold astep at 2. cbn [rbind].
        destruct (skipped x skip) eqn:Es.
        * rewrite Ee. apply IH; auto. rewrite rev_app_distr. simpl. apply Inv_skipped; auto.
        * rewrite (sf_other _ Hr). cbn [rbind]. rewrite Ee. apply IH; auto.
          rewrite rev_app_distr. simpl. apply Inv_other. exact Hinv.
  Qed.

  Hypothesis ids_distinct : NoDup (List.map (fun r => job_id_of o (snd r)) roots).

  Lemma expected_ids_nodup : forall names, NoDup names ->
    has_dup (List.map snd (expected_maps names)) = false.
  Proof.
    intros names Hnd.
    assert (H : NoDup (List.map snd (expected_maps names))).
    { induction names as [|x names IH]; simpl; [constructor|]. inversion Hnd; subst.
      rewrite map_app. destruct (alookup x roots) as [sp|] eqn:Ea; simpl; [|apply IH; auto].
      constructor; [|apply IH; auto]. intro Hin.
      apply in_map_iff in Hin. destruct Hin as [[[y sp'] id'] [Eid Hy]]. simpl in Eid.
      unfold expected_maps in Hy. apply in_flat_map in Hy. destruct Hy as [z [Hz Hy]].
      destruct (alookup z roots) as [spz|] eqn:Ez; [|destruct Hy]. destruct Hy as [Hy|[]]. inversion Hy; subst.
      apply alookup_In in Ea, Ez.
      assert (x = y).
      { rename H4 into Eid. clear -ids_distinct Ea Ez Eid. induction roots as [|[k v] rs IHr]; [destruct Ea|].
        simpl in ids_distinct. inversion ids_distinct; subst.
        destruct Ea as [Ea|Ea], Ez as [Ez|Ez].
        - congruence.
        - inversion Ea; subst. exfalso. apply H1. apply in_map_iff. exists (y, sp'). split; auto.
        - inversion Ez; subst. exfalso. apply H1. apply in_map_iff. exists (x, sp). split; auto.
        - apply IHr; auto. }
      subst y. contradiction. }
    clear -H. induction (List.map snd (expected_maps names)) as [|i l IH]; simpl; auto.
    inversion H; subst. rewrite IH by assumption. rewrite orb_false_r.
    destruct (str_mem i l) eqn:E; auto. apply str_mem_In in E. contradiction.
  Qed.

  Theorem analyse_exact : forall names, NoDup names ->
    analyse o sf skipped adds names dst0 = ROk (expected_maps names).
  Proof.
    intros names Hnd. unfold analyse.
    destruct (analyse_loop names [] [] Hnd Inv_nil) as [skip' E].
    change (fold_left astep names (ROk ([], [])) = ROk (expected_maps names, skip')) in E.
    unfold astep in E. rewrite E. cbn [rbind fst]. rewrite expected_ids_nodup by exact Hnd. reflexivity.
  Qed.
End Analyse.

(* ------------------------------------------------------------------ zip: is_below skipping *)
Theorem zip_mapping_exact : forall o sch ms dst0 (roots : list (str * json)) names,
  (* no job root lies in or below another job root (whole path components: [zip_under] = is_below) *)
  (forall r r', In r (List.map fst roots) -> In r' (List.map fst roots) -> zip_under r r' = true -> r = r') ->
  NoDup (List.map fst roots) ->
  (forall r sp, In (r, sp) roots -> arch_schema_fn o sch (zip_read_sp o ms) r = ROk (Some sp)) ->
  (forall x, ~ In x (List.map fst roots) -> arch_schema_fn o sch (zip_read_sp o ms) x = ROk None) ->
  (forall r sp, In (r, sp) roots -> fs_exists (job_dir (job_id_of o sp)) dst0 = false) ->
  NoDup (List.map (fun r => job_id_of o (snd r)) roots) ->
  NoDup names ->
  analyse o (arch_schema_fn o sch (zip_read_sp o ms)) (fun name skip => existsb (zip_under name) skip) false names dst0
  = ROk (expected_maps o roots names).
Proof.
  intros o sch ms dst0 roots names Hpf Hnd Hroot Hother Hfresh Hids Hnames.
  apply (analyse_exact o _ _ false dst0 roots
           (fun done skip => forall s, In s skip -> In s (List.map fst roots) /\ In s done)); auto.
  - intros s [].
  - intros done skip r Hinv Hr Hdone. destruct (existsb (zip_under r) skip) eqn:E; auto.
    apply existsb_exists in E. destruct E as [s [Hs Hu]]. destruct (Hinv s Hs) as [Hsr Hsd].
    rewrite (Hpf r s Hr Hsr Hu) in Hdone. contradiction.
  - intros done skip r Hinv Hr s [<-|Hs]; [split; [auto|left; auto]|].
    destruct (Hinv s Hs). split; auto. right. auto.
  - intros done skip x Hinv _ s Hs. destruct (Hinv s Hs). split; auto. right. auto.
  - intros done skip x Hinv s Hs. destruct (Hinv s Hs). split; auto. right. auto.
Qed.

(* ------------------------------------------------------------------ tar: dirname-in-skip skipping *)
Lemma iter_succ_r : forall A (f : A -> A) n x, Nat.iter (Datatypes.S n) f x = Nat.iter n f (f x).
Proof. induction n as [|n IH]; intro x; simpl in *; auto. rewrite <- IH. reflexivity. Qed.

Theorem tar_mapping_exact : forall o sch ms dst0 (roots : list (str * json)) names,
  (* no job root lies below another one: no iterated dirname of a root is a root *)
  (forall r r' n, In r (List.map fst roots) -> In r' (List.map fst roots) -> Nat.iter (Datatypes.S n) dirname r <> r') ->
  NoDup (List.map fst roots) ->
  (forall r sp, In (r, sp) roots -> arch_schema_fn o sch (tar_read_sp o ms) r = ROk (Some sp)) ->
  (forall x, ~ In x (List.map fst roots) -> arch_schema_fn o sch (tar_read_sp o ms) x = ROk None) ->
  (forall r sp, In (r, sp) roots -> fs_exists (job_dir (job_id_of o sp)) dst0 = false) ->
  NoDup (List.map (fun r => job_id_of o (snd r)) roots) ->
  NoDup names ->
  analyse o (arch_schema_fn o sch (tar_read_sp o ms)) (fun name skip => str_mem (dirname name) skip) true names dst0
  = ROk (expected_maps o roots names).
Proof.
  intros o sch ms dst0 roots names Hpf Hnd Hroot Hother Hfresh Hids Hnames.
  apply (analyse_exact o _ _ true dst0 roots
           (fun done skip => forall s, In s skip -> exists r n, In r (List.map fst roots) /\ Nat.iter n dirname s = r)); auto.
  - intros s [].
  - intros done skip r Hinv Hr _. destruct (str_mem (dirname r) skip) eqn:E; auto.
    apply str_mem_In in E. destruct (Hinv _ E) as [r' [n [Hr' Hit]]].
    exfalso. apply (Hpf r r' n Hr Hr'). rewrite iter_succ_r. exact Hit.
  - intros done skip r Hinv Hr s [<-|Hs]; [exists r, 0%nat; auto|apply Hinv; exact Hs].
  - intros done skip x Hinv Hsk s [<-|Hs]; [|apply Hinv; exact Hs].
    apply str_mem_In in Hsk. destruct (Hinv _ Hsk) as [r [n [Hr Hit]]].
    exists r, (Datatypes.S n). split; auto. rewrite iter_succ_r. exact Hit.
Qed.
