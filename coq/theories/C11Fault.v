(* C11Fault.v — fault safety of Job.init and of the re-key protocol for EVERY fault plan: complete runs in
   which any call may fail with any errno (no effect), [gran]; an invariant kept by every call, and a
   post-condition established whenever the run returns normally. *)
From SV Require Import Base Json MD5 Canon FS Proc Crash WsNames CorrC11 C11Proofs C11Clone.
Import ListNotations.

Inductive gran {A} : prog A -> fs -> fs -> outcome A -> Prop :=
| gr_ret : forall a f, gran (Ret a) f f (inl a)
| gr_raise : forall e f, gran (Raise e) f f (inr e)
| gr_step : forall c k f f' r g o, exec_res f c = (f', r) -> gran (k r) f' g o -> gran (Do c k) f g o
| gr_fault : forall c k f e g o, gran (k (FErr e)) f g o -> gran (Do c k) f g o.

Lemma run_fault_gran : forall A plan (p : prog A) n f,
  gran p f (fst (run_fault plan n p f)) (snd (run_fault plan n p f)).
Proof.
  intros A plan p. induction p as [a|e|c k IH]; intros n f; simpl; try constructor.
  destruct (plan n) as [e|].
  - apply gr_fault with (e := e). apply IH.
  - destruct (exec_res f c) as [f' r] eqn:E. eapply gr_step; eauto.
Qed.

(* from state f: every complete run keeps Inv, and a normal return establishes Post *)
Definition safeRat (Inv Post : fs -> Prop) (p : prog unit) (f : fs) : Prop :=
  forall g o, gran p f g o -> Inv g /\ (o = inl tt -> Post g).

Lemma sr_ret : forall (Inv Post : fs -> Prop) f, Inv f -> Post f -> safeRat Inv Post (Ret tt) f.
Proof. intros Inv Post f Hi Hp g o H. inversion H; subst. auto. Qed.

Lemma sr_raise : forall (Inv Post : fs -> Prop) e f, Inv f -> safeRat Inv Post (Raise e) f.
Proof. intros Inv Post e f Hi g o H. inversion H; subst. split; auto. discriminate. Qed.

Lemma sr_do : forall (Inv Post : fs -> Prop) c k f,
  safeRat Inv Post (k (snd (exec_res f c))) (fst (exec_res f c)) ->
  (forall e, safeRat Inv Post (k (FErr e)) f) ->
  safeRat Inv Post (Do c k) f.
Proof.
  intros Inv Post c k f Ha Hf g o H. inversion H as [| |c0 k0 f1 f' r g0 o0 He Hr|c0 k0 f1 e g0 o0 Hr]; subst.
  - rewrite He in Ha. apply (Ha g o Hr).
  - apply (Hf e g o Hr).
Qed.

Lemma sr_pure_all : forall (Inv Post : fs -> Prop) c k f, pure_call c = true ->
  (forall r, safeRat Inv Post (k r) f) -> safeRat Inv Post (Do c k) f.
Proof.
  intros Inv Post c k f Hp H. apply sr_do; [|intro e; apply H].
  rewrite (pure_fst f c Hp). apply H.
Qed.

Section INITF.
  Variable frepr : fl -> str.
  Variable atomic : bool.
  Variable tag : str.
  Variables w1 w2 : str.
  Variable wr : path.
  Variable sp : json.
  Variable f : fs.
  Let ws : path := w1 :: w2 :: wr.
  Let i := calc_id frepr sp.
  Let dir := ws ++ [i].
  Let file := dir ++ [SPF].
  Let tmp := dir ++ [TMPPFX ++ tag ++ SPF].
  Hypothesis Hanc : forall p, under p ws = true -> get f p = Some Dir.
  (* the state point file is absent, or valid for this id *)
  Hypothesis Hfile : get f file = None \/
    exists c v, get f file = Some (File c) /\ c_json c = Some v /\ is_jnull v = false /\ calc_id frepr v = i.
  Hypothesis Htmp : get f tmp = None.
  Hypothesis Hdir : get f dir = None \/ get f dir = Some Dir.
  Hypothesis Hspnn : is_jnull sp = false.

  Definition okc (n : option node) : Prop :=
    n = None \/ exists c, n = Some (File c) /\ (c_json c = None \/ c_json c = Some sp).

  Definition IS2 (g : fs) : Prop :=
    (forall q, q <> dir -> q <> file -> q <> tmp -> get g q = get f q) /\
    (get g dir = get f dir \/ get g dir = Some Dir) /\ (get g file = get f file \/ okc (get g file)) /\ okc (get g tmp).

  Definition IPost (g : fs) : Prop :=
    exists c v, get g file = Some (File c) /\ c_json c = Some v /\ is_jnull v = false /\ calc_id frepr v = i.

  Lemma IS2_start : IS2 f.
  Proof. unfold IS2, okc. rewrite Htmp. repeat split; auto. Qed.

  Lemma IS2_init_st : forall g, get f file = None -> IS2 g -> init_st frepr tag w1 w2 wr sp f g.
  Proof.
    intros g Hn [H1 [H2 [H3 H4]]]. unfold init_st. fold ws i dir file tmp. repeat split; auto.
    - destruct H3 as [H3|H3]; [left; congruence|exact H3].
    - destruct H4 as [H4|[c [H4 _]]]; eauto.
  Qed.

  Lemma ne_df : dir <> file. Proof. apply path_eqb_neq. apply path_eqb_self_snoc. Qed.
  Lemma ne_dt : dir <> tmp. Proof. apply path_eqb_neq. apply path_eqb_self_snoc. Qed.
  Lemma ne_ft : file <> tmp.
  Proof. apply path_eqb_neq. unfold file, tmp. rewrite path_eqb_snoc. reflexivity. Qed.

  (* a state whose only difference to g is the entry p, one of the three owned paths *)
  Lemma IS2_set : forall g g' p (n : option node),
    (forall q, get g' q = if path_eqb q p then n else get g q) -> IS2 g ->
    (p = dir /\ n = Some Dir) \/ (p = file /\ okc n) \/ (p = tmp /\ okc n) -> IS2 g'.
  Proof.
    intros g g' p n Hg [H1 [H2 [H3 H4]]] Hp.
    assert (Hs : forall q, q <> p -> get g' q = get g q).
    { intros q Hq. rewrite Hg. apply path_eqb_neq in Hq. rewrite Hq. reflexivity. }
    assert (Hpp : get g' p = n) by (rewrite Hg, path_eqb_refl; reflexivity).
    pose proof ne_df. pose proof ne_dt. pose proof ne_ft.
    destruct Hp as [[-> ->]|[[-> Hn]|[-> Hn]]]; unfold IS2; repeat split; auto.
    - intros q Q1 Q2 Q3. rewrite Hs; auto.
    - rewrite (Hs file); auto.
    - rewrite (Hs tmp); auto.
    - intros q Q1 Q2 Q3. rewrite Hs; auto.
    - rewrite (Hs dir); auto.
    - rewrite Hpp. right. exact Hn.
    - rewrite (Hs tmp); auto.
    - intros q Q1 Q2 Q3. rewrite Hs; auto.
    - rewrite (Hs dir); auto.
    - rewrite (Hs file); auto.
    - rewrite Hpp. exact Hn.
  Qed.

  Lemma okc_empty : okc (Some (File empty_content)).
  Proof. right. exists empty_content. auto. Qed.
  Lemma okc_jc : okc (Some (File (jcontent frepr sp))).
  Proof. right. exists (jcontent frepr sp). auto. Qed.
  Lemma okc_none : okc None. Proof. left. reflexivity. Qed.

  Lemma IS2_mkdir_dir : forall g, IS2 g -> IS2 (fst (exec_res g (CMkdir dir))).
  Proof.
    intros g Hi. unfold exec_res. cbn [exec]. destruct (mkdir g dir) as [g'|e] eqn:E; cbn [lift fst]; auto.
    apply (IS2_set g g' dir (Some Dir)); auto. intro q. apply (get_mkdir _ _ _ q E).
  Qed.

  Lemma IS2_openw : forall g p, IS2 g -> p = file \/ p = tmp -> IS2 (fst (exec_res g (COpenW p))).
  Proof.
    intros g p Hi Hp. unfold exec_res. cbn [exec].
    destruct (write_file g p empty_content) as [g'|e] eqn:E; cbn [lift fst]; auto.
    apply (IS2_set g g' p (Some (File empty_content))); auto.
    - intro q. apply (get_write_file _ _ _ _ q E).
    - destruct Hp as [-> | ->]; [right; left|right; right]; split; auto; apply okc_empty.
  Qed.

  Lemma IS2_write : forall g p, IS2 g -> p = file \/ p = tmp -> IS2 (fst (exec_res g (CWrite p (jcontent frepr sp)))).
  Proof.
    intros g p Hi Hp. unfold exec_res. cbn [exec]. unfold write_open.
    destruct (get g p) as [[c|]|]; cbn [lift fst]; auto.
    destruct (write_file g p (jcontent frepr sp)) as [g'|e] eqn:E; cbn [lift fst]; auto.
    apply (IS2_set g g' p (Some (File (jcontent frepr sp)))); auto.
    - intro q. apply (get_write_file _ _ _ _ q E).
    - destruct Hp as [-> | ->]; [right; left|right; right]; split; auto; apply okc_jc.
  Qed.

  Lemma IS2_unlink_file : forall g, IS2 g -> IS2 (fst (exec_res g (CUnlink file))).
  Proof.
    intros g Hi. unfold exec_res. cbn [exec]. destruct (unlink g file) as [g'|e] eqn:E; cbn [lift fst]; auto.
    apply (IS2_set g g' file None); auto.
    - intro q. apply (get_unlink _ _ _ q E).
    - right. left. split; auto. apply okc_none.
  Qed.

  Lemma IS2_rename : forall g, IS2 g -> IS2 (fst (exec_res g (CRename tmp file))).
  Proof.
    intros g Hi. unfold exec_res. cbn [exec]. destruct (rename g tmp file) as [g'|e] eqn:E; cbn [lift fst]; auto.
    pose proof Hi as [H1 [H2 [H3 H4]]].
    destruct H4 as [H4|[c [H4 Hc]]]; [rewrite (rename_missing g tmp file H4) in E; discriminate|].
    assert (Hne : tmp <> file) by (apply not_eq_sym; apply ne_ft).
    pose proof (fun q => get_rename_file g tmp file c g' q H4 Hne E) as Hg.
    (* first the temp file disappears, then the state point file takes its content *)
    set (gm := fun q => if path_eqb q tmp then None else get g q).
    unfold IS2. pose proof ne_df. pose proof ne_dt. pose proof ne_ft.
    assert (Q1 : path_eqb dir file = false) by (apply path_eqb_neq; auto).
    assert (Q2 : path_eqb dir tmp = false) by (apply path_eqb_neq; auto).
    assert (Q3 : path_eqb tmp file = false) by (apply path_eqb_neq; auto).
    repeat split.
    - intros q A1 A2 A3. rewrite Hg. apply path_eqb_neq in A2, A3. rewrite A2, A3. apply H1; auto.
      apply path_eqb_neq. exact A2. apply path_eqb_neq. exact A3.
    - rewrite Hg, Q1, Q2. exact H2.
    - rewrite Hg, path_eqb_refl. right. right. exists c. auto.
    - rewrite Hg, Q3, path_eqb_refl. apply okc_none.
  Qed.

  (* prefixes of the workspace path exist and are never touched *)
  Lemma anc_same : forall g p, IS2 g -> under p ws = true -> get g p = Some Dir.
  Proof.
    intros g p [H1 _] Hu. rewrite H1; [apply Hanc; exact Hu| | |];
      intro E; apply under_len in Hu; rewrite E in Hu; unfold file, tmp, dir in Hu; rewrite ?app_length in Hu; simpl in Hu; lia.
  Qed.

  Lemma parent_anc : forall p, under p ws = true -> under (parent p) ws = true.
  Proof. intros p H. eapply under_trans; [apply under_parent_self|exact H]. Qed.

  Notation SR := (safeRat IS2 IPost).

  Lemma sr_makedirs_anc : forall fuel ok p (k : fres unit -> prog unit) g,
    under p ws = true -> IS2 g -> (forall r, SR (k r) g) -> SR (makedirs_p fuel ok p k) g.
  Proof.
    induction fuel as [|fuel IH]; intros ok p k g Hu Hi Hk.
    - simpl. assert (E : exec_res g (CMkdir p) = (g, FErr EEXIST)).
      { unfold exec_res. cbn [exec]. unfold mkdir. rewrite (anc_same g p Hi Hu). reflexivity. }
      apply sr_do.
      + rewrite E. cbn [fst snd]. destruct ok; [|apply Hk]. apply sr_pure_all; [reflexivity|]. intro r2. destruct (is_dir_r r2); apply Hk.
      + intro e. destruct ok; [|apply Hk]. apply sr_pure_all; [reflexivity|]. intro r2. destruct (is_dir_r r2); apply Hk.
    - rewrite makedirs_p_unfold. cbv zeta.
      assert (E : exec_res g (CMkdir p) = (g, FErr EEXIST)).
      { unfold exec_res. cbn [exec]. unfold mkdir. rewrite (anc_same g p Hi Hu). reflexivity. }
      assert (Hleaf : SR (Do (CMkdir p) (fun r =>
                match r with
                | FOk _ => k (FOk tt)
                | FErr e => if ok then Do (CStat p) (fun r2 => if is_dir_r r2 then k (FOk tt) else k (FErr e))
                            else k (FErr e)
                end)) g).
      { apply sr_do.
        - rewrite E. cbn [fst snd]. destruct ok; [|apply Hk]. apply sr_pure_all; [reflexivity|]. intro r2. destruct (is_dir_r r2); apply Hk.
        - intro e. destruct ok; [|apply Hk]. apply sr_pure_all; [reflexivity|]. intro r2. destruct (is_dir_r r2); apply Hk. }
      destruct (parent p) as [|a [|b l]] eqn:Ep; auto.
      apply sr_pure_all; [reflexivity|]. intro rh. destruct (exists_r rh); auto.
      rewrite <- Ep. apply IH; [apply parent_anc; exact Hu|exact Hi|].
      intros [u|e]; auto. destruct e; auto.
  Qed.

  Definition KOK {X} (k : X -> prog unit) : Prop := forall g' r, IS2 g' -> SR (k r) g'.

  Lemma tmpname_tmp : tmpname tag file = tmp.
  Proof. unfold file, tmp. apply tmpname_snoc'. Qed.

  Lemma sr_json_save_at : forall (at_ : bool) (k : fres unit -> prog unit) g, IS2 g -> KOK k ->
    SR (json_save frepr tag at_ file sp k) g.
  Proof.
    intros at_ k g Hi Hk. unfold json_save. rewrite tmpname_tmp. cbv zeta.
    destruct at_.
    - (* temp file, then rename *)
      assert (Htail : forall h, IS2 h -> SR (Do (CRename tmp file) (fun rr => match rr with FErr e => k (FErr e) | FOk _ => k (FOk tt) end)) h).
      { intros h Hh. apply sr_do.
        - destruct (snd (exec_res h (CRename tmp file))); apply Hk; apply IS2_rename; auto.
        - intro e. apply Hk; auto. }
      assert (Hclose : forall h (rw : fres val), IS2 h -> SR (Do (CClose tmp) (fun rc : fres val =>
                 match rw, rc with
                 | _, FErr e => k (FErr e)
                 | FErr e, FOk _ => k (FErr e)
                 | FOk _, FOk _ => Do (CRename tmp file) (fun rr => match rr with FErr e => k (FErr e) | FOk _ => k (FOk tt) end)
                 end)) h).
      { intros h rw Hh. apply sr_pure_all; [reflexivity|]. intro rc. destruct rw, rc; try (apply Hk; auto). apply Htail; auto. }
      apply sr_do.
      + pose proof (IS2_openw g tmp Hi (or_intror eq_refl)) as Hi1.
        destruct (snd (exec_res g (COpenW tmp))) as [v|e]; [|apply Hk; auto].
        apply sr_do; [apply Hclose; apply IS2_write; auto|intro e; apply (Hclose _ (FErr e)); auto].
      + intro e. apply Hk; auto.
    - (* in place *)
      assert (Hclose : forall h (rw : fres val), IS2 h -> SR (Do (CClose file) (fun rc : fres val =>
                 match rw, rc with
                 | _, FErr e => k (FErr e)
                 | FErr e, FOk _ => k (FErr e)
                 | FOk _, FOk _ => k (FOk tt)
                 end)) h).
      { intros h rw Hh. apply sr_pure_all; [reflexivity|]. intro rc. destruct rw, rc; apply Hk; auto. }
      apply sr_do.
      + pose proof (IS2_openw g file Hi (or_introl eq_refl)) as Hi1.
        destruct (snd (exec_res g (COpenW file))) as [v|e]; [|apply Hk; auto].
        apply sr_do; [apply Hclose; apply IS2_write; auto|intro e; apply (Hclose _ (FErr e)); auto].
      + intro e. apply Hk; auto.
  Qed.

  Lemma sr_json_save : forall (k : fres unit -> prog unit) g, IS2 g -> KOK k -> SR (json_save frepr tag atomic file sp k) g.
  Proof. intros. apply sr_json_save_at; auto. Qed.

  Lemma sr_sp_load : forall (k : json + perr -> prog unit) g, IS2 g ->
    (forall v, IPost g -> SR (k (inl v)) g) -> (forall e, SR (k (inr e)) g) -> SR (sp_load frepr file i k) g.
  Proof.
    intros k g Hi Hok Herr. unfold sp_load. apply sr_do.
    - assert (Hf : fst (exec_res g (CRead file)) = g) by (apply pure_fst; reflexivity). rewrite Hf.
      unfold exec_res. cbn [exec]. destruct Hi as [_ [_ [H3 _]]].
      assert (Hcase : get g file = None \/ (exists c, get g file = Some (File c) /\ c_json c = None) \/
                      exists c v, get g file = Some (File c) /\ c_json c = Some v /\ is_jnull v = false /\ calc_id frepr v = i).
      { destruct H3 as [H3|[H3|[c [H3 [Hc|Hc]]]]].
        - rewrite H3. destruct Hfile as [Hn|[c [v Hv]]]; [auto|right; right; exists c, v; exact Hv].
        - auto.
        - right. left. eauto.
        - right. right. exists c, sp. repeat split; auto. }
      destruct Hcase as [Hn|[[c [Hc Hj]]|[c [v [Hc [Hj [Hnn Hv]]]]]]]; rewrite Hc || rewrite Hn; cbn [snd].
      + apply Herr.
      + rewrite Hj. apply Herr.
      + rewrite Hj, Hnn, Hv, str_eqb_refl. apply Hok. exists c, v. auto.
    - intro e. destruct e; apply Herr.
  Qed.

  Lemma sr_mkdir_p : forall (k : fres unit -> prog unit) g, IS2 g -> KOK k -> SR (mkdir_p dir k) g.
  Proof.
    intros k g Hi Hk. unfold mkdir_p. apply sr_pure_all; [reflexivity|]. intro r. destruct (is_dir_r r); [apply Hk; auto|].
    assert (Hleaf : SR (Do (CMkdir dir) (fun r0 =>
              match r0 with
              | FOk _ => k (FOk tt)
              | FErr e => if true then Do (CStat dir) (fun r2 => if is_dir_r r2 then k (FOk tt) else k (FErr e)) else k (FErr e)
              end)) g).
    { apply sr_do.
      - pose proof (IS2_mkdir_dir g Hi) as Hi1.
        destruct (snd (exec_res g (CMkdir dir))) as [v|e]; [apply Hk; auto|].
        apply sr_pure_all; [reflexivity|]. intro r2. destruct (is_dir_r r2); apply Hk; auto.
      - intro e. apply sr_pure_all; [reflexivity|]. intro r2. destruct (is_dir_r r2); apply Hk; auto. }
    rewrite makedirs_p_unfold. cbv zeta.
    assert (Hp : parent dir = ws) by (unfold dir; apply parent_snoc). rewrite Hp. unfold ws at 1. cbv iota. fold ws.
    apply sr_pure_all; [reflexivity|]. intro rh. destruct (exists_r rh); [exact Hleaf|].
    apply sr_makedirs_anc; [apply under_refl|exact Hi|]. intros [u|e]; auto. destruct e; auto; apply Hk; auto.
  Qed.

  Lemma sr_sp_save : forall force (k : unit + perr -> prog unit) g, IS2 g -> KOK k ->
    SR (sp_save frepr atomic tag file sp force k) g.
  Proof.
    intros force k g Hi Hk. unfold sp_save.
    assert (Hh : KOK (fun r : fres unit =>
               match r with
               | FOk _ => k (inl tt)
               | FErr e => if errno_eqb e EEXIST || errno_eqb e EACCES then k (inl tt)
                           else Do (CUnlink file) (fun _ => k (inr (POs e)))
               end)).
    { intros h r Hh. destruct r as [u|e]; [apply Hk; auto|].
      destruct (errno_eqb e EEXIST || errno_eqb e EACCES); [apply Hk; auto|].
      apply sr_do; [apply Hk; apply IS2_unlink_file; auto|intro e2; apply Hk; auto]. }
    destruct force; [apply sr_json_save; auto|].
    apply sr_pure_all; [reflexivity|]. intro r. destruct (is_file_r r); [apply (Hh g (FOk tt)); auto|apply sr_json_save; auto].
  Qed.

  (* Job.init for every fault plan: the invariant of the crash analysis is kept, and a normal return means
     that the state point file holds the job's state point *)
  Theorem sr_job_init : forall force, SR (job_init frepr atomic tag ws sp force ret_res) f.
  Proof.
    intro force. unfold job_init. cbv zeta. fold i dir file.
    assert (Hload : forall g, IS2 g -> SR (sp_load frepr file i (fun r3 => match r3 with inl _ => ret_res (inl tt) | inr e => ret_res (inr e) end)) g).
    { intros g Hg. apply sr_sp_load; auto.
      - intros v Hp. apply sr_ret; auto.
      - intro e. apply sr_raise; auto. }
    apply sr_sp_load; [apply IS2_start| |].
    - intros v Hp. apply sr_ret; [apply IS2_start|exact Hp].
    - intros _. apply sr_mkdir_p; [apply IS2_start|].
      intros g r Hg. destruct r as [u|e]; [|apply sr_raise; auto].
      apply sr_sp_save; auto. intros h r2 Hh. destruct r2 as [u2|e2]; [apply Hload; auto|apply sr_raise; auto].
  Qed.
End INITF.

(* ------------------------------------------------------------------ fault_safe_init *)
Lemma closed_prefix : forall f (p : path),
  (forall q, get f q <> None -> get f (parent q) = Some Dir) -> get f p = Some Dir ->
  forall q, under q p = true -> get f q = Some Dir.
Proof.
  intros f p Hcl Hp q Hu. apply under_spec in Hu. destruct Hu as [r ->].
  induction r as [|x r IH] using rev_ind.
  - rewrite app_nil_r in Hp. exact Hp.
  - apply IH. rewrite app_assoc in Hp.
    assert (Hne : get f ((q ++ r) ++ [x]) <> None) by congruence.
    apply Hcl in Hne. rewrite parent_snoc in Hne. exact Hne.
Qed.

Lemma payload_not_owned : forall (d : path) tag r, payload_rel r = true ->
  d ++ r <> d /\ d ++ r <> d ++ [SPF] /\ (tag = [] -> d ++ r <> d ++ [TMPPFX ++ tag ++ SPF]).
Proof.
  intros d tag r Hp.
  assert (Hnil : d ++ r <> d).
  { intro E. rewrite <- (app_nil_r d) in E at 2. apply app_inv_head in E. subst r. discriminate. }
  split; auto. destruct r as [|x [|y r]]; simpl in Hp; try discriminate.
  - apply negb_true_iff in Hp. apply orb_false_iff in Hp. destruct Hp as [Hp Ht]. apply orb_false_iff in Hp.
    destruct Hp as [H1 H2]. apply str_eqb_neq in H1. split.
    + intro E. apply app_inv_head in E. inversion E. contradiction.
    + intros -> E. apply app_inv_head in E. inversion E. subst x. unfold is_tmp_name in Ht.
      assert (str_prefix TMPPFX (TMPPFX ++ [] ++ SPF) = true) by (apply str_prefix_spec; eauto). congruence.
  - split; [|intros _]; intro E; apply app_inv_head in E; discriminate.
Qed.

Lemma all_payload_at_pay : forall frepr wss f0, WInv frepr wss f0 -> forall f (a b : path),
  (forall r c, payload_rel r = true -> get f0 (a ++ r) = Some (File c) -> holds_file f b r c = true) ->
  all_payload_at f0 f a b = true.
Proof.
  intros frepr wss f0 HW f a b H. unfold all_payload_at. apply forallb_forall. intros [p n] Hin. simpl.
  destruct (strip a p) as [r|] eqn:Es; auto. destruct n as [c|]; auto.
  destruct (payload_rel r) eqn:Hp; simpl; auto. apply strip_spec in Es. subst p.
  destruct HW as [Hnd [Hnil _]].
  assert (Hne : a ++ r <> []) by (intro E; apply Hnil; rewrite <- E; apply (in_map fst) in Hin; exact Hin).
  apply H; auto. apply (get_In_nodup f0 _ _ Hnd Hin Hne).
Qed.

Theorem fault_safe_init_thm : forall frepr wss f0 w1 w2 wr sp force atomic plan,
  WInv frepr wss f0 -> In (w1 :: w2 :: wr) wss -> is_jnull sp = false ->
  get f0 (((w1 :: w2 :: wr) ++ [calc_id frepr sp]) ++ [TMPPFX ++ [] ++ SPF]) = None ->
  let o := KInit (w1 :: w2 :: wr) sp force in
  let '(g, out) := run_fault plan 0 (op_prog frepr atomic o) f0 in
  CInv frepr o wss f0 g /\ (out = inl tt -> post_ok frepr o f0 g = true).
Proof.
  intros frepr wss f0 w1 w2 wr sp force atomic plan HW Hws Hspnn Htmp o.
  set (ws := w1 :: w2 :: wr) in *. set (i := calc_id frepr sp) in *. set (dir := ws ++ [i]) in *.
  pose proof HW as [Hnd [Hnil [Hcl [Hlen Hv]]]].
  assert (Hwd : get f0 ws = Some Dir) by (apply (Hv ws Hws)).
  assert (Hanc : forall p, under p ws = true -> get f0 p = Some Dir) by (apply closed_prefix; auto).
  assert (Hcase : (get f0 dir = None /\ get f0 (dir ++ [SPF]) = None) \/
                  (In i (job_dirs f0 ws) /\ get f0 dir = Some Dir /\
                   exists c v, get f0 (dir ++ [SPF]) = Some (File c) /\ c_json c = Some v /\ is_jnull v = false /\ calc_id frepr v = i)).
  { destruct (get f0 dir) as [n|] eqn:Gd.
    - right. assert (Hi : In i (job_dirs f0 ws)).
      { apply job_dirs_In. split; auto. split; [fold dir; congruence|apply id_match_calc_id]. }
      destruct (winv_job frepr wss f0 ws i HW Hws Hi) as [Hd [c [v [G [J E]]]]]. fold dir in Hd, G.
      split; auto. split; [congruence|]. exists c, v. repeat split; auto.
      apply (winv_job_nn frepr wss f0 ws i HW Hws Hi c v G J).
    - left. split; auto. apply (closed_absent f0 dir Hcl Gd [SPF]). }
  assert (Hfile : get f0 (dir ++ [SPF]) = None \/
     exists c v, get f0 (dir ++ [SPF]) = Some (File c) /\ c_json c = Some v /\ is_jnull v = false /\ calc_id frepr v = i).
  { destruct Hcase as [[_ Hn]|[_ [_ Hx]]]; auto. }
  pose proof (sr_job_init frepr atomic [] w1 w2 wr sp f0 Hanc Hfile Htmp Hspnn force) as SR.
  pose proof (run_fault_gran unit plan (op_prog frepr atomic o) 0 f0) as Hrun.
  destruct (run_fault plan 0 (op_prog frepr atomic o) f0) as [g out]. cbn [fst snd] in Hrun.
  destruct (SR g out Hrun) as [[H1 [H2 [H3 H4]]] Hpost]. fold ws i dir in H1, H2, H3, H4.
  set (file := dir ++ [SPF]) in *. set (tmp := dir ++ [TMPPFX ++ [] ++ SPF]) in *.
  assert (Hpay : forall r c, payload_rel r = true -> get f0 (dir ++ r) = Some (File c) -> get g (dir ++ r) = Some (File c)).
  { intros r c Hp Hg. destruct (payload_not_owned dir [] r Hp) as [N1 [N2 N3]]. rewrite H1; auto. }
  split.
  - apply cinv_intro; auto.
    + intros x [<-|[]]. exists ws, i. auto.
    + intros p Hp. apply under_any_false_cons in Hp. destruct Hp as [Hp _].
      apply H1; intro Eq; subst p; [rewrite under_refl in Hp|unfold file in Hp; rewrite under_app in Hp|unfold tmp in Hp; rewrite under_app in Hp]; discriminate.
    + right. intros r c Hp Hg. cbn [o src_dir] in Hg. fold ws i dir in Hg.
      change (affected frepr o f0) with [dir]. unfold o. cbn [filter].
      rewrite (holds_file_get g dir r c (Hpay r c Hp Hg)). reflexivity.
    + intros x [<-|[]]. cbn [o src_dir]. fold ws i dir.
      destruct H2 as [H2|H2]; [rewrite H2|auto]. destruct Hcase as [[Hn _]|[_ [Hd _]]]; auto.
    + intros w j Hw [Ed|[]] Hval. cbn [o src_dir] in Ed. fold ws i dir in Ed.
      rewrite validates_dir, <- Ed in Hval. rewrite sp_value_dir, <- Ed. fold file in Hval |- *.
      unfold history, o. fold ws i. rewrite sp_value_dir. fold dir file.
      destruct H3 as [H3|[H3|[c [H3 Hc]]]].
      * rewrite H3 in *. destruct (get f0 file) as [[c|]|]; try discriminate.
        destruct (c_json c) as [v|]; [|discriminate]. exists v. split; auto. simpl. rewrite json_same_refl. apply orb_true_r.
      * rewrite H3 in Hval. discriminate.
      * rewrite H3 in *. destruct Hc as [Hc|Hc]; rewrite Hc in *; [discriminate|].
        exists sp. split; auto. simpl. rewrite json_same_refl. reflexivity.
  - intro Hok. destruct (Hpost Hok) as [c [v [Gc [Jc [Nc Ec]]]]]. fold ws i dir file in Gc, Ec.
    cbn [post_ok o]. cbn [src_dir]. fold ws i dir. rewrite validates_dir. fold dir file. rewrite Gc, Jc, Ec, str_eqb_refl. simpl.
    apply (all_payload_at_pay frepr wss f0 HW). intros r c1 Hp Hg. apply holds_file_get. apply Hpay; auto.
Qed.

(* ------------------------------------------------------------------ fault_safe_rekey *)
(* complete runs whose injected errors are not ENOENT (which signac reads as "not there": excluded by C11) *)
Inductive grane {A} : prog A -> fs -> fs -> outcome A -> Prop :=
| ge_ret : forall a f, grane (Ret a) f f (inl a)
| ge_raise : forall e f, grane (Raise e) f f (inr e)
| ge_step : forall c k f f' r g o, exec_res f c = (f', r) -> grane (k r) f' g o -> grane (Do c k) f g o
| ge_fault : forall c k f e g o, e <> ENOENT -> grane (k (FErr e)) f g o -> grane (Do c k) f g o.

Lemma grane_gran : forall A (p : prog A) f g o, grane p f g o -> gran p f g o.
Proof. intros A p f g o H. induction H; [constructor|constructor|eapply gr_step; eauto|eapply gr_fault; eauto]. Qed.

Lemma run_fault_grane : forall A plan (p : prog A) n f, (forall m, plan m <> Some ENOENT) ->
  grane p f (fst (run_fault plan n p f)) (snd (run_fault plan n p f)).
Proof.
  intros A plan p. induction p as [a|e|c k IH]; intros n f Hp; simpl; try constructor.
  destruct (plan n) as [e|] eqn:Ep.
  - apply ge_fault with (e := e); [intro E; subst; apply (Hp n Ep)|apply IH; auto].
  - destruct (exec_res f c) as [f' r] eqn:E. eapply ge_step; eauto.
Qed.

Lemma grane_do : forall A c (k : fres val -> prog A) f g o, grane (Do c k) f g o ->
  grane (k (snd (exec_res f c))) (fst (exec_res f c)) g o \/ exists e, e <> ENOENT /\ grane (k (FErr e)) f g o.
Proof.
  intros A c k f g o H. inversion H as [| |c0 k0 f1 f' r g0 o0 He Hr|c0 k0 f1 e g0 o0 Hne Hr]; subst.
  - left. rewrite He. exact Hr.
  - right. eauto.
Qed.

Lemma grane_raise : forall A e f g (o : outcome A), grane (Raise e) f g o -> g = f /\ o = inr e.
Proof. intros A e f g o H. inversion H; subst. auto. Qed.

Lemma grane_ret : forall A (a : A) f g o, grane (Ret a) f g o -> g = f /\ o = inl a.
Proof. intros A a f g o H. inversion H; subst. auto. Qed.

Section RKF.
  Variable frepr : fl -> str.
  Variable wss : list path.
  Variable f0 : fs.
  Variables w1 w2 : str.
  Variable wr : path.
  Variable old : str.
  Variable nsp : json.
  Let ws : path := w1 :: w2 :: wr.
  Hypothesis HW : WInv frepr wss f0.
  Hypothesis Hws : In ws wss.
  Hypothesis Hold : In old (job_dirs f0 ws).
  Let o := KRekey ws old nsp.
  Let new := calc_id frepr nsp.
  Let odir := ws ++ [old].
  Let ndir := ws ++ [new].
  Let fname := odir ++ [SPF].
  Let bak := odir ++ [SPT].
  Hypothesis Hne : old <> new.
  Hypothesis Hnotmp : get f0 (odir ++ [TMPPFX ++ [] ++ SPF]) = None.
  Hypothesis Hnspnn : is_jnull nsp = false.

  Definition RG (g : fs) (out : outcome unit) : Prop :=
    CInv frepr o wss f0 g /\ (out = inl tt -> post_ok frepr o f0 g = true).

  Lemma rg_raise : forall f x g out, CInv frepr o wss f0 f -> grane (Raise x) f g out -> RG g out.
  Proof. intros f x g out Hc H. apply grane_raise in H. destruct H as [-> ->]. split; auto. discriminate. Qed.

  (* the outer handler of _save: one more read of the state point file, then an exception in every case *)
  Definition oexit_p (x : perr) : prog unit :=
    Do (CRead fname) (fun r =>
      match r with
      | FErr ENOENT => ret_res (inr x)
      | FErr e3 => ret_res (inr (POs e3))
      | FOk (RData d) => match c_json d with Some _ => ret_res (inr x) | None => ret_res (inr (PExn EValueError)) end
      | FOk _ => ret_res (inr (PExn EOther))
      end).

  Lemma rg_oexit : forall f x g out, CInv frepr o wss f0 f -> grane (oexit_p x) f g out -> RG g out.
  Proof.
    intros f x g out Hc H. unfold oexit_p in H. apply grane_do in H. destruct H as [H|[e [He H]]].
    - unfold exec_res in H. cbn [exec] in H.
      destruct (get f fname) as [[d|]|]; cbn [fst snd] in H.
      + destruct (c_json d); apply (rg_raise f _ g out Hc H).
      + apply (rg_raise f _ g out Hc H).
      + apply (rg_raise f _ g out Hc H).
    - destruct e; try contradiction; apply (rg_raise f _ g out Hc H).
  Qed.

  (* the protocol entered without the validating read (whole assignment through a handle that never loaded its
     state point: op_prog_r ... true); also the tail of every other re-key route *)
  Theorem rekey_fault_core : forall atomic g out, grane (rekey frepr atomic [] ws old nsp ret_res) f0 g out -> RG g out.
  Proof.
    intros atomic g out H.
    destruct (rk_src frepr wss f0 w1 w2 wr old HW Hws Hold) as [Hod0 [c [v0 [G [J E]]]]]. fold ws odir fname in Hod0, G.
    pose proof (winv_job_nn frepr wss f0 ws old HW Hws Hold c v0 G J) as Hnn.
    pose proof (cinv_rk_pre frepr wss f0 w1 w2 wr old nsp HW Hws Hold Hne c v0 G J Hod0) as Hpre.
    pose proof (cinv_rk_st1 frepr wss f0 w1 w2 wr old nsp HW Hws Hold Hne c Hod0) as C1.
    pose proof (cinv_rk_st3 frepr wss f0 w1 w2 wr old nsp HW Hws Hold Hne c v0 G J Hod0) as C3.
    fold ws o in Hpre, C1, C3.
    unfold rekey in H. fold new in H.
    assert (En : str_eqb old new = false) by (apply str_eqb_neq; exact Hne).
    rewrite En in H. cbv zeta in H. fold odir ndir fname bak in H.
    apply grane_do in H. destruct H as [H|[e [He H]]].
    2: { destruct e; try contradiction; apply (rg_oexit f0 _ g out Hpre H). }
    assert (Hfb : fname <> bak).
    { apply path_eqb_neq. unfold fname, bak. rewrite path_eqb_snoc. reflexivity. }
    assert (Hpb : get f0 (parent bak) = Some Dir) by (unfold bak; rewrite parent_snoc; exact Hod0).
    assert (Hb : get f0 bak = Some Dir \/ get f0 bak <> Some Dir).
    { destruct (get f0 bak) as [[cb|]|]; auto; right; discriminate. }
    destruct Hb as [Gb|Gb].
    { assert (E1 : exec_res f0 (CRename fname bak) = (f0, FErr EISDIR)).
      { unfold exec_res. cbn [exec]. unfold rename. rewrite G, Hpb, Gb.
        apply path_eqb_neq in Hfb. rewrite Hfb. reflexivity. }
      rewrite E1 in H. cbn [fst snd] in H. apply (rg_oexit f0 _ g out Hpre H). }
    destruct (rename_file_ok f0 fname bak c G Hpb Hfb Gb) as [f1 [E1 S1]].
    rewrite E1 in H. cbn [fst snd] in H.
    change (st1 f0 w1 w2 wr old c f1) in S1.
    pose proof (C1 f1 S1) as Hc1.
    (* ---- the rollback branch, entered with the error of the directory rename *)
    assert (Hroll : forall e, e <> ENOENT -> forall (kk : prog unit) g out,
              grane (Do (CRename bak fname) (fun r2 =>
                 match r2 with
                 | FErr ENOENT => kk
                 | FErr e2 => oexit_p (POs e2)
                 | FOk _ =>
                     Do (CRead fname) (fun r3 =>
                       let continue_ : prog unit :=
                         if dest_exists_e e then ret_res (inr (PExn EDestinationExists))
                         else match e with ENOENT => kk | _ => oexit_p (POs e) end in
                       match r3 with
                       | FErr ENOENT => continue_
                       | FErr e3 => oexit_p (POs e3)
                       | FOk (RData d) => match c_json d with Some _ => continue_ | None => ret_res (inr (PExn EValueError)) end
                       | FOk _ => ret_res (inr (PExn EOther))
                       end)
                 end)) f1 g out -> RG g out).
    { intros e Hene kk g1 out1 Hr. apply grane_do in Hr. destruct Hr as [Hr|[e2 [He2 Hr]]].
      2: { destruct e2; try contradiction; apply (rg_oexit f1 _ g1 out1 Hc1 Hr). }
      assert (P1 : get f1 bak = Some (File c)) by (rewrite S1, path_eqb_refl; reflexivity).
      assert (P2 : get f1 (parent fname) = Some Dir) by (unfold fname; rewrite parent_snoc; apply (st1_odir f0 w1 w2 wr old c Hod0 f1 S1)).
      assert (Hfn1 : get f1 fname = None) by (apply (st1_fname f0 w1 w2 wr old c f1 S1)).
      assert (P3 : get f1 fname <> Some Dir) by (rewrite Hfn1; discriminate).
      destruct (rename_file_ok f1 bak fname c P1 P2 (not_eq_sym Hfb) P3) as [f3 [E3 H3]].
      rewrite E3 in Hr. cbn [fst snd] in Hr.
      assert (S3 : st3 f0 w1 w2 wr old c f3).
      { intro q. fold ws odir fname bak. rewrite H3. destruct (path_eqb q fname) eqn:Q1; auto. destruct (path_eqb q bak) eqn:Q2; auto.
        rewrite S1. fold ws odir fname bak. rewrite Q2, Q1. reflexivity. }
      pose proof (C3 f3 S3) as Hc3.
      apply grane_do in Hr. destruct Hr as [Hr|[e3 [He3 Hr]]].
      2: { destruct e3; try contradiction; apply (rg_oexit f3 _ g1 out1 Hc3 Hr). }
      assert (E5 : exec_res f3 (CRead fname) = (f3, FOk (RData c))).
      { unfold exec_res. cbn [exec]. rewrite S3. fold ws odir fname. rewrite path_eqb_refl. reflexivity. }
      rewrite E5 in Hr. cbn [fst snd] in Hr. rewrite J in Hr. cbv zeta in Hr.
      destruct e; try contradiction; cbv beta iota delta [dest_exists_e] in Hr;
        first [apply (rg_raise f3 _ g1 out1 Hc3 Hr)|apply (rg_oexit f3 _ g1 out1 Hc3 Hr)]. }
    apply grane_do in H. destruct H as [H|[e [He H]]].
    2: { eapply (Hroll e He). exact H. }
    pose proof (rk_rename_dir frepr wss f0 w1 w2 wr old nsp HW Hws Hne c f1 Hod0 S1) as Hren.
    destruct (occupied frepr f0 w1 w2 wr nsp) eqn:Eo.
    - destruct Hren as [e [Er Hee]].
      assert (E2 : exec_res f1 (CRename odir ndir) = (f1, FErr e)) by (unfold exec_res; cbn [exec]; unfold odir, ndir, new, ws; rewrite Er; reflexivity).
      rewrite E2 in H. cbn [fst snd] in H.
      eapply (Hroll e); [destruct Hee as [-> | ->]; discriminate|exact H].
    - destruct Hren as [f2 [Er S2]].
      assert (E2 : exec_res f1 (CRename odir ndir) = (f2, FOk RUnit)) by (unfold exec_res; cbn [exec]; unfold odir, ndir, new, ws; rewrite Er; reflexivity).
      rewrite E2 in H. cbn [fst snd] in H.
      pose proof (cinv_rk_st2 frepr wss f0 w1 w2 wr old nsp HW Hws Hold Hne Hnspnn c Hod0 Eo f1 f2 S1 S2) as Hc2. fold ws o in Hc2.
      apply grane_do in H. destruct H as [H|[e [He H]]].
      2: { destruct e; try contradiction; apply (rg_raise f2 _ g out Hc2 H). }
      assert (Gb2 : get f2 (ndir ++ [SPT]) = Some (File c)).
      { unfold ndir, new, ws. rewrite (st2_new frepr w1 w2 wr old nsp f1 f2 S2). fold ws odir bak. rewrite S1. fold ws odir bak. rewrite path_eqb_refl. reflexivity. }
      assert (X4 : exists f4, exec_res f2 (CUnlink (ndir ++ [SPT])) = (f4, FOk RUnit) /\
                              forall q, get f4 q = if path_eqb q (ndir ++ [SPT]) then None else get f2 q).
      { unfold exec_res. cbn [exec]. destruct (unlink f2 (ndir ++ [SPT])) as [f4|e4] eqn:Eu.
        - exists f4. split; auto. intro q. apply (get_unlink _ _ _ q Eu).
        - unfold unlink in Eu. rewrite Gb2 in Eu. discriminate. }
      destruct X4 as [f4 [E4 H4]]. rewrite E4 in H. cbn [fst snd] in H.
      (* ---- Job.init in the new directory, under the remaining faults *)
      assert (F4out : forall q, under odir q = false -> under ndir q = false -> get f4 q = get f0 q).
      { intros q Q1 Q2. rewrite H4.
        assert (Qn : path_eqb q (ndir ++ [SPT]) = false).
        { apply path_eqb_neq. intro Eq. subst q. rewrite under_app in Q2. discriminate. }
        rewrite Qn. apply (st2_out frepr f0 w1 w2 wr old nsp c f1 f2 S1 S2 q Q1 Q2). }
      assert (Hanc : forall p, under p ws = true -> get f4 p = Some Dir).
      { intros p Hu. rewrite F4out.
        - apply (closed_prefix f0 ws); auto; [destruct HW as [_ [_ [Hcl _]]]; exact Hcl|apply (rk_ws frepr wss f0 w1 w2 wr HW Hws)].
        - destruct (under odir p) eqn:Q; auto. apply under_len in Q. apply under_len in Hu. unfold odir in Q. rewrite app_length in Q. unfold ws in *. simpl in *. lia.
        - destruct (under ndir p) eqn:Q; auto. apply under_len in Q. apply under_len in Hu. unfold ndir in Q. rewrite app_length in Q. unfold ws in *. simpl in *. lia. }
      assert (Hf4 : get f4 (ndir ++ [SPF]) = None).
      { rewrite H4, path_eqb_snoc. assert (Es : str_eqb SPF SPT = false) by reflexivity. rewrite Es.
        unfold ndir, new, ws. rewrite (st2_new frepr w1 w2 wr old nsp f1 f2 S2). apply (st1_fname f0 w1 w2 wr old c f1 S1). }
      assert (Ht4 : get f4 (ndir ++ [TMPPFX ++ [] ++ SPF]) = None).
      { rewrite H4, path_eqb_snoc. assert (Es : str_eqb (TMPPFX ++ [] ++ SPF) SPT = false) by reflexivity. rewrite Es.
        unfold ndir, new, ws. rewrite (st2_new frepr w1 w2 wr old nsp f1 f2 S2). fold ws odir.
        rewrite (st1_same f0 w1 w2 wr old c f1 _ S1); [exact Hnotmp| |]; fold ws odir;
          apply path_eqb_neq; rewrite path_eqb_snoc; reflexivity. }
      pose proof (sr_job_init frepr atomic [] w1 w2 wr nsp f4 Hanc (or_introl Hf4) Ht4 Hnspnn false) as SR.
      destruct (SR g out (grane_gran _ _ _ _ _ H)) as [Hi2 Hpost].
      split.
      + apply (cinv_rk_init frepr wss f0 w1 w2 wr old nsp HW Hws Hold Hne Hnspnn c Hod0 Eo f1 f2 S1 S2 f4 g H4).
        apply IS2_init_st; auto.
      + intro Hok. destruct (Hpost Hok) as [c1 [v1 [Gc [Jc [Nc Ec]]]]]. fold ws new ndir in Gc, Ec.
        destruct Hi2 as [I1 _]. fold ws new ndir in I1.
        cbn [post_ok o]. fold new. rewrite validates_dir. fold ndir. rewrite Gc, Jc, Ec, str_eqb_refl. cbn [andb].
        assert (Hodir_gone : get g odir = None).
        { rewrite I1.
          - rewrite H4. assert (Qn : path_eqb odir (ndir ++ [SPT]) = false).
            { apply path_eqb_neq. intro Eq. assert (L : length odir = length (ndir ++ [SPT])) by (rewrite Eq; reflexivity).
              unfold odir, ndir in L. rewrite !app_length in L. simpl in L. lia. }
            rewrite Qn. rewrite <- (app_nil_r odir). apply (st2_old frepr w1 w2 wr old nsp Hne f1 f2 S2 []).
          - apply (rk_dirs_ne frepr w1 w2 wr old nsp Hne).
          - intro Eq. assert (L : length odir = length (ndir ++ [SPF])) by (rewrite Eq; reflexivity).
            unfold odir, ndir in L. rewrite !app_length in L. simpl in L. lia.
          - intro Eq. assert (L : length odir = length (ndir ++ [TMPPFX ++ [] ++ SPF])) by (rewrite Eq; reflexivity).
            unfold odir, ndir in L. rewrite !app_length in L. simpl in L. lia. }
        unfold exists_. fold odir. rewrite Hodir_gone. rewrite orb_true_r, andb_true_r.
        apply (all_payload_at_pay frepr wss f0 HW). intros r c2 Hp Hg. fold odir in Hg. apply holds_file_get. fold ndir.
        destruct (payload_names nsp Hnspnn ndir r Hp) as [N1 [N2 [N3 N4]]].
        rewrite I1; auto. rewrite H4. apply path_eqb_neq in N2. rewrite N2.
        unfold ndir, new, ws. rewrite (st2_new frepr w1 w2 wr old nsp f1 f2 S2). fold ws odir.
        apply (st1_pay f0 w1 w2 wr old nsp Hnspnn c f1 S1 r c2 Hp Hg).
  Qed.

  Theorem rekey_fault_all : forall atomic g out, grane (op_prog frepr atomic o) f0 g out -> RG g out.
  Proof.
    intros atomic g out H.
    destruct (rk_src frepr wss f0 w1 w2 wr old HW Hws Hold) as [Hod0 [c [v0 [G [J E]]]]]. fold ws odir fname in Hod0, G.
    pose proof (winv_job_nn frepr wss f0 ws old HW Hws Hold c v0 G J) as Hnn.
    pose proof (cinv_rk_pre frepr wss f0 w1 w2 wr old nsp HW Hws Hold Hne c v0 G J Hod0) as Hpre.
    fold ws o in Hpre.
    unfold op_prog, o, rekey_by_id, with_sp, sp_load in H.
    replace (ws ++ [old; SPF]) with fname in H by (unfold fname, odir; rewrite <- app_assoc; reflexivity).
    apply grane_do in H. destruct H as [H|[e [He H]]].
    2: { destruct e; try contradiction; apply (rg_raise f0 _ g out Hpre H). }
    assert (E0 : exec_res f0 (CRead fname) = (f0, FOk (RData c))) by (unfold exec_res; cbn [exec]; rewrite G; reflexivity).
    rewrite E0 in H. cbn [fst snd] in H. rewrite J, Hnn, E, str_eqb_refl in H.
    exact (rekey_fault_core atomic g out H).
  Qed.
End RKF.

Theorem fault_safe_rekey_thm : forall frepr wss f0 w1 w2 wr old nsp atomic plan,
  WInv frepr wss f0 -> In (w1 :: w2 :: wr) wss -> In old (job_dirs f0 (w1 :: w2 :: wr)) ->
  old <> calc_id frepr nsp ->
  get f0 (((w1 :: w2 :: wr) ++ [old]) ++ [TMPPFX ++ [] ++ SPF]) = None ->
  is_jnull nsp = false ->
  (forall m, plan m <> Some ENOENT) ->
  let o := KRekey (w1 :: w2 :: wr) old nsp in
  let '(g, out) := run_fault plan 0 (op_prog frepr atomic o) f0 in
  CInv frepr o wss f0 g /\ (out = inl tt -> post_ok frepr o f0 g = true).
Proof.
  intros frepr wss f0 w1 w2 wr old nsp atomic plan HW Hws Hold Hne Hnotmp Hnn Hplan o.
  pose proof (run_fault_grane unit plan (op_prog frepr atomic o) 0 f0 Hplan) as Hrun.
  destruct (run_fault plan 0 (op_prog frepr atomic o) f0) as [g out]. cbn [fst snd] in Hrun.
  apply (rekey_fault_all frepr wss f0 w1 w2 wr old nsp HW Hws Hold Hne Hnotmp Hnn atomic g out Hrun).
Qed.

Theorem fault_safe_assign_thm : forall frepr wss f0 w1 w2 wr old nsp atomic plan,
  WInv frepr wss f0 -> In (w1 :: w2 :: wr) wss -> In old (job_dirs f0 (w1 :: w2 :: wr)) ->
  old <> calc_id frepr nsp ->
  get f0 (((w1 :: w2 :: wr) ++ [old]) ++ [TMPPFX ++ [] ++ SPF]) = None ->
  is_jnull nsp = false ->
  (forall m, plan m <> Some ENOENT) ->
  let o := KRekey (w1 :: w2 :: wr) old nsp in
  let '(g, out) := run_fault plan 0 (op_prog_r frepr atomic true o) f0 in
  CInv frepr o wss f0 g /\ (out = inl tt -> post_ok frepr o f0 g = true).
Proof.
  intros frepr wss f0 w1 w2 wr old nsp atomic plan HW Hws Hold Hne Hnotmp Hnn Hplan o.
  pose proof (run_fault_grane unit plan (op_prog_r frepr atomic true o) 0 f0 Hplan) as Hrun.
  destruct (run_fault plan 0 (op_prog_r frepr atomic true o) f0) as [g out]. cbn [fst snd] in Hrun.
  apply (rekey_fault_core frepr wss f0 w1 w2 wr old nsp HW Hws Hold Hne Hnotmp Hnn atomic g out Hrun).
Qed.

(* ------------------------------------------------------------------ the handle after a faulted re-key *)
Lemma rekey_h_forget : forall A frepr atomic tag ws old nsp (k : unit + perr -> prog A),
  rekey_h frepr atomic tag ws old nsp (fun _ r => k r) = rekey frepr atomic tag ws old nsp k.
Proof. reflexivity. Qed.

Section RKH.
  Variable frepr : fl -> str.
  Variable wss : list path.
  Variable f0 : fs.
  Variables w1 w2 : str.
  Variable wr : path.
  Variable old : str.
  Variable nsp : json.
  Let ws : path := w1 :: w2 :: wr.
  Hypothesis HW : WInv frepr wss f0.
  Hypothesis Hws : In ws wss.
  Hypothesis Hold : In old (job_dirs f0 ws).
  Let new := calc_id frepr nsp.
  Let odir := ws ++ [old].
  Let ndir := ws ++ [new].
  Let fname := odir ++ [SPF].
  Let bak := odir ++ [SPT].
  Hypothesis Hne : old <> new.
  Hypothesis Hbak : get f0 bak <> Some Dir.

  (* the first operation observed together with the handle it leaves behind *)
  Definition rk_obs (atomic : bool) : prog (hst * ores) :=
    op1_h frepr atomic (KRekey ws old nsp) (fun h r => Ret (h, r)).

  (* A re-key REJECTED by a handled I/O error (8529336).  One injected error, any errno but ENOENT (which
     signac reads as "not there"), at the initial load (0), at the parking of the state point file (1), at the
     directory rename (2); with an occupied destination — the directory rename fails by itself — at ANY call
     (3 = the rollback, 4 = the restoring read, 5 = the outer handler's read, later = no injection).
     The caller sees an exception, the handle keeps the old id, and whenever the state point file is in place
     afterwards it still holds the pre-state value and the handle either has not loaded a state point (it
     loads the file on the next access) or holds exactly that value: a later change through the same handle
     cannot carry the rejected one.  (Free destination and a call after the directory rename: the change is
     APPLIED, the handle has the new id — fault_safe_rekey.) *)
  Ltac fin Q0 Q3 Q1 :=
    eexists; eexists; eexists; split; [reflexivity|]; cbn [hs_ws hs_id hs_sp];
    split; [reflexivity|]; split; [reflexivity|]; first [apply Q0|apply Q3|apply Q1]; auto.

  Theorem rekey_fault_restores_handle : forall atomic k e, e <> ENOENT ->
    k <= 2 \/ occupied frepr f0 w1 w2 wr nsp = true ->
    exists f h x,
      run_fault (single k e) 0 (rk_obs atomic) f0 = (f, inl (h, inr x)) /\
      hs_ws h = ws /\ hs_id h = old /\
      forall v, sp_value f ws old = Some v ->
        sp_value f0 ws old = Some v /\ (hs_sp h = None \/ hs_sp h = Some v).
  Proof.
    intros atomic k e He Hk.
    destruct (rk_src frepr wss f0 w1 w2 wr old HW Hws Hold) as [Hod0 [c [v0 [G [J E]]]]]. fold ws odir fname in Hod0, G.
    pose proof (winv_job_nn frepr wss f0 ws old HW Hws Hold c v0 G J) as Hnn.
    assert (Hfb : fname <> bak).
    { apply path_eqb_neq. unfold fname, bak. rewrite path_eqb_snoc. reflexivity. }
    assert (Hpb : get f0 (parent bak) = Some Dir) by (unfold bak; rewrite parent_snoc; exact Hod0).
    destruct (rename_file_ok f0 fname bak c G Hpb Hfb Hbak) as [f1 [E1 S1]].
    change (st1 f0 w1 w2 wr old c f1) in S1.
    assert (P1 : get f1 bak = Some (File c)) by (rewrite S1; fold ws odir bak; rewrite path_eqb_refl; reflexivity).
    assert (P2 : get f1 (parent fname) = Some Dir) by (unfold fname; rewrite parent_snoc; apply (st1_odir f0 w1 w2 wr old c Hod0 f1 S1)).
    assert (Hfn1 : get f1 fname = None) by (apply (st1_fname f0 w1 w2 wr old c f1 S1)).
    assert (P3 : get f1 fname <> Some Dir) by (rewrite Hfn1; discriminate).
    destruct (rename_file_ok f1 bak fname c P1 P2 (not_eq_sym Hfb) P3) as [f3 [E3 H3]].
    assert (G3 : get f3 fname = Some (File c)) by (rewrite H3, path_eqb_refl; reflexivity).
    assert (E0 : exec_res f0 (CRead fname) = (f0, FOk (RData c))) by (unfold exec_res; cbn [exec]; rewrite G; reflexivity).
    assert (E1n : exec_res f1 (CRead fname) = (f1, FErr ENOENT)) by (unfold exec_res; cbn [exec]; rewrite Hfn1; reflexivity).
    assert (E5 : exec_res f3 (CRead fname) = (f3, FOk (RData c))) by (unfold exec_res; cbn [exec]; rewrite G3; reflexivity).
    assert (En : str_eqb old new = false) by (apply str_eqb_neq; exact Hne).
    assert (V0 : sp_value f0 ws old = Some v0) by (rewrite sp_value_dir; fold ws odir fname; rewrite G; exact J).
    assert (V3 : sp_value f3 ws old = Some v0) by (rewrite sp_value_dir; fold ws odir fname; rewrite G3; exact J).
    assert (V1 : sp_value f1 ws old = None) by (rewrite sp_value_dir; fold ws odir fname; rewrite Hfn1; reflexivity).
    pose proof (rk_rename_dir frepr wss f0 w1 w2 wr old nsp HW Hws Hne c f1 Hod0 S1) as Hren.
    unfold rk_obs, op1_h, with_sp, sp_load.
    replace (ws ++ [old; SPF]) with fname by (unfold fname, odir; rewrite <- app_assoc; reflexivity).
    (* conclusions for the three final states *)
    assert (Q0 : forall d, d = None \/ d = Some v0 -> forall v, sp_value f0 ws old = Some v -> sp_value f0 ws old = Some v /\ (d = None \/ d = Some v)).
    { intros d Hd v Hv. split; auto. rewrite V0 in Hv. inversion Hv; subst. exact Hd. }
    assert (Q3 : forall d, d = None \/ d = Some v0 -> forall v, sp_value f3 ws old = Some v -> sp_value f0 ws old = Some v /\ (d = None \/ d = Some v)).
    { intros d Hd v Hv. rewrite V3 in Hv. inversion Hv; subst. split; auto. }
    assert (Q1 : forall d : option json, forall v, sp_value f1 ws old = Some v -> sp_value f0 ws old = Some v /\ (d = None \/ d = Some v)).
    { intros d v Hv. rewrite V1 in Hv. discriminate. }
    destruct k as [|[|[|k3]]].
    - (* 0: the load of the state point *)
      rewrite run_fault_do. cbn [single Nat.eqb].
      destruct e; try contradiction;
        (fin Q0 Q3 Q1).
    - (* 1: parking the state point file fails; the outer handler re-reads the file *)
      rewrite run_fault_do. cbn [single Nat.eqb].
      rewrite E0, J, Hnn, E, str_eqb_refl.
      unfold rekey_h. fold new. rewrite En. cbv zeta. fold odir ndir fname bak.
      rewrite run_fault_do. cbn [single Nat.eqb].
      destruct e; try contradiction;
        (rewrite run_fault_do; cbn [single Nat.eqb]; rewrite E0, J, Hnn; cbn [fst snd];
         fin Q0 Q3 Q1).
    - (* 2: the directory rename fails; rollback, restoring read, (outer handler: one more read) *)
      rewrite run_fault_do. cbn [single Nat.eqb].
      rewrite E0, J, Hnn, E, str_eqb_refl.
      unfold rekey_h. fold new. rewrite En. cbv zeta. fold odir ndir fname bak.
      rewrite run_fault_do. cbn [single Nat.eqb]. rewrite E1.
      rewrite run_fault_do. cbn [single Nat.eqb].
      rewrite run_fault_do. cbn [single Nat.eqb]. rewrite E3.
      rewrite run_fault_do. cbn [single Nat.eqb]. rewrite E5, J, Hnn. cbn [fst snd].
      destruct e; try contradiction; cbv beta iota delta [dest_exists_e];
        try (rewrite run_fault_do; cbn [single Nat.eqb]; rewrite E5, J, Hnn; cbn [fst snd]);
        (fin Q0 Q3 Q1).
    - (* later calls: only with an occupied destination *)
      assert (Ho : occupied frepr f0 w1 w2 wr nsp = true) by (destruct Hk as [Hk|Hk]; [lia|exact Hk]).
      rewrite Ho in Hren. destruct Hren as [e' [Er Hee]].
      assert (E2 : exec_res f1 (CRename odir ndir) = (f1, FErr e')) by (unfold exec_res; cbn [exec]; unfold odir, ndir, new, ws; rewrite Er; reflexivity).
      rewrite run_fault_do. cbn [single Nat.eqb].
      rewrite E0, J, Hnn, E, str_eqb_refl.
      unfold rekey_h. fold new. rewrite En. cbv zeta. fold odir ndir fname bak.
      rewrite run_fault_do. cbn [single Nat.eqb]. rewrite E1.
      rewrite run_fault_do. cbn [single Nat.eqb]. rewrite E2. cbn [fst snd].
      destruct k3 as [|[|[|k6]]].
      + (* 3: the rollback fails: the file stays parked, nothing to restore from *)
        destruct Hee as [-> | ->];
        (rewrite run_fault_do; cbn [single Nat.eqb];
         destruct e; try contradiction;
         (rewrite run_fault_do; cbn [single Nat.eqb]; rewrite E1n; cbn [fst snd];
          fin Q0 Q3 Q1)).
      + (* 4: the restoring read fails: the outer handler's read restores *)
        destruct Hee as [-> | ->];
        (rewrite run_fault_do; cbn [single Nat.eqb]; rewrite E3;
         rewrite run_fault_do; cbn [single Nat.eqb];
         destruct e; try contradiction;
         (rewrite run_fault_do; cbn [single Nat.eqb]; rewrite E5, J, Hnn; cbn [fst snd];
          fin Q0 Q3 Q1)).
      + (* 5: the outer handler's read fails (non-collision errno only): already restored *)
        destruct Hee as [-> | ->];
        (rewrite run_fault_do; cbn [single Nat.eqb]; rewrite E3;
         rewrite run_fault_do; cbn [single Nat.eqb]; rewrite E5, J, Hnn; cbn [fst snd];
         cbv beta iota delta [dest_exists_e];
         try (rewrite run_fault_do; cbn [single Nat.eqb]; destruct e; try contradiction);
         (fin Q0 Q3 Q1)).
      + (* no injection *)
        destruct Hee as [-> | ->];
        (rewrite run_fault_do; cbn [single Nat.eqb]; rewrite E3;
         rewrite run_fault_do; cbn [single Nat.eqb]; rewrite E5, J, Hnn; cbn [fst snd];
         cbv beta iota delta [dest_exists_e];
         try (rewrite run_fault_do; cbn [single Nat.eqb]; rewrite E5, J, Hnn; cbn [fst snd]);
         (fin Q0 Q3 Q1)).
  Qed.
  (* the same for the whole-assignment route of a handle that never loaded its state point (no validating read
     first: call 0 is the parking of the state point file, call 1 the directory rename) *)
  Definition as_obs (atomic : bool) : prog (hst * ores) :=
    op1_h_r frepr atomic true (KRekey ws old nsp) (fun h r => Ret (h, r)).

  Theorem assign_fault_restores_handle : forall atomic k e, e <> ENOENT ->
    k <= 1 \/ occupied frepr f0 w1 w2 wr nsp = true ->
    exists f h x,
      run_fault (single k e) 0 (as_obs atomic) f0 = (f, inl (h, inr x)) /\
      hs_ws h = ws /\ hs_id h = old /\
      forall v, sp_value f ws old = Some v ->
        sp_value f0 ws old = Some v /\ (hs_sp h = None \/ hs_sp h = Some v).
  Proof.
    intros atomic k e He Hk.
    destruct (rk_src frepr wss f0 w1 w2 wr old HW Hws Hold) as [Hod0 [c [v0 [G [J E]]]]]. fold ws odir fname in Hod0, G.
    pose proof (winv_job_nn frepr wss f0 ws old HW Hws Hold c v0 G J) as Hnn.
    assert (Hfb : fname <> bak).
    { apply path_eqb_neq. unfold fname, bak. rewrite path_eqb_snoc. reflexivity. }
    assert (Hpb : get f0 (parent bak) = Some Dir) by (unfold bak; rewrite parent_snoc; exact Hod0).
    destruct (rename_file_ok f0 fname bak c G Hpb Hfb Hbak) as [f1 [E1 S1]].
    change (st1 f0 w1 w2 wr old c f1) in S1.
    assert (P1 : get f1 bak = Some (File c)) by (rewrite S1; fold ws odir bak; rewrite path_eqb_refl; reflexivity).
    assert (P2 : get f1 (parent fname) = Some Dir) by (unfold fname; rewrite parent_snoc; apply (st1_odir f0 w1 w2 wr old c Hod0 f1 S1)).
    assert (Hfn1 : get f1 fname = None) by (apply (st1_fname f0 w1 w2 wr old c f1 S1)).
    assert (P3 : get f1 fname <> Some Dir) by (rewrite Hfn1; discriminate).
    destruct (rename_file_ok f1 bak fname c P1 P2 (not_eq_sym Hfb) P3) as [f3 [E3 H3]].
    assert (G3 : get f3 fname = Some (File c)) by (rewrite H3, path_eqb_refl; reflexivity).
    assert (E0 : exec_res f0 (CRead fname) = (f0, FOk (RData c))) by (unfold exec_res; cbn [exec]; rewrite G; reflexivity).
    assert (E1n : exec_res f1 (CRead fname) = (f1, FErr ENOENT)) by (unfold exec_res; cbn [exec]; rewrite Hfn1; reflexivity).
    assert (E5 : exec_res f3 (CRead fname) = (f3, FOk (RData c))) by (unfold exec_res; cbn [exec]; rewrite G3; reflexivity).
    assert (En : str_eqb old new = false) by (apply str_eqb_neq; exact Hne).
    assert (V0 : sp_value f0 ws old = Some v0) by (rewrite sp_value_dir; fold ws odir fname; rewrite G; exact J).
    assert (V3 : sp_value f3 ws old = Some v0) by (rewrite sp_value_dir; fold ws odir fname; rewrite G3; exact J).
    assert (V1 : sp_value f1 ws old = None) by (rewrite sp_value_dir; fold ws odir fname; rewrite Hfn1; reflexivity).
    pose proof (rk_rename_dir frepr wss f0 w1 w2 wr old nsp HW Hws Hne c f1 Hod0 S1) as Hren.
    unfold as_obs, op1_h_r.
    (* conclusions for the three final states *)
    assert (Q0 : forall d, d = None \/ d = Some v0 -> forall v, sp_value f0 ws old = Some v -> sp_value f0 ws old = Some v /\ (d = None \/ d = Some v)).
    { intros d Hd v Hv. split; auto. rewrite V0 in Hv. inversion Hv; subst. exact Hd. }
    assert (Q3 : forall d, d = None \/ d = Some v0 -> forall v, sp_value f3 ws old = Some v -> sp_value f0 ws old = Some v /\ (d = None \/ d = Some v)).
    { intros d Hd v Hv. rewrite V3 in Hv. inversion Hv; subst. split; auto. }
    assert (Q1 : forall d : option json, forall v, sp_value f1 ws old = Some v -> sp_value f0 ws old = Some v /\ (d = None \/ d = Some v)).
    { intros d v Hv. rewrite V1 in Hv. discriminate. }
    destruct k as [|[|k3]].
    - (* 0: parking the state point file fails; the outer handler re-reads the file *)
      unfold rekey_h. fold new. rewrite En. cbv zeta. fold odir ndir fname bak.
      rewrite run_fault_do. cbn [single Nat.eqb].
      destruct e; try contradiction;
        (rewrite run_fault_do; cbn [single Nat.eqb]; rewrite E0, J, Hnn; cbn [fst snd];
         fin Q0 Q3 Q1).
    - (* 1: the directory rename fails; rollback, restoring read, (outer handler: one more read) *)
      unfold rekey_h. fold new. rewrite En. cbv zeta. fold odir ndir fname bak.
      rewrite run_fault_do. cbn [single Nat.eqb]. rewrite E1.
      rewrite run_fault_do. cbn [single Nat.eqb].
      rewrite run_fault_do. cbn [single Nat.eqb]. rewrite E3.
      rewrite run_fault_do. cbn [single Nat.eqb]. rewrite E5, J, Hnn. cbn [fst snd].
      destruct e; try contradiction; cbv beta iota delta [dest_exists_e];
        try (rewrite run_fault_do; cbn [single Nat.eqb]; rewrite E5, J, Hnn; cbn [fst snd]);
        (fin Q0 Q3 Q1).
    - (* later calls: only with an occupied destination *)
      assert (Ho : occupied frepr f0 w1 w2 wr nsp = true) by (destruct Hk as [Hk|Hk]; [lia|exact Hk]).
      rewrite Ho in Hren. destruct Hren as [e' [Er Hee]].
      assert (E2 : exec_res f1 (CRename odir ndir) = (f1, FErr e')) by (unfold exec_res; cbn [exec]; unfold odir, ndir, new, ws; rewrite Er; reflexivity).
      unfold rekey_h. fold new. rewrite En. cbv zeta. fold odir ndir fname bak.
      rewrite run_fault_do. cbn [single Nat.eqb]. rewrite E1.
      rewrite run_fault_do. cbn [single Nat.eqb]. rewrite E2. cbn [fst snd].
      destruct k3 as [|[|[|k6]]].
      + (* 3: the rollback fails: the file stays parked, nothing to restore from *)
        destruct Hee as [-> | ->];
        (rewrite run_fault_do; cbn [single Nat.eqb];
         destruct e; try contradiction;
         (rewrite run_fault_do; cbn [single Nat.eqb]; rewrite E1n; cbn [fst snd];
          fin Q0 Q3 Q1)).
      + (* 4: the restoring read fails: the outer handler's read restores *)
        destruct Hee as [-> | ->];
        (rewrite run_fault_do; cbn [single Nat.eqb]; rewrite E3;
         rewrite run_fault_do; cbn [single Nat.eqb];
         destruct e; try contradiction;
         (rewrite run_fault_do; cbn [single Nat.eqb]; rewrite E5, J, Hnn; cbn [fst snd];
          fin Q0 Q3 Q1)).
      + (* 5: the outer handler's read fails (non-collision errno only): already restored *)
        destruct Hee as [-> | ->];
        (rewrite run_fault_do; cbn [single Nat.eqb]; rewrite E3;
         rewrite run_fault_do; cbn [single Nat.eqb]; rewrite E5, J, Hnn; cbn [fst snd];
         cbv beta iota delta [dest_exists_e];
         try (rewrite run_fault_do; cbn [single Nat.eqb]; destruct e; try contradiction);
         (fin Q0 Q3 Q1)).
      + (* no injection *)
        destruct Hee as [-> | ->];
        (rewrite run_fault_do; cbn [single Nat.eqb]; rewrite E3;
         rewrite run_fault_do; cbn [single Nat.eqb]; rewrite E5, J, Hnn; cbn [fst snd];
         cbv beta iota delta [dest_exists_e];
         try (rewrite run_fault_do; cbn [single Nat.eqb]; rewrite E5, J, Hnn; cbn [fst snd]);
         (fin Q0 Q3 Q1)).
  Qed.
End RKH.

(* the former failing input of known finding 4 (fixed: 8529336), kept as a regression witness: EIO at the
   parking of the state point file, then sp["q"] = 9 through the same handle *)
Definition cw_nsp : json := JObj [([97%N], JInt 5)].
Definition cw_fo : fop := FSet [113%N] (JInt 9).
Definition cw_forged : json := JObj [([97%N], JInt 5); ([113%N], JInt 9)].
Definition cw_intended : json := JObj [([97%N], JInt 1); ([113%N], JInt 9)].

Lemma rekey_first_rename_repaired_witness :
  (let '(f, out) := run_fault (single 1 EIO) 0 (op1_h cw_repr true (KRekey cw_a cw_id cw_nsp) (fun h r => Ret (h, r))) cw_f0 in
   (exists h x, out = inl (h, inr x) /\ hs_id h = cw_id /\ hs_sp h = Some cw_sp)       (* exception; memory = disk *)
   /\ sp_value f cw_a cw_id = Some cw_sp                                                (* the disk holds the pre-state *)
   /\ forallb (fun e => node_same (get cw_f0 (fst e)) (get f (fst e))) (cw_f0 ++ f) = true)
  /\
  (let '(f2, out2) := run_fault (single 1 EIO) 0 (follow_prog cw_repr true (KRekey cw_a cw_id cw_nsp) cw_fo) cw_f0 in
   (exists x, out2 = inl (inr x, inl tt))                                               (* the follow-up succeeds ...   *)
   /\ validates cw_repr f2 cw_a (calc_id cw_repr cw_intended) = true                    (* ... under the intended state point *)
   /\ exists_ f2 (cw_a ++ [calc_id cw_repr cw_forged]) = false).                        (* the rejected value is gone   *)
Proof. vm_compute. repeat split; eauto. Qed.

(* ------------------------------------------------------------------ failing stat calls *)
(* the former failing inputs of known findings 5 and 6 (repaired in /repo: 187ceef, ed42bbc), kept as
   regression witnesses.  5: Job.clear(), the lstat of a data file fails: the error propagates and the file is
   still there (before: skipped, normal return). *)
Definition clr_op : cop := KClear cw_a cw_id.
Definition clr_sig : csig := {| sg_kind := SgStat; sg_p := cw_a ++ [cw_id; cw_data]; sg_q := [] |}.

Lemma clear_stat_fault_repaired_witness :
  post_ok cw_repr clr_op cw_f0 (fst (run (op_prog cw_repr true clr_op) cw_f0)) = true /\
  match find_occ clr_sig 0 (map fst (trace (op_prog cw_repr true clr_op) cw_f0)) 0 with
  | None => False
  | Some k =>
      let '(g, out) := run_fault (single k EIO) 0 (op_prog cw_repr true clr_op) cw_f0 in
      out = inr (POs EIO) /\ get g (cw_a ++ [cw_id; cw_data]) = Some (File cw_bytes)
  end.
Proof. vm_compute. repeat split; eauto. Qed.

(* 6: clone onto an EXISTING destination; the lstat of the destination fails AND the mkdir of the destination
   would fail: the first error propagates before anything is copied, the destination job is untouched (before:
   the clean-up removed it) *)
Definition cx_f0 : fs := cw_f0 ++ [ (cw_b ++ [cw_id], Dir); (cw_b ++ [cw_id; SPF], File (jcontent cw_repr cw_sp));
                                    (cw_b ++ [cw_id; cw_data], File cw_bytes) ].
Definition cx_stat : csig := {| sg_kind := SgStat; sg_p := cw_b ++ [cw_id]; sg_q := [] |}.
Definition cx_mkdir : csig := {| sg_kind := SgMkdir; sg_p := cw_b ++ [cw_id]; sg_q := [] |}.

Lemma clone_lstat_double_fault_repaired_witness :
  match find_occ cx_stat 0 (map fst (trace (op_prog cw_repr true cw_op) cx_f0)) 0,
        find_occ cx_mkdir 0 (map fst (trace (op_prog cw_repr true cw_op) cx_f0)) 0 with
  | Some k1, Some k2 =>
      let both := fun i => if Nat.eqb i k1 then Some EIO else if Nat.eqb i k2 then Some EIO else None in
      let '(g, out) := run_fault both 0 (op_prog cw_repr true cw_op) cx_f0 in
      out = inr (POs EIO) /\ forallb (fun e => node_same (get cx_f0 (fst e)) (get g (fst e))) (cx_f0 ++ g) = true
  | _, _ => False
  end.
Proof. vm_compute. repeat split; eauto. Qed.
