(* CorrC16.v — observational form of C16 used by the correspondence check. *)
From Coq Require Import String Ascii.
From SV Require Import Base Json MD5 Canon Export.
Local Open Scope N_scope.

Record case_C16 := {
  (* ---- input *)
  c_jobs : list job;            (* the source project, in the order the project iterates its jobs *)
  c_oracle : oracle;
  c_kind : tkind;
  c_path : pathspec;
  c_schema : schemaspec;
  c_pre : list job;             (* jobs already present in the importing project *)
  c_strip : bool;               (* state point files deleted from the exported directory before the import *)
  (* ---- what the implementation did *)
  x_exn : option exn;           (* exception raised by export_to *)
  x_map : list str;             (* destinations returned by export_to (job order); [] if it raised *)
  x_art : artifact;             (* what exists after export_to *)
  x_src_same : bool;            (* byte snapshot of the source project equal before / after export *)
  x_outside : list str;         (* paths that export created outside its target *)
  i_run : bool;                 (* import_from was run (iff export did not raise) *)
  i_exn : option exn;
  i_dst : fs;                   (* the importing project's workspace afterwards *)
  i_outside : list str          (* paths that import created or changed outside that workspace *)
}.

Definition opt_exn_eqb (a b : option exn) : bool :=
  match a, b with None, None => true | Some x, Some y => exn_eqb x y | _, _ => false end.
Definition is_none {A} (a : option A) : bool := match a with None => true | _ => false end.

Definition art_eqb (a b : artifact) : bool :=
  match a, b with
  | ADir f, ADir g => fs_eqb f g
  | AZip x, AZip y => list_eqb (fun p q => str_eqb (fst p) (fst q) && str_eqb (snd p) (snd q)) x y
  | ATar x, ATar y =>
      list_eqb (fun p q => str_eqb (fst (fst p)) (fst (fst q)) && Bool.eqb (snd (fst p)) (snd (fst q))
                           && str_eqb (snd p) (snd q)) x y
  | _, _ => false
  end.

(* the harness deletes the state point file at the root of every exported job directory; for a zip
   archive it instead appends an empty-directory member that lies outside every job path *)
Definition EXTRA : str := S "zz_outside/empty".
Definition strip_art (ds : list str) (a : artifact) : artifact :=
  match a with
  | AZip ms => AZip (ms ++ [(EXTRA ++ slash, [])])
  | ADir f =>
      let roots := List.map (fun d => TARGET ++ (let n := normpath d in if str_eqb n dot then [] else split 47 n) ++ [FN_SP]) ds in
      ADir (filter (fun e => negb (existsb (fpath_eqb (fst e)) roots && negb (is_none (snd e)))) f)
  | _ => a
  end.

Definition import_input (c : case_C16) : artifact := if c_strip c then strip_art (x_map c) (x_art c) else x_art c.

Definition run_export (c : case_C16) : export_out := export_model (c_oracle c) (c_jobs c) (c_kind c) (c_path c).
Definition run_import (c : case_C16) : import_out :=
  import_model (c_oracle c) (c_schema c) (import_input c) (dst_init (c_pre c)).

(* ---- model and implementation disagree *)
Definition is_prefix (p q : list str) : bool := match strip_prefix p q with Some _ => true | None => false end.
(* paths the model's export creates outside the target (the target's own parents excepted) *)
Definition model_outside (c : case_C16) : list str :=
  match eo_art (run_export c) with
  | ADir f => flat_map (fun e => if is_prefix TARGET (fst e) || is_none (match fs_get (fst e) fs0 with Some _ => None | None => Some tt end)
                                 then [] else [joinw slash (fst e)]) f
  | _ => []
  end.

Definition mismatch_export (c : case_C16) : bool :=
  let e := run_export c in
  eo_ood e
  || negb (x_src_same c)                       (* the model never touches the source *)
  || negb (list_eqb str_eqb (ssort true (model_outside c)) (ssort true (x_outside c)))
  || negb (opt_exn_eqb (eo_exn e) (x_exn c))
  || (is_none (x_exn c) && negb (list_eqb str_eqb (eo_map e) (x_map c)))
  || negb (art_eqb (eo_art e) (x_art c)).

Definition mismatch_import (c : case_C16) : bool :=
  negb (Bool.eqb (i_run c) (is_none (x_exn c)))
  || (i_run c &&
      (let i := run_import c in
       io_ood i || negb (opt_exn_eqb (io_exn i) (i_exn c)) || negb (fs_eqb (io_dst i) (i_dst c)))).

Definition mismatch_C16 (c : case_C16) : bool := mismatch_export c || mismatch_import c.

(* ---- the property as a decidable predicate on what the implementation did *)

(* where a destination string points, as components below the target ('.' = the target itself) *)
Definition loc_of (d : str) : list str :=
  let n := normpath d in if str_eqb n dot then [] else split 47 n.
Fixpoint pairwise {A} (r : A -> A -> bool) (l : list A) : bool :=
  match l with [] => true | x :: t => forallb (r x) t && pairwise r t end.

Definition locs_unique (ds : list str) : bool :=
  pairwise (fun a b => negb (fpath_eqb a b)) (List.map loc_of ds).
Definition locs_prefix_free (ds : list str) : bool :=
  pairwise (fun a b => fpath_eqb a b || negb (is_prefix a b || is_prefix b a)) (List.map loc_of ds).

Definition art_empty (a : artifact) : bool :=
  match a with ADir f => fs_eqb f fs0 | AZip ms => is_none (hd_error ms) | ATar ms => is_none (hd_error ms) end.

Definition is_job_id (s : str) : bool := Nat.eqb (List.length s) 32 && forallb lower_hex s.

(* every entry of the workspace is the workspace, or lies in a job directory *)
Definition contained (d : fs) : bool :=
  forallb (fun e => match fst e with
                    | [w] => str_eqb w (S "workspace")
                    | w :: id :: _ => str_eqb w (S "workspace") && is_job_id id
                    | [] => false
                    end) d.

Definition pre_untouched (pre : list job) (d : fs) : bool :=
  forallb (fun j => fs_eqb (fs_subtree (job_dir (j_id j)) d) (j_files j)) pre.

(* does the import schema describe the exported layout?  (decided with the model's parser; the
   syntactic sufficient condition is theorem C16_schema_string_roundtrip) *)
Definition sp_same (a b : json) : bool := json_eqb (norm a) (norm b).
(* a foreign empty directory was appended to the zip archive *)
Definition zip_extra (c : case_C16) : bool :=
  c_strip c && negb (is_none (match c_kind c with KZip => Some tt | _ => None end)).
(* ... and it really lies outside every job path (a job exported to the archive root contains everything) *)
Definition extra_outside (c : case_C16) : bool :=
  negb (zip_extra c) || forallb (fun d => negb (is_none (hd_error (loc_of d)))) (x_map c).

(* ---- "the path layout a schema string describes", decided WITHOUT the model's parser (round 4).
   A schema string of '/'-separated components, each either literal text or exactly one field
   {key[:type]}, describes the exported path p of a job with state point sp iff p has the same number
   of components, the literal components are equal, every field component is the text export writes
   for sp[key] (str(value)), that value has the field's type and its text lies in the class the property
   names (word-like strings, integers, plain decimals, booleans), and the fields are exactly the leaves
   of sp.  In particular the LAST component may be literal ('a/{a:int}/run' describes 'a/3/run'). *)
Inductive scomp := CLit (s : str) | CField (key : str) (ty : fty).
Definition comp_of (s : str) : option scomp :=
  match s with
  | 123 :: r =>
      match field_at r with
      | Some (key, tyn, []) =>
          match ty_of_name (match tyn with Some n => n | None => S "str" end) with
          | Some ty => Some (CField key ty)
          | None => None
          end
      | _ => None
      end
  | _ => if has_brace s then None else Some (CLit s)
  end.
Definition in_class (ty : fty) (t : str) : bool :=
  let unsigned := match t with 45 :: r => r | _ => t end in
  match ty with
  | TyStr => negb (is_empty t) && forallb is_word t
  | TyInt => negb (is_empty unsigned) && forallb is_digit unsigned
  | TyFloat =>
      let '(ip, r1) := span is_digit unsigned in
      match r1 with
      | [] => negb (is_empty ip)
      | 46 :: fp => negb (is_empty fp) && forallb is_digit fp
      | _ => false
      end
  | TyBool => str_eqb t (S "True") || str_eqb t (S "False")
  end.
Definition ty_agrees (ty : fty) (v : json) : bool :=
  match ty, v with
  | TyStr, JStr _ | TyInt, JInt _ | TyFloat, JFloat _ | TyBool, JBool _ => true
  | _, _ => false
  end.
Definition sp_leaves (sp : json) : list str :=
  match sp with JObj [] => [] | _ => List.map key_str (dkeys sp []) end.
Definition field_keys (cs : list (option scomp)) : list str :=
  flat_map (fun c => match c with Some (CField k _) => [k] | _ => [] end) cs.
Definition describes (o : oracle) (text path : str) (sp : json) : bool :=
  let cs := List.map comp_of (split 47 text) in
  let ps := split 47 path in
  Nat.eqb (List.length cs) (List.length ps) &&
  forallb (fun cp => match fst cp with
                     | Some (CLit l) => str_eqb l (snd cp)
                     | Some (CField key ty) =>
                         match get_path sp (split 46 key) with
                         | Some v => ty_agrees ty v && in_class ty (snd cp)
                                     && match py_text o false v with ROk t => str_eqb t (snd cp) | _ => false end
                         | None => false
                         end
                     | None => false
                     end) (combine cs ps) &&
  negb (has_dup (field_keys cs)) &&
  forallb (fun k => str_mem k (sp_leaves sp)) (field_keys cs) &&
  forallb (fun k => str_mem k (field_keys cs)) (sp_leaves sp).
(* could the schema take this path for a job directory at all (used for the foreign empty directory) *)
Definition shape_matches (text path : str) : bool :=
  let cs := List.map comp_of (split 47 text) in
  let ps := split 47 path in
  Nat.eqb (List.length cs) (List.length ps) &&
  forallb (fun cp => match fst cp with
                     | Some (CLit l) => str_eqb l (snd cp)
                     | Some (CField _ ty) => in_class ty (snd cp)
                     | None => true
                     end) (combine cs ps).
Definition faithful_by_layout (c : case_C16) (text : str) : bool :=
  (negb (zip_extra c) || negb (shape_matches text EXTRA)) &&
  Nat.eqb (List.length (x_map c)) (List.length (c_jobs c)) &&
  forallb (fun jd => describes (c_oracle c) text (normpath (snd jd)) (j_sp (fst jd))) (combine (c_jobs c) (x_map c)).
(* the schema string keeps literal text after its last field *)
Definition trailing_literal (text : str) : bool :=
  match rev (List.map comp_of (split 47 text)) with
  | Some (CLit (_ :: _)) :: _ => true
  | _ => false
  end.

Definition schema_faithful (c : case_C16) : bool :=
  extra_outside c &&
  match c_schema c with
  | SchNone => negb (c_strip c) || negb (is_none (match c_kind c with KZip => Some tt | _ => None end))
  | SchStr text =>
      faithful_by_layout c text ||
      match schema_compile text with
      | ROk fields =>
          (* the foreign empty directory, if one was added, is not taken for a job by this schema *)
          (negb (c_strip c && negb (is_none (match c_kind c with KZip => Some tt | _ => None end)))
           || match parse_path fields EXTRA with ROk None => true | _ => false end) &&
          Nat.eqb (List.length (x_map c)) (List.length (c_jobs c)) &&
          forallb (fun jd => match parse_path fields (normpath (snd jd)) with
                             | ROk (Some sp) => sp_same sp (j_sp (fst jd))
                             | _ => false
                             end) (combine (c_jobs c) (x_map c))
      | _ => false
      end
  | SchCall tab =>
      Nat.eqb (List.length (x_map c)) (List.length (c_jobs c)) &&
      forallb (fun jd => match alookup (normpath (snd jd)) tab with
                         | Some (Some sp) => sp_same sp (j_sp (fst jd))
                         | _ => false
                         end) (combine (c_jobs c) (x_map c)) &&
      forallb (fun e => match snd e with
                        | None => true
                        | Some _ => existsb (fun d => str_eqb (normpath d) (fst e)) (x_map c)
                        end) tab
  end.

(* state point files are compared as state points: a file that job.init() wrote from a schema-parsed
   state point may order its keys differently from the source file (same value, same id) *)
Definition sp_canon (c : case_C16) (d : fs) : fs :=
  List.map (fun e => match fst e, snd e with
                     | [w; id; f], Some bytes =>
                         if str_eqb f FN_SP then
                           match parse_get (o_parse (c_oracle c)) bytes with
                           | Some v => (fst e, Some (canon (ftab_get (o_frepr (c_oracle c))) v))
                           | None => e
                           end
                         else e
                     | _, _ => e
                     end) d.

Definition ids_disjoint (a b : list job) : bool :=
  forallb (fun j => negb (existsb (fun k => str_eqb (j_id j) (j_id k)) b)) a.

(* clauses *)
Definition h_src (c : case_C16) : bool := x_src_same c.
Definition h_export_contained (c : case_C16) : bool := is_none (hd_error (x_outside c)).
Definition h_unique (c : case_C16) : bool := negb (is_none (x_exn c)) || locs_unique (x_map c).
Definition h_leafnode (c : case_C16) : bool := negb (is_none (x_exn c)) || locs_prefix_free (x_map c).
Definition h_raise_clean (c : case_C16) : bool := is_none (x_exn c) || art_empty (x_art c).
Definition h_import_contained (c : case_C16) : bool :=
  negb (i_run c) || (contained (i_dst c) && is_none (hd_error (i_outside c))).
Definition h_no_overwrite (c : case_C16) : bool := negb (i_run c) || pre_untouched (c_pre c) (i_dst c).
Definition h_roundtrip (c : case_C16) : bool :=
  negb (i_run c) || negb (schema_faithful c) || negb (ids_disjoint (c_jobs c) (c_pre c))
  || (if is_none (i_exn c) then fs_eqb (sp_canon c (i_dst c)) (sp_canon c (expected_dst (c_pre c) (c_jobs c)))
      else (* raised: before any job has been copied (into an empty project); with jobs already
              present only containment / no-overwrite are required *)
           negb (is_none (hd_error (c_pre c))) || fs_eqb (i_dst c) (dst_init (c_pre c))).

(* ---- import through a schema that is TRUTHFUL but possibly PARTIAL.
   [schema_sound]: whatever the schema yields for an exported job path agrees exactly (same keys' values,
   same JSON types) with that job's state point on the top-level keys it yields - it may leave keys
   out (e.g. the keys that are constant across the jobs and therefore not part of the auto path) or
   decline a path.  A schema that yields a DIFFERENT value or type (1.0 for 1, True for 1) is not a
   "matching schema" in the sense of the property and is outside these two clauses. *)
Definition sub_sp (a b : json) : bool :=
  match a, b with
  | JObj ka, JObj kb => forallb (fun kv => match alookup (fst kv) kb with Some w => sp_same (snd kv) w | None => false end) ka
  | _, _ => false
  end.
Definition schema_rel (rel : json -> json -> bool) (c : case_C16) : bool :=
  extra_outside c &&
  match c_schema c with
  | SchNone => true
  | SchStr text =>
      match schema_compile text with
      | ROk fields =>
          Nat.eqb (List.length (x_map c)) (List.length (c_jobs c)) &&
          forallb (fun jd => match parse_path fields (normpath (snd jd)) with
                             | ROk (Some sp) => rel sp (j_sp (fst jd))
                             | ROk None => true
                             | _ => false
                             end) (combine (c_jobs c) (x_map c))
      | _ => false
      end
  | SchCall tab =>
      Nat.eqb (List.length (x_map c)) (List.length (c_jobs c)) &&
      forallb (fun jd => match alookup (normpath (snd jd)) tab with
                         | Some (Some sp) => rel sp (j_sp (fst jd))
                         | Some None => true
                         | None => false
                         end) (combine (c_jobs c) (x_map c)) &&
      forallb (fun e => match snd e with
                        | None => true
                        | Some _ => existsb (fun d => str_eqb (normpath d) (fst e)) (x_map c)
                        end) tab
  end.
Definition schema_sound (c : case_C16) : bool := schema_rel sub_sp c.
(* [schema_checkable] (round 4): for every exported job path the schema declines, agrees (as above), or
   yields a state point that Python compares UNEQUAL to the job's, both non-empty - a contradiction the
   consistency check against the state point file can see.  Outside stay the schemas that are wrong in
   TYPE alone (1.0 for 1, True for 1: equal in Python, different id) and claims about the job with the
   empty state point (its file is falsy, the consistency check is skipped): those are noticed only by
   init() after the copy, in every analyser. *)
Definition schema_checkable (c : case_C16) : bool :=
  schema_rel (fun sp jsp => sub_sp sp jsp || (negb (py_eq sp jsp) && truthy (Some sp) && truthy (Some jsp))) c.

(* "the same job ids with identical state points": every job directory the import leaves behind carries
   the id of the state point its signac_statepoint.json holds (no job under a contradicting id) *)
Definition h_ids (c : case_C16) : bool :=
  negb (i_run c) || negb (schema_sound c) ||
  forallb (fun e => match fst e, snd e with
                    | [w; id; f], Some bytes =>
                        negb (str_eqb f FN_SP) ||
                        match parse_get (o_parse (c_oracle c)) bytes with
                        | Some v => str_eqb (job_id_of (c_oracle c) v) id
                        | None => false
                        end
                    | _, _ => true
                    end) (i_dst c).

(* "or the call raises before any job has been copied": with the state point files in place, the import
   either completes or raises while the (empty) project is still empty - for every schema that is sound
   or whose error the consistency check can see (a callable that is wrong for one directory, a schema
   string typed after another job) *)
Definition h_import_raise_clean (c : case_C16) : bool :=
  negb (i_run c) || is_none (i_exn c) || negb (schema_checkable c) || c_strip c
  || negb (is_none (hd_error (c_pre c))) || fs_eqb (i_dst c) (dst_init (c_pre c)).

Definition holds_C16 (c : case_C16) : bool :=
  h_src c && h_export_contained c && h_unique c && h_leafnode c && h_raise_clean c
  && h_import_contained c && h_no_overwrite c && h_roundtrip c && h_ids c && h_import_raise_clean c.

Definition violation_C16 (c : case_C16) : bool := negb (holds_C16 c).

Definition is_root (d : str) : bool := is_none (hd_error (loc_of d)).

(* ---- known-finding classifiers (round 4; the earlier defects F6 ... F21 are repaired in /repo).
   Each names an input class AND requires that the one clause the defect breaks is the only one that
   fails, so any other violation on such an input is still reported.
   tag 1: the import schema is a string that keeps literal text after its last field and describes the
          exported layout; _convert_schema_path_to_regex drops that text, the parent directory is taken
          for the job directory (files one level too deep) - only the round-trip clause fails.
   (tag 2, the lazily validating directory import, and tag 3, origin names read as regular expressions,
   are repaired in /repo.) *)
Definition others_hold_but (k : N) (c : case_C16) : bool :=
  h_src c && h_export_contained c && h_unique c && h_leafnode c && h_raise_clean c
  && h_import_contained c && h_no_overwrite c && h_ids c
  && (N.eqb k 1 || h_roundtrip c) && h_import_raise_clean c.
Definition known1_C16 (c : case_C16) : bool :=
  match c_schema c with
  | SchStr text => trailing_literal text && faithful_by_layout c text
                   && negb (h_roundtrip c) && others_hold_but 1 c
  | _ => false
  end.
Definition known_tag_C16 (c : case_C16) : N :=
  if known1_C16 c then 1%N else 0%N.
Fixpoint known_aux_C16 (cs : list case_C16) (i : N) : list N :=
  match cs with
  | [] => []
  | c :: r =>
      let t := known_tag_C16 c in
      if N.eqb t 0 then known_aux_C16 r (N.succ i) else (i * 100 + t)%N :: known_aux_C16 r (N.succ i)
  end.

Definition mismatches_C16 (cs : list case_C16) : list N := indices_where mismatch_C16 cs.
Definition violations_C16 (cs : list case_C16) : list N := indices_where violation_C16 cs.
Definition known_C16 (cs : list case_C16) : list N := known_aux_C16 cs 0%N.

(* diagnostics used while developing / in replays: which clauses fail, which part mismatches *)
Definition diag_C16 (c : case_C16) : list bool :=
  [mismatch_export c; mismatch_import c; h_src c; h_export_contained c; h_unique c; h_leafnode c;
   h_raise_clean c; h_import_contained c; h_no_overwrite c; h_roundtrip c; schema_faithful c;
   h_ids c; h_import_raise_clean c; schema_sound c; schema_checkable c; known1_C16 c].
