(* Base.v — strings as code point lists, their order, small utilities. *)
From Coq Require Export List NArith ZArith Bool Lia.
Export ListNotations.

Definition str := list N.

(* Lexicographic comparison of code point lists = Python's str ordering. *)
Fixpoint str_cmp (a b : str) : comparison :=
  match a, b with
  | [], [] => Eq
  | [], _ :: _ => Lt
  | _ :: _, [] => Gt
  | x :: a', y :: b' =>
      match N.compare x y with
      | Eq => str_cmp a' b'
      | c => c
      end
  end.

Definition str_eqb (a b : str) : bool :=
  match str_cmp a b with Eq => true | _ => false end.
Definition str_ltb (a b : str) : bool :=
  match str_cmp a b with Lt => true | _ => false end.
Definition str_leb (a b : str) : bool :=
  match str_cmp a b with Gt => false | _ => true end.

Lemma str_cmp_eq : forall a b, str_cmp a b = Eq <-> a = b.
Proof.
  induction a as [|x a IH]; destruct b as [|y b]; simpl; split; intro H;
    try congruence; try reflexivity.
  - destruct (N.compare x y) eqn:E; try discriminate.
    apply N.compare_eq in E. apply IH in H. congruence.
  - inversion H; subst. rewrite N.compare_refl. apply IH. reflexivity.
Qed.

Lemma str_eqb_eq : forall a b, str_eqb a b = true <-> a = b.
Proof.
  intros a b. unfold str_eqb. rewrite <- str_cmp_eq.
  destruct (str_cmp a b); split; congruence.
Qed.

Lemma str_eqb_refl : forall a, str_eqb a a = true.
Proof. intro a. apply str_eqb_eq. reflexivity. Qed.

Lemma str_eqb_neq : forall a b, str_eqb a b = false <-> a <> b.
Proof.
  intros a b. split; intro H.
  - intro E. apply str_eqb_eq in E. congruence.
  - destruct (str_eqb a b) eqn:E; auto. apply str_eqb_eq in E. contradiction.
Qed.

Lemma str_eq_dec : forall a b : str, {a = b} + {a <> b}.
Proof. intros. destruct (str_eqb a b) eqn:E; [left; apply str_eqb_eq; auto | right; apply str_eqb_neq; auto]. Defined.

Lemma str_cmp_antisym : forall a b, str_cmp b a = CompOpp (str_cmp a b).
Proof.
  induction a as [|x a IH]; destruct b as [|y b]; simpl; auto.
  rewrite (N.compare_antisym x y).
  destruct (N.compare x y); simpl; auto.
Qed.

Lemma str_cmp_lt_trans : forall a b c, str_cmp a b = Lt -> str_cmp b c = Lt -> str_cmp a c = Lt.
Proof.
  induction a as [|x a IH]; destruct b as [|y b]; destruct c as [|z c]; simpl; intros H1 H2;
    try congruence.
  destruct (N.compare x y) eqn:E1; try discriminate.
  - apply N.compare_eq in E1; subst y.
    destruct (N.compare x z) eqn:E2; try congruence. eauto.
  - destruct (N.compare y z) eqn:E2; try discriminate.
    + apply N.compare_eq in E2; subst z. rewrite E1. reflexivity.
    + rewrite N.compare_lt_iff in *. assert (x < z)%N by lia.
      apply N.compare_lt_iff in H. rewrite H. reflexivity.
Qed.

Lemma str_ltb_trans : forall a b c, str_ltb a b = true -> str_ltb b c = true -> str_ltb a c = true.
Proof.
  unfold str_ltb. intros a b c H1 H2.
  destruct (str_cmp a b) eqn:E1; try discriminate.
  destruct (str_cmp b c) eqn:E2; try discriminate.
  rewrite (str_cmp_lt_trans _ _ _ E1 E2). reflexivity.
Qed.

Lemma str_ltb_irrefl : forall a, str_ltb a a = false.
Proof. intro a. unfold str_ltb. assert (str_cmp a a = Eq) by (apply str_cmp_eq; auto). rewrite H. auto. Qed.

Lemma str_ltb_total : forall a b, a <> b -> str_ltb a b = true \/ str_ltb b a = true.
Proof.
  intros a b Hne. unfold str_ltb. rewrite (str_cmp_antisym a b).
  destruct (str_cmp a b) eqn:E; simpl; auto.
  apply str_cmp_eq in E. contradiction.
Qed.

Lemma str_ltb_asym : forall a b, str_ltb a b = true -> str_ltb b a = false.
Proof.
  unfold str_ltb. intros a b. rewrite (str_cmp_antisym a b).
  destruct (str_cmp a b); simpl; congruence.
Qed.

Lemma str_leb_total : forall a b, str_leb a b = true \/ str_leb b a = true.
Proof.
  intros. unfold str_leb. rewrite (str_cmp_antisym a b). destruct (str_cmp a b); simpl; auto.
Qed.

(* membership *)
Fixpoint str_mem (s : str) (l : list str) : bool :=
  match l with [] => false | x :: l' => str_eqb s x || str_mem s l' end.

Lemma str_mem_In : forall s l, str_mem s l = true <-> In s l.
Proof.
  induction l as [|x l IH]; simpl; [split; [discriminate|tauto]|].
  rewrite orb_true_iff, IH, str_eqb_eq. split; intros [H|H]; auto.
Qed.

(* prefix test on strings *)
Fixpoint str_prefix (p s : str) : bool :=
  match p, s with
  | [], _ => true
  | x :: p', y :: s' => N.eqb x y && str_prefix p' s'
  | _ :: _, [] => false
  end.

Lemma str_prefix_spec : forall p s, str_prefix p s = true <-> exists r, s = p ++ r.
Proof.
  induction p as [|x p IH]; intros s; simpl.
  - split; eauto.
  - destruct s as [|y s]; [split; [discriminate|intros [r H]; discriminate]|].
    rewrite andb_true_iff, N.eqb_eq, IH. split.
    + intros [-> [r ->]]. eauto.
    + intros [r H]. inversion H; subst. eauto.
Qed.

(* association lists keyed by strings *)
Fixpoint alookup {A} (k : str) (l : list (str * A)) : option A :=
  match l with
  | [] => None
  | (k', v) :: l' => if str_eqb k k' then Some v else alookup k l'
  end.

Fixpoint aremove {A} (k : str) (l : list (str * A)) : list (str * A) :=
  match l with
  | [] => []
  | (k', v) :: l' => if str_eqb k k' then aremove k l' else (k', v) :: aremove k l'
  end.

(* dict-style set: replace in place if present (keeps insertion position), else append *)
Fixpoint aset {A} (k : str) (v : A) (l : list (str * A)) : list (str * A) :=
  match l with
  | [] => [(k, v)]
  | (k', v') :: l' => if str_eqb k k' then (k', v) :: l' else (k', v') :: aset k v l'
  end.

Lemma alookup_aset_same : forall A k (v : A) l, alookup k (aset k v l) = Some v.
Proof.
  induction l as [|[k' v'] l IH]; simpl.
  - rewrite str_eqb_refl. reflexivity.
  - destruct (str_eqb k k') eqn:E; simpl; rewrite E; auto.
Qed.

Lemma alookup_aset_other : forall A k k' (v : A) l, k <> k' -> alookup k' (aset k v l) = alookup k' l.
Proof.
  induction l as [|[k2 v2] l IH]; simpl; intro Hne.
  - apply not_eq_sym in Hne. apply str_eqb_neq in Hne. rewrite Hne. reflexivity.
  - destruct (str_eqb k k2) eqn:E; simpl.
    + apply str_eqb_eq in E. subst k2.
      apply not_eq_sym in Hne. apply str_eqb_neq in Hne. rewrite Hne. reflexivity.
    + destruct (str_eqb k' k2); auto.
Qed.

Lemma alookup_aremove_same : forall A k (l : list (str * A)), alookup k (aremove k l) = None.
Proof.
  induction l as [|[k' v'] l IH]; simpl; auto.
  destruct (str_eqb k k') eqn:E; simpl; auto. rewrite E. auto.
Qed.

Lemma alookup_aremove_other : forall A k k' (l : list (str * A)), k <> k' -> alookup k' (aremove k l) = alookup k' l.
Proof.
  induction l as [|[k2 v2] l IH]; simpl; intro Hne; auto.
  destruct (str_eqb k k2) eqn:E; simpl.
  - apply str_eqb_eq in E. subst k2.
    assert (Hf : str_eqb k' k = false) by (apply str_eqb_neq; auto).
    rewrite Hf. auto.
  - destruct (str_eqb k' k2); auto.
Qed.

Lemma alookup_In : forall A k (v : A) l, alookup k l = Some v -> In (k, v) l.
Proof.
  induction l as [|[k' v'] l IH]; simpl; [discriminate|].
  destruct (str_eqb k k') eqn:E; intro H.
  - apply str_eqb_eq in E. inversion H. subst. auto.
  - auto.
Qed.

Lemma alookup_None_notin : forall A k (l : list (str * A)), alookup k l = None <-> ~ In k (map fst l).
Proof.
  induction l as [|[k' v'] l IH]; simpl; [tauto|].
  destruct (str_eqb k k') eqn:E.
  - apply str_eqb_eq in E. subst. split; [discriminate|]. intro H. exfalso. apply H. auto.
  - apply str_eqb_neq in E. rewrite IH. split; intro H; [intros [H1|H1]; [congruence|auto]|auto].
Qed.

Lemma NoDup_alookup : forall A k (v : A) l, NoDup (map fst l) -> In (k, v) l -> alookup k l = Some v.
Proof.
  induction l as [|[k' v'] l IH]; simpl; intros Hnd Hin; [tauto|].
  inversion Hnd; subst.
  destruct Hin as [Heq|Hin].
  - inversion Heq; subst. rewrite str_eqb_refl. reflexivity.
  - destruct (str_eqb k k') eqn:E.
    + apply str_eqb_eq in E. subst k'. exfalso. apply H1. apply (in_map fst) in Hin. exact Hin.
    + auto.
Qed.

(* result type with exception classes used across the models *)
Inductive exn :=
| EKeyError | ELookupError | EDestinationExists | EJobsCorrupted | ETypeError | EValueError
| ERuntimeError | EOSError | EFileSyncConflict | EDocumentSyncConflict | ESchemaSyncConflict
| EIncompatibleSchemaVersion | EOther.

Definition exn_eqb (a b : exn) : bool :=
  match a, b with
  | EKeyError, EKeyError | ELookupError, ELookupError | EDestinationExists, EDestinationExists
  | EJobsCorrupted, EJobsCorrupted | ETypeError, ETypeError | EValueError, EValueError
  | ERuntimeError, ERuntimeError | EOSError, EOSError | EFileSyncConflict, EFileSyncConflict
  | EDocumentSyncConflict, EDocumentSyncConflict | ESchemaSyncConflict, ESchemaSyncConflict
  | EIncompatibleSchemaVersion, EIncompatibleSchemaVersion | EOther, EOther => true
  | _, _ => false
  end.

Lemma exn_eqb_eq : forall a b, exn_eqb a b = true <-> a = b.
Proof. destruct a, b; simpl; split; congruence. Qed.

Inductive result (A : Type) := Ok (a : A) | Err (e : exn).
Arguments Ok {A} a.
Arguments Err {A} e.

Definition bind {A B} (r : result A) (f : A -> result B) : result B :=
  match r with Ok a => f a | Err e => Err e end.

(* generic list helpers *)
Fixpoint list_eqb {A} (eqb : A -> A -> bool) (a b : list A) : bool :=
  match a, b with
  | [], [] => true
  | x :: a', y :: b' => eqb x y && list_eqb eqb a' b'
  | _, _ => false
  end.

Lemma list_eqb_eq : forall A (eqb : A -> A -> bool),
  (forall x y, eqb x y = true <-> x = y) ->
  forall a b, list_eqb eqb a b = true <-> a = b.
Proof.
  intros A eqb H. induction a as [|x a IH]; destruct b as [|y b]; simpl; split; try congruence; auto.
  - rewrite andb_true_iff, H, IH. intros [-> ->]. reflexivity.
  - intro E. inversion E; subst. rewrite andb_true_iff, H, IH. auto.
Qed.

(* indices of true entries, used by correspondence shards *)
Fixpoint indices_where_aux {A} (p : A -> bool) (l : list A) (i : N) : list N :=
  match l with
  | [] => []
  | x :: l' => if p x then i :: indices_where_aux p l' (N.succ i) else indices_where_aux p l' (N.succ i)
  end.
Definition indices_where {A} (p : A -> bool) (l : list A) : list N := indices_where_aux p l 0%N.
