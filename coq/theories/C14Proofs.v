(* C14Proofs.v — lemmas about the sync model used by props/C14.v *)
From SV Require Import Base Json Canon Sync SyncObs CorrC13 CorrC14 C13Proofs.
