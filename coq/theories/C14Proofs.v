(* C14Proofs.v — lemmas for props/C14.v (proofs about the model: SyncProofs, SyncDocProofs, SyncIdemProofs). *)
From SV Require Export C13Proofs.

Lemma path_str_eq : forall p, path_str p = path_str' p.
Proof. reflexivity. Qed.

(* the file clause of the oracle (CorrC14.conflict_ok) holds for the walk of the model: after a successful
   real run a conflicting file holds the content the strategy chose *)
Lemma model_holds_C14 : forall frepr cf k p fuel o deep sdir ddir d' s c1 m1 c2 m2,
  k <> [] ->
  wf_node (Dir sdir) = true -> o_dry_run o = false -> o_strategy o = Some s ->
  sync_ws frepr cf fuel o deep sdir ddir [] = (d', None) ->
  file_at (k :: p) sdir = Some (c1, m1) -> file_at (k :: p) ddir = Some (c2, m2) ->
  (o_recursive o = true \/ length (k :: p) = 1%nat) ->
  forallb (fun n => negb (ignored cf n)) (k :: p) = true -> excluded cf (at_path o (k :: p)) (last (k :: p) []) = false ->
  file_same frepr deep c1 m1 c2 m2 = false ->
  is_content frepr (if verdict s (path_str (k :: p)) m1 m2 then c1 else c2) (file_at (k :: p) d') = true.
Proof.
  intros frepr cf k p fuel o deep sdir ddir d' s c1 m1 c2 m2 Hk Hwf Hdry Hs Hrun Hfs Hfd Hr Hi Hex Hdf.
  unfold file_at in *.
  destruct (lookup_path (k :: p) (Dir sdir)) as [[c1' m1'|?]|] eqn:Es; try discriminate. inversion Hfs; subst c1' m1'.
  destruct (lookup_path (k :: p) (Dir ddir)) as [[c2' m2'|?]|] eqn:Ed; try discriminate. inversion Hfd; subst c2' m2'.
  rewrite (ws_overwrite_iff frepr cf (k :: p) fuel o deep sdir ddir [] d' s c1 m1 c2 m2 Hwf Hdry Hs Hrun Es Ed Hr Hi Hex Hdf).
  rewrite path_str_eq, <- (rel_path_str k p Hk).
  destruct (verdict s (rel [] (k :: p)) m1 m2); unfold is_content; apply content_eqb_refl.
Qed.

Lemma bykey_only_selected_current : forall ks sv, wf sv = true -> forall dv root dry sk,
  only_selected ks root sv dv (fst (fst (bykey cfg_current ks sv dv root dry sk))) = true.
Proof. intros ks. apply (bykey_only_selected cfg_current ks). reflexivity. Qed.

Lemma stock_strategies : forall rel ms md,
  verdict FS_always rel ms md = true /\ verdict FS_never rel ms md = false
  /\ (verdict FS_update rel ms md = true <-> (ms > md)%Z).
Proof. intros. simpl. repeat split; try (intro H; apply Z.gtb_lt in H; lia). intro H. apply Z.gtb_lt. lia. Qed.
