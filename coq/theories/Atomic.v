(* Atomic.v — files as inodes and directory entries; the write protocols of documents and of the state
   point cache; crash prefixes; a concurrent reader.

   A directory maps names to inode numbers, an inode number maps to bytes.  A process that has opened a
   file holds the inode number, so it keeps reading the old inode after the name was re-bound by a rename.

   writers   atomic_write tmp target chunks = [open tmp (O_CREAT|O_TRUNC); append c1 ... append cn; close;
                                               rename tmp target]           (write_concern or thread support,
                                                                             and Project.update_cache with tmp = cache~)
             direct_write target chunks     = [open target (O_TRUNC); append ...; close]
   reader    [open target; read k1; ...; read kn; close]
   crash     any prefix of the writer's steps, the last append cut anywhere          ([torn_prefix])
   schedule  any merge of the reader's and the writer's steps                        ([irun])            *)
From SV Require Import Base.

Definition bytes := list N.

Definition upd {A} (f : N -> A) (k : N) (v : A) : N -> A := fun x => if N.eqb x k then v else f x.

Lemma upd_same : forall A (f : N -> A) k v, upd f k v k = v.
Proof. intros. unfold upd. rewrite N.eqb_refl. reflexivity. Qed.
Lemma upd_other : forall A (f : N -> A) k v x, x <> k -> upd f k v x = f x.
Proof. intros. unfold upd. destruct (N.eqb x k) eqn:E; auto. apply N.eqb_eq in E. contradiction. Qed.

Record afs := {
  ino : N -> bytes;            (* inode number |-> contents        *)
  dent : N -> option N;        (* name |-> inode number            *)
  next : N                     (* first unused inode number        *)
}.

Definition read_name (fs : afs) (n : N) : option bytes :=
  match dent fs n with Some i => Some (ino fs i) | None => None end.

(* every bound inode is allocated; no hard links *)
Definition wf_afs (fs : afs) : Prop :=
  (forall n i, dent fs n = Some i -> (i < next fs)%N) /\
  (forall n m i, dent fs n = Some i -> dent fs m = Some i -> n = m).

(* ------------------------------------------------------------------ writer *)
Inductive wstep :=
| WOpen (n : N)              (* open(n, O_WRONLY|O_CREAT|O_TRUNC) *)
| WAppend (c : bytes)        (* write(fd, c)                       *)
| WClose
| WRename (a b : N)          (* os.replace(a, b)                   *)
| WUnlink (n : N).           (* os.remove(n)                       *)

Record wstate := { w_fs : afs; w_fd : option N }.

Definition wexec (st : wstate) (s : wstep) : wstate :=
  let fs := w_fs st in
  match s with
  | WOpen n =>
      match dent fs n with
      | Some i => {| w_fs := {| ino := upd (ino fs) i []; dent := dent fs; next := next fs |}; w_fd := Some i |}
      | None =>
          let i := next fs in
          {| w_fs := {| ino := upd (ino fs) i []; dent := upd (dent fs) n (Some i); next := N.succ i |};
             w_fd := Some i |}
      end
  | WAppend c =>
      match w_fd st with
      | Some i => {| w_fs := {| ino := upd (ino fs) i (ino fs i ++ c); dent := dent fs; next := next fs |}; w_fd := Some i |}
      | None => st
      end
  | WClose => {| w_fs := fs; w_fd := None |}
  | WRename a b =>
      match dent fs a with
      | Some i =>
          if N.eqb a b then st else
          {| w_fs := {| ino := ino fs; dent := upd (upd (dent fs) a None) b (Some i); next := next fs |}; w_fd := w_fd st |}
      | None => st
      end
  | WUnlink n => {| w_fs := {| ino := ino fs; dent := upd (dent fs) n None; next := next fs |}; w_fd := w_fd st |}
  end.

Definition wrun (st : wstate) (p : list wstep) : wstate := fold_left wexec p st.
Definition start (fs : afs) : wstate := {| w_fs := fs; w_fd := None |}.

Definition atomic_write (tmp target : N) (chunks : list bytes) : list wstep :=
  WOpen tmp :: map WAppend chunks ++ [WClose; WRename tmp target].

Definition direct_write (target : N) (chunks : list bytes) : list wstep :=
  WOpen target :: map WAppend chunks ++ [WClose].

(* which protocol JSONCollection._save_to_resource uses *)
Definition json_write (write_concern threading : bool) (tmp target : N) (chunks : list bytes) : list wstep :=
  if write_concern || threading then atomic_write tmp target chunks else direct_write target chunks.

(* Project.update_cache: gzip stream into cache~ then os.replace; an OSError in the stream removes cache~ *)
Definition cache_write (tmp target : N) (chunks : list bytes) : list wstep := atomic_write tmp target chunks.
Definition cache_try_body (tmp : N) (chunks : list bytes) : list wstep := WOpen tmp :: map WAppend chunks ++ [WClose].
(* the k-th step of the try body raises OSError before taking effect; the handler removes the temp file *)
Definition cache_write_fault (tmp : N) (chunks : list bytes) (k : nat) : list wstep :=
  firstn k (cache_try_body tmp chunks) ++ [WUnlink tmp].

(* ------------------------------------------------------------------ crash prefixes *)
Inductive torn_prefix : list wstep -> list wstep -> Prop :=
| tp_stop : forall p, torn_prefix p []
| tp_step : forall s p q, torn_prefix p q -> torn_prefix (s :: p) (s :: q)
| tp_torn : forall c c1 c2 p, c = c1 ++ c2 -> torn_prefix (WAppend c :: p) [WAppend c1].

(* executable enumeration used by the correspondence: every prefix, appends cut at the given offsets *)
Fixpoint prefixes_torn (cuts : bytes -> list nat) (p : list wstep) : list (list wstep) :=
  match p with
  | [] => [[]]
  | s :: r =>
      [] :: (match s with
             | WAppend c => map (fun k => [WAppend (firstn k c)]) (cuts c)
             | _ => []
             end) ++ map (cons s) (prefixes_torn cuts r)
  end.

(* ------------------------------------------------------------------ reader *)
Inductive rstep := ROpen (n : N) | RRead (k : nat) | RClose.

Record rstate := { r_fd : option N; r_pos : nat; r_got : bytes; r_enoent : bool }.
Definition rstart : rstate := {| r_fd := None; r_pos := 0; r_got := []; r_enoent := false |}.

Definition rexec (fs : afs) (r : rstate) (s : rstep) : rstate :=
  match s with
  | ROpen n =>
      match dent fs n with
      | Some i => {| r_fd := Some i; r_pos := 0; r_got := r_got r; r_enoent := r_enoent r |}
      | None => {| r_fd := None; r_pos := 0; r_got := r_got r; r_enoent := true |}
      end
  | RRead k =>
      match r_fd r with
      | Some i =>
          let d := firstn k (skipn (r_pos r) (ino fs i)) in
          {| r_fd := Some i; r_pos := r_pos r + length d; r_got := r_got r ++ d; r_enoent := r_enoent r |}
      | None => r
      end
  | RClose => {| r_fd := None; r_pos := r_pos r; r_got := r_got r; r_enoent := r_enoent r |}
  end.

Definition reader (target : N) (ks : list nat) : list rstep := ROpen target :: map RRead ks ++ [RClose].

(* ------------------------------------------------------------------ interleavings *)
(* a schedule says who moves next (true = writer); a move of a finished actor is a no-op.
   Returns the final states and what the reader still had to do. *)
Fixpoint irun (sched : list bool) (w : wstate) (wp : list wstep) (r : rstate) (rp : list rstep)
  : wstate * rstate * list rstep :=
  match sched with
  | [] => (w, r, rp)
  | true :: sc =>
      match wp with
      | s :: wp' => irun sc (wexec w s) wp' r rp
      | [] => irun sc w wp r rp
      end
  | false :: sc =>
      match rp with
      | s :: rp' => irun sc w wp (rexec (w_fs w) r s) rp'
      | [] => irun sc w wp r rp
      end
  end.
